#!/bin/bash
# check.sh <property> [quick|thorough]  — builds emcheck from /verif/checker when needed and runs one property check
# against /repo's current working tree. Exit 0 = held; exit 1 + "VIOLATION property=<id> replay=<path>" otherwise.
set -u
cd "$(dirname "$0")"
export GOFLAGS=-mod=mod GOPROXY=off
unset GOWORK
prop="$1"; tier="${2:-${VERIF_TIER:-quick}}"
need=0
[ -x bin/emcheck ] || need=1
if [ $need = 0 ] && [ -n "$(find checker -newer bin/emcheck \( -name '*.go' -o -name go.mod -o -name go.sum \) -print -quit)" ]; then need=1; fi
if [ $need = 1 ]; then
  mkdir -p bin
  (cd checker && go build -o ../bin/emcheck .) || { echo "cannot build emcheck" >&2; exit 2; }
fi
./bin/emcheck -property "$prop" -tier "$tier"; rc=$?
if [ "$tier" = thorough ] && [ $rc -ne 2 ]; then
  python3 tools/thorough_post.py "$prop" || true
fi
exit $rc
