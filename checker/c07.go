package main

import (
	"fmt"
	"go/ast"
	"go/token"
	"go/types"
	"sort"
	"strings"

	"golang.org/x/tools/go/ssa"
)

func init() {
	register(&property{id: "C07", run: runC07, meta: propMeta{
		level: "other",
		explanation: "Error discipline and bookkeeping of specification validation: on every path of the start production's action to a successful *Spec all three verifiers (symbol table, grammar, precedence levels) have run, each verifier's error reaches the returned error, and success is control-dependent on the aggregate being nil; SymbolTable.Verify calls every ensure* helper and aggregates their errors; the predefined names equal the documented list and an unknown one is recorded as an error that reaches the result; string terminals get exactly one self-definition on first sight, token references none, token declarations append exactly one definition, zero and multiple definitions are both reported, Definitions keeps singly-defined terminals and sorts them by a comparator ending in a key comparison; every pattern error surfaces before the automata are combined. The 'iff' over all combinations of defects is out of reach.",
		trusted: []string{"grammar.CFG.Verify and lr.PrecedenceLevels.Verify detect what they document", "errors.Append/MultiError aggregate without dropping"},
		assumptions: []string{"the shared symbol space of literals and token names (C01 R1.5, recorded) also affects 'token used without a definition'"},
	}})
}

func runC07(c *Ctx) {
	c.Rule("R7.7", 1, "a specification is not rejected because the dependency fails on it")
	c.Rule("R7.8", 4, "an invalid pattern is rejected: unsupported range ends are not clipped away (= R9.6)")
	checkClampKeepsOutsider(c, "R7.8")
	c.Rule("R7.6", 3, "every precedence level written reaches the recorded list (and with it the verifier of the levels)")
	c.Rule("R7.1", 8, "every verifier runs and is heard; success only with a nil aggregate")
	c.Rule("R7.2", 3, "predefined names are the documented ones; unknown names are errors")
	c.Rule("R7.3", 10, "definition bookkeeping: one self-definition per literal, one per declaration, both defects reported")
	c.Rule("R7.5", 1, "distinct literals keep distinct values: escapes are resolved one character at a time")
	c.Rule("R7.4", 3, "every pattern error surfaces before the automata are combined")

	c.mute = map[string]bool{"R4.2": true}
	g := extractEBNF(c, "R7.1")
	if g == nil {
		return
	}
	sp := c.Pkg("internal/ebnf/parser/spec")
	ev := findEvaluator(c, "R7.1", sp, g)
	if ev == nil {
		return
	}
	checkVerifiers(c, ev)
	checkPredefs(c, ev)
	checkBookkeeping(c)
	checkPatternErrors(c)
	if roots := entryPoints(c); len(roots) >= 10 {
		checkRecoveredPanicRejects(c, "R7.7", c.reachableFrom(roots...))
	}
	// a handle listed in two levels is reported by the levels' verifier, which sees the recorded list: every directive must get there
	{
		before := len(c.Obs)
		checkPrecedenceStore(c)
		for i := before; i < len(c.Obs); i++ {
			if c.Obs[i].Rule == "R12.3" {
				c.Obs[i].Rule = "R7.6"
			}
		}
	}
	checkEscapeResolver(c, "R7.5", sp)
}

func checkVerifiers(c *Ctx, ev *evaluator) {
	sp := ev.pkg
	// the SSA function of the evaluation closure
	parse := c.SSAFunc(sp, ev.fd)
	if parse == nil {
		c.Lost("R7.1", "SSA of spec.Parse")
		return
	}
	var clo *ssa.Function
	for _, af := range parse.AnonFuncs {
		if af.Syntax() == ast.Node(ev.lit) {
			clo = af
		}
	}
	if clo == nil {
		c.Lost("R7.1", "SSA of the evaluation closure")
		return
	}
	c.Analysed(shortFn(clo))
	// success returns: first result is a *Spec wrapped in an interface
	var success []*ssa.Return
	for _, b := range clo.Blocks {
		ret, ok := b.Instrs[len(b.Instrs)-1].(*ssa.Return)
		if !ok || len(ret.Results) != 2 || !isNilConst(ret.Results[1]) {
			continue
		}
		if mi, ok := ret.Results[0].(*ssa.MakeInterface); ok {
			if _, n := namedTypeName(mi.X.Type()); n == "Spec" {
				success = append(success, ret)
			}
		}
	}
	if !c.Check("R7.1", "the start production's action has a successful *Spec return", ev.lit.Pos(), len(success) == 1, fmt.Sprintf("%d such returns", len(success))) {
		return
	}
	sret := success[0]
	// verifier calls
	var verifs []*ssa.Call
	allCalls(clo, func(call ssa.CallInstruction) {
		cv, ok := call.(*ssa.Call)
		if !ok {
			return
		}
		f := calleeFunc(call)
		if f == nil || f.Name() != "Verify" {
			return
		}
		verifs = append(verifs, cv)
	})
	want := map[string]bool{"SymbolTable": false, "CFG": false, "PrecedenceLevels": false}
	for _, v := range verifs {
		if v.Call.IsInvoke() {
			// for _, x := range []interface{ Verify() error }{cfg, precedences} { x.Verify() }: the values of the literal list
			var names []string
			for _, r := range rootsOf(clo, v.Call.Value, nil) {
				ia, ok := r.(*ssa.IndexAddr)
				if !ok {
					continue
				}
				var arr ssa.Value = ia.X
				if sl, ok := arr.(*ssa.Slice); ok {
					arr = sl.X
				}
				al, ok := arr.(*ssa.Alloc)
				if !ok || al.Referrers() == nil {
					continue
				}
				for _, rr := range *al.Referrers() {
					ia2, ok := rr.(*ssa.IndexAddr)
					if !ok || ia2.Referrers() == nil {
						continue
					}
					for _, r3 := range *ia2.Referrers() {
						if st, ok := r3.(*ssa.Store); ok {
							if mi, ok := st.Val.(*ssa.MakeInterface); ok {
								if _, n := namedTypeName(mi.X.Type()); n != "" {
									names = append(names, n)
								}
							}
						}
					}
				}
			}
			if len(names) == 0 {
				c.Undecided("R7.1", "a verifier called through an interface", v.Pos(), "the values the interface call ranges over were not found")
				continue
			}
			// the loop runs for every element of a non-empty literal: its header dominating the return is what counts
			dom := false
			for d := v.Block(); d != nil; d = d.Idom() {
				if d.Dominates(sret.Block()) && d != v.Block() {
					dom = true
					break
				}
			}
			for _, rn := range names {
				if _, ok := want[rn]; ok {
					want[rn] = true
				}
				key := "verifier " + rn + ".Verify"
				c.Check("R7.1", key+" runs on every path to the successful result", v.Pos(), dom, "the successful *Spec return is not dominated by the loop that calls the verifiers")
				c.Check("R7.1", key+": its error reaches the returned error", v.Pos(), errReachesReturn(clo, v), "the verifier's error is dropped", "a specification with exactly the defect this verifier detects")
				uncond, why := recordedUnconditionally(v)
				c.Check("R7.1", key+": its error is recorded whenever it is non-nil", v.Pos(), uncond, why, "a specification with exactly the defect this verifier detects")
			}
			continue
		}
		f := calleeFunc(v)
		_, rn := namedTypeName(f.Type().(*types.Signature).Recv().Type())
		if _, ok := want[rn]; ok {
			want[rn] = true
		}
		key := "verifier " + rn + ".Verify"
		dom := v.Block() == sret.Block() || v.Block().Dominates(sret.Block())
		c.Check("R7.1", key+" runs on every path to the successful result", v.Pos(), dom, "the successful *Spec return is not dominated by this verifier: an ill-formed specification can be accepted")
		c.Check("R7.1", key+": its error reaches the returned error", v.Pos(), errReachesReturn(clo, v), "the verifier's error is dropped", "a specification with exactly the defect this verifier detects")
		uncond, why := recordedUnconditionally(v)
		c.Check("R7.1", key+": its error is recorded whenever it is non-nil", v.Pos(), uncond, why, "a specification with exactly the defect this verifier detects")
	}
	var names []string
	for n := range want {
		names = append(names, n)
	}
	sort.Strings(names)
	for _, n := range names {
		c.Check("R7.1", "the action calls "+n+".Verify", ev.lit.Pos(), want[n], "verifier not called at all")
	}
	// success is control-dependent on the aggregate being nil
	var agg *ssa.Call
	allCalls(clo, func(call ssa.CallInstruction) {
		if cv, ok := call.(*ssa.Call); ok && methodNameOf(call) == "ErrorOrNil" && (cv.Block() == sret.Block() || cv.Block().Dominates(sret.Block())) {
			agg = cv
		}
	})
	c.Check("R7.1", "success is returned only when the aggregated error is nil", sret.Pos(), agg != nil && controlledNil(sret.Block(), agg, false),
		"the *Spec return is not guarded by the nil test of the aggregated errors: diagnostics are collected but the specification is accepted")
	// the aggregate is the shared accumulator that the other actions append to
	if agg != nil {
		fv := false
		for _, r := range rootsOf(clo, agg.Call.Args[0], nil) {
			if _, ok := r.(*ssa.FreeVar); ok {
				fv = true
			}
		}
		c.Check("R7.1", "the aggregate tested is the accumulator shared by all actions", agg.Pos(), fv, "ErrorOrNil is called on a value other than the captured accumulator")
	}

	// SymbolTable.Verify calls every helper
	vfd := FuncDecl(sp, "SymbolTable", "Verify")
	if vfd == nil {
		c.Lost("R7.1", "SymbolTable.Verify")
		return
	}
	vfn := c.SSAFunc(sp, vfd)
	c.Analysed(funcKey(sp, vfd))
	var helpers []*types.Func
	AllFuncDecls(sp, func(fd *ast.FuncDecl) {
		if fd.Recv == nil || recvName(fd.Recv.List[0].Type) != "SymbolTable" || fd == vfd {
			return
		}
		fo := sp.TypesInfo.Defs[fd.Name].(*types.Func)
		sig := fo.Type().(*types.Signature)
		if sig.Params().Len() == 0 && sig.Results().Len() == 1 && isErr(sig.Results().At(0).Type()) {
			helpers = append(helpers, fo)
		}
	})
	c.Check("R7.1", "SymbolTable has its well-formedness helpers", vfd.Pos(), len(helpers) >= 3, fmt.Sprintf("%d helpers func() error", len(helpers)))
	for _, h := range helpers {
		var call *ssa.Call
		allCalls(vfn, func(ci ssa.CallInstruction) {
			if cv, ok := ci.(*ssa.Call); ok && calleeFunc(ci) == h {
				call = cv
			}
		})
		if call == nil {
			// the helpers as method values in a list that is walked and called: t.ensureX appears as a bound method closure,
			// and the function calls a function value it takes out of a slice
			bound := false
			var dyn *ssa.Call
			for _, b := range vfn.Blocks {
				for _, in := range b.Instrs {
					if mc, ok := in.(*ssa.MakeClosure); ok {
						if fn, ok := mc.Fn.(*ssa.Function); ok && strings.HasPrefix(fn.Name(), h.Name()+"$bound") {
							bound = true
						}
					}
					if cv, ok := in.(*ssa.Call); ok && !cv.Call.IsInvoke() && cv.Call.StaticCallee() == nil {
						if _, isBuiltin := cv.Call.Value.(*ssa.Builtin); !isBuiltin {
							dyn = cv
						}
					}
				}
			}
			if bound && dyn != nil {
				c.Pass("R7.1", "Verify calls "+h.Name(), vfd.Pos(), "through a list of checks that is walked and called")
				c.Check("R7.1", "Verify: error of "+h.Name()+" reaches the result", dyn.Pos(), errReachesReturn(vfn, dyn), "the error of the checks called from the list is dropped")
				continue
			}
			if bound {
				c.Undecided("R7.1", "Verify calls "+h.Name(), vfd.Pos(), "the helper is taken as a method value, and where that value is called was not found")
				continue
			}
		}
		if !c.Check("R7.1", "Verify calls "+h.Name(), vfd.Pos(), call != nil, "a well-formedness helper is never called: that kind of defect is accepted silently") {
			continue
		}
		c.Check("R7.1", "Verify: error of "+h.Name()+" reaches the result", call.Pos(), errReachesReturn(vfn, call), "the helper's error is dropped")
		uncond, why := recordedUnconditionally(call)
		c.Check("R7.1", "Verify: error of "+h.Name()+" is recorded whenever it is non-nil", call.Pos(), uncond, why)
	}
}

func checkPredefs(c *Ctx, ev *evaluator) {
	pp := c.Pkg("internal/ebnf/parser")
	init, _ := PkgVarInit(pp, "Predefs")
	if init == nil {
		c.Lost("R7.2", "parser.Predefs")
		return
	}
	var keys []string
	if cl, ok := init.(*ast.CompositeLit); ok {
		for _, el := range cl.Elts {
			if kv, ok := el.(*ast.KeyValueExpr); ok {
				if k, ok := constStr(pp.TypesInfo, kv.Key); ok {
					keys = append(keys, k)
				}
			}
		}
	}
	sort.Strings(keys)
	// documented list
	doc := readDoc(c, "1-documentation.md")
	var docNames []string
	if i := strings.Index(doc, "predefined regular expressions"); i >= 0 {
		for _, line := range strings.Split(doc[i:], "\n")[1:] {
			t := strings.TrimSpace(line)
			if t == "" {
				if len(docNames) > 0 {
					break
				}
				continue
			}
			if strings.HasPrefix(t, "- `$") {
				docNames = append(docNames, strings.Trim(strings.TrimPrefix(t, "- "), "`"))
			} else if len(docNames) > 0 {
				break
			}
		}
	}
	sort.Strings(docNames)
	if len(docNames) == 0 {
		c.Lost("R7.2", "documented list of predefined names")
	} else {
		c.Check("R7.2", "the predefined names are exactly the documented ones", init.Pos(), fmt.Sprint(keys) == fmt.Sprint(docNames), fmt.Sprintf("code %v, docs %v", keys, docNames))
	}
	// the action for token → TOKEN "=" PREDEF
	info := ev.pkg.TypesInfo
	found := false
	for i, cs := range ev.cases {
		b := cs.prod.body
		if len(b) != 3 || !b[2].term || b[2].name != "PREDEF" {
			continue
		}
		found = true
		key := fmt.Sprintf("case %d (%s)", i, cs.prod)
		// v, ok := Predefs[value]; if !ok { errs = errors.Append(errs, ...); return ... }
		recorded, defined := false, false
		for _, st := range cs.clause.Body {
			ifs, ok := st.(*ast.IfStmt)
			if !ok {
				continue
			}
			if u, ok := ast.Unparen(ifs.Cond).(*ast.UnaryExpr); ok && u.Op == token.NOT {
				ast.Inspect(ifs.Body, func(n ast.Node) bool {
					if as, ok := n.(*ast.AssignStmt); ok && len(as.Rhs) == 1 {
						if call, ok := ast.Unparen(as.Rhs[0]).(*ast.CallExpr); ok {
							if fo, ok := objOf(info, call.Fun).(*types.Func); ok && fo.Name() == "Append" {
								recorded = true
							}
						}
					}
					if r, ok := n.(*ast.ReturnStmt); ok && len(r.Results) == 2 && !isNilExpr(info, r.Results[1]) {
						recorded = true
					}
					return true
				})
			}
		}
		for _, st := range cs.clause.Body {
			ast.Inspect(st, func(n ast.Node) bool {
				if call, ok := n.(*ast.CallExpr); ok {
					if fo, ok := objOf(info, call.Fun).(*types.Func); ok && fo.Name() == "AddRegexTokenDef" {
						defined = true
					}
				}
				return true
			})
		}
		c.Check("R7.2", key+": an unknown predefined name is recorded as an error", cs.clause.Pos(), recorded, "the !ok branch of the Predefs lookup records nothing", "T = $NOPE")
		c.Check("R7.2", key+": a known predefined name defines the token by its pattern", cs.clause.Pos(), defined, "no AddRegexTokenDef in the action")
	}
	if !found {
		c.Lost("R7.2", "the action for token → TOKEN \"=\" PREDEF")
	}
}

func checkBookkeeping(c *Ctx) {
	sp := c.Pkg("internal/ebnf/parser/spec")
	info := sp.TypesInfo
	// by role, not by name: the entry type is the struct of the package with a field whose type is a slice of pointers to the
	// exported definition type; that field holds the definitions
	defsField, entryType := "", ""
	for _, n := range sp.Types.Scope().Names() {
		tn, ok := sp.Types.Scope().Lookup(n).(*types.TypeName)
		if !ok {
			continue
		}
		st, ok := tn.Type().Underlying().(*types.Struct)
		if !ok {
			continue
		}
		for i := 0; i < st.NumFields(); i++ {
			if sl, ok := st.Field(i).Type().Underlying().(*types.Slice); ok {
				if pt, ok := sl.Elem().(*types.Pointer); ok {
					if _, nme := namedTypeName(pt.Elem()); nme == "TerminalDef" && !tn.Exported() {
						defsField, entryType = st.Field(i).Name(), tn.Name()
					}
				}
			}
		}
	}
	if defsField == "" {
		c.Lost("R7.3", "the symbol-table entry type that holds a terminal's definitions")
		return
	}
	// appendDefs: number of top-level (unconditional) `e.definitions = append(e.definitions, &TerminalDef{...})` and the literal
	type addFn struct {
		name      string
		wantApp   int
		wantRegex string // "true" | "false" | ""
		selfDef   bool
	}
	for _, a := range []addFn{{"AddStringTokenDef", 1, "false", false}, {"AddRegexTokenDef", 1, "true", false}, {"AddStringTerminal", 0, "", true}, {"AddTokenTerminal", 0, "", false}} {
		fd := FuncDecl(sp, "SymbolTable", a.name)
		if fd == nil {
			c.Lost("R7.3", "SymbolTable."+a.name)
			continue
		}
		c.Analysed(funcKey(sp, fd))
		params := map[types.Object]int{}
		pi := 0
		for _, f := range fd.Type.Params.List {
			for _, n := range f.Names {
				params[info.Defs[n]] = pi
				pi++
			}
		}
		// unconditional appends to the definitions field: top-level statements of the function, or of a helper of the same
		// package that a top-level statement calls (the definition literal may then be the helper's argument)
		apps, condApps := 0, 0
		var lit *ast.CompositeLit
		litArgs := map[types.Object]ast.Expr{}
		var count func(fd *ast.FuncDecl, arg ast.Expr, depth int)
		count = func(fd *ast.FuncDecl, arg ast.Expr, depth int) {
			for _, st := range fd.Body.List {
				switch x := st.(type) {
				case *ast.AssignStmt:
					if len(x.Rhs) != 1 {
						continue
					}
					call, ok := ast.Unparen(x.Rhs[0]).(*ast.CallExpr)
					if !ok {
						continue
					}
					if id, ok := call.Fun.(*ast.Ident); ok && id.Name == "append" && len(call.Args) == 2 {
						if sel, ok := ast.Unparen(x.Lhs[0]).(*ast.SelectorExpr); ok && sel.Sel.Name == defsField {
							apps++
							v := ast.Unparen(call.Args[1])
							if _, isIdent := v.(*ast.Ident); isIdent && arg != nil {
								v = ast.Unparen(arg)
							}
							if u, ok := v.(*ast.UnaryExpr); ok {
								v = u.X
							}
							if cl, ok := v.(*ast.CompositeLit); ok {
								lit = cl
							}
						}
					}
				case *ast.ExprStmt:
					if call, ok := x.X.(*ast.CallExpr); ok && depth < 2 {
						if fo, ok := objOf(info, call.Fun).(*types.Func); ok && fo.Pkg() == sp.Types {
							if hd := declOfFunc(sp, fo); hd != nil && hd.Body != nil {
								var a0 ast.Expr
								if len(call.Args) == 1 {
									a0 = call.Args[0]
								}
								// the helper's parameters stand for the arguments of this call
								if hd.Type.Params != nil {
									k := 0
									for _, f := range hd.Type.Params.List {
										for _, n := range f.Names {
											if k < len(call.Args) {
												litArgs[info.Defs[n]] = call.Args[k]
											}
											k++
										}
									}
								}
								count(hd, a0, depth+1)
							}
						}
					}
				}
			}
		}
		count(fd, nil, 0)
		deepInspect(sp, fd, 2, func(n ast.Node) bool {
			if as, ok := n.(*ast.AssignStmt); ok && len(as.Lhs) == 1 {
				if sel, ok := ast.Unparen(as.Lhs[0]).(*ast.SelectorExpr); ok && sel.Sel.Name == defsField {
					condApps++
				}
			}
			return true
		})
		if a.wantApp == 0 && apps == 0 && condApps > 0 {
			// a reference adds no definition of its own; a definition appended under a condition (e.g. only when the entry was
			// just created, which is another way of writing the literal's self-definition) is not decided by this rule
			c.Undecided("R7.3", a.name+": appends exactly 0 definition(s), unconditionally", fd.Pos(), fmt.Sprintf("%d conditional assignments to the definitions: under which condition is not followed", condApps))
			continue
		}
		c.Check("R7.3", a.name+": appends exactly "+fmt.Sprint(a.wantApp)+" definition(s), unconditionally", fd.Pos(), apps == a.wantApp && condApps == a.wantApp,
			fmt.Sprintf("%d unconditional and %d total assignments to definitions", apps, condApps))
		if a.wantApp == 1 && lit != nil {
			fs, _ := compositeFields(lit)
			// a field given by a parameter of a helper stands for the argument the helper was called with
			through := func(e ast.Expr) ast.Expr {
				for i := 0; i < 3; i++ {
					id, ok := ast.Unparen(e).(*ast.Ident)
					if !ok {
						return e
					}
					a, ok := litArgs[info.Uses[id]]
					if !ok {
						return e
					}
					e = a
				}
				return e
			}
			tOK := false
			if id, ok := ast.Unparen(through(fs["Terminal"])).(*ast.Ident); ok {
				if k, isParam := params[info.Uses[id]]; isParam && k == 0 {
					tOK = true
				}
			}
			vOK := false
			if id, ok := ast.Unparen(through(fs["Value"])).(*ast.Ident); ok {
				if k, isParam := params[info.Uses[id]]; isParam && k == 1 {
					vOK = true
				}
			}
			rv := ""
			if tv, ok := info.Types[through(fs["IsRegex"])]; ok && tv.Value != nil {
				rv = tv.Value.String()
			}
			c.Check("R7.3", a.name+": the definition carries the declared token, value and kind", lit.Pos(), tOK && vOK && rv == a.wantRegex,
				fmt.Sprintf("Terminal from token param=%v, Value from value param=%v, IsRegex=%s (want %s)", tOK, vOK, rv, a.wantRegex))
		}
		// entries installed with Put: definitions field
		ast.Inspect(fd.Body, func(n ast.Node) bool {
			cl, ok := n.(*ast.CompositeLit)
			if !ok {
				return true
			}
			if _, nme := namedTypeName(info.TypeOf(cl)); nme != entryType {
				return true
			}
			fs, _ := compositeFields(cl)
			d, ok := ast.Unparen(fs[defsField]).(*ast.CompositeLit)
			if !ok {
				c.Fail("R7.3", a.name+": new entries initialise definitions with a literal", cl.Pos(), "definitions is not a literal list")
				return true
			}
			if a.selfDef {
				okSelf := len(d.Elts) == 1
				if okSelf {
					// def := &TerminalDef{Terminal: a, Value: string(a), IsRegex: false}
					var defLit *ast.CompositeLit
					if id, ok := ast.Unparen(d.Elts[0]).(*ast.Ident); ok {
						ast.Inspect(fd.Body, func(m ast.Node) bool {
							if as, ok := m.(*ast.AssignStmt); ok && len(as.Lhs) == 1 && len(as.Rhs) == 1 {
								if lid, ok := as.Lhs[0].(*ast.Ident); ok && info.Defs[lid] == info.Uses[id] {
									x := ast.Unparen(as.Rhs[0])
									if u, ok := x.(*ast.UnaryExpr); ok {
										x = u.X
									}
									defLit, _ = x.(*ast.CompositeLit)
								}
							}
							return true
						})
					}
					okSelf = defLit != nil
					if defLit != nil {
						f2, _ := compositeFields(defLit)
						tid, ok1 := ast.Unparen(f2["Terminal"]).(*ast.Ident)
						okT := ok1 && params[info.Uses[tid]] == 0
						okV := false
						if call, ok := ast.Unparen(f2["Value"]).(*ast.CallExpr); ok && len(call.Args) == 1 {
							if vid, ok := ast.Unparen(call.Args[0]).(*ast.Ident); ok && params[info.Uses[vid]] == 0 {
								okV = true
							}
						}
						rv := ""
						if tv, ok := info.Types[f2["IsRegex"]]; ok && tv.Value != nil {
							rv = tv.Value.String()
						}
						okSelf = okT && okV && rv == "false"
					}
				}
				c.Check("R7.3", a.name+": a string literal seen for the first time defines itself (value = its own text, not a pattern)", cl.Pos(), okSelf,
					"the entry installed for a new string terminal does not carry exactly one definition {Terminal: a, Value: string(a), IsRegex: false}", "start = \"a\";")
			} else {
				c.Check("R7.3", a.name+": a new entry starts without definitions", cl.Pos(), len(d.Elts) == 0, "a token reference / declaration installs extra definitions")
			}
			return true
		})
	}
	// the single-definition helper reports both count == 0 and count > 1: the parameterless error-returning method of the
	// symbol table that compares the number of definitions with constants
	var singles []*ast.FuncDecl
	AllFuncDecls(sp, func(fd *ast.FuncDecl) {
		if fd.Recv == nil || fd.Body == nil || recvName(fd.Recv.List[0].Type) != "SymbolTable" {
			return
		}
		fo := info.Defs[fd.Name].(*types.Func)
		sig := fo.Type().(*types.Signature)
		if sig.Params().Len() != 0 || sig.Results().Len() != 1 || !isErr(sig.Results().At(0).Type()) {
			return
		}
		mentions := false
		ast.Inspect(fd.Body, func(n ast.Node) bool {
			if call, ok := n.(*ast.CallExpr); ok && len(call.Args) == 1 {
				if id, ok := call.Fun.(*ast.Ident); ok && id.Name == "len" {
					if sel, ok := ast.Unparen(call.Args[0]).(*ast.SelectorExpr); ok && sel.Sel.Name == defsField {
						mentions = true
					}
				}
			}
			return true
		})
		if mentions {
			singles = append(singles, fd)
		}
	})
	reportsErr := func(st ast.Stmt) string {
		label := ""
		ast.Inspect(st, func(m ast.Node) bool {
			if call, ok := m.(*ast.CallExpr); ok {
				if fo, ok := objOf(info, call.Fun).(*types.Func); ok && (fo.Name() == "Append" || fo.Name() == "Join") && fo.Pkg() != nil && strings.HasSuffix(fo.Pkg().Path(), "errors") {
					label = "report"
				}
			}
			return true
		})
		return label
	}
	// the loop of a helper whose body tests a length
	lenLoop := func(fd *ast.FuncDecl, which int) *ast.RangeStmt {
		var loops []*ast.RangeStmt
		ast.Inspect(fd.Body, func(n ast.Node) bool {
			if rs, ok := n.(*ast.RangeStmt); ok {
				has := false
				ast.Inspect(rs.Body, func(m ast.Node) bool {
					if call, ok := m.(*ast.CallExpr); ok {
						if id, ok := call.Fun.(*ast.Ident); ok && id.Name == "len" {
							has = true
						}
					}
					return true
				})
				if has {
					loops = append(loops, rs)
				}
			}
			return true
		})
		if which < 0 {
			which = len(loops) + which
		}
		if which < 0 || which >= len(loops) {
			return nil
		}
		return loops[which]
	}
	// among the helpers that test the number of definitions, the single-definition helper is the one that reports a count of 0
	var single *ast.FuncDecl
	for _, cand := range singles {
		if rs := lenLoop(cand, 0); rs != nil {
			if r0, d0 := lenCase(info, rs.Body.List, 0, reportsErr); d0 && r0["report"] {
				single = cand
			}
		}
	}
	if single == nil && len(singles) > 0 {
		single = singles[0]
	}
	if fd := single; fd != nil {
		c.Analysed(funcKey(sp, fd))
		if rs := lenLoop(fd, 0); rs != nil {
			r0, d0 := lenCase(info, rs.Body.List, 0, reportsErr)
			r1, d1 := lenCase(info, rs.Body.List, 1, reportsErr)
			r2, d2 := lenCase(info, rs.Body.List, 2, reportsErr)
			r3, d3 := lenCase(info, rs.Body.List, 3, reportsErr)
			if d0 && d1 && d2 && d3 {
				c.Check("R7.3", "a terminal without a definition is reported", fd.Pos(), r0["report"], "no error is recorded when a terminal has no definition", "start = A;")
				c.Check("R7.3", "a terminal with several definitions is reported", fd.Pos(), r2["report"] && r3["report"], "no error is recorded when a terminal has two or more definitions", "A = \"x\"  A = \"y\"")
				c.Check("R7.3", "a terminal with exactly one definition is not reported", fd.Pos(), !r1["report"], "an error is recorded for a terminal with exactly one definition")
			} else {
				c.Undecided("R7.3", "a terminal without a definition / with several definitions is reported", fd.Pos(), "the conditions of the single-definition helper are not all comparisons of a length with constants")
			}
		} else {
			c.Undecided("R7.3", "a terminal without a definition / with several definitions is reported", fd.Pos(), "no loop that tests a length in the single-definition helper")
		}
	} else {
		c.Lost("R7.3", "the single-definition helper")
	}
	// the distinct-values helper: every singly-defined terminal takes part in the grouping by value, every group of two or more is reported
	var distinct *ast.FuncDecl
	AllFuncDecls(sp, func(fd *ast.FuncDecl) {
		if fd.Recv == nil || fd.Body == nil || recvName(fd.Recv.List[0].Type) != "SymbolTable" {
			return
		}
		ast.Inspect(fd.Body, func(n ast.Node) bool {
			if as, ok := n.(*ast.AssignStmt); ok && len(as.Lhs) == 1 {
				if ix, ok := as.Lhs[0].(*ast.IndexExpr); ok {
					if sel, ok := ast.Unparen(ix.Index).(*ast.SelectorExpr); ok && sel.Sel.Name == "Value" {
						distinct = fd
					}
				}
			}
			return true
		})
	})
	if distinct != nil {
		c.Analysed(funcKey(sp, distinct))
		var stack []ast.Node
		groupedUncond, found := true, false
		extra := ""
		ast.Inspect(distinct.Body, func(n ast.Node) bool {
			if n == nil {
				stack = stack[:len(stack)-1]
				return true
			}
			stack = append(stack, n)
			as, ok := n.(*ast.AssignStmt)
			if !ok || len(as.Lhs) != 1 {
				return true
			}
			ix, ok := as.Lhs[0].(*ast.IndexExpr)
			if !ok {
				return true
			}
			if sel, ok := ast.Unparen(ix.Index).(*ast.SelectorExpr); !ok || sel.Sel.Name != "Value" {
				return true
			}
			found = true
			for _, anc := range stack {
				ifs, ok := anc.(*ast.IfStmt)
				if !ok {
					continue
				}
				cond := types.ExprString(ifs.Cond)
				// the only admissible condition: the terminal has exactly one definition
				if b, ok := ast.Unparen(ifs.Cond).(*ast.BinaryExpr); ok && b.Op == token.EQL {
					if v, ok := constInt(info, b.Y); ok && v == 1 && strings.HasPrefix(types.ExprString(b.X), "len(") {
						continue
					}
				}
				groupedUncond = false
				extra = cond
			}
			return true
		})
		c.Check("R7.3", "every singly-defined terminal takes part in the same-value check", distinct.Pos(), found && groupedUncond,
			"definitions are grouped by value only under the extra condition `"+extra+"`: some terminals (e.g. string literals used in rules) escape the 'two terminals with the same value' check", "start = \"if\" KW;  KW = /if/")
		reports, reportsDecided := false, false
		if rs := lenLoop(distinct, -1); rs != nil {
			g1, d1 := lenCase(info, rs.Body.List, 1, reportsErr)
			g2, d2 := lenCase(info, rs.Body.List, 2, reportsErr)
			g3, d3 := lenCase(info, rs.Body.List, 3, reportsErr)
			reportsDecided = d1 && d2 && d3
			reports = !g1["report"] && g2["report"] && g3["report"]
		}
		if !reportsDecided {
			c.Undecided("R7.3", "two terminals with the same value are reported", distinct.Pos(), "the loop over the groups of equal values was not understood")
		} else {
			c.Check("R7.3", "two terminals with the same value are reported", distinct.Pos(), reports, "no error is recorded for a value shared by two or more definitions (or one is recorded for a value that is not shared)")
		}
	} else {
		c.Lost("R7.3", "the distinct-values helper")
	}

	// Definitions(): keeps the single definition of exactly the singly-defined terminals, sorted by a comparator that breaks
	// ties by the terminal itself. The loop may sit in a helper; the comparator may be a literal or a named function.
	if fd := FuncDecl(sp, "SymbolTable", "Definitions"); fd != nil {
		c.Analysed(funcKey(sp, fd))
		keepsFirst := func(st ast.Stmt) string {
			label := ""
			ast.Inspect(st, func(m ast.Node) bool {
				if call, ok := m.(*ast.CallExpr); ok {
					if id, ok := call.Fun.(*ast.Ident); ok && id.Name == "append" && len(call.Args) == 2 {
						if ix, ok := ast.Unparen(call.Args[1]).(*ast.IndexExpr); ok {
							if k, ok := constInt(info, ix.Index); ok && k == 0 {
								label = "keep"
							}
						}
					}
				}
				return true
			})
			return label
		}
		// the loop that tests the number of definitions, in Definitions or in a helper it calls
		var loop *ast.RangeStmt
		deepInspect(sp, fd, 2, func(n ast.Node) bool {
			if rs, ok := n.(*ast.RangeStmt); ok && loop == nil {
				has := false
				ast.Inspect(rs.Body, func(m ast.Node) bool {
					if call, ok := m.(*ast.CallExpr); ok && len(call.Args) == 1 {
						if id, ok := call.Fun.(*ast.Ident); ok && id.Name == "len" {
							if sel, ok := ast.Unparen(call.Args[0]).(*ast.SelectorExpr); ok && sel.Sel.Name == defsField {
								has = true
							}
						}
					}
					return true
				})
				if has {
					loop = rs
				}
			}
			return true
		})
		if loop == nil {
			c.Undecided("R7.3", "Definitions keeps exactly the singly-defined terminals' definitions", fd.Pos(), "no loop that tests the number of definitions was found in Definitions or its helpers")
		} else {
			k0, d0 := lenCase(info, loop.Body.List, 0, keepsFirst)
			k1, d1 := lenCase(info, loop.Body.List, 1, keepsFirst)
			k2, d2 := lenCase(info, loop.Body.List, 2, keepsFirst)
			if d0 && d1 && d2 {
				c.Check("R7.3", "Definitions keeps exactly the singly-defined terminals' definitions", fd.Pos(), !k0["keep"] && k1["keep"] && !k2["keep"],
					fmt.Sprintf("a definition is kept for counts: 0:%v 1:%v 2:%v (expected only for exactly one definition)", k0["keep"], k1["keep"], k2["keep"]))
			} else {
				c.Undecided("R7.3", "Definitions keeps exactly the singly-defined terminals' definitions", fd.Pos(), "the conditions under which a definition is kept are not all comparisons of the number of definitions with constants")
			}
		}
		sorted, total, comparatorSeen := false, false, false
		endsInKeyCompare := func(body *ast.BlockStmt) bool {
			found := false
			ast.Inspect(body, func(m ast.Node) bool {
				if call, ok := m.(*ast.CallExpr); ok && len(call.Args) == 2 {
					if f2 := objOf(info, call.Fun); f2 != nil && (strings.HasPrefix(f2.Name(), "Cmp") || f2.Name() == "Compare") {
						bothTerm := true
						for _, a := range call.Args {
							if sel, ok := ast.Unparen(a).(*ast.SelectorExpr); !ok || sel.Sel.Name != "Terminal" {
								bothTerm = false
							}
						}
						if bothTerm {
							found = true
						}
					}
				}
				return true
			})
			return found
		}
		deepInspect(sp, fd, 2, func(n ast.Node) bool {
			call, ok := n.(*ast.CallExpr)
			if !ok {
				return true
			}
			if fo, ok := objOf(info, call.Fun).(*types.Func); ok && fo.Pkg() != nil && sortFuncs[fo.Pkg().Path()+"."+fo.Name()] && len(call.Args) == 2 {
				sorted = true
				switch cmpv := ast.Unparen(call.Args[1]).(type) {
				case *ast.FuncLit:
					comparatorSeen = true
					total = endsInKeyCompare(cmpv.Body)
				case *ast.Ident:
					if cf, ok := info.Uses[cmpv].(*types.Func); ok {
						if cd := declOfFunc(sp, cf); cd != nil && cd.Body != nil {
							comparatorSeen = true
							total = endsInKeyCompare(cd.Body)
						}
					}
				}
			}
			return true
		})
		switch {
		case sorted && total:
			c.Pass("R7.3", "Definitions sorts by a total order (comparator ends in a key comparison)", fd.Pos(), "")
		case !sorted:
			c.Fail("R7.3", "Definitions sorts by a total order (comparator ends in a key comparison)", fd.Pos(), "the list is not sorted: its order is the iteration order of the table")
		case comparatorSeen:
			c.Fail("R7.3", "Definitions sorts by a total order (comparator ends in a key comparison)", fd.Pos(), "ties are not broken by comparing the terminals themselves: the order of equal elements is unspecified")
		default:
			c.Undecided("R7.3", "Definitions sorts by a total order (comparator ends in a key comparison)", fd.Pos(), "the comparator was not found")
		}
	} else {
		c.Lost("R7.3", "SymbolTable.Definitions")
	}
}

// checkPatternErrors: R7.4 / R3.4 in Spec.DFA.
func checkPatternErrors(c *Ctx) {
	sp := c.Pkg("internal/ebnf/parser/spec")
	fd := FuncDecl(sp, "Spec", "DFA")
	if fd == nil {
		c.Lost("R7.4", "Spec.DFA")
		return
	}
	fn := c.SSAFunc(sp, fd)
	c.Analysed(funcKey(sp, fd))
	type patSite struct {
		call *ssa.Call
		in   *ssa.Function
		via  *ssa.Call // the call in Spec.DFA of the helper that contains the site (nil if the site is in Spec.DFA itself)
	}
	var sites []patSite
	var combine *ssa.Call
	isPatCompiler := func(callee *ssa.Function) bool {
		if callee == nil || callee.Pkg != fn.Pkg {
			return false
		}
		sig := callee.Signature
		return sig.Params().Len() == 1 && isString(sig.Params().At(0).Type()) && sig.Results().Len() == 2 && isErr(sig.Results().At(1).Type())
	}
	allCalls(fn, func(call ssa.CallInstruction) {
		cv, ok := call.(*ssa.Call)
		if !ok {
			return
		}
		callee := cv.Call.StaticCallee()
		if isPatCompiler(callee) {
			sites = append(sites, patSite{cv, fn, nil})
		} else if callee != nil && callee.Pkg == fn.Pkg && callee != fn {
			// a helper of Spec.DFA that compiles the patterns
			allCalls(callee, func(inner ssa.CallInstruction) {
				if iv, ok := inner.(*ssa.Call); ok && isPatCompiler(iv.Call.StaticCallee()) {
					sites = append(sites, patSite{iv, callee, cv})
				}
			})
		}
		if staticCalleeName(cv) == depPath+"/automata.CombineDFA" {
			combine = cv
		}
	})
	if len(sites) == 0 || combine == nil {
		c.Undecided("R7.4", "patterns are compiled and the automata combined in Spec.DFA", fd.Pos(), "the calls that compile the patterns and combine the automata were not found in Spec.DFA or its direct helpers")
		return
	}
	c.Pass("R7.4", "patterns are compiled and the automata combined in Spec.DFA", fd.Pos(), "")
	errOf := func(call *ssa.Call) ssa.Value {
		for _, r := range *call.Referrers() {
			if ex, ok := r.(*ssa.Extract); ok && isErr(ex.Type()) {
				return ex
			}
		}
		return nil
	}
	var helperErrs []ssa.Value
	for _, st := range sites {
		ev := errOf(st.call)
		c.Check("R7.4", "the pattern compiler's error is used", st.call.Pos(), ev != nil, "the error result is discarded")
		if ev == nil {
			continue
		}
		reaches := errReachesReturn(st.in, ev)
		if reaches && st.via != nil {
			hv := errOf(st.via)
			reaches = hv != nil && errReachesReturn(fn, hv)
			if hv != nil {
				helperErrs = append(helperErrs, hv)
			}
		}
		c.Check("R7.4", "an invalid pattern's error reaches the result of Spec.DFA", st.call.Pos(), reaches, "the pattern error is dropped: an invalid pattern yields a nil automaton that is then combined", "T = /a{3,1}/")
	}
	// CombineDFA is reached only when no pattern failed
	guard := false
	for _, cd := range controlConds(combine.Block()) {
		if bo, ok := cd.v.(*ssa.BinOp); ok && !cd.pol && bo.Op == token.NEQ {
			if call, ok := bo.X.(*ssa.Call); ok && methodNameOf(call) == "ErrorOrNil" {
				guard = true
			}
		}
	}
	for _, hv := range helperErrs {
		if controlledNil(combine.Block(), hv, false) {
			guard = true
		}
	}
	c.Check("R7.4", "automata are combined only if every pattern compiled", combine.Pos(), guard, "CombineDFA is not guarded by the nil test of the collected pattern errors")
	checkPatternRoute(c, "R7.4", fn, sites[0].in)
}

// checkPatternRoute: a definition written as a pattern is compiled by the pattern compiler, whatever its text looks like. The
// other route (a function of the package from a string to an automaton that cannot fail) is for literals: a call of it must not
// be reachable along edges on which the definition's is-a-pattern flag is true. A fast path for "plain" patterns skips the
// pattern parser's validation and its reading of anchors, escapes and closing brackets.
func checkPatternRoute(c *Ctx, rule string, fns ...*ssa.Function) {
	key := "a definition written as a pattern is compiled by the pattern compiler only"
	seenFn := map[*ssa.Function]bool{}
	for _, fn := range fns {
		if fn == nil || seenFn[fn] {
			continue
		}
		seenFn[fn] = true
		var litCalls []*ssa.Call
		allCalls(fn, func(call ssa.CallInstruction) {
			cv, ok := call.(*ssa.Call)
			if !ok {
				return
			}
			callee := cv.Call.StaticCallee()
			if callee == nil || callee.Pkg != fn.Pkg || callee.Signature.Recv() != nil {
				return
			}
			sig := callee.Signature
			if sig.Params().Len() != 1 || !isString(sig.Params().At(0).Type()) || sig.Results().Len() != 1 {
				return
			}
			if pt, ok := sig.Results().At(0).Type().(*types.Pointer); ok {
				if _, n := namedTypeName(pt.Elem()); n == "DFA" {
					litCalls = append(litCalls, cv)
				}
			}
		})
		if len(litCalls) == 0 {
			continue
		}
		isFlag := func(v ssa.Value) bool {
			u, ok := v.(*ssa.UnOp)
			if !ok || u.Op != token.MUL {
				return false
			}
			fa, ok := u.X.(*ssa.FieldAddr)
			if !ok {
				return false
			}
			b, isBool := u.Type().Underlying().(*types.Basic)
			return isBool && b.Kind() == types.Bool && strings.Contains(strings.ToLower(fieldName(fa)), "regex")
		}
		tests := 0
		for _, b := range fn.Blocks {
			if ifi, ok := b.Instrs[len(b.Instrs)-1].(*ssa.If); ok && isFlag(ifi.Cond) {
				tests++
			}
		}
		// both routes compile the same field of the definition: the literal's characters are its value, not its name
		fieldOfArg := func(v ssa.Value) string {
			for _, r := range rootsOf(fn, v, nil) {
				if fa, ok := r.(*ssa.FieldAddr); ok {
					return fieldName(fa)
				}
			}
			return ""
		}
		patField := ""
		allCalls(fn, func(call ssa.CallInstruction) {
			cv, ok := call.(*ssa.Call)
			if !ok {
				return
			}
			callee := cv.Call.StaticCallee()
			if callee == nil || callee.Pkg != fn.Pkg || callee.Signature.Params().Len() != 1 || callee.Signature.Results().Len() != 2 {
				return
			}
			if isString(callee.Signature.Params().At(0).Type()) && isErr(callee.Signature.Results().At(1).Type()) {
				if f := fieldOfArg(cv.Call.Args[0]); f != "" {
					patField = f
				}
			}
		})
		for _, lc := range litCalls {
			if lf := fieldOfArg(lc.Call.Args[0]); lf != "" && patField != "" {
				c.Check(rule, "a literal's automaton spells the definition's value, the field the pattern route compiles too", lc.Pos(), lf == patField,
					"the literal route is given the definition's "+lf+" while the pattern route compiles its "+patField+": a named string token (ARROW = \"->\") is recognised by its name instead of its text",
					"ARROW = \"->\";  the scanner then accepts the text ARROW and not ->")
			}
		}
		for _, lc := range litCalls {
			if tests == 0 {
				c.Undecided(rule, key, lc.Pos(), "no branch on the definition's is-a-pattern flag in "+shortFn(fn))
				continue
			}
			// forward reachability from the entry with the flag held true: the false edge of every test of the flag is cut
			seen := map[*ssa.BasicBlock]bool{fn.Blocks[0]: true}
			work := []*ssa.BasicBlock{fn.Blocks[0]}
			for len(work) > 0 {
				b := work[len(work)-1]
				work = work[:len(work)-1]
				succs := b.Succs
				if ifi, ok := b.Instrs[len(b.Instrs)-1].(*ssa.If); ok && isFlag(ifi.Cond) {
					succs = b.Succs[:1]
				}
				for _, s := range succs {
					if !seen[s] {
						seen[s] = true
						work = append(work, s)
					}
				}
			}
			c.Check(rule, key, lc.Pos(), !seen[lc.Block()],
				"the literal route ("+lc.Call.StaticCallee().Name()+") is reachable for a definition whose is-a-pattern flag is set: such a pattern is never parsed, so it is neither validated nor read as a pattern",
				"TOK = /a]/ (an invalid pattern accepted), or any pattern the shortcut takes for plain text")
		}
	}
}

// lenCase interprets a statement list for one concrete value k of "the length being tested": every comparison of a len(...)
// call with a constant is evaluated with len = k, &&, || and ! are followed, if / switch (tagged by a len call, or tagless) pick
// their branch, continue / break / return end the walk. It returns the labels that classify(stmt) gives to the simple
// statements that are executed, and whether every condition on the way could be evaluated. The shape of the code (if chain,
// switch, early continue) does not matter, only which statements run for which length.
func lenCase(info *types.Info, stmts []ast.Stmt, k int64, classify func(ast.Stmt) string) (map[string]bool, bool) {
	out := map[string]bool{}
	decided := true
	lenVars := map[types.Object]bool{}
	isLenCall := func(e ast.Expr) bool {
		call, ok := ast.Unparen(e).(*ast.CallExpr)
		if !ok || len(call.Args) != 1 {
			return false
		}
		id, ok := call.Fun.(*ast.Ident)
		return ok && id.Name == "len"
	}
	// variables bound to a length: n := len(x), also in the init clause of an if or switch
	for _, root := range stmts {
		ast.Inspect(root, func(n ast.Node) bool {
			if as, ok := n.(*ast.AssignStmt); ok && len(as.Lhs) == 1 && len(as.Rhs) == 1 && isLenCall(as.Rhs[0]) {
				if id, ok := as.Lhs[0].(*ast.Ident); ok {
					if o := info.Defs[id]; o != nil {
						lenVars[o] = true
					}
				}
			}
			return true
		})
	}
	isLen := func(e ast.Expr) bool {
		if isLenCall(e) {
			return true
		}
		if id, ok := ast.Unparen(e).(*ast.Ident); ok && lenVars[info.Uses[id]] {
			return true
		}
		return false
	}
	var eval func(e ast.Expr) (bool, bool)
	eval = func(e ast.Expr) (bool, bool) {
		switch x := ast.Unparen(e).(type) {
		case *ast.UnaryExpr:
			if x.Op == token.NOT {
				v, ok := eval(x.X)
				return !v, ok
			}
		case *ast.BinaryExpr:
			switch x.Op {
			case token.LAND:
				a, oka := eval(x.X)
				b, okb := eval(x.Y)
				if oka && !a || okb && !b {
					return false, true
				}
				return a && b, oka && okb
			case token.LOR:
				a, oka := eval(x.X)
				b, okb := eval(x.Y)
				if oka && a || okb && b {
					return true, true
				}
				return a || b, oka && okb
			}
			l, r, op := x.X, x.Y, x.Op
			if isLen(r) {
				l, r = r, l
				switch op {
				case token.LSS:
					op = token.GTR
				case token.LEQ:
					op = token.GEQ
				case token.GTR:
					op = token.LSS
				case token.GEQ:
					op = token.LEQ
				}
			}
			if !isLen(l) {
				return false, false
			}
			v, ok := constInt(info, r)
			if !ok {
				return false, false
			}
			switch op {
			case token.EQL:
				return k == v, true
			case token.NEQ:
				return k != v, true
			case token.LSS:
				return k < v, true
			case token.LEQ:
				return k <= v, true
			case token.GTR:
				return k > v, true
			case token.GEQ:
				return k >= v, true
			}
		}
		return false, false
	}
	var exec func(list []ast.Stmt) bool // false: control left the list
	exec = func(list []ast.Stmt) bool {
		for _, st := range list {
			switch x := st.(type) {
			case *ast.IfStmt:
				cur := x
				for cur != nil {
					v, ok := eval(cur.Cond)
					if !ok {
						// a condition on something else than the length: either branch may run. If a classified statement
						// depends on it, the outcome for this length is not decided.
						before := len(out)
						exec(cur.Body.List)
						if blk, ok := cur.Else.(*ast.BlockStmt); ok {
							exec(blk.List)
						}
						if len(out) != before {
							decided = false
						}
						break
					}
					if v {
						if !exec(cur.Body.List) {
							return false
						}
						break
					}
					switch e := cur.Else.(type) {
					case *ast.IfStmt:
						cur = e
						continue
					case *ast.BlockStmt:
						if !exec(e.List) {
							return false
						}
					}
					break
				}
			case *ast.SwitchStmt:
				var chosen, def *ast.CaseClause
				for _, cc := range x.Body.List {
					cl := cc.(*ast.CaseClause)
					if cl.List == nil {
						def = cl
						continue
					}
					for _, e := range cl.List {
						if x.Tag != nil && isLen(x.Tag) {
							if v, ok := constInt(info, e); ok && v == k && chosen == nil {
								chosen = cl
							}
						} else if x.Tag == nil {
							if v, ok := eval(e); ok && v && chosen == nil {
								chosen = cl
							} else if !ok {
								decided = false
							}
						} else {
							decided = false
						}
					}
				}
				if chosen == nil {
					chosen = def
				}
				if chosen != nil {
					if !exec(chosen.Body) {
						return false
					}
				}
			case *ast.BranchStmt:
				return false
			case *ast.ReturnStmt:
				return false
			case *ast.BlockStmt:
				if !exec(x.List) {
					return false
				}
			default:
				if l := classify(st); l != "" {
					out[l] = true
				}
			}
		}
		return true
	}
	exec(stmts)
	return out, decided
}
