package main

import (
	"fmt"
	"go/ast"
	"go/token"
	"go/types"
	"sort"
	"strings"

	"golang.org/x/tools/go/ssa"
)

func init() {
	register(&property{id: "C07", run: runC07, meta: propMeta{
		level: "other",
		explanation: "Error discipline and bookkeeping of specification validation: on every path of the start production's action to a successful *Spec all three verifiers (symbol table, grammar, precedence levels) have run, each verifier's error reaches the returned error, and success is control-dependent on the aggregate being nil; SymbolTable.Verify calls every ensure* helper and aggregates their errors; the predefined names equal the documented list and an unknown one is recorded as an error that reaches the result; string terminals get exactly one self-definition on first sight, token references none, token declarations append exactly one definition, zero and multiple definitions are both reported, Definitions keeps singly-defined terminals and sorts them by a comparator ending in a key comparison; every pattern error surfaces before the automata are combined. The 'iff' over all combinations of defects is out of reach.",
		trusted: []string{"grammar.CFG.Verify and lr.PrecedenceLevels.Verify detect what they document", "errors.Append/MultiError aggregate without dropping"},
		assumptions: []string{"the shared symbol space of literals and token names (C01 R1.5, recorded) also affects 'token used without a definition'"},
	}})
}

func runC07(c *Ctx) {
	c.Rule("R7.1", 8, "every verifier runs and is heard; success only with a nil aggregate")
	c.Rule("R7.2", 3, "predefined names are the documented ones; unknown names are errors")
	c.Rule("R7.3", 10, "definition bookkeeping: one self-definition per literal, one per declaration, both defects reported")
	c.Rule("R7.4", 3, "every pattern error surfaces before the automata are combined")

	c.mute = map[string]bool{"R4.2": true}
	g := extractEBNF(c, "R7.1")
	if g == nil {
		return
	}
	sp := c.Pkg("internal/ebnf/parser/spec")
	ev := findEvaluator(c, "R7.1", sp, g)
	if ev == nil {
		return
	}
	checkVerifiers(c, ev)
	checkPredefs(c, ev)
	checkBookkeeping(c)
	checkPatternErrors(c)
}

func checkVerifiers(c *Ctx, ev *evaluator) {
	sp := ev.pkg
	// the SSA function of the evaluation closure
	parse := c.SSAFunc(sp, ev.fd)
	if parse == nil {
		c.Lost("R7.1", "SSA of spec.Parse")
		return
	}
	var clo *ssa.Function
	for _, af := range parse.AnonFuncs {
		if af.Syntax() == ast.Node(ev.lit) {
			clo = af
		}
	}
	if clo == nil {
		c.Lost("R7.1", "SSA of the evaluation closure")
		return
	}
	c.Analysed(shortFn(clo))
	// success returns: first result is a *Spec wrapped in an interface
	var success []*ssa.Return
	for _, b := range clo.Blocks {
		ret, ok := b.Instrs[len(b.Instrs)-1].(*ssa.Return)
		if !ok || len(ret.Results) != 2 || !isNilConst(ret.Results[1]) {
			continue
		}
		if mi, ok := ret.Results[0].(*ssa.MakeInterface); ok {
			if _, n := namedTypeName(mi.X.Type()); n == "Spec" {
				success = append(success, ret)
			}
		}
	}
	if !c.Check("R7.1", "the start production's action has a successful *Spec return", ev.lit.Pos(), len(success) == 1, fmt.Sprintf("%d such returns", len(success))) {
		return
	}
	sret := success[0]
	// verifier calls
	var verifs []*ssa.Call
	allCalls(clo, func(call ssa.CallInstruction) {
		cv, ok := call.(*ssa.Call)
		if !ok {
			return
		}
		f := calleeFunc(call)
		if f == nil || f.Name() != "Verify" {
			return
		}
		verifs = append(verifs, cv)
	})
	want := map[string]bool{"SymbolTable": false, "CFG": false, "PrecedenceLevels": false}
	for _, v := range verifs {
		f := calleeFunc(v)
		_, rn := namedTypeName(f.Type().(*types.Signature).Recv().Type())
		if _, ok := want[rn]; ok {
			want[rn] = true
		}
		key := "verifier " + rn + ".Verify"
		dom := v.Block() == sret.Block() || v.Block().Dominates(sret.Block())
		c.Check("R7.1", key+" runs on every path to the successful result", v.Pos(), dom, "the successful *Spec return is not dominated by this verifier: an ill-formed specification can be accepted")
		c.Check("R7.1", key+": its error reaches the returned error", v.Pos(), errReachesReturn(clo, v), "the verifier's error is dropped", "a specification with exactly the defect this verifier detects")
		uncond, why := recordedUnconditionally(v)
		c.Check("R7.1", key+": its error is recorded whenever it is non-nil", v.Pos(), uncond, why, "a specification with exactly the defect this verifier detects")
	}
	var names []string
	for n := range want {
		names = append(names, n)
	}
	sort.Strings(names)
	for _, n := range names {
		c.Check("R7.1", "the action calls "+n+".Verify", ev.lit.Pos(), want[n], "verifier not called at all")
	}
	// success is control-dependent on the aggregate being nil
	var agg *ssa.Call
	allCalls(clo, func(call ssa.CallInstruction) {
		if cv, ok := call.(*ssa.Call); ok && methodNameOf(call) == "ErrorOrNil" && (cv.Block() == sret.Block() || cv.Block().Dominates(sret.Block())) {
			agg = cv
		}
	})
	c.Check("R7.1", "success is returned only when the aggregated error is nil", sret.Pos(), agg != nil && controlledNil(sret.Block(), agg, false),
		"the *Spec return is not guarded by the nil test of the aggregated errors: diagnostics are collected but the specification is accepted")
	// the aggregate is the shared accumulator that the other actions append to
	if agg != nil {
		fv := false
		for _, r := range rootsOf(clo, agg.Call.Args[0], nil) {
			if _, ok := r.(*ssa.FreeVar); ok {
				fv = true
			}
		}
		c.Check("R7.1", "the aggregate tested is the accumulator shared by all actions", agg.Pos(), fv, "ErrorOrNil is called on a value other than the captured accumulator")
	}

	// SymbolTable.Verify calls every helper
	vfd := FuncDecl(sp, "SymbolTable", "Verify")
	if vfd == nil {
		c.Lost("R7.1", "SymbolTable.Verify")
		return
	}
	vfn := c.SSAFunc(sp, vfd)
	c.Analysed(funcKey(sp, vfd))
	var helpers []*types.Func
	AllFuncDecls(sp, func(fd *ast.FuncDecl) {
		if fd.Recv == nil || recvName(fd.Recv.List[0].Type) != "SymbolTable" || fd == vfd {
			return
		}
		fo := sp.TypesInfo.Defs[fd.Name].(*types.Func)
		sig := fo.Type().(*types.Signature)
		if sig.Params().Len() == 0 && sig.Results().Len() == 1 && isErr(sig.Results().At(0).Type()) {
			helpers = append(helpers, fo)
		}
	})
	c.Check("R7.1", "SymbolTable has its well-formedness helpers", vfd.Pos(), len(helpers) >= 3, fmt.Sprintf("%d helpers func() error", len(helpers)))
	for _, h := range helpers {
		var call *ssa.Call
		allCalls(vfn, func(ci ssa.CallInstruction) {
			if cv, ok := ci.(*ssa.Call); ok && calleeFunc(ci) == h {
				call = cv
			}
		})
		if !c.Check("R7.1", "Verify calls "+h.Name(), vfd.Pos(), call != nil, "a well-formedness helper is never called: that kind of defect is accepted silently") {
			continue
		}
		c.Check("R7.1", "Verify: error of "+h.Name()+" reaches the result", call.Pos(), errReachesReturn(vfn, call), "the helper's error is dropped")
		uncond, why := recordedUnconditionally(call)
		c.Check("R7.1", "Verify: error of "+h.Name()+" is recorded whenever it is non-nil", call.Pos(), uncond, why)
	}
}

func checkPredefs(c *Ctx, ev *evaluator) {
	pp := c.Pkg("internal/ebnf/parser")
	init, _ := PkgVarInit(pp, "Predefs")
	if init == nil {
		c.Lost("R7.2", "parser.Predefs")
		return
	}
	var keys []string
	if cl, ok := init.(*ast.CompositeLit); ok {
		for _, el := range cl.Elts {
			if kv, ok := el.(*ast.KeyValueExpr); ok {
				if k, ok := constStr(pp.TypesInfo, kv.Key); ok {
					keys = append(keys, k)
				}
			}
		}
	}
	sort.Strings(keys)
	// documented list
	doc := readDoc(c, "1-documentation.md")
	var docNames []string
	if i := strings.Index(doc, "predefined regular expressions"); i >= 0 {
		for _, line := range strings.Split(doc[i:], "\n")[1:] {
			t := strings.TrimSpace(line)
			if t == "" {
				if len(docNames) > 0 {
					break
				}
				continue
			}
			if strings.HasPrefix(t, "- `$") {
				docNames = append(docNames, strings.Trim(strings.TrimPrefix(t, "- "), "`"))
			} else if len(docNames) > 0 {
				break
			}
		}
	}
	sort.Strings(docNames)
	if len(docNames) == 0 {
		c.Lost("R7.2", "documented list of predefined names")
	} else {
		c.Check("R7.2", "the predefined names are exactly the documented ones", init.Pos(), fmt.Sprint(keys) == fmt.Sprint(docNames), fmt.Sprintf("code %v, docs %v", keys, docNames))
	}
	// the action for token → TOKEN "=" PREDEF
	info := ev.pkg.TypesInfo
	found := false
	for i, cs := range ev.cases {
		b := cs.prod.body
		if len(b) != 3 || !b[2].term || b[2].name != "PREDEF" {
			continue
		}
		found = true
		key := fmt.Sprintf("case %d (%s)", i, cs.prod)
		// v, ok := Predefs[value]; if !ok { errs = errors.Append(errs, ...); return ... }
		recorded, defined := false, false
		for _, st := range cs.clause.Body {
			ifs, ok := st.(*ast.IfStmt)
			if !ok {
				continue
			}
			if u, ok := ast.Unparen(ifs.Cond).(*ast.UnaryExpr); ok && u.Op == token.NOT {
				ast.Inspect(ifs.Body, func(n ast.Node) bool {
					if as, ok := n.(*ast.AssignStmt); ok && len(as.Rhs) == 1 {
						if call, ok := ast.Unparen(as.Rhs[0]).(*ast.CallExpr); ok {
							if fo, ok := objOf(info, call.Fun).(*types.Func); ok && fo.Name() == "Append" {
								recorded = true
							}
						}
					}
					if r, ok := n.(*ast.ReturnStmt); ok && len(r.Results) == 2 && !isNilExpr(info, r.Results[1]) {
						recorded = true
					}
					return true
				})
			}
		}
		for _, st := range cs.clause.Body {
			ast.Inspect(st, func(n ast.Node) bool {
				if call, ok := n.(*ast.CallExpr); ok {
					if fo, ok := objOf(info, call.Fun).(*types.Func); ok && fo.Name() == "AddRegexTokenDef" {
						defined = true
					}
				}
				return true
			})
		}
		c.Check("R7.2", key+": an unknown predefined name is recorded as an error", cs.clause.Pos(), recorded, "the !ok branch of the Predefs lookup records nothing", "T = $NOPE")
		c.Check("R7.2", key+": a known predefined name defines the token by its pattern", cs.clause.Pos(), defined, "no AddRegexTokenDef in the action")
	}
	if !found {
		c.Lost("R7.2", "the action for token → TOKEN \"=\" PREDEF")
	}
}

func checkBookkeeping(c *Ctx) {
	sp := c.Pkg("internal/ebnf/parser/spec")
	info := sp.TypesInfo
	// by role, not by name: the entry type is the struct of the package with a field whose type is a slice of pointers to the
	// exported definition type; that field holds the definitions
	defsField, entryType := "", ""
	for _, n := range sp.Types.Scope().Names() {
		tn, ok := sp.Types.Scope().Lookup(n).(*types.TypeName)
		if !ok {
			continue
		}
		st, ok := tn.Type().Underlying().(*types.Struct)
		if !ok {
			continue
		}
		for i := 0; i < st.NumFields(); i++ {
			if sl, ok := st.Field(i).Type().Underlying().(*types.Slice); ok {
				if pt, ok := sl.Elem().(*types.Pointer); ok {
					if _, nme := namedTypeName(pt.Elem()); nme == "TerminalDef" && !tn.Exported() {
						defsField, entryType = st.Field(i).Name(), tn.Name()
					}
				}
			}
		}
	}
	if defsField == "" {
		c.Lost("R7.3", "the symbol-table entry type that holds a terminal's definitions")
		return
	}
	// appendDefs: number of top-level (unconditional) `e.definitions = append(e.definitions, &TerminalDef{...})` and the literal
	type addFn struct {
		name      string
		wantApp   int
		wantRegex string // "true" | "false" | ""
		selfDef   bool
	}
	for _, a := range []addFn{{"AddStringTokenDef", 1, "false", false}, {"AddRegexTokenDef", 1, "true", false}, {"AddStringTerminal", 0, "", true}, {"AddTokenTerminal", 0, "", false}} {
		fd := FuncDecl(sp, "SymbolTable", a.name)
		if fd == nil {
			c.Lost("R7.3", "SymbolTable."+a.name)
			continue
		}
		c.Analysed(funcKey(sp, fd))
		params := map[types.Object]int{}
		pi := 0
		for _, f := range fd.Type.Params.List {
			for _, n := range f.Names {
				params[info.Defs[n]] = pi
				pi++
			}
		}
		apps := 0
		var lit *ast.CompositeLit
		for _, st := range fd.Body.List {
			as, ok := st.(*ast.AssignStmt)
			if !ok || len(as.Rhs) != 1 {
				continue
			}
			call, ok := ast.Unparen(as.Rhs[0]).(*ast.CallExpr)
			if !ok {
				continue
			}
			if id, ok := call.Fun.(*ast.Ident); ok && id.Name == "append" && len(call.Args) == 2 {
				if sel, ok := ast.Unparen(as.Lhs[0]).(*ast.SelectorExpr); ok && sel.Sel.Name == defsField {
					apps++
					x := ast.Unparen(call.Args[1])
					if u, ok := x.(*ast.UnaryExpr); ok {
						x = u.X
					}
					lit, _ = x.(*ast.CompositeLit)
				}
			}
		}
		// conditional appends anywhere else
		condApps := 0
		ast.Inspect(fd.Body, func(n ast.Node) bool {
			if as, ok := n.(*ast.AssignStmt); ok && len(as.Lhs) == 1 {
				if sel, ok := ast.Unparen(as.Lhs[0]).(*ast.SelectorExpr); ok && sel.Sel.Name == defsField {
					condApps++
				}
			}
			return true
		})
		c.Check("R7.3", a.name+": appends exactly "+fmt.Sprint(a.wantApp)+" definition(s), unconditionally", fd.Pos(), apps == a.wantApp && condApps == a.wantApp,
			fmt.Sprintf("%d unconditional and %d total assignments to definitions", apps, condApps))
		if a.wantApp == 1 && lit != nil {
			fs, _ := compositeFields(lit)
			tOK := false
			if id, ok := ast.Unparen(fs["Terminal"]).(*ast.Ident); ok && params[info.Uses[id]] == 0 {
				tOK = true
			}
			vOK := false
			if id, ok := ast.Unparen(fs["Value"]).(*ast.Ident); ok && params[info.Uses[id]] == 1 {
				vOK = true
			}
			rv := ""
			if tv, ok := info.Types[fs["IsRegex"]]; ok && tv.Value != nil {
				rv = tv.Value.String()
			}
			c.Check("R7.3", a.name+": the definition carries the declared token, value and kind", lit.Pos(), tOK && vOK && rv == a.wantRegex,
				fmt.Sprintf("Terminal from token param=%v, Value from value param=%v, IsRegex=%s (want %s)", tOK, vOK, rv, a.wantRegex))
		}
		// entries installed with Put: definitions field
		ast.Inspect(fd.Body, func(n ast.Node) bool {
			cl, ok := n.(*ast.CompositeLit)
			if !ok {
				return true
			}
			if _, nme := namedTypeName(info.TypeOf(cl)); nme != entryType {
				return true
			}
			fs, _ := compositeFields(cl)
			d, ok := ast.Unparen(fs[defsField]).(*ast.CompositeLit)
			if !ok {
				c.Fail("R7.3", a.name+": new entries initialise definitions with a literal", cl.Pos(), "definitions is not a literal list")
				return true
			}
			if a.selfDef {
				okSelf := len(d.Elts) == 1
				if okSelf {
					// def := &TerminalDef{Terminal: a, Value: string(a), IsRegex: false}
					var defLit *ast.CompositeLit
					if id, ok := ast.Unparen(d.Elts[0]).(*ast.Ident); ok {
						ast.Inspect(fd.Body, func(m ast.Node) bool {
							if as, ok := m.(*ast.AssignStmt); ok && len(as.Lhs) == 1 && len(as.Rhs) == 1 {
								if lid, ok := as.Lhs[0].(*ast.Ident); ok && info.Defs[lid] == info.Uses[id] {
									x := ast.Unparen(as.Rhs[0])
									if u, ok := x.(*ast.UnaryExpr); ok {
										x = u.X
									}
									defLit, _ = x.(*ast.CompositeLit)
								}
							}
							return true
						})
					}
					okSelf = defLit != nil
					if defLit != nil {
						f2, _ := compositeFields(defLit)
						tid, ok1 := ast.Unparen(f2["Terminal"]).(*ast.Ident)
						okT := ok1 && params[info.Uses[tid]] == 0
						okV := false
						if call, ok := ast.Unparen(f2["Value"]).(*ast.CallExpr); ok && len(call.Args) == 1 {
							if vid, ok := ast.Unparen(call.Args[0]).(*ast.Ident); ok && params[info.Uses[vid]] == 0 {
								okV = true
							}
						}
						rv := ""
						if tv, ok := info.Types[f2["IsRegex"]]; ok && tv.Value != nil {
							rv = tv.Value.String()
						}
						okSelf = okT && okV && rv == "false"
					}
				}
				c.Check("R7.3", a.name+": a string literal seen for the first time defines itself (value = its own text, not a pattern)", cl.Pos(), okSelf,
					"the entry installed for a new string terminal does not carry exactly one definition {Terminal: a, Value: string(a), IsRegex: false}", "start = \"a\";")
			} else {
				c.Check("R7.3", a.name+": a new entry starts without definitions", cl.Pos(), len(d.Elts) == 0, "a token reference / declaration installs extra definitions")
			}
			return true
		})
	}
	// the single-definition helper reports both count == 0 and count > 1: the parameterless error-returning method of the
	// symbol table that compares the number of definitions with constants
	var single *ast.FuncDecl
	AllFuncDecls(sp, func(fd *ast.FuncDecl) {
		if fd.Recv == nil || fd.Body == nil || recvName(fd.Recv.List[0].Type) != "SymbolTable" || single != nil {
			return
		}
		fo := info.Defs[fd.Name].(*types.Func)
		sig := fo.Type().(*types.Signature)
		if sig.Params().Len() != 0 || sig.Results().Len() != 1 || !isErr(sig.Results().At(0).Type()) {
			return
		}
		ast.Inspect(fd.Body, func(n ast.Node) bool {
			if b, ok := n.(*ast.BinaryExpr); ok {
				if call, ok := ast.Unparen(b.X).(*ast.CallExpr); ok && len(call.Args) == 1 {
					if id, ok := call.Fun.(*ast.Ident); ok && id.Name == "len" {
						if sel, ok := ast.Unparen(call.Args[0]).(*ast.SelectorExpr); ok && sel.Sel.Name == defsField {
							single = fd
						}
					}
				}
				// n := len(e.definitions); n == 0
			}
			if as, ok := n.(*ast.AssignStmt); ok && len(as.Rhs) == 1 {
				if call, ok := ast.Unparen(as.Rhs[0]).(*ast.CallExpr); ok && len(call.Args) == 1 {
					if id, ok := call.Fun.(*ast.Ident); ok && id.Name == "len" {
						if sel, ok := ast.Unparen(call.Args[0]).(*ast.SelectorExpr); ok && sel.Sel.Name == defsField {
							single = fd
						}
					}
				}
			}
			return true
		})
	})
	if fd := single; fd != nil {
		c.Analysed(funcKey(sp, fd))
		zero, many := false, false
		ast.Inspect(fd.Body, func(n ast.Node) bool {
			ifs, ok := n.(*ast.IfStmt)
			if !ok {
				return true
			}
			b, ok := ast.Unparen(ifs.Cond).(*ast.BinaryExpr)
			if !ok {
				return true
			}
			v, okc := constInt(info, b.Y)
			appends := false
			ast.Inspect(ifs.Body, func(m ast.Node) bool {
				if call, ok := m.(*ast.CallExpr); ok {
					if fo, ok := objOf(info, call.Fun).(*types.Func); ok && fo.Name() == "Append" {
						appends = true
					}
				}
				return true
			})
			if okc && appends {
				if b.Op == token.EQL && v == 0 {
					zero = true
				}
				if (b.Op == token.GTR && v == 1) || (b.Op == token.GEQ && v == 2) {
					many = true
				}
			}
			return true
		})
		c.Check("R7.3", "a terminal without a definition is reported", fd.Pos(), zero, "no error for len(definitions) == 0", "start = A;")
		c.Check("R7.3", "a terminal with several definitions is reported", fd.Pos(), many, "no error for len(definitions) > 1", "A = \"x\"  A = \"y\"")
	} else {
		c.Lost("R7.3", "the single-definition helper")
	}
	// the distinct-values helper: every singly-defined terminal takes part in the grouping by value, every group of two or more is reported
	var distinct *ast.FuncDecl
	AllFuncDecls(sp, func(fd *ast.FuncDecl) {
		if fd.Recv == nil || fd.Body == nil || recvName(fd.Recv.List[0].Type) != "SymbolTable" {
			return
		}
		ast.Inspect(fd.Body, func(n ast.Node) bool {
			if as, ok := n.(*ast.AssignStmt); ok && len(as.Lhs) == 1 {
				if ix, ok := as.Lhs[0].(*ast.IndexExpr); ok {
					if sel, ok := ast.Unparen(ix.Index).(*ast.SelectorExpr); ok && sel.Sel.Name == "Value" {
						distinct = fd
					}
				}
			}
			return true
		})
	})
	if distinct != nil {
		c.Analysed(funcKey(sp, distinct))
		var stack []ast.Node
		groupedUncond, found := true, false
		extra := ""
		ast.Inspect(distinct.Body, func(n ast.Node) bool {
			if n == nil {
				stack = stack[:len(stack)-1]
				return true
			}
			stack = append(stack, n)
			as, ok := n.(*ast.AssignStmt)
			if !ok || len(as.Lhs) != 1 {
				return true
			}
			ix, ok := as.Lhs[0].(*ast.IndexExpr)
			if !ok {
				return true
			}
			if sel, ok := ast.Unparen(ix.Index).(*ast.SelectorExpr); !ok || sel.Sel.Name != "Value" {
				return true
			}
			found = true
			for _, anc := range stack {
				ifs, ok := anc.(*ast.IfStmt)
				if !ok {
					continue
				}
				cond := types.ExprString(ifs.Cond)
				// the only admissible condition: the terminal has exactly one definition
				if b, ok := ast.Unparen(ifs.Cond).(*ast.BinaryExpr); ok && b.Op == token.EQL {
					if v, ok := constInt(info, b.Y); ok && v == 1 && strings.HasPrefix(types.ExprString(b.X), "len(") {
						continue
					}
				}
				groupedUncond = false
				extra = cond
			}
			return true
		})
		c.Check("R7.3", "every singly-defined terminal takes part in the same-value check", distinct.Pos(), found && groupedUncond,
			"definitions are grouped by value only under the extra condition `"+extra+"`: some terminals (e.g. string literals used in rules) escape the 'two terminals with the same value' check", "start = \"if\" KW;  KW = /if/")
		reports := false
		ast.Inspect(distinct.Body, func(n ast.Node) bool {
			ifs, ok := n.(*ast.IfStmt)
			if !ok {
				return true
			}
			if b, ok := ast.Unparen(ifs.Cond).(*ast.BinaryExpr); ok && ((b.Op == token.GTR) || (b.Op == token.GEQ)) {
				v, okc := constInt(info, b.Y)
				if okc && ((b.Op == token.GTR && v == 1) || (b.Op == token.GEQ && v == 2)) {
					ast.Inspect(ifs.Body, func(m ast.Node) bool {
						if call, ok := m.(*ast.CallExpr); ok {
							if fo, ok := objOf(info, call.Fun).(*types.Func); ok && fo.Name() == "Append" {
								reports = true
							}
						}
						return true
					})
				}
			}
			return true
		})
		c.Check("R7.3", "two terminals with the same value are reported", distinct.Pos(), reports, "no error is recorded for a value shared by two or more definitions")
	} else {
		c.Lost("R7.3", "the distinct-values helper")
	}

	// Definitions(): keeps len == 1, sorted by a comparator whose last step compares the terminals
	if fd := FuncDecl(sp, "SymbolTable", "Definitions"); fd != nil {
		c.Analysed(funcKey(sp, fd))
		keeps, sorted, total := false, false, false
		ast.Inspect(fd.Body, func(n ast.Node) bool {
			switch s := n.(type) {
			case *ast.IfStmt:
				if b, ok := ast.Unparen(s.Cond).(*ast.BinaryExpr); ok && b.Op == token.EQL {
					if v, ok := constInt(info, b.Y); ok && v == 1 {
						ast.Inspect(s.Body, func(m ast.Node) bool {
							if call, ok := m.(*ast.CallExpr); ok {
								if id, ok := call.Fun.(*ast.Ident); ok && id.Name == "append" && len(call.Args) == 2 {
									if ix, ok := ast.Unparen(call.Args[1]).(*ast.IndexExpr); ok {
										if k, ok := constInt(info, ix.Index); ok && k == 0 {
											keeps = true
										}
									}
								}
							}
							return true
						})
					}
				}
			case *ast.CallExpr:
				if fo, ok := objOf(info, s.Fun).(*types.Func); ok && fo.Pkg() != nil && sortFuncs[fo.Pkg().Path()+"."+fo.Name()] && len(s.Args) == 2 {
					sorted = true
					if fl, ok := s.Args[1].(*ast.FuncLit); ok && len(fl.Body.List) > 0 {
						if r, ok := fl.Body.List[len(fl.Body.List)-1].(*ast.ReturnStmt); ok && len(r.Results) == 1 {
							if call, ok := ast.Unparen(r.Results[0]).(*ast.CallExpr); ok {
								if f2 := objOf(info, call.Fun); f2 != nil && strings.HasPrefix(f2.Name(), "Cmp") {
									total = true
								}
							}
						}
					}
				}
			}
			return true
		})
		c.Check("R7.3", "Definitions keeps exactly the singly-defined terminals' definitions", fd.Pos(), keeps, "no `if len(e.definitions) == 1 { append(defs, e.definitions[0]) }`")
		c.Check("R7.3", "Definitions sorts by a total order (comparator ends in a key comparison)", fd.Pos(), sorted && total, "the list is not sorted, or ties are not broken by the terminal itself")
	} else {
		c.Lost("R7.3", "SymbolTable.Definitions")
	}
}

// checkPatternErrors: R7.4 / R3.4 in Spec.DFA.
func checkPatternErrors(c *Ctx) {
	sp := c.Pkg("internal/ebnf/parser/spec")
	fd := FuncDecl(sp, "Spec", "DFA")
	if fd == nil {
		c.Lost("R7.4", "Spec.DFA")
		return
	}
	fn := c.SSAFunc(sp, fd)
	c.Analysed(funcKey(sp, fd))
	var patCalls []*ssa.Call
	var combine *ssa.Call
	allCalls(fn, func(call ssa.CallInstruction) {
		cv, ok := call.(*ssa.Call)
		if !ok {
			return
		}
		if callee := cv.Call.StaticCallee(); callee != nil && callee.Pkg == fn.Pkg {
			sig := callee.Signature
			if sig.Params().Len() == 1 && isString(sig.Params().At(0).Type()) && sig.Results().Len() == 2 && isErr(sig.Results().At(1).Type()) {
				patCalls = append(patCalls, cv)
			}
		}
		if staticCalleeName(cv) == depPath+"/automata.CombineDFA" {
			combine = cv
		}
	})
	if !c.Check("R7.4", "patterns are compiled and the automata combined in Spec.DFA", fd.Pos(), len(patCalls) >= 1 && combine != nil, "anchors not found") {
		return
	}
	for _, pc := range patCalls {
		var ev ssa.Value
		for _, r := range *pc.Referrers() {
			if ex, ok := r.(*ssa.Extract); ok && ex.Index == 1 {
				ev = ex
			}
		}
		c.Check("R7.4", "the pattern compiler's error is used", pc.Pos(), ev != nil, "the error result is discarded")
		if ev != nil {
			c.Check("R7.4", "an invalid pattern's error reaches the result of Spec.DFA", pc.Pos(), errReachesReturn(fn, ev), "the pattern error is dropped: an invalid pattern yields a nil automaton that is then combined", "T = /a{3,1}/")
		}
	}
	// CombineDFA is reached only when the aggregate is nil
	guard := false
	for _, cd := range controlConds(combine.Block()) {
		if bo, ok := cd.v.(*ssa.BinOp); ok && !cd.pol && bo.Op == token.NEQ {
			if call, ok := bo.X.(*ssa.Call); ok && methodNameOf(call) == "ErrorOrNil" {
				guard = true
			}
		}
	}
	c.Check("R7.4", "automata are combined only if every pattern compiled", combine.Pos(), guard, "CombineDFA is not guarded by the nil test of the collected pattern errors")
}
