package main

import (
	"fmt"
	"go/ast"
	"go/token"
	"go/types"
	"os"
	"os/exec"
	"sort"
	"strings"

	"golang.org/x/tools/go/packages"
	"golang.org/x/tools/go/ssa"
)

func init() {
	register(&property{id: "C14", run: runC14, meta: propMeta{
		level: "other",
		explanation: "Panic-site inventory with rule-based discharge over the module functions reachable (RTA) from main.main and the library entry points: unchecked type assertions of both evaluators are decided by attribute-sort inference, those of the pattern mappers by combinator-shape inference; every index/slice expression must be discharged by a dominating bound, a range/counted-loop idiom, the scanner's minimum lexeme length, the table's REDUCE parameters, or a reviewed one-line reason; calls of panic are forbidden; " +
			"main turns every error into a message and a non-zero constant exit; an entry point never returns (nil, nil). Termination, stack depth and panics inside the dependency are out of reach.",
		trusted: []string{"combinator library semantics (CONCAT yields a list of exactly its operands, REP1 a non-empty list, OPT Empty or the operand)", "sort.Interface contract for Less/Swap indices", "RTA reachability"},
		assumptions: []string{"runtime panics other than assertion/index/explicit panic (nil map write, nil dereference beyond R14.4, stack overflow) are not inventoried"},
	}})
}

// reviewed success results that are non-nil for a reason no structural rule sees
// packages whose combinator shapes could not be inferred completely in this run
var shapeUnknownPkg = map[string]bool{}

var reviewedNonNil = map[string]string{
	"(*internal/ebnf/parser.Parser).ParseAndBuildAST": "the value is popped from the node stack after Parse returned nil; ACCEPT is only reached after the start production was reduced, whose callback pushed an interior node (LR invariant, R4.1/R4.5)",
	"(*internal/ebnf/parser.Parser).ParseAndEvaluate": "the value is popped from the value stack after Parse returned nil; the last reduction pushed a non-nil *lr.Value (fresh allocation in the production callback)",
}

// reviewed index sites: function -> expression (as printed) -> reason
var reviewedIndex = map[string]map[string]string{
	"cmd/emerge.main": {
		"Args[1:]": "os.Args[0] is the program name: the runtime guarantees len(os.Args) >= 1",
	},
	"(*internal/ebnf/parser/spec.Spec).DFA": {
		"s.Definitions[i]": "i ranges over the second result of automata.CombineDFA(ds...), which has one entry per input DFA, and ds was made with len(s.Definitions) (R3.1 checks the parallel-index discipline)",
	},
}

func runC14(c *Ctx) {
	c.Rule("R14.1", 1, "no call of panic in reachable module code")
	c.Rule("R14.2", 120, "every unchecked assertion and every index/slice expression in reachable module code is discharged")
	c.Rule("R14.3", 5, "main: every error becomes a message and a non-zero exit, never a stack trace")
	c.Rule("R14.4", 4, "entry points never return success with a nil result")
	c.Rule("R14.9", 1, "a nil receiver kept and dereferenced inside the dependency cannot crash emerge: calls that reach it recover")
	c.Rule("R14.10", 8, "every explicit panic of the dependency that module code reaches has been read and has a reason")
	c.Rule("R14.5", 1, "a pointer field that some constructor leaves nil is dereferenced only under a nil test")
	c.Rule("R14.7", 3, "a pointer or interface returned together with an error is dereferenced only where the error is known to be nil")
	c.Rule("R14.8", 4, "a counting loop is not bounded by a number written in the input")
	c.Rule("R14.6", 3, "every recursion in module code descends structurally on an argument (its depth is bounded by the nesting of a value, not by the length of the input)")

	curC14 = c
	c.mute = map[string]bool{"R4.2": true}
	g := extractEBNF(c, "R14.2")
	if g == nil {
		return
	}
	// (A)/(B) both evaluators
	evSpec := findEvaluator(c, "R14.2", c.Pkg("internal/ebnf/parser/spec"), g)
	evAst := findEvaluator(c, "R14.2", c.Pkg("internal/ebnf/parser/ast"), g)
	covered := map[token.Pos]bool{} // assertion positions decided by a semantic rule
	for _, ev := range []*evaluator{evSpec, evAst} {
		if ev == nil {
			continue
		}
		ev.check(c, "R14.2", "R14.2", "R14.2")
		ast.Inspect(ev.fd, func(n ast.Node) bool {
			if ta, ok := n.(*ast.TypeAssertExpr); ok {
				covered[ta.Pos()] = true
			}
			if ix, ok := n.(*ast.IndexExpr); ok {
				if _, ok := ev.rhsIndex(ix); ok {
					covered[ix.Pos()] = true
				}
			}
			return true
		})
	}
	// (H) combinator shapes decide the assertions (and list indexing) of the pattern mappers
	for _, pk := range []string{"internal/regex/parser/nfa", "internal/regex/parser/ast"} {
		for pos := range checkCombinatorShapes(c, "R14.2", pk) {
			covered[pos] = true
		}
		if shapeIncomplete[pk] {
			if p := c.Pkg(pk); p != nil {
				shapeUnknownPkg[p.PkgPath] = true
			}
		}
	}
	// (D) REDUCE parameters index productions
	okParams := true
	for _, m := range g.action {
		for _, a := range m {
			if a.typ == "REDUCE" && (a.param < 0 || a.param >= len(g.prods)) {
				okParams = false
			}
		}
	}
	c.Check("R14.2", "every REDUCE parameter of the ACTION table indexes productions", g.actionFn.Pos(), okParams, "a REDUCE entry is out of range: productions[param] panics in the driver")

	// (C) scanner slices: minimum lexeme length
	lexMin := map[token.Pos]bool{}
	if lp := c.Pkg("internal/ebnf/lexer"); lp != nil {
		c.mute["R5.4"] = true
		if s := findScanner(c, "R14.2", lp); s != nil {
			short := s.m.shortestTo()
			for _, lf := range s.leaves {
				if lf.lexeme.kind != "slice" {
					continue
				}
				for _, st := range lf.states {
					w, ok := short[st]
					if !ok {
						continue
					}
					n := len([]rune(w))
					c.Check("R14.2", fmt.Sprintf("lexeme[%d:len-%d] is in bounds in scanner state %d", lf.lexeme.a, lf.lexeme.b, st), lf.pos, n >= lf.lexeme.a+lf.lexeme.b,
						fmt.Sprintf("the shortest lexeme reaching the state has %d characters", n), fmt.Sprintf("%q", w))
					lexMin[lf.pos] = true
				}
			}
		}
	}

	checkCursorInvariant(c, covered)
	// (I) the in-memory reader of the built-in scanner: slices of the text are in bounds by the cursor invariant
	if rd := findReader(c, "R14.2"); rd != nil && rd.kind == "mem" {
		for pos := range checkMemReader(c, "R14.2", rd) {
			covered[pos] = true
		}
	}

	// inventory over reachable module functions
	ri := c.reachableFrom(entryPoints(c)...)
	nIdx, nAssert := 0, 0
	scope := execReach(ri, entryPoints(c))
	var evalSSA *ssa.Function
	if lp := c.Pkg("internal/ebnf/lexer"); lp != nil {
		if s := findScannerQuiet(c, lp); s != nil {
			evalSSA = c.SSAFunc(lp, s.evalFn)
		}
	}
	c.Extra("functions_in_scope", len(scope))
	curScope = scope
	checkErrValueUse(c, "R14.7", scope)
	checkLoopBounds(c, "R14.8", scope)
	checkDependencyPanics(c, "R14.9", ri)
	checkDependencyExplicitPanics(c, "R14.10", ri)
	examinedLines := map[string]bool{}
	noteLine := func(p token.Pos) {
		if p.IsValid() {
			pp := c.Fset.Position(p)
			examinedLines[fmt.Sprintf("%s:%d", pp.Filename, pp.Line)] = true
		}
	}
	for _, f := range scope {
		if f == evalSSA {
			// its slices are decided by the minimum-lexeme-length rule above
			for _, b := range f.Blocks {
				for _, in := range b.Instrs {
					if sl, ok := in.(*ssa.Slice); ok {
						noteLine(sl.Pos())
					}
				}
			}
			continue
		}
		if strings.Contains(fnPkgPath(f), "/generate") && strings.HasSuffix(fnPkgPath(f), "parser/generate") {
			continue
		}
		c.Analysed(shortFn(f))
		for _, b := range f.Blocks {
			for _, in := range b.Instrs {
				switch x := in.(type) {
				case *ssa.Panic:
					if !x.Pos().IsValid() {
						continue // compiler-synthesised check of the range-over-func protocol, not a call of panic in the source
					}
					c.Fail("R14.1", "panic in "+shortFn(f), x.Pos(), "reachable module code calls panic: an input reaching it crashes the entry point instead of returning an error")
				case *ssa.TypeAssert:
					if x.CommaOk || covered[x.Pos()] || coveredNear(covered, c, x.Pos()) {
						continue
					}
					if types.Identical(x.AssertedType, x.X.Type()) {
						continue // nil check of an interface method value (p.m.ToX): not input dependent
					}
					nAssert++
					akey := fmt.Sprintf("unchecked assertion .(%s) in %s", types.TypeString(x.AssertedType, nil), shortFn(f))
					fromParam := false
					fromParam = derivesFromParam(x.X, 0, map[ssa.Value]bool{})
					if fromParam {
						c.Undecided("R14.2", akey, x.Pos(), "the asserted value comes from a parameter: what the callers pass decides it, and no rule follows it here")
						continue
					}
					if shapeUnknownPkg[fnPkgPath(f)] {
						c.Undecided("R14.2", akey, x.Pos(), "the shapes of the combinator results could not all be inferred (an expression was not understood), so the assertions of this package's mappers are not decided")
						continue
					}
					c.Fail("R14.2", akey, x.Pos(),
						"a non-comma-ok type assertion that no rule discharges: it panics when the dynamic type differs")
				case *ssa.IndexAddr:
					nIdx++
					noteLine(x.Pos())
					checkIndexSite(c, f, x, x.X, x.Index, covered, lexMin)
				case *ssa.Index:
					nIdx++
					noteLine(x.Pos())
					checkIndexSite(c, f, x, x.X, x.Index, covered, lexMin)
				case *ssa.Lookup:
					if _, isMap := x.X.Type().Underlying().(*types.Map); !isMap {
						nIdx++
						noteLine(x.Pos())
						checkIndexSite(c, f, x, x.X, x.Index, covered, lexMin)
					}
				case *ssa.Slice:
					if x.Low == nil && x.High == nil {
						continue
					}
					nIdx++
					noteLine(x.Pos())
					checkSliceSite(c, f, x, covered, lexMin)
				}
			}
		}
	}
	nPanic := 0
	for _, o := range c.Obs {
		if o.Rule == "R14.1" && !o.OK {
			nPanic++
		}
	}
	if nPanic == 0 {
		c.Pass("R14.1", "no call of panic in the functions in scope", token.NoPos, fmt.Sprintf("%d functions", len(scope)))
	}
	c.Extra("index_sites_examined", nIdx)
	c.Extra("reachable_module_functions", len(ri.module()))

	checkMainExit(c, "R14.3")
	checkNilSuccess(c, ri)
	checkNilableFields(c, scope)
	checkRecursion(c, ri, scope)
	if c.Tier == "thorough" {
		crossCheckBCE(c, scope, examinedLines)
	}
}

func coveredNear(covered map[token.Pos]bool, c *Ctx, p token.Pos) bool {
	// ssa.TypeAssert.Pos() is the position of the '(' of the assertion; ast TypeAssertExpr.Pos() is the start of X.
	// Match by file and line.
	if !p.IsValid() {
		return false
	}
	pp := c.Fset.Position(p)
	for q := range covered {
		qq := c.Fset.Position(q)
		if qq.Filename == pp.Filename && qq.Line == pp.Line {
			return true
		}
	}
	return false
}

func sameValue(a, b ssa.Value) bool {
	if a == b {
		return true
	}
	pa, pb := accessPath(a), accessPath(b)
	return pa != "" && pa == pb
}

// lenOf: does v denote len(x)?  (len(y) with y the same value/access path as x, or the length x was made with)
func lenOf(v ssa.Value, x ssa.Value) bool {
	if call, ok := v.(*ssa.Call); ok {
		if b, ok := call.Call.Value.(*ssa.Builtin); ok && b.Name() == "len" && sameValue(call.Call.Args[0], x) {
			return true
		}
	}
	if mk := madeSliceOf(x); mk != nil {
		if mk.Len == v {
			return true
		}
		a, ok1 := mk.Len.(*ssa.Call)
		b, ok2 := v.(*ssa.Call)
		if ok1 && ok2 {
			ba, oka := a.Call.Value.(*ssa.Builtin)
			bb, okb := b.Call.Value.(*ssa.Builtin)
			if oka && okb && ba.Name() == "len" && bb.Name() == "len" && sameValue(a.Call.Args[0], b.Call.Args[0]) {
				return true
			}
		}
	}
	return false
}

// boundedBy: do the controlling conditions of block b imply idx < len(x)?
func boundedBy(b *ssa.BasicBlock, idx, x ssa.Value) bool {
	if boundedBy1(b, idx, 0, x) {
		return true
	}
	// idx may be i+1 with a bound on i
	if bo, ok := idx.(*ssa.BinOp); ok && bo.Op == token.ADD {
		if k, ok := bo.Y.(*ssa.Const); ok && isConstInt(k, 1) {
			return boundedBy1(b, bo.X, 1, x)
		}
	}
	// a constant index with a dominating test on the length
	if k, ok := idx.(*ssa.Const); ok && k.Value != nil {
		return lenAtLeast(b, x, k.Int64()+1)
	}
	return false
}

func stripConv(v ssa.Value) ssa.Value {
	for {
		switch x := v.(type) {
		case *ssa.Convert:
			v = x.X
			continue
		case *ssa.ChangeType:
			v = x.X
			continue
		}
		return v
	}
}

// nonNegative: the index cannot be negative (unsigned, a constant, a loop counter, or excluded by a dominating test).
func nonNegative(b *ssa.BasicBlock, idx ssa.Value) bool {
	idx = stripConv(idx)
	if bt, ok := idx.Type().Underlying().(*types.Basic); ok && bt.Info()&types.IsUnsigned != 0 {
		return true
	}
	switch x := idx.(type) {
	case *ssa.Const:
		return x.Value != nil && x.Int64() >= 0
	case *ssa.Phi:
		return true // loop counters start at a length-derived or constant value and are bounded by their loop test
	case *ssa.BinOp:
		if _, isPhi := x.X.(*ssa.Phi); isPhi {
			return true
		}
	case *ssa.Call:
		return true // len(..), rand.Intn(..)
	}
	for _, cd := range controlConds(b) {
		bo, ok := cd.v.(*ssa.BinOp)
		if !ok || stripConv(bo.X) != idx {
			continue
		}
		if (bo.Op == token.LSS && !cd.pol && isConstInt(bo.Y, 0)) || (bo.Op == token.GEQ && cd.pol && isConstInt(bo.Y, 0)) {
			return true
		}
	}
	// the same tests written with the constant on the left: 0 <= idx, !(0 > idx); and idx > -1
	for _, cd := range controlConds(b) {
		bo, ok := cd.v.(*ssa.BinOp)
		if !ok {
			continue
		}
		if stripConv(bo.Y) == idx && isConstInt(bo.X, 0) {
			if (bo.Op == token.LEQ && cd.pol) || (bo.Op == token.GTR && !cd.pol) {
				return true
			}
		}
		if stripConv(bo.X) == idx && isConstInt(bo.Y, -1) && ((bo.Op == token.GTR && cd.pol) || (bo.Op == token.LEQ && !cd.pol)) {
			return true
		}
	}
	return false
}

func boundedBy1(b *ssa.BasicBlock, base ssa.Value, off int64, x ssa.Value) bool {
	base = stripConv(base)
	if !nonNegative(b, base) {
		return false
	}
	if boundedWith(controlConds(b), base, off, x) {
		return true
	}
	// a value merged from several paths: bounded if it is bounded on every incoming edge
	if phi, ok := base.(*ssa.Phi); ok && off == 0 && phi.Block() != nil {
		all := len(phi.Edges) > 0
		for i, e := range phi.Edges {
			pred := phi.Block().Preds[i]
			conds := condsOnEdge(pred, phi.Block())
			ev, eoff := stripConv(e), int64(0)
			okEdge := boundedWith(conds, ev, 0, x)
			if !okEdge {
				if bo, isBo := ev.(*ssa.BinOp); isBo && bo.Op == token.ADD && isConstInt(bo.Y, 1) {
					ev, eoff = bo.X, 1
					okEdge = boundedWith(conds, ev, eoff, x)
				}
			}
			if !okEdge {
				all = false
			}
		}
		if all {
			return true
		}
	}
	return false
}

// condsOnEdge: conditions known when control flows from pred to succ.
func condsOnEdge(pred, succ *ssa.BasicBlock) []cond {
	out := controlConds(pred)
	if ifi, ok := pred.Instrs[len(pred.Instrs)-1].(*ssa.If); ok && pred.Succs[0] != pred.Succs[1] {
		if pred.Succs[0] == succ {
			out = append(out, cond{ifi.Cond, true})
		} else if pred.Succs[1] == succ {
			out = append(out, cond{ifi.Cond, false})
		}
	}
	// short-circuit chains: a block that only evaluates the second operand of && inherits the first operand's outcome
	return out
}

func boundedWith(conds []cond, base ssa.Value, off int64, x ssa.Value) bool {
	for _, cd := range conds {
		bo, ok := cd.v.(*ssa.BinOp)
		if !ok {
			continue
		}
		// base < len(x) [- off]   (true branch)   or   len(x) > base
		l, r, op := bo.X, bo.Y, bo.Op
		if !cd.pol {
			switch op {
			case token.GEQ:
				op = token.LSS
			case token.LEQ:
				op = token.GTR
			default:
				continue
			}
		}
		if op == token.GTR {
			l, r, op = r, l, token.LSS
		}
		if op != token.LSS {
			continue
		}
		// (base + off) < len(x), written as its own addition (SSA has no common-subexpression elimination)
		if off > 0 {
			if add, ok := stripConv(l).(*ssa.BinOp); ok && add.Op == token.ADD && stripConv(add.X) == base && isConstInt(add.Y, off) && lenOf(r, x) {
				return true
			}
		}
		if stripConv(l) != base {
			continue
		}
		if off == 0 && lenOf(r, x) {
			return true
		}
		if sub, ok := r.(*ssa.BinOp); ok && sub.Op == token.SUB && lenOf(sub.X, x) && isConstInt(sub.Y, off) {
			return true
		}
		if off == 0 {
			if sub, ok := r.(*ssa.BinOp); ok && sub.Op == token.SUB && lenOf(sub.X, x) {
				return true // i < len(x)-k implies i < len(x)
			}
		}
	}
	return false
}

// isRangeIndex: idx is the induction variable of a loop bounded by len(x) (covers `for i := range x`, rotated and header forms).
func isRangeIndex(idx, x ssa.Value) bool {
	phi, ok := idx.(*ssa.Phi)
	if !ok {
		return false
	}
	// ascending: phi [ -1 or 0, phi+1 ] with a compare against len(x) somewhere among the users of phi or phi+1
	for _, e := range phi.Edges {
		bo, ok := e.(*ssa.BinOp)
		if !ok || bo.Op != token.ADD || bo.X != ssa.Value(phi) {
			continue
		}
		for _, v := range []ssa.Value{phi, bo} {
			for _, r := range *v.Referrers() {
				if cmp, ok := r.(*ssa.BinOp); ok && cmp.Op == token.LSS && cmp.X == v && lenOf(cmp.Y, x) {
					return true
				}
			}
		}
	}
	return false
}

// descendingFromLen: idx is phi [len(x)-1, phi-1] tested >= 0.
func descendingFromLen(idx, x ssa.Value) bool {
	phi, ok := idx.(*ssa.Phi)
	if !ok {
		return false
	}
	initOK, decOK := false, false
	for _, e := range phi.Edges {
		if bo, ok := e.(*ssa.BinOp); ok && bo.Op == token.SUB && isConstInt(bo.Y, 1) {
			if lenOf(bo.X, x) {
				initOK = true
			}
			if bo.X == ssa.Value(phi) {
				decOK = true
			}
		}
	}
	if !initOK || !decOK {
		return false
	}
	for _, r := range *phi.Referrers() {
		if cmp, ok := r.(*ssa.BinOp); ok && cmp.Op == token.GEQ && cmp.X == ssa.Value(phi) && isConstInt(cmp.Y, 0) {
			return true
		}
	}
	return false
}

func checkIndexSite(c *Ctx, f *ssa.Function, in ssa.Instruction, x, idx ssa.Value, covered, lexMin map[token.Pos]bool) {
	if coveredNear(covered, c, in.Pos()) {
		return
	}
	key := fmt.Sprintf("index %s in %s", describeIndex(f, x, idx), shortFn(f))
	// arrays with constant index
	t := x.Type()
	if p, ok := t.Underlying().(*types.Pointer); ok {
		t = p.Elem()
	}
	if arr, ok := t.Underlying().(*types.Array); ok {
		if k, ok := idx.(*ssa.Const); ok {
			if n := k.Int64(); n >= 0 && n < arr.Len() {
				return // compiler-checked
			}
		}
	}
	// a constant index into a slice that was just made with a constant length: make([]T, n, c)[k], k < n
	if k, ok := idx.(*ssa.Const); ok && k.Value != nil && k.Int64() >= 0 {
		switch m := x.(type) {
		case *ssa.MakeSlice:
			if n, ok := m.Len.(*ssa.Const); ok && n.Value != nil && k.Int64() < n.Int64() {
				c.Pass("R14.2", key, in.Pos(), "constant index below the constant length of a fresh slice")
				return
			}
		case *ssa.Slice:
			if al, ok := m.X.(*ssa.Alloc); ok {
				if arr, ok := al.Type().Underlying().(*types.Pointer).Elem().Underlying().(*types.Array); ok {
					n := arr.Len()
					if h, ok := m.High.(*ssa.Const); ok && h.Value != nil {
						n = h.Int64()
					} else if m.High != nil {
						n = -1
					}
					if (m.Low == nil || isConstInt(m.Low, 0)) && k.Int64() < n {
						c.Pass("R14.2", key, in.Pos(), "constant index below the constant length of a fresh slice")
						return
					}
				}
			}
		}
	}
	// varargs / literal backing arrays created by the compiler
	if a, ok := x.(*ssa.Alloc); ok {
		if _, isArr := a.Type().Underlying().(*types.Pointer).Elem().Underlying().(*types.Array); isArr {
			if _, ok := idx.(*ssa.Const); ok {
				return
			}
		}
	}
	switch {
	case isRangeIndex(idx, x), descendingFromLen(idx, x), boundedBy(in.Block(), idx, x):
		c.Pass("R14.2", key, in.Pos(), "bounded by len of the same operand")
		return
	case isRandIntnLen(idx, x):
		c.Pass("R14.2", key, in.Pos(), "index is rand.Intn(len(x))")
		return
	case isSortInterfaceMethod(f):
		c.Pass("R14.2", key, in.Pos(), "indices supplied by package sort under the sort.Interface contract")
		return
	case isProdIndexByParam(c, f, x, idx):
		c.Pass("R14.2", key, in.Pos(), "index is a production index supplied by the driver from REDUCE entries (all in range)")
		return
	case isEqualLenGuard(in.Block(), idx, x):
		c.Pass("R14.2", key, in.Pos(), "index ranges over a slice of equal length (guarded)")
		return
	}
	if why, ok := reviewedIndex[shortFn(f)][describeIndex(f, x, idx)]; ok {
		c.Pass("R14.2", key, in.Pos(), "reviewed: "+why)
		return
	}
	if constIndexAtAllCallSites(c, f, x, idx) {
		c.Pass("R14.2", key, in.Pos(), "the index is a parameter and every call site passes a constant inside the array")
		return
	}
	// exact case: the operand has a constant length and the index is compared with constants only: the interval decides
	if n, ok := constLenOf(x); ok {
		if lo, hi, hasLo, hasHi, any := constInterval(in.Block(), idx); any {
			if hasLo && lo >= 0 && hasHi && hi < n {
				c.Pass("R14.2", key, in.Pos(), fmt.Sprintf("the index is in [%d, %d] and the operand has %d elements", lo, hi, n))
				return
			}
			// the counter of a range loop (phi [-1, phi+1] + 1, or phi [0, phi+1]) never goes below zero
			if hasHi && hi < n && countsUpFromZero(idx) {
				c.Pass("R14.2", key, in.Pos(), fmt.Sprintf("the index counts up from 0 and stays below %d; the operand has %d elements", hi+1, n))
				return
			}
			miss := "an upper bound below the length"
			if hasHi && hi < n {
				miss = "a lower bound (the index is signed and can be negative)"
			}
			c.Fail("R14.2", key, in.Pos(), fmt.Sprintf("the operand has %d elements and the guards compare the index with constants only, but they do not establish %s", n, miss))
			return
		}
	}
	// the index ranges over one collection while the operand was sized by another
	if mk := madeSliceOf(x); mk != nil {
		if rng := rangedCollection(idx); rng != nil {
			if call, ok := mk.Len.(*ssa.Call); ok {
				if bi, ok := call.Call.Value.(*ssa.Builtin); ok && bi.Name() == "len" && !sameValue(call.Call.Args[0], rng) {
					c.Fail("R14.2", key, in.Pos(), "the index ranges over "+describeVal(rng)+" but the operand was made with the length of "+describeVal(call.Call.Args[0])+": nothing relates the two lengths")
					return
				}
			}
		}
	}
	// a constant index into a slice parameter: what the callers pass decides it. Every static call site in the module is asked
	// for the least number of elements it can pass (a literal's length, appends that happen on every path, the smaller of two
	// branches; appends inside loops and conditionals do not count).
	if k, isK := idx.(*ssa.Const); isK && k.Value != nil && k.Int64() >= 0 {
		if prm, isPrm := x.(*ssa.Parameter); isPrm {
			pi := -1
			for i, q := range f.Params {
				if q == prm {
					pi = i
				}
			}
			need := k.Int64() + 1
			sites, short, unknown := 0, "", false
			for _, g := range curScope {
				allCalls(g, func(call ssa.CallInstruction) {
					if call.Common().StaticCallee() != f || pi < 0 || pi >= len(call.Common().Args) {
						return
					}
					sites++
					m := minLenOf(call.Common().Args[pi], map[ssa.Value]bool{}, 0)
					switch {
					case m < 0:
						unknown = true
					case m < need && short == "":
						short = fmt.Sprintf("%s can pass %d element(s) at %s", shortFn(g), m, c.rel(call.Pos()))
					}
				})
			}
			// what the path to the index knows about the length
			lower := int64(0)
			for _, cd := range controlConds(in.Block()) {
				if bo, ok := cd.v.(*ssa.BinOp); ok {
					if lc, ok := bo.X.(*ssa.Call); ok {
						if bi, ok := lc.Call.Value.(*ssa.Builtin); ok && bi.Name() == "len" && lc.Call.Args[0] == x {
							if kk, ok := bo.Y.(*ssa.Const); ok && kk.Value != nil {
								v := kk.Int64()
								switch {
								case bo.Op == token.GTR && cd.pol, bo.Op == token.LEQ && !cd.pol:
									lower = max(lower, v+1)
								case bo.Op == token.GEQ && cd.pol, bo.Op == token.LSS && !cd.pol:
									lower = max(lower, v)
								case bo.Op == token.NEQ && cd.pol && v == 0, bo.Op == token.EQL && !cd.pol && v == 0:
									lower = max(lower, 1)
								case bo.Op == token.EQL && cd.pol:
									lower = max(lower, v)
								}
							}
						}
					}
				}
			}
			if lower < need && sites > 0 {
				switch {
				case short != "":
					c.Fail("R14.2", key, in.Pos(), fmt.Sprintf("the path to this index knows the slice to hold at least %d element(s), the index needs %d, and %s: the index panics", lower, need, short),
						"a pattern that leaves the list empty, e.g. a{0} or a sub-expression made of anchors only")
					return
				case !unknown:
					c.Pass("R14.2", key, in.Pos(), fmt.Sprintf("every one of the %d call sites passes at least %d element(s)", sites, need))
					return
				}
			}
		}
	}
	// Definite versus undecided: an index that nothing dominating ever compares with anything (and that is not a parameter
	// a caller could have checked) is unguarded; when some comparison on the index or on a length dominates the site, a guard
	// exists that this analysis cannot connect to the operand's length (new helper, different representation): undecided.
	if why := someGuard(f, in.Block(), idx, x); why != "" {
		if why == "a dominating comparison involves the index" && !nonNegative(in.Block(), idx) {
			c.Fail("R14.2", key, in.Pos(), "the index is a signed value that the guards bound from above only: nothing establishes that it is not negative")
			return
		}
		c.Undecided("R14.2", key, in.Pos(), "the index is guarded ("+why+") but no rule connects the guard to the length of the operand")
		return
	}
	c.Fail("R14.2", key, in.Pos(), "nothing compares this index with a bound before it is used: an input choosing the index or the length makes it panic")
}

// someGuard: a reason to believe the index site is guarded in a way the bound rules do not understand; "" if there is none.
func someGuard(f *ssa.Function, b *ssa.BasicBlock, idx, x ssa.Value) string {
	// values the index is computed from (through +, -, conversions, phis)
	fam := map[ssa.Value]bool{}
	var grow func(v ssa.Value, d int)
	grow = func(v ssa.Value, d int) {
		if v == nil || fam[v] || d > 8 {
			return
		}
		fam[v] = true
		switch t := v.(type) {
		case *ssa.BinOp:
			grow(t.X, d+1)
			grow(t.Y, d+1)
		case *ssa.Convert:
			grow(t.X, d+1)
		case *ssa.ChangeType:
			grow(t.X, d+1)
		case *ssa.Phi:
			for _, e := range t.Edges {
				grow(e, d+1)
			}
		case *ssa.UnOp:
			grow(t.X, d+1)
		}
	}
	grow(idx, 0)
	for v := range fam {
		switch t := v.(type) {
		case *ssa.Parameter, *ssa.FreeVar:
			return "it is (computed from) a parameter, which the callers may have checked"
		case *ssa.Phi:
			return "it is a loop-carried counter"
		case *ssa.Call:
			// len(x) - k on the same operand: in bounds iff the operand has at least k elements, an invariant of the structure
			// (a stack that is never empty) that is established where it is built, not here
			if bi, ok := t.Call.Value.(*ssa.Builtin); ok && bi.Name() == "len" && len(t.Call.Args) == 1 && x != nil && sameValue(t.Call.Args[0], x) {
				return "it is computed from the length of the operand itself"
			}
		}
	}
	isLen := func(v ssa.Value) bool {
		call, ok := v.(*ssa.Call)
		if !ok {
			return false
		}
		bi, ok := call.Call.Value.(*ssa.Builtin)
		return ok && (bi.Name() == "len" || bi.Name() == "cap")
	}
	for _, cd := range controlConds(b) {
		bo, ok := cd.v.(*ssa.BinOp)
		if !ok {
			continue
		}
		switch bo.Op {
		case token.LSS, token.LEQ, token.GTR, token.GEQ, token.EQL, token.NEQ:
		default:
			continue
		}
		for _, side := range []ssa.Value{bo.X, bo.Y} {
			if fam[side] {
				return "a dominating comparison involves the index"
			}
			if isLen(side) {
				return "a dominating comparison involves a length"
			}
		}
	}
	// a value kept in a struct field: the type may maintain an invariant about it that is established where the field is written
	for v := range fam {
		if u, ok := v.(*ssa.UnOp); ok && u.Op == token.MUL {
			if _, ok := u.X.(*ssa.FieldAddr); ok {
				return "it is kept in a struct field, whose invariant is established where the field is written"
			}
		}
	}
	return ""
}

// constIndexAtAllCallSites: the operand is an array (length in its type) and the index is a parameter of f for which every
// static call site in the module passes a constant within the array.
func constIndexAtAllCallSites(c *Ctx, f *ssa.Function, x, idx ssa.Value) bool {
	t := x.Type()
	if p, ok := t.Underlying().(*types.Pointer); ok {
		t = p.Elem()
	}
	arr, ok := t.Underlying().(*types.Array)
	if !ok {
		return false
	}
	v := idx
	for {
		if cv, ok := v.(*ssa.Convert); ok {
			v = cv.X
			continue
		}
		if ct, ok := v.(*ssa.ChangeType); ok {
			v = ct.X
			continue
		}
		break
	}
	par, ok := v.(*ssa.Parameter)
	if !ok {
		return false
	}
	pi := -1
	for i, p := range f.Params {
		if p == par {
			pi = i
		}
	}
	if pi < 0 {
		return false
	}
	n := 0
	okAll := true
	for path, sp := range c.SSAPk {
		if sp == nil || !strings.HasPrefix(path, modPath) {
			continue
		}
		for _, g := range allFuncsOfPkgDeep(sp) {
			allCalls(g, func(call ssa.CallInstruction) {
				if call.Common().StaticCallee() != f {
					return
				}
				n++
				args := call.Common().Args
				if pi >= len(args) {
					okAll = false
					return
				}
				k, isK := args[pi].(*ssa.Const)
				if !isK || k.Value == nil || k.Int64() < 0 || k.Int64() >= arr.Len() {
					okAll = false
				}
			})
		}
	}
	return n > 0 && okAll
}

func checkSliceSite(c *Ctx, f *ssa.Function, x *ssa.Slice, covered, lexMin map[token.Pos]bool) {
	if coveredNear(covered, c, x.Pos()) || coveredNear(lexMin, c, x.Pos()) {
		return
	}
	// slicing a compiler-made array fully (varargs) is x[:] and was skipped; remaining: s[a:b]
	key := fmt.Sprintf("slice %s in %s", describeSlice(f, x), shortFn(f))
	// a fresh array (make with constant length and capacity compiles to one) cut with constant bounds inside it
	if al, ok := x.X.(*ssa.Alloc); ok {
		if arr, ok := al.Type().Underlying().(*types.Pointer).Elem().Underlying().(*types.Array); ok {
			hiOK := x.High == nil
			if hk, ok := x.High.(*ssa.Const); ok && hk.Value != nil && hk.Int64() >= 0 && hk.Int64() <= arr.Len() {
				hiOK = true
			}
			loOK := x.Low == nil
			if lk, ok := x.Low.(*ssa.Const); ok && lk.Value != nil && lk.Int64() >= 0 && lk.Int64() <= arr.Len() {
				loOK = true
			}
			if hiOK && loOK {
				c.Pass("R14.2", key, x.Pos(), "constant bounds inside a fresh array")
				return
			}
		}
	}
	// make([]T, n, c) with constants is a fresh slice of capacity c cut to n
	if mk, ok := x.X.(*ssa.MakeSlice); ok {
		if capK, ok := mk.Cap.(*ssa.Const); ok && capK.Value != nil {
			hiOK := x.High == nil
			if hk, ok := x.High.(*ssa.Const); ok && hk.Value != nil && hk.Int64() >= 0 && hk.Int64() <= capK.Int64() {
				hiOK = true
			}
			loOK := x.Low == nil || isConstInt(x.Low, 0)
			if hiOK && loOK {
				c.Pass("R14.2", key, x.Pos(), "a fresh make with constant capacity, cut within it")
				return
			}
		}
	}
	// s[i:] or s[:i] with i bounded
	okLow := x.Low == nil || isConstInt(x.Low, 0)
	okHigh := x.High == nil
	if x.Low != nil && !okLow {
		if k, ok := x.Low.(*ssa.Const); ok {
			// s[k:] needs len(s) >= k: look for a dominating test on len(s)
			okLow = lenAtLeast(x.Block(), x.X, k.Int64())
		}
	}
	if x.High != nil {
		if k, ok := x.High.(*ssa.Const); ok {
			okHigh = lenAtLeast(x.Block(), x.X, k.Int64())
		} else if boundedBy(x.Block(), x.High, x.X) {
			okHigh = true
		}
	}
	if okLow && okHigh {
		c.Pass("R14.2", key, x.Pos(), "bounds established by dominating length tests")
		return
	}
	// a bound found by a search in the very operand: bytes/strings Index..., LastIndex... return -1 <= i < len(s), so
	// s[i+1:] is always in bounds and s[i:], s[:i] are where i was tested against -1 / 0
	{
		searchIn := func(v ssa.Value) (ssa.Value, bool) {
			call, ok := v.(*ssa.Call)
			if !ok || len(call.Call.Args) < 1 {
				return nil, false
			}
			n := staticCalleeName(call)
			if !(strings.HasPrefix(n, "bytes.") || strings.HasPrefix(n, "strings.")) || !strings.Contains(n, "Index") {
				return nil, false
			}
			same := func(a, b ssa.Value) bool {
				for i := 0; i < 3; i++ {
					if cv, ok := a.(*ssa.Convert); ok {
						a = cv.X
						continue
					}
					break
				}
				for i := 0; i < 3; i++ {
					if cv, ok := b.(*ssa.Convert); ok {
						b = cv.X
						continue
					}
					break
				}
				return a == b
			}
			if !same(call.Call.Args[0], x.X) {
				return nil, false
			}
			return call, true
		}
		nonNeg := func(idx ssa.Value) bool {
			for _, cd := range controlConds(x.Block()) {
				bo, ok := cd.v.(*ssa.BinOp)
				if !ok || bo.X != idx {
					continue
				}
				k, ok := bo.Y.(*ssa.Const)
				if !ok || k.Value == nil {
					continue
				}
				switch {
				case bo.Op == token.GEQ && k.Int64() == 0 && cd.pol, bo.Op == token.LSS && k.Int64() == 0 && !cd.pol,
					bo.Op == token.NEQ && k.Int64() == -1 && cd.pol, bo.Op == token.EQL && k.Int64() == -1 && !cd.pol,
					bo.Op == token.GTR && k.Int64() == -1 && cd.pol:
					return true
				}
			}
			return false
		}
		boundOK := func(bv ssa.Value) bool {
			if bv == nil {
				return true
			}
			if bo, ok := bv.(*ssa.BinOp); ok && bo.Op == token.ADD && isConstInt(bo.Y, 1) {
				if _, ok := searchIn(bo.X); ok {
					return true
				}
			}
			if idx, ok := searchIn(bv); ok && nonNeg(idx) {
				return true
			}
			return false
		}
		lo := okLow || boundOK(x.Low)
		hi := okHigh || boundOK(x.High)
		if lo && hi && (x.Low == nil || x.High == nil || okLow || okHigh) {
			c.Pass("R14.2", key, x.Pos(), "a bound returned by a search in the operand itself (-1 <= i < len)")
			return
		}
	}
	if why, ok := reviewedIndex[shortFn(f)][describeSlice(f, x)]; ok {
		c.Pass("R14.2", key, x.Pos(), "reviewed: "+why)
		return
	}
	var why string
	for _, bv := range []ssa.Value{x.Low, x.High} {
		if bv == nil {
			continue
		}
		if _, isConst := bv.(*ssa.Const); isConst {
			// a constant bound needs a test on the length
			for _, cd := range controlConds(x.Block()) {
				if bo, ok := cd.v.(*ssa.BinOp); ok {
					for _, side := range []ssa.Value{bo.X, bo.Y} {
						if call, ok := side.(*ssa.Call); ok {
							if bi, ok := call.Call.Value.(*ssa.Builtin); ok && bi.Name() == "len" {
								why = "a dominating comparison involves a length"
							}
						}
					}
				}
			}
			continue
		}
		if w := someGuard(f, x.Block(), bv, x.X); w != "" {
			why = w
		}
	}
	if why == "" {
		// a bound computed from the operand's own length (s[:len(s)-k]): in range exactly when 0 <= k <= len(s), which is an
		// invariant of the data (the height of an LR stack against the length of a handle), not something a guard shows
		for _, bv := range []ssa.Value{x.Low, x.High} {
			if bo, ok := bv.(*ssa.BinOp); ok && bo.Op == token.SUB {
				if call, ok := bo.X.(*ssa.Call); ok {
					if bi, ok := call.Call.Value.(*ssa.Builtin); ok && bi.Name() == "len" && sameSliceValue(call.Call.Args[0], x.X) {
						why = "it is computed from the length of the operand itself"
					}
				}
			}
		}
	}
	if why != "" {
		c.Undecided("R14.2", key, x.Pos(), "the bounds are guarded ("+why+") but no rule connects the guard to the length of the operand")
		return
	}
	c.Fail("R14.2", key, x.Pos(), "nothing compares the slice bounds with a length before they are used")
}

// lenAtLeast: the controlling conditions imply len(x) >= k.
func lenAtLeast(b *ssa.BasicBlock, x ssa.Value, k int64) bool {
	if k <= 0 {
		return true
	}
	for _, cd := range controlConds(b) {
		bo, ok := cd.v.(*ssa.BinOp)
		if !ok || !lenOf(bo.X, x) {
			continue
		}
		n, ok := bo.Y.(*ssa.Const)
		if !ok {
			continue
		}
		v := n.Int64()
		switch {
		case cd.pol && bo.Op == token.GEQ && v >= k, cd.pol && bo.Op == token.GTR && v >= k-1, cd.pol && bo.Op == token.EQL && v >= k,
			!cd.pol && bo.Op == token.LSS && v >= k, !cd.pol && bo.Op == token.LEQ && v >= k-1:
			return true
		}
	}
	return false
}

func isRandIntnLen(idx, x ssa.Value) bool {
	call, ok := idx.(*ssa.Call)
	if !ok || len(call.Call.Args) != 1 {
		return false
	}
	n := staticCalleeName(call)
	return (n == "math/rand.Intn" || n == "math/rand/v2.IntN") && lenOf(call.Call.Args[0], x)
}

func isSortInterfaceMethod(f *ssa.Function) bool {
	if f.Signature.Recv() == nil {
		return false
	}
	return f.Name() == "Less" || f.Name() == "Swap"
}

func isProdIndexByParam(c *Ctx, f *ssa.Function, x, idx ssa.Value) bool {
	// productions[i] where i is a parameter of a closure/function in the parser package that the driver calls with ACTION's REDUCE parameter
	if !strings.HasSuffix(fnPkgPath(f), "internal/ebnf/parser") {
		return false
	}
	u, ok := x.(*ssa.UnOp)
	if !ok {
		return false
	}
	gl, ok := u.X.(*ssa.Global)
	if !ok {
		return false
	}
	// the package-level list of productions, found by its type ([]*grammar.Production), not by its name
	pt, isPtr := gl.Type().(*types.Pointer)
	if !isPtr {
		return false
	}
	el := sliceElem(pt.Elem())
	ep, isPP := el.(*types.Pointer)
	if el == nil || !isPP || !typeIs(ep.Elem(), "grammar", "Production") {
		return false
	}
	switch v := idx.(type) {
	case *ssa.Parameter:
		return true
	case *ssa.Extract:
		// ACTION's parameter in the driver
		if call, ok := v.Tuple.(*ssa.Call); ok && call.Call.StaticCallee() != nil && v.Index == 1 {
			return true
		}
	}
	return false
}

// isEqualLenGuard: idx ranges over y and the block is reached only when len(y) == len(x).
func isEqualLenGuard(b *ssa.BasicBlock, idx, x ssa.Value) bool {
	for _, cd := range controlConds(b) {
		bo, ok := cd.v.(*ssa.BinOp)
		if !ok {
			continue
		}
		eq := (bo.Op == token.EQL && cd.pol) || (bo.Op == token.NEQ && !cd.pol)
		if !eq {
			continue
		}
		lx, okx := bo.X.(*ssa.Call)
		ly, oky := bo.Y.(*ssa.Call)
		if !okx || !oky {
			continue
		}
		for _, pair := range [][2]*ssa.Call{{lx, ly}, {ly, lx}} {
			if lenOf(pair[0], x) {
				if bl, ok := pair[1].Call.Value.(*ssa.Builtin); ok && bl.Name() == "len" && isRangeIndex(idx, pair[1].Call.Args[0]) {
					return true
				}
			}
		}
	}
	return false
}

func describeIndex(f *ssa.Function, x, idx ssa.Value) string {
	return describeVal(x) + "[" + describeVal(idx) + "]"
}

func describeSlice(f *ssa.Function, s *ssa.Slice) string {
	lo, hi := "", ""
	if s.Low != nil {
		lo = describeVal(s.Low)
	}
	if s.High != nil {
		hi = describeVal(s.High)
	}
	return describeVal(s.X) + "[" + lo + ":" + hi + "]"
}

func describeVal(v ssa.Value) string {
	if p := accessPath(v); p != "" {
		return p
	}
	switch x := v.(type) {
	case *ssa.Const:
		return x.Value.ExactString()
	case *ssa.UnOp:
		if g, ok := x.X.(*ssa.Global); ok {
			return g.Name()
		}
		if fa, ok := x.X.(*ssa.FieldAddr); ok {
			return fieldName(fa)
		}
		return describeVal(x.X)
	case *ssa.Call:
		if n := staticCalleeName(x); n != "" {
			return n[strings.LastIndex(n, "/")+1:] + "(..)"
		}
		if b, ok := x.Call.Value.(*ssa.Builtin); ok {
			return b.Name() + "(..)"
		}
	case *ssa.Extract:
		return describeVal(x.Tuple) + fmt.Sprintf("#%d", x.Index)
	case *ssa.TypeAssert:
		return describeVal(x.X) + ".(" + types.TypeString(x.AssertedType, func(*types.Package) string { return "" }) + ")"
	case *ssa.Phi:
		return "i"
	case *ssa.BinOp:
		if _, isPhi := x.X.(*ssa.Phi); isPhi && x.Op == token.ADD && isConstInt(x.Y, 1) {
			return "i" // the index of a range loop
		}
		return describeVal(x.X) + x.Op.String() + describeVal(x.Y)
	case *ssa.Convert:
		return describeVal(x.X)
	case *ssa.Lookup:
		return describeVal(x.X) + "[" + describeVal(x.Index) + "]"
	case *ssa.Alloc:
		return x.Comment
	case *ssa.Global:
		return x.Name()
	}
	return v.Name()
}

// checkNilSuccess: each entry point's success return carries a non-nil result.
func checkNilSuccess(c *Ctx, ri *reachInfo) {
	for _, f := range entryPoints(c) {
		res := f.Signature.Results()
		if res.Len() != 2 || !isErr(res.At(1).Type()) {
			continue
		}
		switch res.At(0).Type().Underlying().(type) {
		case *types.Pointer, *types.Interface, *types.Slice, *types.Map:
		default:
			continue
		}
		n := 0
		for _, b := range f.Blocks {
			ret, ok := b.Instrs[len(b.Instrs)-1].(*ssa.Return)
			if !ok {
				continue
			}
			if !isNilConst(retOperand(ret, 1)) {
				// `return helper(...)`: both results are what a function of the module returns; its success returns count
				if e0, ok := retOperand(ret, 0).(*ssa.Extract); ok {
					if e1, ok := retOperand(ret, 1).(*ssa.Extract); ok && e0.Tuple == e1.Tuple && e0.Index == 0 && e1.Index == 1 {
						if call, ok := e0.Tuple.(*ssa.Call); ok {
							if callee := call.Call.StaticCallee(); callee != nil && strings.HasPrefix(fnPkgPath(callee), modPath) && len(callee.Blocks) > 0 {
								if valueNonNilByConstruction(call, 0) {
									n++
									c.Pass("R14.4", "success return of "+shortFn(f)+" carries a result", ret.Pos(), "the results of "+shortFn(callee)+" are returned as they are, and its success returns carry a result")
								}
							}
						}
					}
				}
				continue
			}
			n++
			v := retOperand(ret, 0)
			good := false
			why := ""
			switch x := v.(type) {
			case *ssa.Alloc:
				good = true
			case *ssa.MakeInterface:
				good = !isNilConst(x.X)
			case *ssa.TypeAssert:
				good = true // a successful assertion to a concrete pointer type yields the asserted dynamic value; nil-valued pointers excluded by the sort rule (fresh allocations)
			case *ssa.Const:
				good = !x.IsNil()
				why = "returns the nil constant with a nil error"
			default:
				good = valueNonNilByConstruction(v, 0)
				if why2, ok := reviewedNonNil[shortFn(f)]; ok && !good {
					c.Pass("R14.4", "success return of "+shortFn(f)+" carries a result", ret.Pos(), "reviewed: "+why2)
					continue
				}
				if !good {
					why = "result " + describeVal(v) + " is not a fresh allocation, a successful assertion or the non-nil result of a constructor"
				}
			}
			c.Check("R14.4", "success return of "+shortFn(f)+" carries a result", ret.Pos(), good, "a (nil, nil) return is possible: "+why)
		}
		if n == 0 {
			c.Undecided("R14.4", "entry point "+shortFn(f)+" has a success return", f.Pos(), "no return with a constant nil error was found: the results are passed on from somewhere this rule does not follow")
		}
	}
}

// valueNonNilByConstruction: value is the first result of a call whose own success returns are non-nil by construction,
// or an extract/field of such; shallow (depth 2).
func valueNonNilByConstruction(v ssa.Value, depth int) bool {
	if depth > 8 {
		return false
	}
	switch x := v.(type) {
	case *ssa.Alloc, *ssa.MakeSlice, *ssa.MakeMap, *ssa.MakeClosure:
		return true
	case *ssa.MakeInterface:
		return !isNilConst(x.X)
	case *ssa.TypeAssert:
		return true
	case *ssa.Extract:
		return valueNonNilByConstruction(x.Tuple, depth+1)
	case *ssa.UnOp:
		// a local captured by closures lives in a cell: every value stored into it must be non-nil
		if a, ok := x.X.(*ssa.Alloc); ok && x.Op == token.MUL {
			// the stores that can reach this load (a named result is assigned nil on the error paths and the value on the
			// success path: only what reaches the load counts); a closure that writes the cell must do so under recover() != nil
			for _, r := range *a.Referrers() {
				if mc, ok := r.(*ssa.MakeClosure); ok {
					cl, _ := mc.Fn.(*ssa.Function)
					for bi, bind := range mc.Bindings {
						if bind != ssa.Value(a) || cl == nil || bi >= len(cl.FreeVars) {
							continue
						}
						for _, cb := range cl.Blocks {
							for _, cin := range cb.Instrs {
								st, ok := cin.(*ssa.Store)
								if !ok || st.Addr != ssa.Value(cl.FreeVars[bi]) {
									continue
								}
								underRecover := false
								for _, cd := range controlConds(cb) {
									if bo, ok := cd.v.(*ssa.BinOp); ok && (bo.Op == token.NEQ) == cd.pol && (bo.Op == token.NEQ || bo.Op == token.EQL) {
										for _, side := range []ssa.Value{bo.X, bo.Y} {
											if call, ok := side.(*ssa.Call); ok {
												if bi2, ok := call.Call.Value.(*ssa.Builtin); ok && bi2.Name() == "recover" {
													underRecover = true
												}
											}
										}
									}
								}
								if !underRecover && !valueNonNilByConstruction(st.Val, depth+1) {
									return false
								}
							}
						}
					}
				}
			}
			vals, entry := reachingStores(x, a)
			if entry || len(vals) == 0 {
				return false
			}
			for _, v := range vals {
				if v == ssa.Value(x) {
					continue
				}
				if !valueNonNilByConstruction(v, depth+1) {
					return false
				}
			}
			return true
		}
		return false
	case *ssa.Phi:
		for _, e := range x.Edges {
			if !valueNonNilByConstruction(e, depth+1) {
				return false
			}
		}
		return true
	case *ssa.Call:
		callee := x.Call.StaticCallee()
		if callee == nil || len(callee.Blocks) == 0 {
			return false
		}
		okAll, n := true, 0
		for _, b := range callee.Blocks {
			ret, ok := b.Instrs[len(b.Instrs)-1].(*ssa.Return)
			if !ok || len(ret.Results) == 0 {
				continue
			}
			if len(ret.Results) >= 2 && isErr(ret.Results[len(ret.Results)-1].Type()) && !isNilConst(retLast(ret)) {
				continue // error return
			}
			n++
			if !valueNonNilByConstruction(retOperand(ret, 0), depth+1) {
				okAll = false
			}
		}
		return okAll && n > 0
	}
	return false
}

var _ = sort.Strings


// execReach: the module functions executed while an entry point processes its input: reachable over call-graph
// edges whose caller is not a standard-library function (fmt calling String()/Error() on result values, and
// methods of returned tree nodes that only later callers invoke, are outside the entry point's own execution),
// plus module functions whose address is taken inside such functions (callbacks, template FuncMap entries).
func execReach(ri *reachInfo, roots []*ssa.Function) []*ssa.Function {
	seen := map[*ssa.Function]bool{}
	var work []*ssa.Function
	push := func(f *ssa.Function) {
		if f != nil && !seen[f] {
			seen[f] = true
			work = append(work, f)
		}
	}
	for _, r := range roots {
		push(r)
	}
	for len(work) > 0 {
		f := work[len(work)-1]
		work = work[:len(work)-1]
		if isStdlib(fnPkgPath(f)) {
			continue
		}
		if n := ri.res.CallGraph.Nodes[f]; n != nil {
			for _, e := range n.Out {
				push(e.Callee.Func)
			}
		}
		for _, af := range f.AnonFuncs {
			push(af)
		}
		for _, b := range f.Blocks {
			for _, in := range b.Instrs {
				for _, op := range in.Operands(nil) {
					if g, ok := (*op).(*ssa.Function); ok && strings.HasPrefix(fnPkgPath(g), modPath) {
						push(g)
					}
				}
			}
		}
	}
	var out []*ssa.Function
	for f := range seen {
		if strings.HasPrefix(fnPkgPath(f), modPath) && !strings.HasSuffix(fnPkgPath(f), "parser/generate") {
			out = append(out, f)
		}
	}
	sort.Slice(out, func(i, j int) bool { return out[i].String() < out[j].String() })
	return out
}

func findScannerQuiet(c *Ctx, p *packages.Package) *scanner {
	save := c.Obs
	s := findScanner(c, "R14.2", p)
	c.Obs = save
	return s
}


// checkCursorInvariant: the string cursor of the pattern parser keeps a non-empty rune slice (type invariant),
// which discharges runes[0] and runes[1:] in its methods. Every construction site must establish it:
// a value guarded by a dominating len != 0 test, or recv.runes[1:] on the len != 1 branch (inductively len >= 2).
func checkCursorInvariant(c *Ctx, covered map[token.Pos]bool) {
	pp := c.Pkg("internal/regex/parser")
	if pp == nil {
		c.Lost("R14.2", "package internal/regex/parser")
		return
	}
	// the struct type implementing comb.Input
	var cursor *types.Named
	for _, n := range pp.Types.Scope().Names() {
		tn, ok := pp.Types.Scope().Lookup(n).(*types.TypeName)
		if !ok {
			continue
		}
		named, ok := tn.Type().(*types.Named)
		if !ok {
			continue
		}
		if _, isStruct := named.Underlying().(*types.Struct); !isStruct {
			continue
		}
		ms := types.NewMethodSet(types.NewPointer(named))
		if ms.Lookup(pp.Types, "Current") != nil && ms.Lookup(pp.Types, "Remaining") != nil {
			cursor = named
		}
	}
	if cursor == nil {
		c.Lost("R14.2", "the string cursor type implementing combinator.Input")
		return
	}
	st := cursor.Underlying().(*types.Struct)
	sliceField := -1
	for i := 0; i < st.NumFields(); i++ {
		if _, ok := st.Field(i).Type().Underlying().(*types.Slice); ok {
			sliceField = i
		}
	}
	if sliceField < 0 {
		c.Lost("R14.2", "the rune slice field of the string cursor")
		return
	}
	fname := st.Field(sliceField).Name()
	sp := c.SSAPk[pp.PkgPath]
	// a cursor that keeps the whole text and an index into it (runes[idx]) stands on another invariant (idx < len) than the one
	// this rule proves (the remaining text is never empty: runes[0] and runes[1:])
	for i := 0; i < cursor.NumMethods(); i++ {
		f := c.Prog.FuncValue(cursor.Method(i))
		if f == nil {
			continue
		}
		for _, b := range f.Blocks {
			for _, in := range b.Instrs {
				ia, ok := in.(*ssa.IndexAddr)
				if !ok {
					continue
				}
				if _, isConst := ia.Index.(*ssa.Const); isConst {
					continue
				}
				if ld, ok := ia.X.(*ssa.UnOp); ok {
					if fa, ok := ld.X.(*ssa.FieldAddr); ok && fa.Field == sliceField {
						c.Undecided("R14.2", "cursor invariant len("+fname+") >= 1", token.NoPos, "the cursor over the pattern indexes its text with a stored position: its invariant is not the one this rule establishes")
						return
					}
				}
			}
		}
	}
	if sp == nil {
		c.Lost("R14.2", "SSA of internal/regex/parser")
		return
	}
	sites, okAll := 0, true
	var fns []*ssa.Function
	for _, m := range sp.Members {
		if f, ok := m.(*ssa.Function); ok {
			fns = append(fns, f)
		}
	}
	for i := 0; i < cursor.NumMethods(); i++ {
		if f := c.Prog.FuncValue(cursor.Method(i)); f != nil {
			fns = append(fns, f)
		}
	}
	for _, f := range fns {
		for _, b := range f.Blocks {
			for _, in := range b.Instrs {
				store, ok := in.(*ssa.Store)
				if !ok {
					continue
				}
				fa, ok := store.Addr.(*ssa.FieldAddr)
				if !ok || fa.Field != sliceField {
					continue
				}
				if pt, ok := fa.X.Type().Underlying().(*types.Pointer); !ok || !types.Identical(pt.Elem(), cursor) {
					continue
				}
				sites++
				good := false
				why := ""
				switch v := store.Val.(type) {
				case *ssa.Slice:
					// recv.runes[1:] with len(recv.runes) != 1 (and >= 1 by the invariant)
					if v.Low != nil && isConstInt(v.Low, 1) && v.High == nil {
						for _, cd := range controlConds(b) {
							if bo, ok := cd.v.(*ssa.BinOp); ok && lenOf(bo.X, v.X) && isConstInt(bo.Y, 1) {
								if (bo.Op == token.EQL && !cd.pol) || (bo.Op == token.NEQ && cd.pol) || (bo.Op == token.GTR && cd.pol) {
									good = true
								}
							}
						}
						why = "runes[1:] is stored without excluding len(runes) == 1"
					}
				default:
					for _, cd := range controlConds(b) {
						if bo, ok := cd.v.(*ssa.BinOp); ok && lenOf(bo.X, store.Val) && isConstInt(bo.Y, 0) {
							if (bo.Op == token.EQL && !cd.pol) || (bo.Op == token.NEQ && cd.pol) || (bo.Op == token.GTR && cd.pol) {
								good = true
							}
						}
					}
					why = "the slice stored into the cursor is not guarded by a dominating len != 0 test"
				}
				if !good {
					okAll = false
				}
				c.Check("R14.2", fmt.Sprintf("cursor invariant len(%s) >= 1 established in %s", fname, shortFn(f)), store.Pos(), good,
					why+": Current() indexes "+fname+"[0], so an empty pattern (or exhausting the input) panics", `the pattern ""`)
			}
		}
	}
	if sites == 0 {
		c.Lost("R14.2", "construction sites of the string cursor")
		return
	}
	if okAll {
		// the invariant discharges recv.runes[0] / recv.runes[1:] inside the cursor's methods
		for i := 0; i < cursor.NumMethods(); i++ {
			f := c.Prog.FuncValue(cursor.Method(i))
			if f == nil {
				continue
			}
			for _, b := range f.Blocks {
				for _, in := range b.Instrs {
					switch x := in.(type) {
					case *ssa.IndexAddr:
						if isConstInt(x.Index, 0) {
							covered[x.Pos()] = true
						}
					case *ssa.Slice:
						if x.Low != nil && isConstInt(x.Low, 1) && x.High == nil {
							covered[x.Pos()] = true
						}
					}
				}
			}
		}
	}
}


// crossCheckBCE (thorough): the compiler's own list of bounds checks it could not eliminate is an independent obligation
// generator. Every such site inside a function in scope must be a site the inventory examined (same file and line).
func crossCheckBCE(c *Ctx, scope []*ssa.Function, examined map[string]bool) {
	cache, err := os.MkdirTemp("", "emcheck-bce-")
	if err != nil {
		c.Undecided("R14.2", "bounds-check listing", token.NoPos, err.Error())
		return
	}
	defer os.RemoveAll(cache)
	cmd := exec.Command("go", "build", "-gcflags="+modPath+"/...=-l -d=ssa/check_bce/debug=1", "./...")
	cmd.Dir = c.Repo
	cmd.Env = append(os.Environ(), "GOFLAGS=-mod=mod", "GOPROXY=off", "GOCACHE="+cache)
	out, _ := cmd.CombinedOutput()
	// function extents in scope
	type extent struct {
		file       string
		from, to   int
		name       string
	}
	var exts []extent
	for _, f := range scope {
		if f.Syntax() == nil {
			continue
		}
		a, b := c.Fset.Position(f.Syntax().Pos()), c.Fset.Position(f.Syntax().End())
		exts = append(exts, extent{a.Filename, a.Line, b.Line, shortFn(f)})
	}
	total, inScope, matched := 0, 0, 0
	for _, line := range strings.Split(string(out), "\n") {
		if !strings.Contains(line, "Found Is") {
			continue
		}
		parts := strings.SplitN(line, ":", 4)
		if len(parts) < 4 || strings.HasPrefix(parts[0], "/") && !strings.HasPrefix(parts[0], c.Repo) {
			continue
		}
		total++
		file := parts[0]
		if !strings.HasPrefix(file, "/") {
			file = c.Repo + "/" + strings.TrimPrefix(file, "./")
		}
		var ln int
		fmt.Sscan(parts[1], &ln)
		in := ""
		for _, e := range exts {
			if e.file == file && e.from <= ln && ln <= e.to {
				in = e.name
			}
		}
		if in == "" {
			continue
		}
		inScope++
		if examined[fmt.Sprintf("%s:%d", file, ln)] || strings.HasSuffix(file, "parsing_table.go") {
			matched++
			continue
		}
		c.Fail("R14.2", "compiler-listed bounds check in "+in+" was examined by the inventory", token.NoPos,
			fmt.Sprintf("%s:%d has a bounds check the compiler could not eliminate, but the inventory generated no obligation on that line", strings.TrimPrefix(file, c.Repo+"/"), ln))
	}
	c.Extra("bce_sites_listed_by_compiler", total)
	c.Extra("bce_sites_in_scope", inScope)
	c.Extra("bce_sites_matched_by_inventory", matched)
	c.Check("R14.2", "the compiler's bounds-check listing was obtained", token.NoPos, total >= 20, fmt.Sprintf("only %d sites listed: the cross-check did not run", total))
}

// checkNilableFields: R14.5. A pointer-typed struct field is "nil-able" when some value of the struct is built in module code
// without it (a keyed composite literal that omits the field or sets it to nil, new(T), a zero declaration, or `x.f = nil`).
// In the functions in scope, every dereference of a pointer loaded from such a field (field selection through it, load
// through it) must be control-dependent on a nil test of that pointer.
func checkNilableFields(c *Ctx, scope []*ssa.Function) {
	type fkey struct {
		T *types.Named
		f int
	}
	nilable := map[fkey]token.Pos{}
	markZero := func(T types.Type, pos token.Pos, given map[string]bool) {
		named, _ := T.(*types.Named)
		if named == nil {
			return
		}
		st, ok := named.Underlying().(*types.Struct)
		if !ok {
			return
		}
		for i := 0; i < st.NumFields(); i++ {
			if _, isPtr := st.Field(i).Type().Underlying().(*types.Pointer); isPtr && !given[st.Field(i).Name()] {
				if _, seen := nilable[fkey{named, i}]; !seen {
					nilable[fkey{named, i}] = pos
				}
			}
		}
	}
	for _, p := range c.Pkgs {
		info := p.TypesInfo
		for _, file := range p.Syntax {
			ast.Inspect(file, func(n ast.Node) bool {
				switch x := n.(type) {
				case *ast.CompositeLit:
					T := info.TypeOf(x)
					if T == nil {
						return true
					}
					if len(x.Elts) > 0 {
						if _, keyed := x.Elts[0].(*ast.KeyValueExpr); !keyed {
							return true // positional: every field given
						}
					}
					given := map[string]bool{}
					for _, e := range x.Elts {
						if kv, ok := e.(*ast.KeyValueExpr); ok {
							if id, ok := kv.Key.(*ast.Ident); ok && !isNilExpr(info, kv.Value) {
								given[id.Name] = true
							}
						}
					}
					markZero(T, x.Pos(), given)
				case *ast.CallExpr:
					if id, ok := x.Fun.(*ast.Ident); ok && id.Name == "new" && len(x.Args) == 1 {
						if _, isB := info.Uses[id].(*types.Builtin); isB {
							markZero(info.TypeOf(x.Args[0]), x.Pos(), nil)
						}
					}
				case *ast.ValueSpec:
					if len(x.Values) == 0 && x.Type != nil {
						markZero(info.TypeOf(x.Type), x.Pos(), nil)
					}
				case *ast.AssignStmt:
					for i, l := range x.Lhs {
						if i < len(x.Rhs) && isNilExpr(info, x.Rhs[i]) {
							if sel, ok := l.(*ast.SelectorExpr); ok {
								if s := info.Selections[sel]; s != nil && s.Kind() == types.FieldVal {
									T := s.Recv()
									if pt, ok := T.Underlying().(*types.Pointer); ok {
										T = pt.Elem()
									}
									if named, ok := T.(*types.Named); ok {
										if st, ok := named.Underlying().(*types.Struct); ok {
											for k := 0; k < st.NumFields(); k++ {
												if st.Field(k) == s.Obj() {
													nilable[fkey{named, k}] = x.Pos()
												}
											}
										}
									}
								}
							}
						}
					}
				}
				return true
			})
		}
	}
	// loads of nil-able fields
	fieldOf := func(v ssa.Value) (fkey, bool) {
		u, ok := v.(*ssa.UnOp)
		if !ok || u.Op != token.MUL {
			// value-typed struct: Field instruction
			if fv, ok := v.(*ssa.Field); ok {
				if named, ok := fv.X.Type().(*types.Named); ok {
					return fkey{named, fv.Field}, true
				}
			}
			return fkey{}, false
		}
		fa, ok := u.X.(*ssa.FieldAddr)
		if !ok {
			return fkey{}, false
		}
		T := fa.X.Type()
		if pt, ok := T.Underlying().(*types.Pointer); ok {
			T = pt.Elem()
		}
		named, ok := T.(*types.Named)
		if !ok {
			return fkey{}, false
		}
		return fkey{named, fa.Field}, true
	}
	nSites, nNilable := 0, 0
	for _, f := range scope {
		for _, b := range f.Blocks {
			for _, in := range b.Instrs {
				var ptr ssa.Value
				switch x := in.(type) {
				case *ssa.FieldAddr:
					ptr = x.X
				case *ssa.UnOp:
					if x.Op == token.MUL {
						ptr = x.X
					}
				}
				if ptr == nil {
					continue
				}
				k, ok := fieldOf(ptr)
				if !ok {
					continue
				}
				nSites++
				where, isNilable := nilable[k]
				if !isNilable {
					continue
				}
				nNilable++
				guarded := controlledNil(b, ptr, true)
				if !guarded {
					// a test of another load of the same field of the same base
					for _, cnd := range controlConds(b) {
						bo, ok := cnd.v.(*ssa.BinOp)
						if !ok {
							continue
						}
						for _, side := range []ssa.Value{bo.X, bo.Y} {
							if k2, ok := fieldOf(side); ok && k2 == k && (sameValue(side, ptr) || sameLocalField(side, ptr, b)) {
								if nn, ok := isNilCheck(cnd.v, side); ok && nn == cnd.pol {
									guarded = true
								}
							}
						}
					}
				}
				if !guarded {
					guarded = fieldEnsured(f, b, in, ptr, k.f, 0)
				}
				st := k.T.Underlying().(*types.Struct)
				c.Check("R14.5", fmt.Sprintf("%s dereferences %s.%s only under a nil test", shortFn(f), k.T.Obj().Name(), st.Field(k.f).Name()), in.Pos(), guarded,
					fmt.Sprintf("the field is left nil by the value built at %s, and this dereference is not control-dependent on a nil test: an input that takes both paths crashes with a nil pointer dereference", c.rel(where)),
					"")
			}
		}
	}
	if nNilable == 0 {
		c.Pass("R14.5", "no pointer loaded from a nil-able field is dereferenced in the functions in scope", token.NoPos, fmt.Sprintf("%d nil-able pointer fields, %d dereferences of field-loaded pointers examined", len(nilable), nSites))
	}
}

// fieldEnsured: before instruction `at` (in block b of f) the pointer field loaded as ptr (= *FieldAddr(base, field)) has been
// made non-nil on every path: a store of a freshly allocated value to the same field of the same base dominates the use, or
// a call of a method on the same base that ensures the field (each of its returns is dominated by such a store or is taken
// only when the field is already non-nil) dominates it.
func fieldEnsured(f *ssa.Function, b *ssa.BasicBlock, at ssa.Instruction, ptr ssa.Value, field int, depth int) bool {
	u, ok := ptr.(*ssa.UnOp)
	if !ok {
		return false
	}
	fa, ok := u.X.(*ssa.FieldAddr)
	if !ok {
		return false
	}
	base := fa.X
	for _, blk := range f.Blocks {
		if blk != b && !blk.Dominates(b) {
			continue
		}
		for _, in := range blk.Instrs {
			if blk == b && instrIndex(in) >= instrIndex(at) {
				break
			}
			switch x := in.(type) {
			case *ssa.Store:
				if fa2, ok := x.Addr.(*ssa.FieldAddr); ok && fa2.Field == field && sameValue(fa2.X, base) && valueNonNilByConstruction(x.Val, 0) {
					return true
				}
			case *ssa.Call:
				callee := x.Call.StaticCallee()
				if callee == nil || len(x.Call.Args) == 0 || !sameValue(x.Call.Args[0], base) || callee.Signature.Recv() == nil || depth > 1 {
					continue
				}
				if methodEnsuresField(callee, field) {
					return true
				}
			}
		}
	}
	return false
}

// methodEnsuresField: every return of the method leaves recv.field non-nil.
func methodEnsuresField(m *ssa.Function, field int) bool {
	if len(m.Params) == 0 || len(m.Blocks) == 0 {
		return false
	}
	recv := m.Params[0]
	nRet := 0
	for _, blk := range m.Blocks {
		ret, ok := blk.Instrs[len(blk.Instrs)-1].(*ssa.Return)
		if !ok {
			continue
		}
		nRet++
		ok = false
		// (a) taken only when the field is non-nil
		for _, cnd := range controlConds(blk) {
			bo, isBin := cnd.v.(*ssa.BinOp)
			if !isBin {
				continue
			}
			for _, side := range []ssa.Value{bo.X, bo.Y} {
				if uu, isU := side.(*ssa.UnOp); isU {
					if fa, isF := uu.X.(*ssa.FieldAddr); isF && fa.Field == field && fa.X == ssa.Value(recv) {
						if nn, isN := isNilCheck(cnd.v, side); isN && nn == cnd.pol {
							ok = true
						}
					}
				}
			}
		}
		// (b) dominated by a store of a fresh value
		if !ok {
			for _, b2 := range m.Blocks {
				if b2 != blk && !b2.Dominates(blk) {
					continue
				}
				for _, in := range b2.Instrs {
					if st, isS := in.(*ssa.Store); isS {
						if fa, isF := st.Addr.(*ssa.FieldAddr); isF && fa.Field == field && fa.X == ssa.Value(recv) && valueNonNilByConstruction(st.Val, 0) {
							ok = true
						}
					}
				}
			}
		}
		if !ok {
			return false
		}
		_ = ret
	}
	return nRet > 0
}

// checkRecursion: R14.6. A goroutine stack is finite and its exhaustion is a fatal error with a stack trace, not an error
// value. A recursion is acceptable when each trip round the cycle passes a strictly smaller piece of one of its arguments
// (a field, an element, a sub-tree): its depth is then bounded by the nesting depth of that value. A cycle none of whose
// call edges descends (for example a scanner that calls itself for every skipped token) has a depth that grows with how
// much input is consumed.
func checkRecursion(c *Ctx, ri *reachInfo, scope []*ssa.Function) {
	inScope := map[*ssa.Function]bool{}
	for _, f := range scope {
		inScope[f] = true
	}
	type edge struct {
		to       *ssa.Function
		site     ssa.CallInstruction
		descends bool
	}
	adj := map[*ssa.Function][]edge{}
	derived := map[ssa.CallInstruction]bool{} // call sites whose arguments are computed from the parameters through other calls
	for _, f := range scope {
		n := ri.res.CallGraph.Nodes[f]
		if n == nil {
			continue
		}
		for _, e := range n.Out {
			g := e.Callee.Func
			if !inScope[g] || e.Site == nil {
				continue
			}
			if e.Site.Common().StaticCallee() == nil && !e.Site.Common().IsInvoke() {
				continue // a call of a function value: RTA resolves it by signature only; resolved by value flow below
			}
			adj[f] = append(adj[f], edge{g, e.Site, descendsOnParam(f, e.Site) || depthGuarded(f, e.Site)})
			if derivedFromParamByCall(f, e.Site) {
				derived[e.Site] = true
			}
		}
		// calls of function values: the functions that can flow into the called value (closures and method values built
		// in this function, or stored into the struct field it is loaded from)
		allCalls(f, func(site ssa.CallInstruction) {
			if site.Common().StaticCallee() != nil || site.Common().IsInvoke() {
				return
			}
			if _, isBuiltin := site.Common().Value.(*ssa.Builtin); isBuiltin {
				return
			}
			for _, g := range funcValuesOf(c, site.Common().Value) {
				if inScope[g] {
					adj[f] = append(adj[f], edge{g, site, descendsOnParam(f, site) || depthGuarded(f, site)})
				}
			}
		})
		// a closure created by f and called later runs no deeper than f's frame count allows; treat creation as an edge
		for _, af := range f.AnonFuncs {
			if inScope[af] {
				adj[f] = append(adj[f], edge{af, nil, true})
			}
		}
	}
	// Tarjan
	index, low, onStack := map[*ssa.Function]int{}, map[*ssa.Function]int{}, map[*ssa.Function]bool{}
	var stack []*ssa.Function
	var sccs [][]*ssa.Function
	idx := 0
	var strong func(v *ssa.Function)
	strong = func(v *ssa.Function) {
		idx++
		index[v], low[v] = idx, idx
		stack = append(stack, v)
		onStack[v] = true
		for _, e := range adj[v] {
			if index[e.to] == 0 {
				strong(e.to)
				if low[e.to] < low[v] {
					low[v] = low[e.to]
				}
			} else if onStack[e.to] && index[e.to] < low[v] {
				low[v] = index[e.to]
			}
		}
		if low[v] == index[v] {
			var comp []*ssa.Function
			for {
				w := stack[len(stack)-1]
				stack = stack[:len(stack)-1]
				onStack[w] = false
				comp = append(comp, w)
				if w == v {
					break
				}
			}
			sccs = append(sccs, comp)
		}
	}
	for _, f := range scope {
		if index[f] == 0 {
			strong(f)
		}
	}
	nCyc := 0
	for _, comp := range sccs {
		in := map[*ssa.Function]bool{}
		for _, f := range comp {
			in[f] = true
		}
		cyclic := len(comp) > 1
		for _, e := range adj[comp[0]] {
			if e.to == comp[0] {
				cyclic = true
			}
		}
		if !cyclic {
			continue
		}
		nCyc++
		sort.Slice(comp, func(i, j int) bool { return comp[i].String() < comp[j].String() })
		var names []string
		for _, f := range comp {
			names = append(names, shortFn(f))
		}
		// remove descending edges; is there still a cycle inside the component?
		flat := map[*ssa.Function][]edge{}
		for _, f := range comp {
			for _, e := range adj[f] {
				if in[e.to] && !e.descends {
					flat[f] = append(flat[f], e)
				}
			}
		}
		color := map[*ssa.Function]int{}
		var cyc []string
		var pos token.Pos
		cycDerived := false
		var dfs func(v *ssa.Function, path []string) bool
		dfs = func(v *ssa.Function, path []string) bool {
			color[v] = 1
			for _, e := range flat[v] {
				if color[e.to] == 1 {
					cyc = append(append([]string{}, path...), shortFn(v), shortFn(e.to))
					if e.site != nil {
						pos = e.site.Pos()
						cycDerived = derived[e.site]
					}
					return true
				}
				if color[e.to] == 0 && dfs(e.to, append(path, shortFn(v))) {
					return true
				}
			}
			color[v] = 2
			return false
		}
		bad := false
		for _, f := range comp {
			if color[f] == 0 && dfs(f, nil) {
				bad = true
				break
			}
		}
		if len(names) > 6 {
			names = append(names[:6], fmt.Sprintf("… (%d functions)", len(comp)))
		}
		if bad && cycDerived {
			c.Undecided("R14.6", "recursion through "+strings.Join(names, ", ")+" descends on an argument", pos,
				"the recursive call receives a value computed from the parameters by another function (e.g. the children of a node returned by a helper): whether it is smaller is not decided")
			continue
		}
		c.Check("R14.6", "recursion through "+strings.Join(names, ", ")+" descends on an argument", pos, !bad,
			"the cycle "+strings.Join(cyc, " → ")+" passes on only its own parameters (or values not taken out of them): nothing gets structurally smaller, so the depth of the recursion grows with the amount of input consumed and a long enough input ends in `fatal error: stack overflow` and a stack trace",
			"a specification with several hundred thousand consecutive comment lines")
	}
	if nCyc == 0 {
		c.Pass("R14.6", "no recursion in the module functions in scope", token.NoPos, "")
	}
	c.Extra("recursive_components", nCyc)
}

// descendsOnParam: some argument of the call (receiver included) is obtained from a parameter (or free variable) of the caller
// through at least one projection: a field, an element, a map value, the value of a range iteration, a type assertion of one.
func descendsOnParam(f *ssa.Function, site ssa.CallInstruction) bool {
	isOrigin := func(v ssa.Value) bool {
		switch v.(type) {
		case *ssa.Parameter, *ssa.FreeVar:
			return true
		}
		return false
	}
	var proj func(v ssa.Value, steps int, depth int, seen map[ssa.Value]bool) bool
	proj = func(v ssa.Value, steps int, depth int, seen map[ssa.Value]bool) bool {
		if v == nil || depth > 40 || seen[v] {
			return false
		}
		seen[v] = true
		if isOrigin(v) {
			return steps > 0
		}
		switch x := v.(type) {
		case *ssa.UnOp:
			if x.Op == token.MUL {
				// load: through a field/element address counts as a step; a plain local cell does not
				switch a := x.X.(type) {
				case *ssa.FieldAddr:
					return proj(a.X, steps+1, depth+1, seen)
				case *ssa.IndexAddr:
					return proj(a.X, steps+1, depth+1, seen)
				case *ssa.Alloc:
					for _, r := range *a.Referrers() {
						if st, ok := r.(*ssa.Store); ok && st.Addr == ssa.Value(a) && proj(st.Val, steps, depth+1, seen) {
							return true
						}
					}
					return false
				default:
					return proj(x.X, steps, depth+1, seen)
				}
			}
			return proj(x.X, steps, depth+1, seen)
		case *ssa.Field:
			return proj(x.X, steps+1, depth+1, seen)
		case *ssa.Index:
			return proj(x.X, steps+1, depth+1, seen)
		case *ssa.Lookup:
			return proj(x.X, steps+1, depth+1, seen)
		case *ssa.Extract:
			return proj(x.Tuple, steps, depth+1, seen)
		case *ssa.Next:
			return proj(x.Iter, steps+1, depth+1, seen)
		case *ssa.Range:
			return proj(x.X, steps, depth+1, seen)
		case *ssa.TypeAssert:
			return proj(x.X, steps, depth+1, seen)
		case *ssa.ChangeInterface:
			return proj(x.X, steps, depth+1, seen)
		case *ssa.ChangeType:
			return proj(x.X, steps, depth+1, seen)
		case *ssa.MakeInterface:
			return proj(x.X, steps, depth+1, seen)
		case *ssa.Convert:
			return proj(x.X, steps, depth+1, seen)
		case *ssa.Slice:
			// a proper sub-slice is smaller when a bound is given
			if x.Low != nil || x.High != nil {
				return proj(x.X, steps+1, depth+1, seen)
			}
			return proj(x.X, steps, depth+1, seen)
		case *ssa.Phi:
			for _, e := range x.Edges {
				if proj(e, steps, depth+1, seen) {
					return true
				}
			}
		case *ssa.FieldAddr:
			return proj(x.X, steps+1, depth+1, seen)
		case *ssa.IndexAddr:
			return proj(x.X, steps+1, depth+1, seen)
		}
		return false
	}
	for _, a := range site.Common().Args {
		if proj(a, 0, 0, map[ssa.Value]bool{}) {
			return true
		}
	}
	if site.Common().IsInvoke() && proj(site.Common().Value, 0, 0, map[ssa.Value]bool{}) {
		return true
	}
	return false
}

// depthGuarded: the call site is reached only after the function has counted itself in against a constant bound: a field of
// the receiver is compared with a constant, the function returns without calling when the bound is reached, and the field is
// incremented on the other branch before the call. The depth of a recursion through this function is then at most the bound.
func depthGuarded(f *ssa.Function, site ssa.CallInstruction) bool {
	if len(f.Params) == 0 || f.Signature.Recv() == nil {
		return false
	}
	recv := ssa.Value(f.Params[0])
	for _, b := range f.Blocks {
		for _, in := range b.Instrs {
			st, ok := in.(*ssa.Store)
			if !ok {
				continue
			}
			fa, ok := st.Addr.(*ssa.FieldAddr)
			if !ok || !isSameOrSpilled(fa.X, recv) {
				continue
			}
			bo, ok := st.Val.(*ssa.BinOp)
			if !ok || bo.Op != token.ADD || !isConstInt(bo.Y, 1) || !loadOfField(bo.X, recv, fa.Field) {
				continue
			}
			// the increment dominates the call
			sb := site.Block()
			if !(b == sb && instrIndex(st) < instrIndex(site.(ssa.Instruction))) && !(b != sb && b.Dominates(sb)) {
				continue
			}
			// and is itself taken only below a constant bound on the same field
			for _, cd := range controlConds(b) {
				cmp, ok := cd.v.(*ssa.BinOp)
				if !ok || !loadOfField(cmp.X, recv, fa.Field) {
					continue
				}
				if k, ok := cmp.Y.(*ssa.Const); !ok || k.Value == nil {
					continue
				}
				below := (cmp.Op == token.GEQ && !cd.pol) || (cmp.Op == token.GTR && !cd.pol) || (cmp.Op == token.LSS && cd.pol) || (cmp.Op == token.LEQ && cd.pol) || (cmp.Op == token.EQL && !cd.pol)
				if below {
					return true
				}
			}
		}
	}
	return false
}

// funcValuesOf: the functions that may flow into value v, followed backwards through conversions, closures, calls (a
// combinator returns a function built from its arguments), variadic slices, phis and loads of struct fields (every value stored
// into that field anywhere in the program's module packages).
func funcValuesOf(c *Ctx, v ssa.Value) []*ssa.Function {
	out := map[*ssa.Function]bool{}
	seen := map[ssa.Value]bool{}
	seenField := map[string]bool{}
	var walk func(v ssa.Value, depth int)
	walk = func(v ssa.Value, depth int) {
		if v == nil || seen[v] || depth > 60 {
			return
		}
		seen[v] = true
		switch x := v.(type) {
		case *ssa.Function:
			out[x] = true
		case *ssa.MakeClosure:
			if fn, ok := x.Fn.(*ssa.Function); ok {
				out[fn] = true
			}
			for _, b := range x.Bindings {
				walk(b, depth+1)
			}
		case *ssa.ChangeType:
			walk(x.X, depth+1)
		case *ssa.MakeInterface:
			walk(x.X, depth+1)
		case *ssa.ChangeInterface:
			walk(x.X, depth+1)
		case *ssa.TypeAssert:
			walk(x.X, depth+1)
		case *ssa.Extract:
			walk(x.Tuple, depth+1)
		case *ssa.Phi:
			for _, e := range x.Edges {
				walk(e, depth+1)
			}
		case *ssa.Call:
			walk(x.Call.Value, depth+1)
			for _, a := range x.Call.Args {
				walk(a, depth+1)
			}
		case *ssa.Slice:
			walk(x.X, depth+1)
		case *ssa.Alloc:
			for _, r := range *x.Referrers() {
				switch in := r.(type) {
				case *ssa.Store:
					if in.Addr == ssa.Value(x) {
						walk(in.Val, depth+1)
					}
				case *ssa.IndexAddr:
					for _, rr := range *in.Referrers() {
						if st, ok := rr.(*ssa.Store); ok && st.Addr == ssa.Value(in) {
							walk(st.Val, depth+1)
						}
					}
				}
			}
		case *ssa.UnOp:
			if x.Op != token.MUL {
				return
			}
			switch a := x.X.(type) {
			case *ssa.Alloc:
				walk(a, depth+1)
			case *ssa.FieldAddr:
				T := a.X.Type()
				if pt, ok := T.Underlying().(*types.Pointer); ok {
					T = pt.Elem()
				}
				key := fmt.Sprintf("%s#%d", T.String(), a.Field)
				if seenField[key] {
					return
				}
				seenField[key] = true
				for _, st := range c.fieldStores(T, a.Field) {
					walk(st.Val, depth+1)
				}
			}
		}
	}
	walk(v, 0)
	var res []*ssa.Function
	for f := range out {
		res = append(res, f)
	}
	sort.Slice(res, func(i, j int) bool { return res[i].String() < res[j].String() })
	return res
}

// fieldStores: every store to field #idx of struct type T in the module's functions.
func (c *Ctx) fieldStores(T types.Type, idx int) []*ssa.Store {
	if c.fieldStoreIdx == nil {
		c.fieldStoreIdx = map[string][]*ssa.Store{}
		for path, sp := range c.SSAPk {
			if sp == nil || !strings.HasPrefix(path, modPath) {
				continue
			}
			for _, f := range allFuncsOfPkgDeep(sp) {
				for _, b := range f.Blocks {
					for _, in := range b.Instrs {
						st, ok := in.(*ssa.Store)
						if !ok {
							continue
						}
						fa, ok := st.Addr.(*ssa.FieldAddr)
						if !ok {
							continue
						}
						FT := fa.X.Type()
						if pt, ok := FT.Underlying().(*types.Pointer); ok {
							FT = pt.Elem()
						}
						k := fmt.Sprintf("%s#%d", FT.String(), fa.Field)
						c.fieldStoreIdx[k] = append(c.fieldStoreIdx[k], st)
					}
				}
			}
		}
	}
	return c.fieldStoreIdx[fmt.Sprintf("%s#%d", T.String(), idx)]
}

func allFuncsOfPkgDeep(p *ssa.Package) []*ssa.Function {
	var out []*ssa.Function
	var add func(f *ssa.Function)
	add = func(f *ssa.Function) {
		out = append(out, f)
		for _, a := range f.AnonFuncs {
			add(a)
		}
	}
	for _, f := range allFuncsOfPkg(p) {
		add(f)
	}
	return out
}

// curC14 gives the index rules access to the module-wide index of field stores.
var curC14 *Ctx

// madeSliceOf: x is a make([]T, n) itself, or a load of a struct field that is written exactly once in the whole module, with
// such a make (so every value ever read from that field of a constructed object has that length).
func madeSliceOf(x ssa.Value) *ssa.MakeSlice {
	if mk, ok := x.(*ssa.MakeSlice); ok {
		return mk
	}
	u, ok := x.(*ssa.UnOp)
	if !ok || u.Op != token.MUL || curC14 == nil {
		return nil
	}
	fa, ok := u.X.(*ssa.FieldAddr)
	if !ok {
		return nil
	}
	T := fa.X.Type()
	if pt, ok := T.Underlying().(*types.Pointer); ok {
		T = pt.Elem()
	}
	stores := curC14.fieldStores(T, fa.Field)
	if len(stores) != 1 || stores[0].Parent() != u.Parent() {
		return nil
	}
	mk, _ := stores[0].Val.(*ssa.MakeSlice)
	return mk
}

// constLenOf: the operand's length is a compile-time constant (an array, or a slice made with a constant length).
func constLenOf(x ssa.Value) (int64, bool) {
	t := x.Type()
	if p, ok := t.Underlying().(*types.Pointer); ok {
		t = p.Elem()
	}
	if arr, ok := t.Underlying().(*types.Array); ok {
		return arr.Len(), true
	}
	if mk := madeSliceOf(x); mk != nil {
		if k, ok := mk.Len.(*ssa.Const); ok && k.Value != nil {
			return k.Int64(), true
		}
	}
	return 0, false
}

// constInterval: the interval that the dominating comparisons of idx with constants establish.
func constInterval(b *ssa.BasicBlock, idx ssa.Value) (lo, hi int64, hasLo, hasHi, any bool) {
	base := stripConv(idx)
	for _, cd := range controlConds(b) {
		bo, ok := cd.v.(*ssa.BinOp)
		if !ok {
			continue
		}
		var k *ssa.Const
		op := bo.Op
		if stripConv(bo.X) == base {
			k, _ = bo.Y.(*ssa.Const)
		} else if stripConv(bo.Y) == base {
			k, _ = bo.X.(*ssa.Const)
			switch op { // k OP idx  ->  idx OP' k
			case token.LSS:
				op = token.GTR
			case token.LEQ:
				op = token.GEQ
			case token.GTR:
				op = token.LSS
			case token.GEQ:
				op = token.LEQ
			}
		}
		if k == nil || k.Value == nil {
			continue
		}
		v := k.Int64()
		if !cd.pol {
			switch op {
			case token.LSS:
				op = token.GEQ
			case token.LEQ:
				op = token.GTR
			case token.GTR:
				op = token.LEQ
			case token.GEQ:
				op = token.LSS
			default:
				continue
			}
		}
		switch op {
		case token.LSS:
			if !hasHi || v-1 < hi {
				hi, hasHi = v-1, true
			}
			any = true
		case token.LEQ:
			if !hasHi || v < hi {
				hi, hasHi = v, true
			}
			any = true
		case token.GTR:
			if !hasLo || v+1 > lo {
				lo, hasLo = v+1, true
			}
			any = true
		case token.GEQ:
			if !hasLo || v > lo {
				lo, hasLo = v, true
			}
			any = true
		}
	}
	if bt, ok := base.Type().Underlying().(*types.Basic); ok && bt.Info()&types.IsUnsigned != 0 && !hasLo {
		lo, hasLo = 0, true
	}
	// the index of a range loop (rotated form): idx = phi + 1 with phi = [-1, idx]; or a counter phi = [K >= 0, phi + 1]
	if !hasLo {
		if add, ok := base.(*ssa.BinOp); ok && add.Op == token.ADD {
			if ph, ok := add.X.(*ssa.Phi); ok {
				if k, ok := add.Y.(*ssa.Const); ok && k.Value != nil && k.Int64() == 1 && len(ph.Edges) == 2 {
					for i, e := range ph.Edges {
						if k0, ok := e.(*ssa.Const); ok && k0.Value != nil && k0.Int64() >= -1 && ph.Edges[1-i] == ssa.Value(add) {
							lo, hasLo = k0.Int64()+1, true
						}
					}
				}
			}
		}
		if ph, ok := base.(*ssa.Phi); ok && len(ph.Edges) == 2 {
			for i, e := range ph.Edges {
				if k0, ok := e.(*ssa.Const); ok && k0.Value != nil && k0.Int64() >= 0 {
					if add, ok := ph.Edges[1-i].(*ssa.BinOp); ok && add.Op == token.ADD && add.X == ssa.Value(ph) {
						if k, ok := add.Y.(*ssa.Const); ok && k.Value != nil && k.Int64() > 0 {
							lo, hasLo = k0.Int64(), true
						}
					}
				}
			}
		}
	}
	return
}

// rangedCollection: idx is the index variable of a range loop (rotated form: phi[-1, phi+1] compared with len(c)); returns c.
func rangedCollection(idx ssa.Value) ssa.Value {
	phi, ok := idx.(*ssa.Phi)
	if !ok {
		if bo, ok := idx.(*ssa.BinOp); ok && bo.Op == token.ADD {
			phi, _ = bo.X.(*ssa.Phi)
		}
		if phi == nil {
			return nil
		}
	}
	for _, e := range phi.Edges {
		bo, ok := e.(*ssa.BinOp)
		if !ok || bo.Op != token.ADD || bo.X != ssa.Value(phi) {
			continue
		}
		for _, v := range []ssa.Value{phi, bo} {
			for _, r := range *v.Referrers() {
				if cmp, ok := r.(*ssa.BinOp); ok && cmp.Op == token.LSS && cmp.X == v {
					if call, ok := cmp.Y.(*ssa.Call); ok {
						if bi, ok := call.Call.Value.(*ssa.Builtin); ok && bi.Name() == "len" {
							return call.Call.Args[0]
						}
					}
				}
			}
		}
	}
	return nil
}

// derivedFromParamByCall: some argument of the call is computed from a parameter of the caller through another call
// (children(n), n.Operands(), ...), possibly followed by projections: neither the parameter itself nor a plain projection.
func derivedFromParamByCall(f *ssa.Function, site ssa.CallInstruction) bool {
	var walk func(v ssa.Value, viaCall bool, depth int, seen map[ssa.Value]bool) bool
	walk = func(v ssa.Value, viaCall bool, depth int, seen map[ssa.Value]bool) bool {
		if v == nil || depth > 40 || seen[v] {
			return false
		}
		seen[v] = true
		switch x := v.(type) {
		case *ssa.Parameter, *ssa.FreeVar:
			return viaCall
		case *ssa.Call:
			for _, a := range x.Call.Args {
				if walk(a, true, depth+1, seen) {
					return true
				}
			}
			if x.Call.IsInvoke() {
				return walk(x.Call.Value, true, depth+1, seen)
			}
		case *ssa.UnOp:
			return walk(x.X, viaCall, depth+1, seen)
		case *ssa.FieldAddr:
			return walk(x.X, viaCall, depth+1, seen)
		case *ssa.IndexAddr:
			return walk(x.X, viaCall, depth+1, seen)
		case *ssa.Field:
			return walk(x.X, viaCall, depth+1, seen)
		case *ssa.Index:
			return walk(x.X, viaCall, depth+1, seen)
		case *ssa.Extract:
			return walk(x.Tuple, viaCall, depth+1, seen)
		case *ssa.Next:
			return walk(x.Iter, viaCall, depth+1, seen)
		case *ssa.Range:
			return walk(x.X, viaCall, depth+1, seen)
		case *ssa.TypeAssert:
			return walk(x.X, viaCall, depth+1, seen)
		case *ssa.MakeInterface:
			return walk(x.X, viaCall, depth+1, seen)
		case *ssa.ChangeInterface:
			return walk(x.X, viaCall, depth+1, seen)
		case *ssa.ChangeType:
			return walk(x.X, viaCall, depth+1, seen)
		case *ssa.Slice:
			return walk(x.X, viaCall, depth+1, seen)
		case *ssa.Phi:
			for _, e := range x.Edges {
				if walk(e, viaCall, depth+1, seen) {
					return true
				}
			}
		case *ssa.Alloc:
			for _, r := range *x.Referrers() {
				if st, ok := r.(*ssa.Store); ok && st.Addr == ssa.Value(x) && walk(st.Val, viaCall, depth+1, seen) {
					return true
				}
			}
		}
		return false
	}
	for _, a := range site.Common().Args {
		if walk(a, false, 0, map[ssa.Value]bool{}) {
			return true
		}
	}
	return false
}

// derivesFromParam: v is obtained from a parameter (or free variable) of its function by loads, projections and assertions.
func derivesFromParam(v ssa.Value, depth int, seen map[ssa.Value]bool) bool {
	if v == nil || depth > 30 || seen[v] {
		return false
	}
	seen[v] = true
	switch x := v.(type) {
	case *ssa.Parameter, *ssa.FreeVar:
		return true
	case *ssa.UnOp:
		return derivesFromParam(x.X, depth+1, seen)
	case *ssa.FieldAddr:
		return derivesFromParam(x.X, depth+1, seen)
	case *ssa.Field:
		return derivesFromParam(x.X, depth+1, seen)
	case *ssa.IndexAddr:
		return derivesFromParam(x.X, depth+1, seen)
	case *ssa.Index:
		return derivesFromParam(x.X, depth+1, seen)
	case *ssa.Slice:
		return derivesFromParam(x.X, depth+1, seen)
	case *ssa.TypeAssert:
		return derivesFromParam(x.X, depth+1, seen)
	case *ssa.Extract:
		return derivesFromParam(x.Tuple, depth+1, seen)
	case *ssa.Phi:
		for _, e := range x.Edges {
			if derivesFromParam(e, depth+1, seen) {
				return true
			}
		}
	case *ssa.Alloc:
		for _, r := range *x.Referrers() {
			if st, ok := r.(*ssa.Store); ok && st.Addr == ssa.Value(x) && derivesFromParam(st.Val, depth+1, seen) {
				return true
			}
		}
	}
	return false
}


// sameLocalField: a and b are loads of the same field of the same local struct variable, and no store to that field sits in
// a block that executes between the test and the use (any block dominated by the immediate dominator chain from the use's
// block up to the test's block is examined conservatively: no store to the field anywhere but before the test's block).
func sameLocalField(a, b ssa.Value, use *ssa.BasicBlock) bool {
	ua, ok1 := a.(*ssa.UnOp)
	ub, ok2 := b.(*ssa.UnOp)
	if !ok1 || !ok2 || ua.Op != token.MUL || ub.Op != token.MUL {
		return false
	}
	fa, ok1 := ua.X.(*ssa.FieldAddr)
	fb, ok2 := ub.X.(*ssa.FieldAddr)
	if !ok1 || !ok2 || fa.Field != fb.Field || fa.X != fb.X {
		return false
	}
	base, ok := fa.X.(*ssa.Alloc)
	if !ok || base.Heap {
		return false
	}
	test := ua.Block()
	for _, r := range *base.Referrers() {
		switch x := r.(type) {
		case *ssa.FieldAddr:
			if x.Field != fa.Field {
				continue
			}
			for _, r2 := range *x.Referrers() {
				if st, ok := r2.(*ssa.Store); ok && st.Addr == ssa.Value(x) {
					// a store to the field is harmless only if it cannot run after the test: its block is not the test's block
					// after the load, and is not dominated by the test's block
					sb := st.Block()
					if sb == test {
						before := false
						for _, in := range sb.Instrs {
							if in == ssa.Instruction(st) {
								before = true
								break
							}
							if in == ssa.Instruction(ua) {
								break
							}
						}
						if before {
							continue
						}
						return false
					}
					if test.Dominates(sb) {
						return false
					}
				}
			}
		case *ssa.Store:
			if x.Addr == ssa.Value(base) {
				sb := x.Block()
				if sb == test || test.Dominates(sb) {
					return false
				}
			}
		case *ssa.UnOp:
			// whole-struct load: harmless
		default:
			// the address of the variable goes somewhere else
			if _, isInstr := r.(ssa.Instruction); isInstr {
				if _, isCall := r.(ssa.CallInstruction); isCall {
					return false
				}
			}
		}
	}
	_ = use
	return true
}

// reachingStores returns the values of the stores into the local cell a that can be the last one before the load ld, and
// whether the load can be reached from the function's entry without any store (the cell then holds its zero value).
func reachingStores(ld *ssa.UnOp, a *ssa.Alloc) (vals []ssa.Value, fromEntry bool) {
	type pt struct {
		b *ssa.BasicBlock
		i int
	}
	seen := map[*ssa.BasicBlock]bool{}
	var scan func(b *ssa.BasicBlock, from int)
	scan = func(b *ssa.BasicBlock, from int) {
		for i := from; i >= 0; i-- {
			if st, ok := b.Instrs[i].(*ssa.Store); ok && st.Addr == ssa.Value(a) {
				vals = append(vals, st.Val)
				return
			}
			if b.Instrs[i] == ssa.Instruction(a) {
				fromEntry = true // the allocation itself: nothing was stored since
				return
			}
		}
		if len(b.Preds) == 0 {
			fromEntry = true
			return
		}
		for _, p := range b.Preds {
			if !seen[p] {
				seen[p] = true
				scan(p, len(p.Instrs)-1)
			}
		}
	}
	b := ld.Block()
	idx := -1
	for i, in := range b.Instrs {
		if in == ssa.Instruction(ld) {
			idx = i
		}
	}
	scan(b, idx-1)
	return vals, fromEntry
}

// curScope: the functions in C14's scope, for rules that look at call sites.
var curScope []*ssa.Function

// minLenOf: the least number of elements the slice value v is known to hold (-1: nothing is known). Appends on every path
// count; a phi is as short as its shortest edge (an edge that depends on the phi itself can only be longer).
func minLenOf(v ssa.Value, seen map[ssa.Value]bool, depth int) int64 {
	if depth > 12 {
		return -1
	}
	switch x := v.(type) {
	case *ssa.Const:
		if x.IsNil() {
			return 0
		}
	case *ssa.MakeSlice:
		if k, ok := x.Len.(*ssa.Const); ok && k.Value != nil {
			return k.Int64()
		}
		return 0
	case *ssa.Slice:
		if al, ok := x.X.(*ssa.Alloc); ok && x.Low == nil {
			if arr, ok := al.Type().Underlying().(*types.Pointer).Elem().Underlying().(*types.Array); ok {
				if x.High == nil {
					return arr.Len()
				}
				if k, ok := x.High.(*ssa.Const); ok && k.Value != nil {
					return k.Int64()
				}
			}
		}
		return -1
	case *ssa.Call:
		if bi, ok := x.Call.Value.(*ssa.Builtin); ok && bi.Name() == "append" && len(x.Call.Args) >= 1 {
			base := minLenOf(x.Call.Args[0], seen, depth+1)
			if base < 0 {
				return -1
			}
			if len(x.Call.Args) == 2 {
				if add := minLenOf(x.Call.Args[1], seen, depth+1); add > 0 {
					return base + add
				}
			}
			return base
		}
		return -1
	case *ssa.Phi:
		if seen[x] {
			return 1 << 40 // the loop-carried edge: never the shortest
		}
		seen[x] = true
		best := int64(1 << 40)
		for _, e := range x.Edges {
			m := minLenOf(e, seen, depth+1)
			if m < 0 {
				return -1
			}
			if m < best {
				best = m
			}
		}
		delete(seen, x)
		return best
	}
	return -1
}


// sameSliceValue: two SSA values that denote the same slice at this point: identical, or two loads of the same local cell.
func sameSliceValue(a, b ssa.Value) bool {
	if a == b {
		return true
	}
	la, ok1 := a.(*ssa.UnOp)
	lb, ok2 := b.(*ssa.UnOp)
	return ok1 && ok2 && la.Op == token.MUL && lb.Op == token.MUL && la.X == lb.X
}


// countsUpFromZero: idx is phi+1 with phi = [-1, idx] (the index of a range loop), or a phi [0, phi+1] itself.
func countsUpFromZero(idx ssa.Value) bool {
	if bo, ok := idx.(*ssa.BinOp); ok && bo.Op == token.ADD && isConstInt(bo.Y, 1) {
		if phi, ok := bo.X.(*ssa.Phi); ok {
			okAll := len(phi.Edges) > 0
			for _, e := range phi.Edges {
				if !(isConstInt(e, -1) || e == idx) {
					okAll = false
				}
			}
			return okAll
		}
	}
	if phi, ok := idx.(*ssa.Phi); ok {
		okAll := len(phi.Edges) > 0
		for _, e := range phi.Edges {
			if isConstInt(e, 0) {
				continue
			}
			if bo, ok := e.(*ssa.BinOp); ok && bo.Op == token.ADD && bo.X == ssa.Value(phi) && isConstInt(bo.Y, 1) {
				continue
			}
			okAll = false
		}
		return okAll
	}
	return false
}
