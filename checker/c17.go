package main

import (
	"fmt"
	"go/token"
	"go/types"
	"sort"
	"strings"

	"golang.org/x/tools/go/ssa"
)

func init() {
	register(&property{id: "C17", run: runC17, meta: propMeta{
		level: "other",
		explanation: "Shared-state rule over every function reachable (RTA) from main.main and the library entry points (spec.Parse, ebnf ast.Parse, nfa.Parse, regex ast.Parse, Spec.DFA, Spec.LALRParsingTable, golang.Generate): " +
			"no package-level variable of the module is stored to outside init, written through (map update, element/field store, mutating callee summary) or used as the receiver of a stateful method; " +
			"the same for the dependency's package-level closures capturing stateful values and package-level *rand.Rand (recorded finding). Decides absence of the structural source of interference, not dynamic race freedom.",
		trusted: []string{"reviewed table of concurrency-safe methods ((*regexp.Regexp).MatchString, embed.FS.ReadFile)", "RTA reachability", "stdlib package-level state (fmt, os, sync.Pool) is synchronised by the stdlib"},
		assumptions: []string{"callers do not share a *Spec, *SymbolTable or *Lexer between goroutines (per-call objects)"},
	}})
}

// methods that are documented as safe for concurrent use / do not mutate the receiver
var pureMethods = map[string]string{
	"regexp.(Regexp).MatchString": "regexp.Regexp is safe for concurrent use by multiple goroutines",
	"regexp.(Regexp).Match":       "regexp.Regexp is safe for concurrent use",
	"embed.(FS).ReadFile":         "read-only file system",
	"embed.(FS).Open":             "read-only file system",
}

func entryPoints(c *Ctx) []*ssa.Function {
	var out []*ssa.Function
	add := func(pkg, recv, name string) {
		p := c.Pkg(pkg)
		if p == nil {
			return
		}
		if fd := FuncDecl(p, recv, name); fd != nil {
			if f := c.SSAFunc(p, fd); f != nil {
				out = append(out, f)
			}
		}
	}
	if m := c.mainFunc(); m != nil {
		out = append(out, m)
	}
	add("internal/ebnf/parser/spec", "", "Parse")
	add("internal/ebnf/parser/spec", "Spec", "DFA")
	add("internal/ebnf/parser/spec", "Spec", "LALRParsingTable")
	add("internal/ebnf/parser/spec", "Spec", "Productions")
	add("internal/ebnf/parser/ast", "", "Parse")
	add("internal/regex/parser/nfa", "", "Parse")
	add("internal/regex/parser/ast", "", "Parse")
	add("internal/regex/parser/ast", "AST", "ToDFA")
	add("internal/generate/golang", "", "Generate")
	add("internal/ebnf/parser", "", "New")
	add("internal/ebnf/parser", "Parser", "Parse")
	add("internal/ebnf/parser", "Parser", "ParseAndBuildAST")
	add("internal/ebnf/parser", "Parser", "ParseAndEvaluate")
	add("internal/ebnf/lexer", "", "New")
	add("internal/ebnf/lexer", "Lexer", "NextToken")
	add("internal/command", "Command", "Run")
	return out
}

type mutSummary struct {
	memo map[string]bool
	busy map[string]bool
	prog *ssa.Program
	impl map[string][]*ssa.Function // interface method name -> concrete methods of non-stdlib named types
}

// stdlib functions that write into the memory their first argument refers to
var stdMutators = map[string]bool{
	"slices.Sort": true, "slices.SortFunc": true, "slices.SortStableFunc": true, "slices.Reverse": true,
	"slices.Compact": true, "slices.CompactFunc": true, "slices.Delete": true, "slices.DeleteFunc": true, "slices.Insert": true, "slices.Replace": true,
	"sort.Slice": true, "sort.SliceStable": true, "sort.Sort": true, "sort.Stable": true, "sort.Ints": true, "sort.Strings": true, "sort.Float64s": true,
	"maps.Copy": true, "maps.DeleteFunc": true, "maps.Insert": true,
	"math/rand.Shuffle": false,
}

// refLike: can a value of this type refer to memory shared with where it was read from?
func refLike(t types.Type) bool {
	switch u := t.Underlying().(type) {
	case *types.Slice, *types.Map, *types.Pointer, *types.Interface, *types.Chan, *types.Signature:
		return true
	case *types.Struct:
		for i := 0; i < u.NumFields(); i++ {
			if refLike(u.Field(i).Type()) {
				return true
			}
		}
	case *types.Array:
		return refLike(u.Elem())
	case *types.Tuple:
		for i := 0; i < u.Len(); i++ {
			if refLike(u.At(i).Type()) {
				return true
			}
		}
	}
	return false
}

func (m *mutSummary) implementations(method *types.Func, recv types.Type) []*ssa.Function {
	if m.prog == nil {
		return nil
	}
	if m.impl == nil {
		m.impl = map[string][]*ssa.Function{}
		for _, pkg := range m.prog.AllPackages() {
			if isStdlib(pkg.Pkg.Path()) {
				continue
			}
			for _, mem := range pkg.Members {
				tn, ok := mem.(*ssa.Type)
				if !ok {
					continue
				}
				for _, T := range []types.Type{tn.Type(), types.NewPointer(tn.Type())} {
					ms := m.prog.MethodSets.MethodSet(T)
					for k := 0; k < ms.Len(); k++ {
						if f := m.prog.MethodValue(ms.At(k)); f != nil && len(f.Blocks) > 0 {
							m.impl[f.Name()] = append(m.impl[f.Name()], f)
						}
					}
				}
			}
		}
	}
	iface, _ := recv.Underlying().(*types.Interface)
	var out []*ssa.Function
	for _, f := range m.impl[method.Name()] {
		if iface != nil && f.Signature.Recv() != nil && !types.Implements(f.Signature.Recv().Type(), iface) {
			continue
		}
		out = append(out, f)
	}
	return out
}

// mutatesParam: does fn write through parameter i (element/field store, map update, copy/clear, or a callee that does)?
func (m *mutSummary) mutatesParam(fn *ssa.Function, i int, depth int) bool {
	mut, _ := m.paramSummary(fn, i, depth)
	return mut
}

// paramSummary: (fn writes into memory reachable from parameter i, fn may return something that refers to that memory).
func (m *mutSummary) paramSummary(fn *ssa.Function, i int, depth int) (bool, bool) {
	if fn == nil || len(fn.Blocks) == 0 || i >= len(fn.Params) {
		return false, false
	}
	key := fmt.Sprintf("%s#%d", fn.String(), i)
	if v, ok := m.memo[key]; ok {
		return v, m.memo[key+"/ret"]
	}
	if m.busy[key] || depth > 6 {
		return false, false
	}
	m.busy[key] = true
	defer delete(m.busy, key)
	mut, ret := taintWalk(m, fn, fn.Params[i], depth)
	m.memo[key] = mut
	m.memo[key+"/ret"] = ret
	return mut, ret
}

func mutatesValue(m *mutSummary, fn *ssa.Function, root ssa.Value, depth int) bool {
	mut, _ := taintWalk(m, fn, root, depth)
	return mut
}

// taintWalk follows, inside fn, every value that may refer to the memory root refers to (slices of it, its elements and
// fields when they are references themselves, map values, boxed copies, results of callees that hand their argument back)
// and reports whether that memory is written, and whether a reference to it is returned.
func taintWalk(m *mutSummary, fn *ssa.Function, root ssa.Value, depth int) (mutated bool, returned bool) {
	tainted := map[ssa.Value]bool{root: true}
	work := []ssa.Value{root}
	add := func(v ssa.Value) {
		if !tainted[v] {
			tainted[v] = true
			work = append(work, v)
		}
	}
	addRef := func(v ssa.Value) {
		if refLike(v.Type()) {
			add(v)
		}
	}
	stored := func(addr ssa.Value) bool {
		if addr.Referrers() == nil {
			return false
		}
		for _, rr := range *addr.Referrers() {
			if st, ok := rr.(*ssa.Store); ok && st.Addr == addr {
				return true
			}
		}
		return false
	}
	for len(work) > 0 {
		x := work[len(work)-1]
		work = work[:len(work)-1]
		refs := x.Referrers()
		if refs == nil {
			continue
		}
		for _, r := range *refs {
			switch in := r.(type) {
			case *ssa.Slice:
				add(in)
			case *ssa.Phi:
				add(in)
			case *ssa.ChangeType:
				add(in)
			case *ssa.MakeInterface, *ssa.ChangeInterface:
				addRef(in.(ssa.Value))
			case *ssa.TypeAssert:
				addRef(in)
			case *ssa.Extract:
				addRef(in)
			case *ssa.Convert:
			case *ssa.Lookup:
				if in.X == x {
					addRef(in)
				}
			case *ssa.Index:
				if in.X == x {
					addRef(in)
				}
			case *ssa.Field:
				if in.X == x {
					addRef(in)
				}
			case *ssa.Range:
				add(in)
			case *ssa.Next:
				add(in)
			case *ssa.UnOp:
				// a load through a pointer into the memory: what is loaded is shared if it is a reference itself
				if in.Op == token.MUL && in.X == x {
					addRef(in)
				}
			case *ssa.IndexAddr:
				if in.X == x {
					if stored(in) {
						return true, returned
					}
					add(in)
				}
			case *ssa.FieldAddr:
				if in.X == x {
					if stored(in) {
						return true, returned
					}
					add(in)
				}
			case *ssa.MapUpdate:
				if in.Map == x {
					return true, returned
				}
			case *ssa.Store:
				if in.Addr == x {
					if _, local := x.(*ssa.Alloc); !local {
						return true, returned
					}
				} else if in.Val == x {
					// kept in a local variable: its loads refer to the same memory
					if a, ok := in.Addr.(*ssa.Alloc); ok && a.Referrers() != nil {
						for _, rr := range *a.Referrers() {
							if u, ok := rr.(*ssa.UnOp); ok && u.Op == token.MUL && u.X == ssa.Value(a) {
								addRef(u)
							}
						}
					}
				}
			case *ssa.Return:
				if refLike(x.Type()) {
					returned = true
				}
			case ssa.CallInstruction:
				com := in.Common()
				if b, ok := com.Value.(*ssa.Builtin); ok {
					switch b.Name() {
					case "copy", "clear", "delete":
						if len(com.Args) > 0 && com.Args[0] == x {
							return true, returned
						}
					}
					continue
				}
				var callees []*ssa.Function
				argBase := 0
				if com.IsInvoke() {
					if com.Value == x {
						callees = m.implementations(com.Method, com.Value.Type())
					}
					argBase = 1 // parameter 0 of the concrete method is the receiver
				} else if callee := com.StaticCallee(); callee != nil {
					callees = []*ssa.Function{callee}
				}
				for _, callee := range callees {
					q := qualifiedFuncName(callee)
					if o := callee.Origin(); o != nil {
						q = qualifiedFuncName(o)
					}
					if isStdlib(fnPkgPath(callee)) || (callee.Origin() != nil && isStdlib(fnPkgPath(callee.Origin()))) {
						if stdMutators[q] && len(com.Args) > 0 && com.Args[0] == x {
							return true, returned
						}
						continue
					}
					check := func(pi int) {
						mut, ret := m.paramSummary(callee, pi, depth+1)
						if mut {
							mutated = true
						}
						if ret {
							if v, ok := in.(ssa.Value); ok {
								addRef(v)
							}
						}
					}
					if com.IsInvoke() {
						check(0)
					}
					for ai, a := range com.Args {
						if a == x {
							check(ai + argBase)
						}
					}
					if mutated {
						return true, returned
					}
				}
			}
		}
	}
	return false, returned
}

func runC17(c *Ctx) {
	c.Rule("R17.1", 10, "no package-level variable of the module is written, written through, or used as receiver of a stateful method in reachable code")
	c.Rule("R17.2", 3, "the dependency keeps no shared stateful value behind package-level closures / generators used by reachable code")
	c.Rule("R17.3", 5, "exported lookup tables are read-only")

	roots := entryPoints(c)
	if len(roots) < 10 {
		c.Lost("R17.1", fmt.Sprintf("entry points (found %d)", len(roots)))
		return
	}
	ri := c.reachableFrom(roots...)
	c.Extra("reachable_functions", len(ri.funcs))
	c.Extra("reachable_module_functions", len(ri.module()))
	sum := &mutSummary{memo: map[string]bool{}, busy: map[string]bool{}, prog: c.Prog}

	checkGlobalsIn(c, ri, sum, "R17.1", func(p string) bool { return strings.HasPrefix(p, modPath) }, ri.module())
	checkCapturedState(c, ri)

	// positive control: the rule must fire on the fixture
	selfTestGlobals(c, sum)
}

// checkGlobalsIn examines every use of a package-level variable (of packages selected by ownPkg) in the given functions.
func checkGlobalsIn(c *Ctx, ri *reachInfo, sum *mutSummary, rule string, ownPkg func(string) bool, funcs []*ssa.Function) {
	type gstat struct {
		uses int
		bad  int
	}
	stats := map[string]*gstat{}
	for _, f := range funcs {
		if f.Name() == "init" || strings.HasPrefix(f.Name(), "init#") || f.Synthetic == "package initializer" {
			continue
		}
		c.Analysed(shortFn(f))
		for _, b := range f.Blocks {
			for _, in := range b.Instrs {
				for _, op := range in.Operands(nil) {
					g, ok := (*op).(*ssa.Global)
					if !ok || g.Pkg == nil || !ownPkg(g.Pkg.Pkg.Path()) {
						continue
					}
					name := strings.TrimPrefix(g.Pkg.Pkg.Path(), modPath+"/") + "." + g.Name()
					st := stats[name]
					if st == nil {
						st = &gstat{}
						stats[name] = st
					}
					st.uses++
					key := name + " in " + shortFn(f)
					switch x := in.(type) {
					case *ssa.Store:
						if x.Addr == ssa.Value(g) {
							st.bad++
							c.Fail(rule, "store to "+key, in.Pos(), "a package-level variable is assigned outside init: state shared between runs and goroutines")
						}
						continue
					case *ssa.UnOp:
						if x.Op != token.MUL {
							continue
						}
						why := badUseOfLoaded(sum, f, x, 0)
						if why == "" {
							why = linkedIntoRunData(c, x)
						}
						if why != "" {
							st.bad++
							rr := rule
							if rule == "R17.1" && isExportedTable(g) {
								rr = "R17.3"
							}
							c.Fail(rr, "use of "+key, in.Pos(), "package-level "+name+" "+why+": shared mutable state reachable from the entry points (concurrent or successive runs interfere)",
								"two goroutines (or two successive runs) calling the entry point that reaches "+shortFn(f))
						}
					default:
						// the variable itself (its address) is the receiver or an argument of a call: a stateful method of a value kept
						// at package level (a pool, a cache, a buffer) carries state from one run into the next
						if call, isCall := in.(ssa.CallInstruction); isCall {
							com := call.Common()
							if callee := com.StaticCallee(); callee != nil {
								for ai, a := range com.Args {
									if a != ssa.Value(g) {
										continue
									}
									q := qualifiedFuncName(callee)
									if _, pure := pureMethods[q]; pure {
										continue
									}
									why := ""
									if isStdlib(fnPkgPath(callee)) {
										if ai == 0 && callee.Signature.Recv() != nil {
											why = "has the pointer-receiver method " + q + " called on it (not in the reviewed concurrency-safe, stateless table): what one run leaves in it is what the next run finds"
										}
									} else if sum.mutatesParam(callee, ai, 0) {
										why = "is passed by address to " + q + ", which writes through it"
									}
									if why != "" {
										st.bad++
										c.Fail(rule, "use of "+key, in.Pos(), "package-level "+name+" "+why+": shared mutable state reachable from the entry points (concurrent or successive runs interfere)",
											"two successive runs (or two goroutines) calling the entry point that reaches "+shortFn(f))
									}
								}
							}
						}
						// address of the global taken for something else than load/store
						if _, isField := in.(*ssa.FieldAddr); isField {
							for _, rr := range *in.(ssa.Value).Referrers() {
								if s2, ok := rr.(*ssa.Store); ok && s2.Addr == in.(ssa.Value) {
									st.bad++
									c.Fail(rule, "field store into "+key, in.Pos(), "a field of a package-level variable is assigned")
								}
							}
						}
					}
				}
			}
		}
	}
	var names []string
	for n := range stats {
		names = append(names, n)
	}
	sort.Strings(names)
	for _, n := range names {
		if stats[n].bad == 0 {
			rr := rule
			if rule == "R17.1" && (strings.HasSuffix(n, ".Predefs") || strings.HasSuffix(n, ".RuneClasses") || strings.HasSuffix(n, ".terminalNames") || strings.HasSuffix(n, ".escapedChars") || strings.HasSuffix(n, ".builtin") || strings.HasSuffix(n, ".emojis") || strings.HasSuffix(n, ".productions")) {
				rr = "R17.3"
			}
			c.Pass(rr, "package-level "+n+" is only read", token.NoPos, fmt.Sprintf("%d uses in reachable code", stats[n].uses))
		}
	}
	c.Extra("globals_examined_"+rule, names)
}

func isExportedTable(g *ssa.Global) bool {
	switch g.Type().(*types.Pointer).Elem().Underlying().(type) {
	case *types.Map, *types.Slice:
		return true
	}
	return false
}

// badUseOfLoaded classifies the uses of a value loaded from a package-level variable.
func badUseOfLoaded(sum *mutSummary, fn *ssa.Function, v ssa.Value, depth int) string {
	if depth > 4 {
		return ""
	}
	refs := v.Referrers()
	if refs == nil {
		return ""
	}
	if mutatesValue(sum, fn, v, 0) {
		return "is written through (element/field store, map update, or a callee that mutates its argument)"
	}
	for _, r := range *refs {
		call, ok := r.(ssa.CallInstruction)
		if !ok {
			continue
		}
		com := call.Common()
		if com.IsInvoke() && com.Value == v {
			n := "(" + types.TypeString(v.Type(), nil) + ")." + com.Method.Name()
			return "has the interface method " + n + " invoked on it (stateful by contract; not in the reviewed concurrency-safe table)"
		}
		if callee := com.StaticCallee(); callee != nil && len(com.Args) > 0 && com.Args[0] == v && callee.Signature.Recv() != nil {
			q := qualifiedFuncName(callee)
			if _, pure := pureMethods[q]; pure {
				continue
			}
			if _, isPtr := callee.Signature.Recv().Type().(*types.Pointer); isPtr {
				if isStdlib(fnPkgPath(callee)) {
					return "has the pointer-receiver method " + q + " called on it (not in the reviewed concurrency-safe table)"
				}
				if sum.mutatesParam(callee, 0, 0) {
					return "has the mutating method " + q + " called on it"
				}
			}
		}
		// calling a package-level func value
		if com.Value == v && !com.IsInvoke() {
			continue // handled by checkCapturedState through the closure it was initialised with
		}
	}
	return ""
}

// checkCapturedState: package-level func variables initialised with closures that capture a stateful value, and
// package-level generators (*rand.Rand), in packages of the dependency reachable from the entry points.
func checkCapturedState(c *Ctx, ri *reachInfo) {
	// which dependency globals are used by reachable functions
	used := map[*ssa.Global][]string{}
	for _, f := range ri.nonStd() {
		for _, b := range f.Blocks {
			for _, in := range b.Instrs {
				for _, op := range in.Operands(nil) {
					if g, ok := (*op).(*ssa.Global); ok && g.Pkg != nil && !isStdlib(g.Pkg.Pkg.Path()) && !strings.HasPrefix(g.Pkg.Pkg.Path(), modPath) {
						if _, isStore := in.(*ssa.Store); isStore && (f.Name() == "init" || f.Synthetic != "") {
							continue
						}
						used[g] = append(used[g], shortFn(f))
					}
				}
			}
		}
	}
	var gs []*ssa.Global
	for g := range used {
		gs = append(gs, g)
	}
	sort.Slice(gs, func(i, j int) bool { return gs[i].String() < gs[j].String() })
	n := 0
	for _, g := range gs {
		elem := g.Type().(*types.Pointer).Elem()
		name := g.Pkg.Pkg.Path() + "." + g.Name()
		// *rand.Rand and friends at package level
		if pkg, tn := namedTypeName(elem); (pkg == "math/rand" || pkg == "math/rand/v2") && tn == "Rand" {
			n++
			c.Fail("R17.2", "shared generator "+name, g.Pos(), "a package-level *rand.Rand (not safe for concurrent use) is used by code reachable from the entry points: "+firstN(used[g], 3),
				"two goroutines calling spec.Parse concurrently")
			continue
		}
		if _, isFunc := elem.Underlying().(*types.Signature); !isFunc {
			continue
		}
		// find the init-time store and the closure
		initFn := g.Pkg.Func("init")
		if initFn == nil {
			continue
		}
		for _, b := range initFn.Blocks {
			for _, in := range b.Instrs {
				st, ok := in.(*ssa.Store)
				if !ok || st.Addr != ssa.Value(g) {
					continue
				}
				for _, cl := range closuresOf(st.Val, 0) {
					if why := closureSharedState(cl); why != "" {
						n++
						c.Fail("R17.2", "shared state behind "+name, g.Pos(), "the package-level function value "+name+" is a closure that "+why+"; it is called from "+firstN(used[g], 3),
							"two goroutines calling spec.Parse concurrently")
					} else {
						n++
						c.Pass("R17.2", "closure behind "+name+" captures no stateful value", g.Pos(), "")
					}
				}
			}
		}
	}
	c.Extra("dependency_globals_used", len(gs))
	if n == 0 {
		c.Pass("R17.2", "no package-level closures or generators of the dependency are used", token.NoPos, "")
	}
}

func firstN(s []string, n int) string {
	sort.Strings(s)
	var out []string
	for _, x := range s {
		if len(out) == 0 || out[len(out)-1] != x {
			out = append(out, x)
		}
	}
	if len(out) > n {
		out = append(out[:n], "...")
	}
	return strings.Join(out, ", ")
}

// closuresOf resolves a value to the MakeClosure instructions it may be (through calls returning closures).
func closuresOf(v ssa.Value, depth int) []*ssa.MakeClosure {
	if depth > 4 {
		return nil
	}
	switch x := v.(type) {
	case *ssa.MakeClosure:
		return []*ssa.MakeClosure{x}
	case *ssa.ChangeType:
		return closuresOf(x.X, depth+1)
	case *ssa.Call:
		callee := x.Call.StaticCallee()
		if callee == nil {
			return nil
		}
		var out []*ssa.MakeClosure
		for _, b := range callee.Blocks {
			if ret, ok := b.Instrs[len(b.Instrs)-1].(*ssa.Return); ok {
				for _, r := range ret.Results {
					out = append(out, closuresOf(r, depth+1)...)
				}
			}
		}
		return out
	}
	return nil
}

// closureSharedState: the closure invokes methods on (or writes through) a captured value.
func closureSharedState(mc *ssa.MakeClosure) string {
	fn, ok := mc.Fn.(*ssa.Function)
	if !ok {
		return ""
	}
	for i, fv := range fn.FreeVars {
		// the binding is created once (at init), so everything reached through it is shared
		var vals []ssa.Value
		vals = append(vals, fv)
		for _, r := range *fv.Referrers() {
			if u, ok := r.(*ssa.UnOp); ok && u.Op == token.MUL {
				vals = append(vals, u)
			}
		}
		for _, v := range vals {
			for _, r := range *v.Referrers() {
				switch in := r.(type) {
				case ssa.CallInstruction:
					com := in.Common()
					if com.IsInvoke() && com.Value == v {
						return fmt.Sprintf("invokes %s.%s on the captured variable %s (bound once at initialisation, shared by all callers)", types.TypeString(v.Type(), nil), com.Method.Name(), fn.FreeVars[i].Name())
					}
					if callee := com.StaticCallee(); callee != nil && len(com.Args) > 0 && com.Args[0] == v && callee.Signature.Recv() != nil {
						if _, isPtr := callee.Signature.Recv().Type().(*types.Pointer); isPtr {
							if _, pure := pureMethods[qualifiedFuncName(callee)]; !pure {
								return fmt.Sprintf("calls %s on the captured variable %s", qualifiedFuncName(callee), fn.FreeVars[i].Name())
							}
						}
					}
				case *ssa.Store:
					if in.Addr == v {
						return "assigns the captured variable " + fn.FreeVars[i].Name()
					}
				}
			}
		}
	}
	return ""
}

// selfTestGlobals runs the classifier on the fixture package /verif/checker/testdata/globals (positive control).
func selfTestGlobals(c *Ctx, sum *mutSummary) {
	fx, err := loadFixture(c, "globals")
	if err != nil {
		c.Fail("R17.1", "positive control: fixture loads", token.NoPos, "cannot load fixture: "+err.Error())
		return
	}
	fired := map[string]bool{}
	for _, f := range fx.funcs {
		for _, b := range f.Blocks {
			for _, in := range b.Instrs {
				for _, op := range in.Operands(nil) {
					g, ok := (*op).(*ssa.Global)
					if !ok || g.Pkg == nil || g.Pkg != f.Pkg {
						continue
					}
					switch x := in.(type) {
					case *ssa.Store:
						if x.Addr == ssa.Value(g) && f.Name() != "init" {
							fired[g.Name()] = true
						}
					case *ssa.UnOp:
						if x.Op == token.MUL && badUseOfLoaded(sum, f, x, 0) != "" {
							fired[g.Name()] = true
						}
					}
				}
			}
		}
	}
	for _, want := range []string{"counter", "cache", "hasher", "table"} {
		c.Check("R17.1", "positive control: rule fires on fixture global "+want, token.NoPos, fired[want], "the shared-state rule did not fire on a fixture that mutates a package-level "+want)
	}
	c.Check("R17.1", "positive control: rule is silent on the read-only fixture global", token.NoPos, !fired["readonly"] && !fired["re"], "the rule fired on a read-only table / a regexp")
}


// linkedIntoRunData: v is a pointer loaded from a package-level variable. If the struct it points to has a field that
// reachable code assigns through a pointer it did not just allocate (the object is mutable after construction), and v is
// stored into a heap object, appended to a list or boxed into an interface that is, then every run links the one shared
// object into its own data and rewrites it there.
func linkedIntoRunData(c *Ctx, v ssa.Value) string {
	pt, ok := v.Type().Underlying().(*types.Pointer)
	if !ok {
		return ""
	}
	stT, ok := pt.Elem().Underlying().(*types.Struct)
	if !ok {
		return ""
	}
	mutField := ""
	for i := 0; i < stT.NumFields() && mutField == ""; i++ {
		for _, st := range c.fieldStores(pt.Elem(), i) {
			fa := st.Addr.(*ssa.FieldAddr)
			if _, fresh := fa.X.(*ssa.Alloc); fresh {
				continue
			}
			mutField = stT.Field(i).Name() + " (assigned in " + shortFn(st.Parent()) + ")"
			break
		}
	}
	if mutField == "" {
		return ""
	}
	var escapes func(x ssa.Value, depth int) bool
	escapes = func(x ssa.Value, depth int) bool {
		if depth > 3 || x.Referrers() == nil {
			return false
		}
		for _, r := range *x.Referrers() {
			switch u := r.(type) {
			case *ssa.Store:
				if u.Val == x {
					return true
				}
			case *ssa.MakeInterface:
				if escapes(u, depth+1) {
					return true
				}
			case *ssa.ChangeInterface:
				if escapes(u, depth+1) {
					return true
				}
			case *ssa.Phi:
				if escapes(u, depth+1) {
					return true
				}
			case *ssa.Return:
				return true
			}
		}
		return false
	}
	if escapes(v, 0) {
		return "is linked into the data of a run (stored, appended or returned) although its field " + mutField + " is assigned after construction"
	}
	return ""
}
