package main

import (
	"fmt"
	"go/ast"
	"go/token"
	"go/types"

	"golang.org/x/tools/go/ssa"
)

func init() {
	register(&property{id: "C18", run: runC18, meta: propMeta{
		level: "other",
		explanation: "Driver protocol on SSA: the token callback runs once per SHIFT, after the push and before the next token is read, with the look-ahead token; the production callback once per REDUCE, after the goto push, with ACTION's parameter; every callback error is tested and, when non-nil, reaches the returned error with no further callback on that path; " +
			"ParseAndEvaluate's production closure pops exactly len(body) values into strictly descending indices, hands the evaluation callback the production index and that slice, makes its result the head's value and the first body value's position the head's position; the token closure pushes the lexeme and a copy of the position. The callback sequence for arbitrary inputs then follows from exact tables (C04) by LR theory.",
		trusted: []string{"LR parsing theory", "exact LALR(1) tables (C04 R4.1)", "the dependency's stack (Push/Pop/Peek)"},
		assumptions: []string{"callbacks do not mutate the parser"},
	}})
}

func runC18(c *Ctx) {
	c.Rule("R18.1", 20, "driver order: shift pushes then yields the token then reads; reduce pops, pushes goto then yields the production")
	c.Rule("R18.2", 4, "callback errors abort the parse and are returned")
	c.Rule("R18.3", 9, "ParseAndEvaluate: value plumbing between the stacks and the evaluation callback")

	c.mute = map[string]bool{"R4.2": true}
	g := extractEBNF(c, "R18.1")
	if g == nil {
		return
	}
	d := checkDriver(c, g, "R18.1")
	if d == nil || !d.ok || d.shiftPush == nil || d.reducePush == nil {
		return
	}
	fn := d.fn
	// callbacks: calls whose callee value is a function-typed parameter
	var cbs []*ssa.Call
	allCalls(fn, func(call ssa.CallInstruction) {
		cv, ok := call.(*ssa.Call)
		if !ok {
			return
		}
		if _, isParam := cv.Call.Value.(*ssa.Parameter); isParam && !cv.Call.IsInvoke() {
			cbs = append(cbs, cv)
		}
	})
	// a callback handed to a helper of the package that invokes it (yield(tokenF, &token)): the helper's call in the driver is
	// the callback site, with the helper's argument that reaches the callback as the callback's argument; the helper must call the
	// callback at exactly one place
	effArg := map[*ssa.Call]ssa.Value{}
	allCalls(fn, func(call ssa.CallInstruction) {
		cv, ok := call.(*ssa.Call)
		if !ok {
			return
		}
		h := cv.Call.StaticCallee()
		if h == nil || h.Pkg != fn.Pkg || h == fn || len(h.Blocks) == 0 {
			return
		}
		for ai, a := range cv.Call.Args {
			prm, isParam := a.(*ssa.Parameter)
			if !isParam || ai >= len(h.Params) {
				continue
			}
			if _, isFunc := prm.Type().Underlying().(*types.Signature); !isFunc {
				continue
			}
			var inner []*ssa.Call
			allCalls(h, func(ic ssa.CallInstruction) {
				if iv, ok := ic.(*ssa.Call); ok && iv.Call.Value == ssa.Value(h.Params[ai]) {
					inner = append(inner, iv)
				}
			})
			if len(inner) != 1 || len(inner[0].Call.Args) != 1 {
				continue
			}
			for k, hp := range h.Params {
				if inner[0].Call.Args[0] == ssa.Value(hp) && k < len(cv.Call.Args) {
					cbs = append(cbs, cv)
					effArg[cv] = cv.Call.Args[k]
				}
			}
		}
	})
	argOf := func(cb *ssa.Call) ssa.Value {
		if v, ok := effArg[cb]; ok {
			return v
		}
		if len(cb.Call.Args) == 1 {
			return cb.Call.Args[0]
		}
		return nil
	}
	var tokCB, prodCB []*ssa.Call
	for _, cb := range cbs {
		if a := argOf(cb); a != nil && a == ssa.Value(d.tok) {
			tokCB = append(tokCB, cb)
		} else if a != nil && a == d.param {
			prodCB = append(prodCB, cb)
		} else {
			c.Fail("R18.1", "callback argument", cb.Pos(), "a callback is invoked with something other than the look-ahead token or ACTION's production index")
		}
	}
	after := func(a, b ssa.Instruction) bool { // a executes before b on every path reaching b
		if a.Block() == b.Block() {
			return instrIndex(a) < instrIndex(b)
		}
		return a.Block().Dominates(b.Block())
	}
	if len(tokCB) == 0 {
		c.Undecided("R18.1", "exactly one token-callback site", fn.Pos(), "no call of the token callback was found in the driver or in a helper it hands the callback to")
	} else if c.Check("R18.1", "exactly one token-callback site", fn.Pos(), len(tokCB) == 1, fmt.Sprintf("%d sites", len(tokCB))) {
		cb := tokCB[0]
		c.Check("R18.1", "the token callback runs only on SHIFT", cb.Pos(), controlledByEq(cb.Block(), d.typ, d.kShift), "token callback not guarded by action == lr.SHIFT")
		// before the next token is read: the shift-region nextToken call comes after
		okBefore := false
		for _, nt := range d.nextTokCalls {
			if controlledByEq(nt.Block(), d.typ, d.kShift) {
				okBefore = after(cb, nt) || reach(cb.Block(), nil)[nt.Block()] && !reach(nt.Block(), map[*ssa.BasicBlock]bool{d.ac.Block(): true})[cb.Block()]
			}
		}
		c.Check("R18.1", "the token callback runs before the next token is read", cb.Pos(), okBefore, "the look-ahead is overwritten before the shifted token is yielded: the callback sees the wrong token")
		checkCallbackError(c, fn, cb, "token callback")
	}
	if len(prodCB) == 0 {
		c.Undecided("R18.1", "exactly one production-callback site", fn.Pos(), "no call of the production callback was found in the driver or in a helper it hands the callback to")
	} else if c.Check("R18.1", "exactly one production-callback site", fn.Pos(), len(prodCB) == 1, fmt.Sprintf("%d sites", len(prodCB))) {
		cb := prodCB[0]
		c.Check("R18.1", "the production callback runs only on REDUCE", cb.Pos(), controlledByEq(cb.Block(), d.typ, d.kReduce), "production callback not guarded by action == lr.REDUCE")
		c.Check("R18.1", "the production callback runs once per reduction (not inside the pop loop)", cb.Pos(), !d.popLoop[cb.Block()], "the production callback is inside the loop that pops the body's states")
		checkCallbackError(c, fn, cb, "production callback")
	}
	// no callback is reachable after a callback error without passing the ACTION call again: implied by returnsNonNilError (the branch returns)

	checkEvaluatePlumbing(c, g)
}

func checkCallbackError(c *Ctx, fn *ssa.Function, cb *ssa.Call, what string) {
	if !isErr(cb.Type()) {
		c.Fail("R18.2", what+" returns an error", cb.Pos(), "callback has no error result")
		return
	}
	tested := false
	for _, r := range *cb.Referrers() {
		if bo, ok := r.(*ssa.BinOp); ok {
			if nn, ok := isNilCheck(bo, cb); ok {
				for _, rr := range *bo.Referrers() {
					if ifi, ok := rr.(*ssa.If); ok {
						succ := ifi.Block().Succs[0]
						if !nn {
							succ = ifi.Block().Succs[1]
						}
						if returnsNonNilError(succ, ifi.Block()) {
							tested = true
						}
					}
				}
			}
		}
	}
	c.Check("R18.2", "an error from the "+what+" stops the parse", cb.Pos(), tested, "the callback's error is not tested, or the non-nil branch does not return")
	c.Check("R18.2", "the error from the "+what+" is what the caller gets", cb.Pos(), errReachesReturn(fn, cb), "the returned error does not derive from the callback's error")
	// stronger, where it can be decided: every error returned where the callback failed carries the callback's own error
	for _, b := range fn.Blocks {
		ret, ok := b.Instrs[len(b.Instrs)-1].(*ssa.Return)
		if !ok || len(ret.Results) == 0 || !controlledNil(b, cb, true) {
			continue
		}
		res, why := errWraps(fn, retOperand(ret, len(ret.Results)-1), cb, 0)
		key := "the error returned when the " + what + " fails carries that very error"
		switch res {
		case 1:
			c.Pass("R18.2", key, ret.Pos(), "")
		case 0:
			c.Fail("R18.2", key, ret.Pos(), "on the path where the callback failed the caller gets "+why+": errors.Is(err, callbackErr) no longer holds and what the callback reported is lost",
				"a callback that returns fmt.Errorf(\"context: %w\", &parser.ParseError{...})")
		default:
			c.Undecided("R18.2", key, ret.Pos(), why)
		}
	}
}

// checkEvaluatePlumbing: R18.3 on the AST of the function that adapts the evaluation callback.
func checkEvaluatePlumbing(c *Ctx, g *ebnfGrammar) {
	p := g.pkg
	info := p.TypesInfo
	var fd *ast.FuncDecl
	AllFuncDecls(p, func(f *ast.FuncDecl) {
		if f.Body == nil || f.Type.Params == nil || len(f.Type.Params.List) != 1 {
			return
		}
		if _, n := namedTypeName(info.TypeOf(f.Type.Params.List[0].Type)); n == "EvaluateFunc" {
			fd = f
		}
	})
	if fd == nil {
		c.Lost("R18.3", "the function taking an EvaluateFunc")
		return
	}
	c.Analysed(funcKey(p, fd))
	evalParam := info.Defs[fd.Type.Params.List[0].Names[0]]
	var lits []*ast.FuncLit
	ast.Inspect(fd.Body, func(n ast.Node) bool {
		if fl, ok := n.(*ast.FuncLit); ok {
			lits = append(lits, fl)
			return false
		}
		return true
	})
	if len(lits) != 2 {
		c.Undecided("R18.3", "closures of ParseAndEvaluate", fd.Pos(), fmt.Sprintf("%d closures", len(lits)))
		return
	}
	tokLit, prodLit := lits[0], lits[1]
	tokParam := info.Defs[tokLit.Type.Params.List[0].Names[0]]
	idxParam := info.Defs[prodLit.Type.Params.List[0].Names[0]]

	// token closure: Push(&lr.Value{Val: token.Lexeme, Pos: &copy}) with copy := token.Pos
	nPush := 0
	copies := map[types.Object]bool{}
	ast.Inspect(tokLit.Body, func(n ast.Node) bool {
		if as, ok := n.(*ast.AssignStmt); ok && len(as.Lhs) == 1 && len(as.Rhs) == 1 {
			if sel, ok := ast.Unparen(as.Rhs[0]).(*ast.SelectorExpr); ok && sel.Sel.Name == "Pos" {
				if id, ok := sel.X.(*ast.Ident); ok && info.Uses[id] == tokParam {
					if l, ok := as.Lhs[0].(*ast.Ident); ok {
						copies[info.Defs[l]] = true
					}
				}
			}
		}
		call, ok := n.(*ast.CallExpr)
		if !ok {
			return true
		}
		if sel, ok := call.Fun.(*ast.SelectorExpr); !ok || sel.Sel.Name != "Push" || len(call.Args) != 1 {
			return true
		}
		nPush++
		arg := ast.Unparen(call.Args[0])
		if u, ok := arg.(*ast.UnaryExpr); ok {
			arg = u.X
		}
		cl, ok := arg.(*ast.CompositeLit)
		if !ok {
			c.Fail("R18.3", "token value literal", call.Pos(), "the token closure does not push a value literal")
			return true
		}
		fs, _ := compositeFields(cl)
		valOK := false
		if sel, ok := ast.Unparen(fs["Val"]).(*ast.SelectorExpr); ok && sel.Sel.Name == "Lexeme" {
			if id, ok := sel.X.(*ast.Ident); ok && info.Uses[id] == tokParam {
				valOK = true
			}
		}
		c.Check("R18.3", "a terminal's value is the token's lexeme", call.Pos(), valOK, "Val is not token.Lexeme")
		posOK := false
		if u, ok := ast.Unparen(fs["Pos"]).(*ast.UnaryExpr); ok && u.Op == token.AND {
			if id, ok := u.X.(*ast.Ident); ok && copies[info.Uses[id]] {
				posOK = true
			}
		}
		c.Check("R18.3", "a terminal's position is a copy of the token's position", call.Pos(), posOK, "Pos is not the address of a per-call copy of token.Pos (aliasing the driver's token variable would make every value point at the last token)")
		return true
	})
	c.Check("R18.3", "one value pushed per token", tokLit.Pos(), nPush == 1, fmt.Sprintf("%d pushes", nPush))

	// production closure
	var lenVar, rhsVar types.Object
	inlineLen := false
	ast.Inspect(prodLit.Body, func(n ast.Node) bool {
		as, ok := n.(*ast.AssignStmt)
		if !ok || len(as.Lhs) != 1 || len(as.Rhs) != 1 {
			return true
		}
		l, ok := as.Lhs[0].(*ast.Ident)
		if !ok {
			return true
		}
		call, ok := ast.Unparen(as.Rhs[0]).(*ast.CallExpr)
		if !ok {
			return true
		}
		if id, ok := call.Fun.(*ast.Ident); ok && id.Name == "len" && len(call.Args) == 1 {
			// len(productions[i].Body)
			if sel, ok := ast.Unparen(call.Args[0]).(*ast.SelectorExpr); ok && sel.Sel.Name == "Body" {
				if ix, ok := ast.Unparen(sel.X).(*ast.IndexExpr); ok {
					if pid, ok := ast.Unparen(ix.X).(*ast.Ident); ok && info.Uses[pid] == types.Object(g.prodsVar) {
						if ii, ok := ast.Unparen(ix.Index).(*ast.Ident); ok && info.Uses[ii] == idxParam {
							lenVar = info.Defs[l]
						}
					}
				}
			}
		}
		if id, ok := call.Fun.(*ast.Ident); ok && id.Name == "make" && len(call.Args) == 2 {
			if li, ok := ast.Unparen(call.Args[1]).(*ast.Ident); ok && lenVar != nil && info.Uses[li] == lenVar {
				rhsVar = info.Defs[l]
			}
			// make([]T, len(productions[i].Body)) without a local for the length
			if lc, ok := ast.Unparen(call.Args[1]).(*ast.CallExpr); ok && len(lc.Args) == 1 {
				if lid, ok := lc.Fun.(*ast.Ident); ok && lid.Name == "len" {
					if sel, ok := ast.Unparen(lc.Args[0]).(*ast.SelectorExpr); ok && sel.Sel.Name == "Body" {
						if ix, ok := ast.Unparen(sel.X).(*ast.IndexExpr); ok {
							if pid, ok := ast.Unparen(ix.X).(*ast.Ident); ok && info.Uses[pid] == types.Object(g.prodsVar) {
								if ii, ok := ast.Unparen(ix.Index).(*ast.Ident); ok && info.Uses[ii] == idxParam {
									rhsVar = info.Defs[l]
									inlineLen = true
								}
							}
						}
					}
				}
			}
		}
		return true
	})
	// the same two questions asked of the closure's SSA, for shapes the syntax rules below do not read
	fillRes, fillWhy := -1, ""
	if pfn := c.SSAFunc(p, fd); pfn != nil {
		for _, af := range pfn.AnonFuncs {
			if af.Pos() == prodLit.Type.Func || af.Pos() == prodLit.Pos() {
				fillRes, fillWhy = popFillOrder(af, g)
			}
		}
	}
	if (lenVar == nil && !inlineLen) || rhsVar == nil {
		switch fillRes {
		case 1:
			c.Pass("R18.3", "the number of values taken is len(productions[i].Body)", prodLit.Pos(), "decided on the closure's SSA")
		default:
			c.Undecided("R18.3", "the number of values taken is len(productions[i].Body)", prodLit.Pos(), "the slice handed to the evaluation callback was not recognised as made with the length of the production's body ("+fillWhy+")")
		}
	} else {
		c.Pass("R18.3", "the number of values taken is len(productions[i].Body)", prodLit.Pos(), "")
	}
	// the descending loop
	var loop *ast.ForStmt
	ast.Inspect(prodLit.Body, func(n ast.Node) bool {
		if f, ok := n.(*ast.ForStmt); ok {
			loop = f
		}
		return true
	})
	loopOK := false
	why := "no counted loop in the production closure"
	if loop != nil && loop.Init != nil && loop.Cond != nil && loop.Post != nil {
		why = ""
		init, ok1 := loop.Init.(*ast.AssignStmt)
		cond, ok2 := ast.Unparen(loop.Cond).(*ast.BinaryExpr)
		post, ok3 := loop.Post.(*ast.IncDecStmt)
		if ok1 && ok2 && ok3 && len(init.Lhs) == 1 && len(init.Rhs) == 1 {
			iv := info.Defs[init.Lhs[0].(*ast.Ident)]
			initOK := false
			if b, ok := ast.Unparen(init.Rhs[0]).(*ast.BinaryExpr); ok && b.Op == token.SUB {
				if li, ok := ast.Unparen(b.X).(*ast.Ident); ok && info.Uses[li] == lenVar {
					if v, ok := constInt(info, b.Y); ok && v == 1 {
						initOK = true
					}
				}
			}
			condOK := false
			if ci, ok := ast.Unparen(cond.X).(*ast.Ident); ok && info.Uses[ci] == iv && cond.Op == token.GEQ {
				if v, ok := constInt(info, cond.Y); ok && v == 0 {
					condOK = true
				}
			}
			postOK := post.Tok == token.DEC
			if pi, ok := post.X.(*ast.Ident); !ok || info.Uses[pi] != iv {
				postOK = false
			}
			// body: v, _ := Pop(); rhs[i] = v
			pops, stores := 0, 0
			var popVar types.Object
			ast.Inspect(loop.Body, func(n ast.Node) bool {
				as, ok := n.(*ast.AssignStmt)
				if !ok || len(as.Rhs) != 1 {
					return true
				}
				if call, ok := ast.Unparen(as.Rhs[0]).(*ast.CallExpr); ok {
					if sel, ok := call.Fun.(*ast.SelectorExpr); ok && sel.Sel.Name == "Pop" {
						pops++
						if id, ok := as.Lhs[0].(*ast.Ident); ok {
							popVar = info.Defs[id]
						}
					}
				}
				if ix, ok := as.Lhs[0].(*ast.IndexExpr); ok {
					xi, ok1 := ast.Unparen(ix.X).(*ast.Ident)
					ii, ok2 := ast.Unparen(ix.Index).(*ast.Ident)
					vi, ok3 := ast.Unparen(as.Rhs[0]).(*ast.Ident)
					if ok1 && ok2 && ok3 && info.Uses[xi] == rhsVar && info.Uses[ii] == iv && popVar != nil && info.Uses[vi] == popVar {
						stores++
					}
				}
				return true
			})
			loopOK = initOK && condOK && postOK && pops == 1 && stores == 1
			why = fmt.Sprintf("loop init l-1=%v, cond i>=0=%v, post i--=%v, pops=%d, stores rhs[i]=%d", initOK, condOK, postOK, pops, stores)
		} else {
			why = "loop is not `for i := l - 1; i >= 0; i--`"
		}
	}
	fillKey := "values are popped into strictly descending positions l-1 .. 0 (first popped is the last body symbol)"
	switch {
	case loopOK || fillRes == 1:
		c.Pass("R18.3", fillKey, prodLit.Pos(), "")
	case fillRes == 0:
		c.Fail("R18.3", fillKey, prodLit.Pos(), "the body values are not placed left to right: "+fillWhy, "any production with two value-carrying symbols, e.g. rhs → rhs rhs")
	case loop != nil && loop.Init != nil && loop.Cond != nil && loop.Post != nil && lenVar != nil && rhsVar != nil:
		// the syntax rule read the loop and found it wrong
		c.Fail("R18.3", fillKey, prodLit.Pos(), "the body values are not placed left to right: "+why, "any production with two value-carrying symbols, e.g. rhs → rhs rhs")
	default:
		c.Undecided("R18.3", fillKey, prodLit.Pos(), "the loop that fills the values was not understood ("+why+"; "+fillWhy+")")
	}
	// eval(i, rhs)
	var evalCall *ast.CallExpr
	var lhsVar, errVar types.Object
	ast.Inspect(prodLit.Body, func(n ast.Node) bool {
		as, ok := n.(*ast.AssignStmt)
		if !ok || len(as.Rhs) != 1 || len(as.Lhs) != 2 {
			return true
		}
		call, ok := ast.Unparen(as.Rhs[0]).(*ast.CallExpr)
		if !ok {
			return true
		}
		if id, ok := call.Fun.(*ast.Ident); ok && info.Uses[id] == evalParam {
			evalCall = call
			if a, ok := as.Lhs[0].(*ast.Ident); ok {
				lhsVar = info.Defs[a]
			}
			if b, ok := as.Lhs[1].(*ast.Ident); ok {
				errVar = info.Defs[b]
			}
		}
		return true
	})
	if !c.Check("R18.3", "the evaluation callback is called once per reduction", prodLit.Pos(), evalCall != nil && len(evalCall.Args) == 2, "no call eval(i, rhs) in the production closure") {
		return
	}
	a0, ok0 := ast.Unparen(evalCall.Args[0]).(*ast.Ident)
	a1, ok1 := ast.Unparen(evalCall.Args[1]).(*ast.Ident)
	c.Check("R18.3", "the evaluation callback receives the production index and the body values", evalCall.Pos(),
		ok0 && ok1 && info.Uses[a0] == idxParam && info.Uses[a1] == rhsVar, "eval is not called with (production index, values slice)")
	// error returned
	errRet := false
	ast.Inspect(prodLit.Body, func(n ast.Node) bool {
		ifs, ok := n.(*ast.IfStmt)
		if !ok {
			return true
		}
		if b, ok := ast.Unparen(ifs.Cond).(*ast.BinaryExpr); ok && b.Op == token.NEQ && isNilExpr(info, b.Y) {
			if id, ok := ast.Unparen(b.X).(*ast.Ident); ok && info.Uses[id] == errVar && len(ifs.Body.List) == 1 {
				if r, ok := ifs.Body.List[0].(*ast.ReturnStmt); ok && len(r.Results) == 1 {
					if rid, ok := ast.Unparen(r.Results[0]).(*ast.Ident); ok && info.Uses[rid] == errVar {
						errRet = true
					}
				}
			}
		}
		return true
	})
	c.Check("R18.2", "an error from the evaluation callback is returned to the driver", evalCall.Pos(), errRet, "the production closure does not return eval's error")
	// pushed value
	valOK, posOK, pushes := false, false, 0
	var vVar types.Object
	ast.Inspect(prodLit.Body, func(n ast.Node) bool {
		switch s := n.(type) {
		case *ast.AssignStmt:
			if len(s.Lhs) == 1 && len(s.Rhs) == 1 {
				r := ast.Unparen(s.Rhs[0])
				if u, ok := r.(*ast.UnaryExpr); ok && u.Op == token.AND {
					if cl, ok := u.X.(*ast.CompositeLit); ok {
						fs, _ := compositeFields(cl)
						if id, ok := ast.Unparen(fs["Val"]).(*ast.Ident); ok && info.Uses[id] == lhsVar {
							valOK = true
							if l, ok := s.Lhs[0].(*ast.Ident); ok {
								vVar = info.Defs[l]
							}
						}
					}
				}
				// v.Pos = rhs[0].Pos
				if sel, ok := s.Lhs[0].(*ast.SelectorExpr); ok && sel.Sel.Name == "Pos" {
					if rs, ok := r.(*ast.SelectorExpr); ok && rs.Sel.Name == "Pos" {
						if ix, ok := ast.Unparen(rs.X).(*ast.IndexExpr); ok {
							if xi, ok := ast.Unparen(ix.X).(*ast.Ident); ok && info.Uses[xi] == rhsVar {
								if k, ok := constInt(info, ix.Index); ok && k == 0 {
									posOK = true
								}
							}
						}
					}
				}
			}
		case *ast.CallExpr:
			if sel, ok := s.Fun.(*ast.SelectorExpr); ok && sel.Sel.Name == "Push" && len(s.Args) == 1 {
				if id, ok := ast.Unparen(s.Args[0]).(*ast.Ident); ok && vVar != nil && info.Uses[id] == vVar {
					pushes++
				}
			}
		}
		return true
	})
	c.Check("R18.3", "the callback's result becomes the head's value", prodLit.Pos(), valOK && pushes == 1, "the value pushed for the head is not &lr.Value{Val: <result of eval>}")
	c.Check("R18.3", "the first body symbol's position becomes the head's position", prodLit.Pos(), posOK, "v.Pos is not taken from rhs[0].Pos")
}

// popFillOrder decides, on the SSA of the production closure, that the values popped for a production of n body symbols are
// placed right to left: the slice is made with n = len(productions[i].Body) elements, one value is popped per round of a loop
// that runs n times, and the j-th value popped (j = 0, 1, ...) is stored at position n-1-j. The index expression is read as an
// affine form a·n + b·counter + k over the loop's counter, so `for i := n-1; i >= 0; i--  rhs[i] = pop` and
// `for k := range rhs  rhs[len(rhs)-1-k] = pop` are the same thing. Returns 1 (holds), 0 (violated), -1 (not understood).
func popFillOrder(fn *ssa.Function, g *ebnfGrammar) (int, string) {
	if fn == nil || len(fn.Params) == 0 {
		return -1, "no SSA for the production closure"
	}
	idx := ssa.Value(fn.Params[0])
	var m *ssa.MakeSlice
	for _, b := range fn.Blocks {
		for _, in := range b.Instrs {
			if ms, ok := in.(*ssa.MakeSlice); ok && isLenOfProdField(fn, ms.Len, g, idx, "Body") {
				m = ms
			}
		}
	}
	if m == nil {
		return -1, "no slice made with len(productions[i].Body) elements"
	}
	var pops []*ssa.Call
	allCalls(fn, func(call ssa.CallInstruction) {
		if cv, ok := call.(*ssa.Call); ok && methodNameOf(call) == "Pop" {
			pops = append(pops, cv)
		}
	})
	if len(pops) != 1 {
		return -1, fmt.Sprintf("%d pop sites", len(pops))
	}
	pop := pops[0]
	// the store of the popped value into the slice
	var store *ssa.Store
	var ia *ssa.IndexAddr
	for _, b := range fn.Blocks {
		for _, in := range b.Instrs {
			st, ok := in.(*ssa.Store)
			if !ok {
				continue
			}
			a, ok := st.Addr.(*ssa.IndexAddr)
			if !ok || a.X != ssa.Value(m) {
				continue
			}
			v := st.Val
			if ex, ok := v.(*ssa.Extract); ok && ex.Tuple == ssa.Value(pop) {
				store, ia = st, a
			}
		}
	}
	if store == nil {
		return -1, "the popped value is not stored into an element of that slice"
	}
	// the loop counter: an int phi with an edge phi±1, in a block that dominates the pop
	var ctr *ssa.Phi
	step := int64(0)
	var initV ssa.Value
	for _, b := range fn.Blocks {
		if !(b == pop.Block() || b.Dominates(pop.Block())) {
			continue
		}
		for _, in := range b.Instrs {
			ph, ok := in.(*ssa.Phi)
			if !ok || !isInt(ph.Type()) {
				continue
			}
			var iv ssa.Value
			st := int64(0)
			for _, e := range ph.Edges {
				if bo, ok := e.(*ssa.BinOp); ok && bo.X == ssa.Value(ph) && isConstInt(bo.Y, 1) {
					switch bo.Op {
					case token.ADD:
						st = 1
					case token.SUB:
						st = -1
					}
				} else {
					iv = e
				}
			}
			if st != 0 && iv != nil {
				ctr, step, initV = ph, st, iv
			}
		}
	}
	if ctr == nil {
		return -1, "no loop counter around the pop"
	}
	// affine forms over (n, counter)
	type lin struct{ n, c, k int64 }
	var eval func(v ssa.Value, depth int) (lin, bool)
	eval = func(v ssa.Value, depth int) (lin, bool) {
		if depth > 6 {
			return lin{}, false
		}
		if v == ssa.Value(ctr) {
			return lin{0, 1, 0}, true
		}
		if v == m.Len {
			return lin{1, 0, 0}, true
		}
		switch x := v.(type) {
		case *ssa.Const:
			if x.Value != nil {
				return lin{0, 0, x.Int64()}, true
			}
		case *ssa.Call:
			if bi, ok := x.Call.Value.(*ssa.Builtin); ok && bi.Name() == "len" {
				if x.Call.Args[0] == ssa.Value(m) || isLenOfProdField(fn, x, g, idx, "Body") {
					return lin{1, 0, 0}, true
				}
			}
		case *ssa.BinOp:
			a, ok1 := eval(x.X, depth+1)
			b, ok2 := eval(x.Y, depth+1)
			if ok1 && ok2 {
				switch x.Op {
				case token.ADD:
					return lin{a.n + b.n, a.c + b.c, a.k + b.k}, true
				case token.SUB:
					return lin{a.n - b.n, a.c - b.c, a.k - b.k}, true
				}
			}
		case *ssa.Convert:
			return eval(x.X, depth+1)
		}
		return lin{}, false
	}
	e, ok1 := eval(ia.Index, 0)
	i0, ok2 := eval(initV, 0)
	if !ok1 || !ok2 || i0.c != 0 {
		return -1, "the index of the store or the start of the counter is not an affine form over the length and the counter"
	}
	// position of the j-th value: e.n·n + e.c·(init + j·step) + e.k  must be  n - 1 - j
	if e.c*step == -1 && e.n+e.c*i0.n == 1 && e.c*i0.k+e.k == -1 {
		return 1, ""
	}
	return 0, fmt.Sprintf("the j-th value popped goes to position %d·n %+d·j %+d, it must go to n-1-j (the last body symbol is popped first)", e.n+e.c*i0.n, e.c*step, e.c*i0.k+e.k)
}
