package main

// E7: reachability from entry points (RTA) and classification of effectful callees.

import (
	"go/types"
	"sort"
	"strings"

	"golang.org/x/tools/go/callgraph"
	"golang.org/x/tools/go/callgraph/rta"
	"golang.org/x/tools/go/ssa"
)

type reachInfo struct {
	res   *rta.Result
	funcs []*ssa.Function // reachable, sorted by name
}

func isStdlib(path string) bool {
	first := path
	if i := strings.Index(path, "/"); i >= 0 {
		first = path[:i]
	}
	return !strings.Contains(first, ".")
}

func fnPkgPath(f *ssa.Function) string {
	if f.Pkg != nil {
		return f.Pkg.Pkg.Path()
	}
	if o := f.Origin(); o != nil && o.Pkg != nil {
		return o.Pkg.Pkg.Path()
	}
	if f.Object() != nil && f.Object().Pkg() != nil {
		return f.Object().Pkg().Path()
	}
	if p := f.Parent(); p != nil {
		return fnPkgPath(p)
	}
	return ""
}

func (c *Ctx) mainFunc() *ssa.Function {
	sp := c.SSAPk[modPath+"/cmd/emerge"]
	if sp == nil {
		return nil
	}
	return sp.Func("main")
}

// reachableFrom runs RTA from the given roots (plus the init functions of their packages' import closure).
func (c *Ctx) reachableFrom(roots ...*ssa.Function) *reachInfo {
	var rs []*ssa.Function
	seen := map[*ssa.Function]bool{}
	for _, r := range roots {
		if r != nil && !seen[r] {
			seen[r] = true
			rs = append(rs, r)
		}
	}
	for _, sp := range c.Prog.AllPackages() {
		if strings.HasPrefix(sp.Pkg.Path(), modPath) || strings.HasPrefix(sp.Pkg.Path(), depPath) {
			if in := sp.Func("init"); in != nil && !seen[in] {
				seen[in] = true
				rs = append(rs, in)
			}
		}
	}
	res := rta.Analyze(rs, true)
	ri := &reachInfo{res: res}
	for f := range res.Reachable {
		ri.funcs = append(ri.funcs, f)
	}
	sort.Slice(ri.funcs, func(i, j int) bool { return ri.funcs[i].String() < ri.funcs[j].String() })
	return ri
}

func (r *reachInfo) has(f *ssa.Function) bool {
	_, ok := r.res.Reachable[f]
	return ok
}

// nonStd returns reachable functions that belong to the module or to third-party dependencies.
func (r *reachInfo) nonStd() []*ssa.Function {
	var out []*ssa.Function
	for _, f := range r.funcs {
		if p := fnPkgPath(f); p != "" && !isStdlib(p) {
			out = append(out, f)
		}
	}
	return out
}

func (r *reachInfo) module() []*ssa.Function {
	var out []*ssa.Function
	for _, f := range r.funcs {
		if strings.HasPrefix(fnPkgPath(f), modPath) {
			out = append(out, f)
		}
	}
	return out
}

// staticCalleeName returns "pkgpath.Name" or "pkgpath.(Recv).Name" for a statically resolved callee.
func staticCalleeName(call ssa.CallInstruction) string {
	com := call.Common()
	if com.IsInvoke() {
		return ""
	}
	f := com.StaticCallee()
	if f == nil {
		return ""
	}
	return qualifiedFuncName(f)
}

func qualifiedFuncName(f *ssa.Function) string {
	if o := f.Origin(); o != nil {
		f = o
	}
	obj, _ := f.Object().(*types.Func)
	if obj == nil || obj.Pkg() == nil {
		return f.String()
	}
	sig := obj.Type().(*types.Signature)
	if sig.Recv() != nil {
		_, n := namedTypeName(sig.Recv().Type())
		return obj.Pkg().Path() + ".(" + n + ")." + obj.Name()
	}
	return obj.Pkg().Path() + "." + obj.Name()
}

// transitively reaches: does function f (through the RTA call graph) reach any function in targets?
func (r *reachInfo) reaches(f *ssa.Function, targets map[string]bool) bool {
	seen := map[*callgraph.Node]bool{}
	var st []*callgraph.Node
	if n := r.res.CallGraph.Nodes[f]; n != nil {
		st = append(st, n)
	}
	for len(st) > 0 {
		n := st[len(st)-1]
		st = st[:len(st)-1]
		if seen[n] {
			continue
		}
		seen[n] = true
		if targets[qualifiedFuncName(n.Func)] {
			return true
		}
		for _, e := range n.Out {
			st = append(st, e.Callee)
		}
	}
	return false
}
