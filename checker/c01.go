package main

import (
	"golang.org/x/tools/go/ssa"
	"fmt"
	"go/ast"
	"go/token"
	"go/types"
	"sort"
	"strings"
)

func init() {
	register(&property{id: "C01", run: runC01, meta: propMeta{
		level: "other",
		explanation: "Structural necessary conditions of language preservation in the EBNF-to-grammar actions of spec.Parse, keyed by the production each case is indexed by: the productions added for each bracket pair form a schema whose repetition-count language is the documented one ({1}, {0,1}, N, N+) and the action returns the synthesised non-terminal; juxtaposition is the cross product with the left operand first, alternation the union of both operands, a trailing bar adds the empty string, a rule adds one production per alternative; the memo entry shared by the four operators is complete for whichever accessor reads it; synthesised names must not be writable by the user and (kind, symbol) -> name must be injective; string literals and token names must not share one symbol space. The equality of the derived grammar's language with the EBNF text for every nesting is out of reach.",
		trusted: []string{"grammar.String.Concat/Prepend/Append have their documented meaning", "the coded scanner's IDENT/TOKEN/STRING languages as extracted for C05"},
		assumptions: []string{"AddProduction registers a production in the grammar (set semantics)"},
	}})
}

func runC01(c *Ctx) {
	c.Rule("R1.1", 24, "memo-field completeness across the four operator accessors")
	c.Rule("R1.2", 3, "synthesised names are outside the user's name space and injective")
	c.Rule("R1.3", 13, "operator expansion schema generates the documented repetition counts")
	c.Rule("R1.4", 5, "concatenation / alternation / trailing bar / rule actions")
	c.Rule("R1.6", 1, "the memo's hash agrees with its equality (equal sets of alternatives hash alike)")
	c.Rule("R1.5", 1, "string literals and token names do not share one symbol space")

	c.mute = map[string]bool{"R4.2": true, "R5.4": true}
	g := extractEBNF(c, "R1.3")
	if g == nil {
		return
	}
	sp := c.Pkg("internal/ebnf/parser/spec")
	ev := findEvaluator(c, "R1.3", sp, g)
	if ev == nil {
		return
	}
	checkExpansionSchemas(c, ev)
	checkJuxtapositionAndUnion(c, ev)
	checkMemoCompleteness(c)
	checkNameSpaces(c, ev)
	checkMemoHashEq(c, "R1.6", sp)
}

// ---------- R1.3 ----------

func checkExpansionSchemas(c *Ctx, ev *evaluator) {
	info := ev.pkg.TypesInfo
	want := map[string]string{"(": "1", "[": "0,1", "{": "0,1,2,3,4,5,6,7,8", "{{": "1,2,3,4,5,6,7,8"}
	var idxs []int
	for i := range ev.cases {
		idxs = append(idxs, i)
	}
	sort.Ints(idxs)
	n := 0
	for _, i := range idxs {
		cs := ev.cases[i]
		b := cs.prod.body
		if len(b) != 3 || !b[0].term || b[1].term || !b[2].term || cs.prod.head != b[1].name {
			continue
		}
		w, ok := want[b[0].name]
		if !ok {
			continue
		}
		n++
		key := fmt.Sprintf("case %d (%s)", i, cs.prod)
		origins := ev.varOrigins(cs)
		// gen := table.GetX(s)
		var gen, operand types.Object
		transformedBy := ""
		var transformedAt token.Pos
		for _, st := range cs.clause.Body {
			as, ok := st.(*ast.AssignStmt)
			if !ok || len(as.Rhs) != 1 || len(as.Lhs) < 1 {
				continue
			}
			// s, _ := f(rhs[1].Val.(Strings)): the operand goes through a function before the operator sees it
			if call, isCall := ast.Unparen(as.Rhs[0]).(*ast.CallExpr); isCall {
				if tv, has := info.Types[call.Fun]; !(has && tv.IsType()) {
					for _, a := range call.Args {
						if k, ok := ev.rhsVal(stripAssert(a)); ok && k == 1 {
							// a function from the operand's type to the same type is a transformation of the operand (a helper
							// that only asserts takes `any`)
							at, lt := info.TypeOf(a), info.TypeOf(as.Lhs[0])
							if at != nil && lt != nil && types.Identical(at, lt) {
								if _, isIface := at.Underlying().(*types.Interface); !isIface {
									transformedBy, transformedAt = types.ExprString(call.Fun), as.Pos()
								}
							}
						}
					}
				}
			}
			if len(as.Lhs) != 1 {
				continue
			}
			lid, ok := as.Lhs[0].(*ast.Ident)
			if !ok {
				continue
			}
			if k, ok := ev.rhsVal(stripAssert(as.Rhs[0])); ok && k == 1 {
				operand = info.Defs[lid]
			}
			if call, ok := ast.Unparen(as.Rhs[0]).(*ast.CallExpr); ok {
				if _, nme := namedTypeName(info.TypeOf(as.Rhs[0])); nme == "NonTerminal" && len(call.Args) == 1 {
					if aid, ok := ast.Unparen(call.Args[0]).(*ast.Ident); ok && operand != nil && info.Uses[aid] == operand {
						gen = info.Defs[lid]
					}
				}
			}
		}
		if transformedBy != "" && operand == nil {
			c.Fail("R1.3", key+": the operator is applied to the operand as it was written", transformedAt,
				"the operand goes through "+transformedBy+"(…) before the operator's productions are built: what is repeated (or made optional, or grouped) is then not the sub-expression between the brackets",
				"start = {{ {\"x\"} }};  (an operator directly inside another one)")
			continue
		}
		if gen == nil || operand == nil {
			// the action does not have the shape `s := rhs[1].Val…; gen := table.GetX(s); …AddProduction…` (it may hand the work to a
			// helper or share one clause between the operators): the schema of its productions is not read off, which is not a verdict
			c.Undecided("R1.3", key+": a non-terminal is synthesised for the operand", cs.clause.Pos(), "no `gen := table.GetX(rhs[1].Val)` in the clause itself: the productions this operator adds are not decided")
			continue
		}
		c.Pass("R1.3", key+": a non-terminal is synthesised for the operand", cs.clause.Pos(), "")
		// collect AddProduction calls: inside a loop over the operand (per alternative α) or outside
		forms := map[string]bool{}
		bad := ""
		var visit func(list []ast.Stmt, loopVar types.Object)
		classify := func(e ast.Expr, loopVar types.Object) string {
			e = ast.Unparen(e)
			if o := objOf(info, e); o != nil {
				if isDepObj(o, "grammar", "E") {
					return "ε"
				}
				if loopVar != nil && o == loopVar {
					return "α"
				}
			}
			if call, ok := e.(*ast.CallExpr); ok && len(call.Args) == 1 {
				if sel, ok := call.Fun.(*ast.SelectorExpr); ok {
					recvIsAlpha := false
					if id, ok := ast.Unparen(sel.X).(*ast.Ident); ok && loopVar != nil && info.Uses[id] == loopVar {
						recvIsAlpha = true
					}
					argIsGen := false
					if id, ok := ast.Unparen(call.Args[0]).(*ast.Ident); ok && info.Uses[id] == gen {
						argIsGen = true
					}
					if recvIsAlpha && argIsGen {
						switch sel.Sel.Name {
						case "Prepend":
							return "gen α"
						case "Append":
							return "α gen"
						}
					}
				}
			}
			return "?" + types.ExprString(e)
		}
		visit = func(list []ast.Stmt, loopVar types.Object) {
			for _, st := range list {
				switch s := st.(type) {
				case *ast.RangeStmt:
					refs := ev.rhsRefs(s.X, origins)
					if vid, ok := s.Value.(*ast.Ident); ok && len(refs) == 1 && refs[0] == 1 && s.Key != nil {
						visit(s.Body.List, info.Defs[vid])
					} else {
						bad = "a loop that does not range over every alternative of the operand"
					}
				case *ast.ExprStmt:
					call, ok := s.X.(*ast.CallExpr)
					if !ok {
						continue
					}
					fo, _ := objOf(info, call.Fun).(*types.Func)
					if fo == nil || fo.Name() != "AddProduction" || len(call.Args) < 1 {
						continue
					}
					x := ast.Unparen(call.Args[0])
					if u, ok := x.(*ast.UnaryExpr); ok {
						x = u.X
					}
					cl, ok := x.(*ast.CompositeLit)
					if !ok {
						bad = "AddProduction with a non-literal production"
						continue
					}
					fs, _ := compositeFields(cl)
					if hid, ok := ast.Unparen(fs["Head"]).(*ast.Ident); !ok || info.Uses[hid] != gen {
						bad = "a production whose head is not the synthesised non-terminal"
						continue
					}
					forms[classify(fs["Body"], loopVar)] = true
				case *ast.IfStmt, *ast.ForStmt, *ast.SwitchStmt:
					bad = "conditional production generation"
				}
			}
		}
		visit(cs.clause.Body, nil)
		var fl []string
		for f := range forms {
			fl = append(fl, f)
		}
		sort.Strings(fl)
		counts := schemaCounts(forms, 8)
		got := joinInts(counts)
		c.Check("R1.3", key+": productions added for the bracket generate the documented repetition counts", cs.clause.Pos(), bad == "" && got == w,
			fmt.Sprintf("schema gen → %s generates repetition counts {%s} (up to 8); the documented meaning of %s…%s is {%s} %s", strings.Join(fl, " | "), got, b[0].name, b[2].name, w, bad),
			"start = "+b[0].name+" \"a\" "+b[2].name+";")
		// the action returns Strings{{gen}}
		retOK := false
		for _, r := range returnsOf(cs.clause.Body) {
			if len(r.Results) != 2 {
				continue
			}
			if cl, ok := ast.Unparen(r.Results[0]).(*ast.CompositeLit); ok && len(cl.Elts) == 1 {
				if inner, ok := cl.Elts[0].(*ast.CompositeLit); ok && len(inner.Elts) == 1 {
					if id, ok := ast.Unparen(inner.Elts[0]).(*ast.Ident); ok && info.Uses[id] == gen {
						retOK = true
					}
				}
			}
		}
		c.Check("R1.3", key+": the bracket stands for the synthesised non-terminal alone", cs.clause.Pos(), retOK, "the action does not return Strings{{gen}}")
		// the name accessor matches the bracket kind
		checkAccessorKind(c, ev, cs, key, b[0].name)
	}
	if n != 4 {
		c.Lost("R1.3", fmt.Sprintf("the four bracket productions (found %d)", n))
	}
}

func joinInts(v []int) string {
	var p []string
	for _, x := range v {
		p = append(p, fmt.Sprint(x))
	}
	return strings.Join(p, ",")
}

// schemaCounts: repetition counts (number of α) derivable from gen with the given body forms, up to max.
func schemaCounts(forms map[string]bool, max int) []int {
	set := map[int]bool{}
	for ch := true; ch; {
		ch = false
		add := func(n int) {
			if n <= max && !set[n] {
				set[n] = true
				ch = true
			}
		}
		for f := range forms {
			switch f {
			case "ε":
				add(0)
			case "α":
				add(1)
			case "gen α", "α gen":
				for n := range set {
					add(n + 1)
				}
			}
		}
	}
	var out []int
	for n := range set {
		out = append(out, n)
	}
	sort.Ints(out)
	return out
}

// checkAccessorKind: the accessor used for the bracket is the one whose memo field is distinct from the other brackets' (no two
// bracket kinds may share one synthesised name for the same operand).
func checkAccessorKind(c *Ctx, ev *evaluator, cs *evalCase, key, open string) {
	info := ev.pkg.TypesInfo
	var accessor string
	for _, st := range cs.clause.Body {
		ast.Inspect(st, func(n ast.Node) bool {
			if call, ok := n.(*ast.CallExpr); ok {
				if fo, ok := objOf(info, call.Fun).(*types.Func); ok && strings.HasPrefix(fo.Name(), "Get") {
					if _, nme := namedTypeName(info.TypeOf(call)); nme == "NonTerminal" {
						accessor = fo.Name()
					}
				}
			}
			return true
		})
	}
	usedAccessors[open] = accessor
	if len(usedAccessors) == 4 {
		seen := map[string]string{}
		dup := ""
		for o, a := range usedAccessors {
			if prev, ok := seen[a]; ok {
				dup = fmt.Sprintf("%s and %s both use %s", prev, o, a)
			}
			seen[a] = o
		}
		c.Check("R1.3", "the four bracket kinds use four different name accessors", cs.clause.Pos(), dup == "",
			dup+": two operators over the same operand share one synthesised non-terminal and their productions are merged")
	}
}

var usedAccessors = map[string]string{}

// ---------- R1.4 ----------

func checkJuxtapositionAndUnion(c *Ctx, ev *evaluator) {
	info := ev.pkg.TypesInfo
	for i, cs := range ev.cases {
		b := cs.prod.body
		key := fmt.Sprintf("case %d (%s)", i, cs.prod)
		origins := ev.varOrigins(cs)
		if cs.prod.head != "rhs" {
			continue
		}
		switch {
		case len(b) == 2 && !b[0].term && !b[1].term:
			// cross product: for α in s1 { for β in s2 { all = append(all, α.Concat(β)) } }
			okShape := false
			why := "no nested loops with append(all, α.Concat(β))"
			for _, st := range cs.clause.Body {
				outer, ok := st.(*ast.RangeStmt)
				if !ok || len(outer.Body.List) != 1 {
					continue
				}
				inner, ok := outer.Body.List[0].(*ast.RangeStmt)
				if !ok {
					continue
				}
				ro, ri := ev.rhsRefs(outer.X, origins), ev.rhsRefs(inner.X, origins)
				if len(ro) != 1 || len(ri) != 1 || ro[0] == ri[0] {
					why = "the two loops do not range over the two operands"
					continue
				}
				ov, _ := outer.Value.(*ast.Ident)
				iv, _ := inner.Value.(*ast.Ident)
				if ov == nil || iv == nil {
					continue
				}
				vars := map[int]types.Object{ro[0]: info.Defs[ov], ri[0]: info.Defs[iv]}
				ast.Inspect(inner.Body, func(n ast.Node) bool {
					call, ok := n.(*ast.CallExpr)
					if !ok {
						return true
					}
					sel, ok := call.Fun.(*ast.SelectorExpr)
					if !ok || sel.Sel.Name != "Concat" || len(call.Args) != 1 {
						return true
					}
					rid, ok1 := ast.Unparen(sel.X).(*ast.Ident)
					aid, ok2 := ast.Unparen(call.Args[0]).(*ast.Ident)
					if ok1 && ok2 {
						if info.Uses[rid] == vars[0] && info.Uses[aid] == vars[1] {
							okShape = true
						} else {
							why = "Concat is applied with the operands swapped (right before left)"
						}
					}
					return true
				})
			}
			c.Check("R1.4", key+": juxtaposition is the cross product, left operand first", cs.clause.Pos(), okShape, why, "start = (\"a\" | \"b\") (\"c\" | \"d\");")
		case len(b) == 3 && !b[0].term && b[1].term && !b[2].term:
			// union of both operands
			spread := map[int]bool{}
			for _, st := range cs.clause.Body {
				ast.Inspect(st, func(n ast.Node) bool {
					call, ok := n.(*ast.CallExpr)
					if !ok || !call.Ellipsis.IsValid() || len(call.Args) != 2 {
						return true
					}
					if id, ok := call.Fun.(*ast.Ident); ok && id.Name == "append" {
						for _, k := range ev.rhsRefs(call.Args[1], origins) {
							spread[k] = true
						}
					}
					return true
				})
			}
			c.Check("R1.4", key+": alternation keeps every alternative of both operands", cs.clause.Pos(), spread[0] && spread[2], fmt.Sprintf("operands appended completely: %v", spread), "start = \"a\" | \"b\";")
		case len(b) == 2 && !b[0].term && b[1].term:
			// s plus the empty string
			hasAll, hasE := false, false
			for _, st := range cs.clause.Body {
				ast.Inspect(st, func(n ast.Node) bool {
					call, ok := n.(*ast.CallExpr)
					if !ok {
						return true
					}
					if id, ok := call.Fun.(*ast.Ident); ok && id.Name == "append" && len(call.Args) == 2 {
						if call.Ellipsis.IsValid() {
							if r := ev.rhsRefs(call.Args[1], origins); len(r) == 1 && r[0] == 0 {
								hasAll = true
							}
						} else if isDepObj(objOf(info, call.Args[1]), "grammar", "E") {
							hasE = true
						}
					}
					return true
				})
			}
			c.Check("R1.4", key+": a trailing bar keeps the alternatives and adds the empty string", cs.clause.Pos(), hasAll && hasE, fmt.Sprintf("keeps operand=%v, adds ε=%v", hasAll, hasE), "start = \"a\" | ;")
		case len(b) == 1:
			// rhs → term | nonterm : Strings{{sym}}
			okOne := false
			for _, r := range returnsOf(cs.clause.Body) {
				if len(r.Results) == 2 {
					if cl, ok := ast.Unparen(r.Results[0]).(*ast.CompositeLit); ok && len(cl.Elts) == 1 {
						if refs := ev.rhsRefs(cl.Elts[0], origins); len(refs) == 1 && refs[0] == 0 {
							okOne = true
						}
					}
				}
			}
			c.Check("R1.4", key+": a single symbol denotes the one-symbol string", cs.clause.Pos(), okOne, "the action does not return Strings{{symbol}}")
		}
	}
}

// ---------- R1.1 ----------

func checkMemoCompleteness(c *Ctx) {
	sp := c.Pkg("internal/ebnf/parser/spec")
	info := sp.TypesInfo
	type accessor struct {
		fd      *ast.FuncDecl
		field   string
		guarded bool
		table   string
	}
	var accs []accessor
	type put struct {
		fd     *ast.FuncDecl
		fields map[string]bool
		table  string
		pos    token.Pos
	}
	var puts []put
	AllFuncDecls(sp, func(fd *ast.FuncDecl) {
		if fd.Recv == nil || fd.Body == nil {
			return
		}
		// e, ok := X.Get(s); if ok { [guard] return e.F }
		var entry types.Object
		var tableExpr string
		ast.Inspect(fd.Body, func(n ast.Node) bool {
			switch s := n.(type) {
			case *ast.AssignStmt:
				if len(s.Lhs) == 2 && len(s.Rhs) == 1 {
					if call, ok := ast.Unparen(s.Rhs[0]).(*ast.CallExpr); ok {
						if sel, ok := call.Fun.(*ast.SelectorExpr); ok && sel.Sel.Name == "Get" {
							if pt, ok := info.TypeOf(s.Lhs[0]).(*types.Pointer); ok {
								if isMemoEntry(pt.Elem()) {
									if id, ok := s.Lhs[0].(*ast.Ident); ok {
										entry = info.Defs[id]
										tableExpr = types.ExprString(sel.X)
									}
								}
							}
						}
					}
				}
			case *ast.CallExpr:
				if sel, ok := s.Fun.(*ast.SelectorExpr); ok && sel.Sel.Name == "Put" && len(s.Args) == 2 {
					x := ast.Unparen(s.Args[1])
					if u, ok := x.(*ast.UnaryExpr); ok {
						x = u.X
					}
					if cl, ok := x.(*ast.CompositeLit); ok {
						if isMemoEntry(info.TypeOf(cl)) {
							fs, _ := compositeFields(cl)
							m := map[string]bool{}
							for k := range fs {
								m[k] = true
							}
							puts = append(puts, put{fd, m, types.ExprString(sel.X), s.Pos()})
						}
					}
				}
			}
			return true
		})
		if entry == nil {
			return
		}
		// the hit path: if ok { ... return e.F }
		ast.Inspect(fd.Body, func(n ast.Node) bool {
			ifs, ok := n.(*ast.IfStmt)
			if !ok {
				return true
			}
			if cid, ok := ast.Unparen(ifs.Cond).(*ast.Ident); !ok || cid.Name != "ok" {
				return true
			}
			for _, st := range ifs.Body.List {
				r, ok := st.(*ast.ReturnStmt)
				if !ok || len(r.Results) != 1 {
					continue
				}
				sel, ok := ast.Unparen(r.Results[0]).(*ast.SelectorExpr)
				if !ok {
					continue
				}
				if id, ok := sel.X.(*ast.Ident); !ok || info.Uses[id] != entry {
					continue
				}
				// guard: an earlier statement in the hit branch tests e.F against "" and fills it
				guarded := false
				for _, st2 := range ifs.Body.List {
					if g, ok := st2.(*ast.IfStmt); ok {
						if b, ok := ast.Unparen(g.Cond).(*ast.BinaryExpr); ok && b.Op == token.EQL {
							if gs, ok := ast.Unparen(b.X).(*ast.SelectorExpr); ok && gs.Sel.Name == sel.Sel.Name {
								if v, ok := constStr(info, b.Y); ok && v == "" {
									// the body assigns e.F
									ast.Inspect(g.Body, func(m ast.Node) bool {
										if as, ok := m.(*ast.AssignStmt); ok && len(as.Lhs) == 1 {
											if ls, ok := as.Lhs[0].(*ast.SelectorExpr); ok && ls.Sel.Name == sel.Sel.Name {
												guarded = true
											}
										}
										return true
									})
								}
							}
						}
					}
				}
				accs = append(accs, accessor{fd, sel.Sel.Name, guarded, tableExpr})
			}
			return true
		})
	})
	if len(accs) < 4 || len(puts) < 4 {
		c.Lost("R1.1", fmt.Sprintf("memo accessors and Put sites (found %d/%d)", len(accs), len(puts)))
		return
	}
	for _, a := range accs {
		// the entry the accessor itself installs must carry the freshly generated name under the very field it returns on a hit
		for _, p := range puts {
			if p.fd != a.fd {
				continue
			}
			own := len(p.fields) == 1 && p.fields[a.field]
			var got []string
			for f := range p.fields {
				got = append(got, f)
			}
			sort.Strings(got)
			c.Check("R1.1", fmt.Sprintf("%s installs its generated name under the field it reads (%s)", a.fd.Name.Name, a.field), p.pos, own,
				fmt.Sprintf("%s returns e.%s on a hit but stores the name it generates under %v: the other operator that reads that field reuses this operator's non-terminal for the same sub-expression", a.fd.Name.Name, a.field, got),
				"start = [\"+\" | \"-\"] NUM (\"+\" | \"-\") NUM;")
		}
	}
	// the kind tag given to the name generator: one tag per accessor (hit path and miss path alike), pairwise distinct across accessors
	tagOf := map[string]string{}
	for _, a := range accs {
		tags := map[string]int{}
		ast.Inspect(a.fd.Body, func(n ast.Node) bool {
			call, ok := n.(*ast.CallExpr)
			if !ok {
				return true
			}
			if fo, ok := objOf(info, call.Fun).(*types.Func); !ok || fo.Pkg() != sp.Types || fo.Type().(*types.Signature).Recv() == nil {
				return true
			}
			for _, arg := range call.Args {
				if v, ok := constStr(info, arg); ok {
					tags[v]++
				}
			}
			return true
		})
		var ks []string
		n := 0
		for k, v := range tags {
			ks = append(ks, k)
			n += v
		}
		sort.Strings(ks)
		c.Check("R1.1", fmt.Sprintf("%s gives the name generator one and the same kind tag on every path", a.fd.Name.Name), a.fd.Pos(), len(ks) == 1 && n >= 2,
			fmt.Sprintf("%s generates names with the tags %q (%d sites): on one path the sub-expression gets a name of another operator's kind, and the two operators share one non-terminal for it", a.fd.Name.Name, ks, n),
			"start = \"pos\" [sign] NUM | \"neg\" (sign) NUM;")
		if len(ks) == 1 {
			if other, dup := tagOf[ks[0]]; dup {
				c.Fail("R1.1", fmt.Sprintf("%s and %s use different kind tags", other, a.fd.Name.Name), a.fd.Pos(), fmt.Sprintf("both use %q: the same sub-expression under both operators gets one non-terminal", ks[0]))
			} else {
				tagOf[ks[0]] = a.fd.Name.Name
			}
		}
	}
	for _, a := range accs {
		c.Analysed(funcKey(sp, a.fd))
		for _, p := range puts {
			if p.table != a.table {
				continue
			}
			key := fmt.Sprintf("%s reads field %s of entries written by %s", a.fd.Name.Name, a.field, p.fd.Name.Name)
			c.Check("R1.1", key, p.pos, p.fields[a.field] || a.guarded,
				fmt.Sprintf("%s returns e.%s on a memo hit, but %s stores an entry without %s and the hit path does not check it: the same sub-expression under both operators yields the empty non-terminal", a.fd.Name.Name, a.field, p.fd.Name.Name, a.field),
				"start = [\"a\" \"b\"] {\"a\" \"b\"};")
		}
	}
}

// ---------- R1.2 / R1.5 ----------

func checkNameSpaces(c *Ctx, ev *evaluator) {
	sp := c.Pkg("internal/ebnf/parser/spec")
	info := sp.TypesInfo
	lp := c.Pkg("internal/ebnf/lexer")
	s := findScanner(c, "R1.2", lp)
	if s == nil {
		return
	}
	// labels per state of the coded scanner
	label := func(w string) string {
		st := 0
		for _, r := range w {
			st = s.m.step(st, r)
			if st < 0 {
				return ""
			}
		}
		if lf := s.stateLeaf[st]; lf != nil && lf.termOK {
			return lf.terminal
		}
		return ""
	}
	// the name synthesiser: the method returning grammar.NonTerminal that calls fmt.Sprintf
	var synth *ast.FuncDecl
	AllFuncDecls(sp, func(fd *ast.FuncDecl) {
		if fd.Recv == nil || fd.Body == nil {
			return
		}
		fo, _ := info.Defs[fd.Name].(*types.Func)
		sig := fo.Type().(*types.Signature)
		if sig.Results().Len() != 1 || sig.Params().Len() != 2 {
			return
		}
		if _, n := namedTypeName(sig.Results().At(0).Type()); n != "NonTerminal" {
			return
		}
		uses := false
		ast.Inspect(fd.Body, func(n ast.Node) bool {
			if call, ok := n.(*ast.CallExpr); ok {
				if f2, ok := objOf(info, call.Fun).(*types.Func); ok && f2.Pkg() != nil && f2.Pkg().Path() == "fmt" && f2.Name() == "Sprintf" {
					uses = true
				}
			}
			return true
		})
		if uses {
			synth = fd
		}
	})
	if synth == nil {
		c.Lost("R1.2", "the name synthesiser (method returning grammar.NonTerminal built with fmt.Sprintf)")
		return
	}
	c.Analysed(funcKey(sp, synth))
	// the name is chosen by looking at the alternatives themselves: the memo keeps two sets of alternatives apart whenever they
	// differ, so a name derived from a cut-down copy (empty alternatives dropped, a prefix) is shared by sets the memo separates
	if sfn := c.SSAFunc(sp, synth); sfn != nil {
		var sparam *ssa.Parameter
		for _, prm := range sfn.Params[1:] {
			if _, ok := prm.Type().Underlying().(*types.Slice); ok {
				sparam = prm
			}
		}
		if sparam != nil {
			var cut func(v ssa.Value, depth int) (fromParam, sliced bool)
			seen := map[ssa.Value]bool{}
			cut = func(v ssa.Value, depth int) (bool, bool) {
				if v == ssa.Value(sparam) {
					return true, false
				}
				if depth > 8 || seen[v] {
					return false, false
				}
				seen[v] = true
				defer delete(seen, v)
				switch x := v.(type) {
				case *ssa.Slice:
					f, _ := cut(x.X, depth+1)
					return f, f
				case *ssa.Phi:
					from, sl := false, false
					for _, e := range x.Edges {
						f2, s2 := cut(e, depth+1)
						from = from || f2
						sl = sl || s2
					}
					return from, sl
				}
				return false, false
			}
			looked, cutPos := 0, token.NoPos
			for _, b := range sfn.Blocks {
				for _, in := range b.Instrs {
					var operand ssa.Value
					switch x := in.(type) {
					case *ssa.Call:
						if bi, ok := x.Call.Value.(*ssa.Builtin); ok && bi.Name() == "len" {
							operand = x.Call.Args[0]
						}
					case *ssa.IndexAddr:
						operand = x.X
					}
					if operand == nil {
						continue
					}
					if from, sliced := cut(operand, 0); from {
						looked++
						if sliced && cutPos == token.NoPos {
							cutPos = in.Pos()
						}
					}
				}
			}
			if looked > 0 {
				c.Check("R1.2", "a synthesised name is chosen from the alternatives as they are keyed in the memo, not from a cut-down copy", synth.Pos(), cutPos == token.NoPos,
					"the name synthesiser examines a re-sliced copy of its alternatives ("+c.rel(cutPos)+"): sets of alternatives that the memo keeps apart (with and without an empty alternative) are given the same non-terminal, and their productions are merged",
					"second = (item) \".\"  together with  first = (item |) \".\"  in one specification: `second` also derives \".\"")
			}
		}
	}
	var formats []string
	ast.Inspect(synth.Body, func(n ast.Node) bool {
		if call, ok := n.(*ast.CallExpr); ok {
			if f2, ok := objOf(info, call.Fun).(*types.Func); ok && f2.Name() == "Sprintf" && len(call.Args) >= 1 {
				if f, ok := constStr(info, call.Args[0]); ok {
					formats = append(formats, f)
				}
			}
		}
		return true
	})
	// (e) a name taken from the symbols themselves is taken from ONE symbol: a name put together from several symbol names
	// (strings.Join, concatenation, accumulation in a loop) is ambiguous as soon as the separator can occur in a name,
	// and IDENT admits '_', digits and letters: {a b_c} and {a_b c} would share one synthesised rule.
	{
		composed, unclear := token.NoPos, token.NoPos
		how := ""
		ast.Inspect(synth.Body, func(n ast.Node) bool {
			as, ok := n.(*ast.AssignStmt)
			if !ok || len(as.Lhs) != len(as.Rhs) {
				return true
			}
			for i, l := range as.Lhs {
				lt := info.TypeOf(l)
				if lt == nil {
					continue
				}
				if b, ok := lt.Underlying().(*types.Basic); !ok || b.Info()&types.IsString == 0 {
					continue
				}
				switch r := ast.Unparen(as.Rhs[i]).(type) {
				case *ast.CallExpr:
					if f2, ok := objOf(info, r.Fun).(*types.Func); ok && f2.Pkg() != nil && f2.Pkg().Path() == "strings" && f2.Name() == "Join" && len(r.Args) == 2 {
						if sep, ok := constStr(info, r.Args[1]); ok {
							inIdent := true
							for _, ch := range sep {
								if !(ch == '_' || ch >= '0' && ch <= '9' || ch >= 'a' && ch <= 'z' || ch >= 'A' && ch <= 'Z') {
									inIdent = false
								}
							}
							if inIdent {
								composed, how = as.Pos(), fmt.Sprintf("strings.Join(…, %q)", sep)
							} else {
								unclear = as.Pos()
							}
						} else {
							unclear = as.Pos()
						}
					}
				case *ast.BinaryExpr:
					if r.Op == token.ADD {
						if _, isC := constStr(info, r); !isC {
							nonConst := 0
							for _, op := range []ast.Expr{r.X, r.Y} {
								if _, isC := constStr(info, op); !isC {
									nonConst++
								}
							}
							if nonConst >= 2 || as.Tok == token.ADD_ASSIGN {
								composed, how = as.Pos(), "a concatenation of several name parts"
							}
						}
					}
				}
				if as.Tok == token.ADD_ASSIGN {
					if _, isC := constStr(info, as.Rhs[i]); !isC {
						composed, how = as.Pos(), "an accumulation with +="
					}
				}
			}
			return true
		})
		key := "a synthesised name that is taken from the symbols is taken from a single symbol"
		switch {
		case composed != token.NoPos:
			c.Fail("R1.2", key, composed, "the name is "+how+" over the symbols of a sub-expression: the parts are IDENTs, which may contain the separator themselves, so two different sub-expressions under one operator get one non-terminal and their productions merge",
				"start = {item sep} \"!\" {item_sep}; item = \"a\"; sep = \",\"; item_sep = \"b\";  (both repetitions become gen_item_sep_star)")
		case unclear != token.NoPos:
			c.Undecided("R1.2", key, unclear, "a name is joined from several parts with a separator that was not resolved")
		default:
			c.Pass("R1.2", key, synth.Pos(), "")
		}
	}
	// suffix arguments at the call sites
	suffixes := map[string]bool{}
	AllFuncDecls(sp, func(fd *ast.FuncDecl) {
		if fd.Body == nil {
			return
		}
		ast.Inspect(fd.Body, func(n ast.Node) bool {
			if call, ok := n.(*ast.CallExpr); ok && len(call.Args) == 2 {
				if objOf(info, call.Fun) == info.Defs[synth.Name] {
					if v, ok := constStr(info, call.Args[1]); ok {
						suffixes[v] = true
					}
				}
			}
			return true
		})
	})
	var sfx []string
	for k := range suffixes {
		sfx = append(sfx, k)
	}
	sort.Strings(sfx)
	if len(formats) == 0 || len(sfx) == 0 {
		c.Lost("R1.2", "format strings / suffixes of synthesised names")
		return
	}
	// (a) a synthesised name must not be an identifier the user can write
	var collide []string
	identLabel := label("a")
	for _, f := range formats {
		for _, x := range sfx {
			sample := f
			sample = strings.Replace(sample, "%d", "1", 1)
			if strings.Count(sample, "%s") == 2 {
				sample = strings.Replace(sample, "%s", "x", 1)
			}
			sample = strings.Replace(sample, "%s", x, 1)
			if identLabel != "" && label(sample) == identLabel {
				collide = append(collide, sample)
			}
		}
	}
	sort.Strings(collide)
	wit := ""
	if len(collide) > 0 {
		wit = "start = [\"a\" \"b\"] " + collide[0] + "; " + collide[0] + " = \"c\";"
	}
	c.Check("R1.2", "synthesised non-terminal names are outside the language of user identifiers", synth.Pos(), len(collide) == 0,
		fmt.Sprintf("names such as %v are valid IDENT tokens: a user rule with such a name is merged with the synthesised rule and both languages change", firstFew(collide, 4)), wit)
	// (b) injectivity: names derived from a terminal's spelled-out name vs a non-terminal's own name
	// the spelled-out names of punctuation terminals: the package-level map from the grammar's terminal type to string
	spelled := ""
	for _, n := range sp.Types.Scope().Names() {
		if v, ok := sp.Types.Scope().Lookup(n).(*types.Var); ok {
			if m, ok := v.Type().Underlying().(*types.Map); ok && isString(m.Elem()) {
				if _, kn := namedTypeName(m.Key()); kn == "Terminal" {
					spelled = v.Name()
				}
			}
		}
	}
	if init, _ := PkgVarInit(sp, spelled); init != nil {
		var clash []string
		if cl, ok := init.(*ast.CompositeLit); ok {
			for _, el := range cl.Elts {
				if kv, ok := el.(*ast.KeyValueExpr); ok {
					if v, ok := constStr(info, kv.Value); ok && identLabel != "" && label(v) == identLabel {
						k, _ := constStr(info, kv.Key)
						clash = append(clash, fmt.Sprintf("%q/%s", k, v))
					}
				}
			}
		}
		sort.Strings(clash)
		// (b') the table itself is injective: two terminals spelled with one word share every synthesised rule
		byWord := map[string][]string{}
		undecidedTable := false
		if cl, ok := init.(*ast.CompositeLit); ok {
			for _, el := range cl.Elts {
				kv, ok := el.(*ast.KeyValueExpr)
				if !ok {
					undecidedTable = true
					continue
				}
				k, ok1 := constStr(info, kv.Key)
				v, ok2 := constStr(info, kv.Value)
				if !ok1 || !ok2 {
					undecidedTable = true
					continue
				}
				byWord[v] = append(byWord[v], k)
			}
		} else {
			undecidedTable = true
		}
		var dup []string
		for w, ks := range byWord {
			if len(ks) > 1 {
				sort.Strings(ks)
				dup = append(dup, fmt.Sprintf("%q and %q are both spelled %s", ks[0], ks[1], w))
			}
		}
		sort.Strings(dup)
		if undecidedTable && len(dup) == 0 {
			c.Undecided("R1.2", "distinct terminals are spelled out with distinct words", init.Pos(), "the table of spelled-out names is not a literal of constant keys and values")
		} else {
			w3 := ""
			if len(dup) > 0 {
				ks := byWord[strings.Fields(dup[0])[len(strings.Fields(dup[0]))-1]]
				w3 = fmt.Sprintf("start = [%q] \"x\" [%q];  -> both options share one synthesised rule deriving either terminal", ks[0], ks[1])
			}
			c.Check("R1.2", "distinct terminals are spelled out with distinct words", init.Pos(), len(dup) == 0,
				fmt.Sprintf("%v: an operator applied to the one terminal and to the other gets the same synthesised name, so both share one rule and sentences are added", dup), w3)
		}
		w2 := ""
		if len(clash) > 0 {
			w2 = "start = [\"*\"] [star]; star = \"x\";"
		}
		c.Check("R1.2", "(kind, symbol) -> synthesised name is injective", synth.Pos(), len(clash) == 0,
			fmt.Sprintf("%d terminals are spelled out with words that are also valid non-terminal names (%v): an operator over the terminal and over the like-named non-terminal share one synthesised rule", len(clash), firstFew(clash, 4)), w2)
	} else {
		c.Lost("R1.2", "the table of spelled-out terminal names (map[Terminal]string)")
	}

	// R1.5: term → STRING and term → TOKEN both build the terminal from the lexeme without a distinguishing mark
	identity := map[string]bool{}
	// plain: the expression is rhs[0].Val seen through conversions, assertions and string->string helper calls only
	var plain func(e ast.Expr) bool
	plain = func(e ast.Expr) bool {
		e = ast.Unparen(e)
		if k, ok := ev.rhsVal(stripAssert(e)); ok && k == 0 {
			return true
		}
		if call, ok := e.(*ast.CallExpr); ok && len(call.Args) == 1 {
			if tv, ok := info.Types[call.Fun]; ok && tv.IsType() {
				return plain(call.Args[0])
			}
			if fo, ok := objOf(info, call.Fun).(*types.Func); ok {
				sig := fo.Type().(*types.Signature)
				if sig.Params().Len() == 1 && sig.Results().Len() == 1 && isString(sig.Params().At(0).Type()) && isString(sig.Results().At(0).Type()) && fo.Pkg() != nil && fo.Pkg().Path() != "strconv" {
					return plain(call.Args[0]) // e.g. an unescape helper: the identity on escape-free text
				}
			}
		}
		return false
	}
	for _, cs := range ev.cases {
		if cs.prod.head != "term" || len(cs.prod.body) != 1 {
			continue
		}
		for _, r := range returnsOf(cs.clause.Body) {
			if len(r.Results) != 2 {
				continue
			}
			if id, ok := ast.Unparen(r.Results[0]).(*ast.Ident); ok {
				for _, st := range cs.clause.Body {
					if as, ok := st.(*ast.AssignStmt); ok && len(as.Lhs) == 1 && len(as.Rhs) == 1 {
						if lid, ok := as.Lhs[0].(*ast.Ident); ok && info.Defs[lid] == info.Uses[id] && plain(as.Rhs[0]) {
							identity[cs.prod.body[0].name] = true
						}
					}
				}
			} else if plain(r.Results[0]) {
				identity[cs.prod.body[0].name] = true
			}
		}
	}
	if identity["STRING"] && identity["TOKEN"] {
		// is there a TOKEN spelling w such that "w" is a STRING?
		short := s.m.shortestTo()
		wit := ""
		for st, lf := range s.stateLeaf {
			if lf.termOK && lf.terminal == "TOKEN" {
				if w, ok := short[st]; ok && label("\""+w+"\"") == "STRING" {
					if wit == "" || len(w) < len(wit) {
						wit = w
					}
				}
			}
		}
		c.Check("R1.5", "a string literal and a token name never denote the same grammar symbol", ev.lit.Pos(), wit == "",
			fmt.Sprintf("both `term → STRING` and `term → TOKEN` turn the raw lexeme into the terminal, and %q is both a TOKEN and the interior of a STRING: the literal \"%s\" and the token %s are one symbol with one definition", wit, wit, wit),
			fmt.Sprintf("%s = \"x\"  start = %s \"%s\";", wit, wit, wit))
	} else {
		c.Pass("R1.5", "string literals and token names are mapped into distinct symbol spaces", ev.lit.Pos(), fmt.Sprintf("identity mapping: %v", identity))
	}
}

func firstFew(s []string, n int) []string {
	if len(s) > n {
		return append(append([]string{}, s[:n]...), "...")
	}
	return s
}

// isMemoEntry: an unexported struct with three or more fields, all of the grammar's non-terminal type: the memo entry that holds
// the names generated for one sub-expression under the different operators.
func isMemoEntry(T types.Type) bool {
	named, ok := T.(*types.Named)
	if !ok || named.Obj().Exported() {
		return false
	}
	st, ok := named.Underlying().(*types.Struct)
	if !ok || st.NumFields() < 3 {
		return false
	}
	for i := 0; i < st.NumFields(); i++ {
		if _, n := namedTypeName(st.Field(i).Type()); n != "NonTerminal" {
			return false
		}
	}
	return true
}
