package main

// E2: flatten a pure decision function (nested switch/if over parameters compared with constants)
// into leaves: path constraint per parameter + straight-line statements + return expressions.
// Purely structural (no interpretation of emerge's code); unknown constructs make the result undecided.

import (
	"fmt"
	"go/ast"
	"go/constant"
	"go/token"
	"go/types"
	"math"
	"sort"
)

// dset is a constraint on one parameter: an integer interval set or a (co)finite string set.
type dset struct {
	isStr bool
	ints  []ivl // sorted disjoint, for integer params
	strs  map[string]bool
	co    bool // strs is the complement
}

type ivl struct{ lo, hi int64 }

func fullInt() dset { return dset{ints: []ivl{{math.MinInt64, math.MaxInt64}}} }
func fullStr() dset { return dset{isStr: true, strs: map[string]bool{}, co: true} }

func (d dset) empty() bool {
	if d.isStr {
		return !d.co && len(d.strs) == 0
	}
	return len(d.ints) == 0
}

func normI(s []ivl) []ivl {
	sort.Slice(s, func(i, j int) bool { return s[i].lo < s[j].lo })
	var out []ivl
	for _, x := range s {
		if x.hi < x.lo {
			continue
		}
		if n := len(out); n > 0 && (x.lo <= out[n-1].hi || (out[n-1].hi != math.MaxInt64 && x.lo == out[n-1].hi+1)) {
			if x.hi > out[n-1].hi {
				out[n-1].hi = x.hi
			}
		} else {
			out = append(out, x)
		}
	}
	return out
}

func (d dset) intersectInts(s []ivl) dset {
	var out []ivl
	for _, a := range d.ints {
		for _, b := range s {
			lo, hi := a.lo, a.hi
			if b.lo > lo {
				lo = b.lo
			}
			if b.hi < hi {
				hi = b.hi
			}
			if lo <= hi {
				out = append(out, ivl{lo, hi})
			}
		}
	}
	return dset{ints: normI(out)}
}

func complementInts(s []ivl) []ivl {
	s = normI(append([]ivl(nil), s...))
	var out []ivl
	lo := int64(math.MinInt64)
	done := false
	for _, x := range s {
		if x.lo > lo {
			out = append(out, ivl{lo, x.lo - 1})
		}
		if x.hi == math.MaxInt64 {
			done = true
			break
		}
		lo = x.hi + 1
	}
	if !done {
		out = append(out, ivl{lo, math.MaxInt64})
	}
	return out
}

func (d dset) intersectStrs(vals map[string]bool, co bool) dset {
	r := dset{isStr: true, strs: map[string]bool{}}
	switch {
	case d.co && co:
		r.co = true
		for k := range d.strs {
			r.strs[k] = true
		}
		for k := range vals {
			r.strs[k] = true
		}
	case d.co && !co:
		for k := range vals {
			if !d.strs[k] {
				r.strs[k] = true
			}
		}
	case !d.co && co:
		for k := range d.strs {
			if !vals[k] {
				r.strs[k] = true
			}
		}
	default:
		for k := range d.strs {
			if vals[k] {
				r.strs[k] = true
			}
		}
	}
	return r
}

type pathCons map[*types.Var]dset

func (p pathCons) clone() pathCons {
	q := pathCons{}
	for k, v := range p {
		q[k] = v
	}
	return q
}

func (p pathCons) feasible() bool {
	for _, d := range p {
		if d.empty() {
			return false
		}
	}
	return true
}

type leaf struct {
	cons  pathCons
	stmts []ast.Stmt // straight-line statements executed on the path, in order
	ret   *ast.ReturnStmt
}

type flattener struct {
	info   *types.Info
	params map[*types.Var]bool
	alias  map[*types.Var]*types.Var // parameter of an inlined predicate helper -> the parameter it stands for
	leaves []leaf
	err    error
	errPos token.Pos
}

func (f *flattener) fail(pos token.Pos, format string, a ...any) {
	if f.err == nil {
		f.err = fmt.Errorf(format, a...)
		f.errPos = pos
	}
}

// flattenFunc flattens fd's body over the given parameter objects.
func flattenFunc(info *types.Info, fd *ast.FuncDecl, params []*types.Var) ([]leaf, token.Pos, error) {
	f := &flattener{info: info, params: map[*types.Var]bool{}}
	cons := pathCons{}
	for _, p := range params {
		f.params[p] = true
		if b, ok := p.Type().Underlying().(*types.Basic); ok && b.Info()&types.IsString != 0 {
			cons[p] = fullStr()
		} else {
			cons[p] = fullInt()
		}
	}
	f.seq(fd.Body.List, cons, nil, func(c pathCons, st []ast.Stmt) {
		f.fail(fd.Body.Rbrace, "path reaches the end of the function without a return")
	})
	return f.leaves, f.errPos, f.err
}

func (f *flattener) paramOf(e ast.Expr) *types.Var {
	e = ast.Unparen(e)
	if call, ok := e.(*ast.CallExpr); ok && len(call.Args) == 1 {
		// conversion T(p)
		if tv, ok := f.info.Types[call.Fun]; ok && tv.IsType() {
			if narrowing(tv.Type, f.info.TypeOf(call.Args[0])) {
				return nil // byte(r) is not r: see truncOf
			}
			return f.paramOf(call.Args[0])
		}
	}
	id, ok := e.(*ast.Ident)
	if !ok {
		return nil
	}
	v, _ := f.info.Uses[id].(*types.Var)
	if v != nil && f.params[v] {
		return v
	}
	if v != nil && f.alias[v] != nil {
		return f.alias[v]
	}
	return nil
}

// intBits: the width of a basic integer type (int and uint count as 64), 0 for anything else.
func intBits(t types.Type) (bits int, unsigned bool) {
	if t == nil {
		return 0, false
	}
	b, ok := t.Underlying().(*types.Basic)
	if !ok {
		return 0, false
	}
	switch b.Kind() {
	case types.Int8:
		return 8, false
	case types.Uint8:
		return 8, true
	case types.Int16:
		return 16, false
	case types.Uint16:
		return 16, true
	case types.Int32:
		return 32, false
	case types.Uint32:
		return 32, true
	case types.Int, types.Int64:
		return 64, false
	case types.Uint, types.Uint64, types.Uintptr:
		return 64, true
	}
	return 0, false
}

// narrowing: a conversion from an integer type to a narrower one drops the high bits.
func narrowing(to, from types.Type) bool {
	tb, _ := intBits(to)
	fb, _ := intBits(from)
	return tb != 0 && fb != 0 && tb < fb
}

// maxRune bounds the values a truncated decision parameter is expanded over: the parameter of a transition function is a
// decoded character, 0..0x10FFFF (what the reader hands over; values outside are not modelled for truncating conversions).
const truncUniverse = 0x10FFFF

// truncOf: e is T(p) with T an unsigned integer type narrower than p's type; returns p and the modulus 1<<bits.
func (f *flattener) truncOf(e ast.Expr) (*types.Var, int64) {
	call, ok := ast.Unparen(e).(*ast.CallExpr)
	if !ok || len(call.Args) != 1 {
		return nil, 0
	}
	tv, ok := f.info.Types[call.Fun]
	if !ok || !tv.IsType() || !narrowing(tv.Type, f.info.TypeOf(call.Args[0])) {
		return nil, 0
	}
	bits, unsigned := intBits(tv.Type)
	if !unsigned || bits > 16 {
		return nil, 0
	}
	p := f.paramOf(call.Args[0])
	if p == nil {
		return nil, 0
	}
	return p, int64(1) << bits
}

// periodic: the values x of 0..truncUniverse with x mod m in set (set within 0..m-1).
func periodic(set []ivl, m int64) []ivl {
	var out []ivl
	set = normI(set)
	for base := int64(0); base <= truncUniverse; base += m {
		for _, iv := range set {
			lo, hi := iv.lo, iv.hi
			if lo < 0 {
				lo = 0
			}
			if hi > m-1 {
				hi = m - 1
			}
			if lo > hi {
				continue
			}
			a, b := base+lo, base+hi
			if a > truncUniverse {
				break
			}
			if b > truncUniverse {
				b = truncUniverse
			}
			out = append(out, ivl{a, b})
		}
	}
	return normI(out)
}

// boolTables: package-level tables of booleans with a statically known content (filled when the packages are loaded):
// the set of indices holding true, and the table's length.
type boolTable struct {
	trues []ivl
	n     int64
}

var boolTables = map[*types.Var]*boolTable{}

// evalBoolTable understands `[N]bool{...}` / `[]bool{...}` literals with constant keys, and the immediately invoked
// initialiser `func() (t [N]bool) { for _, c := range "<constant>" { t[c] = true }; return t }()`.
func evalBoolTable(info *types.Info, e ast.Expr) *boolTable {
	e = ast.Unparen(e)
	switch v := e.(type) {
	case *ast.CompositeLit:
		t := info.TypeOf(v)
		if t == nil {
			return nil
		}
		var n int64 = -1
		switch u := t.Underlying().(type) {
		case *types.Array:
			if b, ok := u.Elem().Underlying().(*types.Basic); !ok || b.Kind() != types.Bool {
				return nil
			}
			n = u.Len()
		case *types.Slice:
			if b, ok := u.Elem().Underlying().(*types.Basic); !ok || b.Kind() != types.Bool {
				return nil
			}
		default:
			return nil
		}
		var trues []ivl
		next := int64(0)
		for _, el := range v.Elts {
			val := el
			if kv, ok := el.(*ast.KeyValueExpr); ok {
				ktv, ok := info.Types[kv.Key]
				if !ok || ktv.Value == nil {
					return nil
				}
				k, ok := constant.Int64Val(constant.ToInt(ktv.Value))
				if !ok {
					return nil
				}
				next, val = k, kv.Value
			}
			vtv, ok := info.Types[val]
			if !ok || vtv.Value == nil || vtv.Value.Kind() != constant.Bool {
				return nil
			}
			if constant.BoolVal(vtv.Value) {
				trues = append(trues, ivl{next, next})
			}
			next++
		}
		if n < 0 {
			n = next
			for _, iv := range trues {
				if iv.hi+1 > n {
					n = iv.hi + 1
				}
			}
		}
		return &boolTable{trues: normI(trues), n: n}
	case *ast.CallExpr:
		fl, ok := ast.Unparen(v.Fun).(*ast.FuncLit)
		if !ok || len(v.Args) != 0 || fl.Type.Results == nil || len(fl.Type.Results.List) != 1 || len(fl.Type.Results.List[0].Names) != 1 {
			return nil
		}
		res := info.Defs[fl.Type.Results.List[0].Names[0]]
		if res == nil {
			return nil
		}
		arr, ok := res.Type().Underlying().(*types.Array)
		if !ok {
			return nil
		}
		if b, ok := arr.Elem().Underlying().(*types.Basic); !ok || b.Kind() != types.Bool {
			return nil
		}
		var trues []ivl
		for i, st := range fl.Body.List {
			switch x := st.(type) {
			case *ast.RangeStmt:
				// for _, c := range "<constant string>" { t[c] = true }
				tv, ok := info.Types[x.X]
				if !ok || tv.Value == nil || tv.Value.Kind() != constant.String || x.Value == nil || len(x.Body.List) != 1 {
					return nil
				}
				as, ok := x.Body.List[0].(*ast.AssignStmt)
				if !ok || as.Tok != token.ASSIGN || len(as.Lhs) != 1 || len(as.Rhs) != 1 {
					return nil
				}
				ix, ok := as.Lhs[0].(*ast.IndexExpr)
				if !ok {
					return nil
				}
				tid, ok1 := ast.Unparen(ix.X).(*ast.Ident)
				cid, ok2 := ast.Unparen(ix.Index).(*ast.Ident)
				vid, ok3 := x.Value.(*ast.Ident)
				if !ok1 || !ok2 || !ok3 || info.Uses[tid] != res || info.Uses[cid] != info.Defs[vid] {
					return nil
				}
				rtv, ok := info.Types[as.Rhs[0]]
				if !ok || rtv.Value == nil || rtv.Value.Kind() != constant.Bool || !constant.BoolVal(rtv.Value) {
					return nil
				}
				for _, r := range constant.StringVal(tv.Value) {
					if int64(r) >= arr.Len() {
						return nil // the initialiser would panic
					}
					trues = append(trues, ivl{int64(r), int64(r)})
				}
			case *ast.ReturnStmt:
				if i != len(fl.Body.List)-1 {
					return nil
				}
				if len(x.Results) == 1 {
					if id, ok := ast.Unparen(x.Results[0]).(*ast.Ident); !ok || info.Uses[id] != res {
						return nil
					}
				} else if len(x.Results) != 0 {
					return nil
				}
			default:
				return nil
			}
		}
		return &boolTable{trues: normI(trues), n: arr.Len()}
	}
	return nil
}

func (f *flattener) constOf(e ast.Expr) constant.Value {
	if tv, ok := f.info.Types[e]; ok && tv.Value != nil {
		return tv.Value
	}
	return nil
}

// seq processes statements in order under cons; k is called when the list is exhausted.
func (f *flattener) seq(list []ast.Stmt, cons pathCons, acc []ast.Stmt, k func(pathCons, []ast.Stmt)) {
	if f.err != nil || !cons.feasible() {
		return
	}
	if len(list) == 0 {
		k(cons, acc)
		return
	}
	s, rest := list[0], list[1:]
	next := func(c pathCons, a []ast.Stmt) { f.seq(rest, c, a, k) }
	switch v := s.(type) {
	case *ast.ReturnStmt:
		f.leaves = append(f.leaves, leaf{cons: cons, stmts: append([]ast.Stmt(nil), acc...), ret: v})
	case *ast.BlockStmt:
		f.seq(v.List, cons, acc, next)
	case *ast.SwitchStmt:
		f.sw(v, cons, acc, next)
	case *ast.IfStmt:
		if v.Init != nil {
			f.fail(v.Pos(), "if with init statement")
			return
		}
		ts, fs := f.split(v.Cond, cons)
		for _, t := range ts {
			f.seq(v.Body.List, t, acc, next)
		}
		for _, e := range fs {
			if v.Else == nil {
				next(e, acc)
			} else {
				f.seq([]ast.Stmt{v.Else}, e, acc, next)
			}
		}
	case *ast.AssignStmt, *ast.ExprStmt, *ast.DeclStmt, *ast.IncDecStmt:
		// straight-line statement; must not assign to a decision parameter
		bad := false
		ast.Inspect(s, func(n ast.Node) bool {
			if as, ok := n.(*ast.AssignStmt); ok {
				for _, l := range as.Lhs {
					if f.paramOf(l) != nil {
						bad = true
					}
				}
			}
			if u, ok := n.(*ast.UnaryExpr); ok && u.Op == token.AND && f.paramOf(u.X) != nil {
				bad = true
			}
			if _, ok := n.(*ast.FuncLit); ok {
				bad = true
			}
			return true
		})
		if bad {
			f.fail(s.Pos(), "decision parameter is assigned, captured or has its address taken")
			return
		}
		next(cons, append(append([]ast.Stmt(nil), acc...), s))
	case *ast.EmptyStmt:
		next(cons, acc)
	default:
		f.fail(s.Pos(), "unsupported statement %T in a decision function", s)
	}
}

func (f *flattener) sw(v *ast.SwitchStmt, cons pathCons, acc []ast.Stmt, next func(pathCons, []ast.Stmt)) {
	if v.Init != nil {
		f.fail(v.Pos(), "switch with init statement")
		return
	}
	if v.Tag == nil {
		// tagless switch: sequence of conditions
		cur := []pathCons{cons}
		var def *ast.CaseClause
		for _, cc := range v.Body.List {
			c := cc.(*ast.CaseClause)
			if c.List == nil {
				def = c
				continue
			}
			var nextCur []pathCons
			for _, pc := range cur {
				remaining := []pathCons{pc}
				for _, cond := range c.List {
					var rem2 []pathCons
					for _, r := range remaining {
						ts, fs := f.split(cond, r)
						for _, t := range ts {
							f.clause(c, t, acc, next)
						}
						rem2 = append(rem2, fs...)
					}
					remaining = rem2
				}
				nextCur = append(nextCur, remaining...)
			}
			cur = nextCur
		}
		for _, pc := range cur {
			if def != nil {
				f.clause(def, pc, acc, next)
			} else {
				next(pc, acc)
			}
		}
		return
	}
	p := f.paramOf(v.Tag)
	mod := int64(0)
	if p == nil {
		p, mod = f.truncOf(v.Tag)
	}
	if p == nil {
		f.fail(v.Tag.Pos(), "switch tag is not a decision parameter")
		return
	}
	var def *ast.CaseClause
	seenI := []ivl{}
	seenS := map[string]bool{}
	d := cons[p]
	for _, cc := range v.Body.List {
		c := cc.(*ast.CaseClause)
		if c.List == nil {
			def = c
			continue
		}
		var is []ivl
		ss := map[string]bool{}
		for _, e := range c.List {
			cv := f.constOf(e)
			if cv == nil {
				f.fail(e.Pos(), "case expression is not a constant")
				return
			}
			if d.isStr {
				if cv.Kind() != constant.String {
					f.fail(e.Pos(), "case constant kind mismatch")
					return
				}
				ss[constant.StringVal(cv)] = true
			} else {
				n, ok := constant.Int64Val(constant.ToInt(cv))
				if !ok {
					f.fail(e.Pos(), "case constant is not an integer")
					return
				}
				is = append(is, ivl{n, n})
			}
		}
		if mod != 0 && !d.isStr {
			is = periodic(is, mod)
		}
		nc := cons.clone()
		if d.isStr {
			// first match wins: exclude earlier cases
			for k := range seenS {
				delete(ss, k)
			}
			nc[p] = d.intersectStrs(ss, false)
			for k := range ss {
				seenS[k] = true
			}
		} else {
			x := d.intersectInts(normI(is))
			x = x.intersectInts(complementInts(seenI))
			nc[p] = x
			seenI = normI(append(seenI, is...))
		}
		f.clause(c, nc, acc, next)
	}
	nc := cons.clone()
	if d.isStr {
		nc[p] = d.intersectStrs(seenS, true)
	} else {
		nc[p] = d.intersectInts(complementInts(seenI))
	}
	if def != nil {
		f.clause(def, nc, acc, next)
	} else {
		next(nc, acc)
	}
}

func (f *flattener) clause(c *ast.CaseClause, cons pathCons, acc []ast.Stmt, next func(pathCons, []ast.Stmt)) {
	for _, s := range c.Body {
		if b, ok := s.(*ast.BranchStmt); ok {
			f.fail(b.Pos(), "branch statement (%s) in a decision function", b.Tok)
			return
		}
	}
	f.seq(c.Body, cons, acc, next)
}

// split returns the refinements of cons under which cond is true resp. false.
func (f *flattener) split(cond ast.Expr, cons pathCons) (ts, fs []pathCons) {
	if f.err != nil || !cons.feasible() {
		return nil, nil
	}
	cond = ast.Unparen(cond)
	switch v := cond.(type) {
	case *ast.UnaryExpr:
		if v.Op == token.NOT {
			t, e := f.split(v.X, cons)
			return e, t
		}
	case *ast.BinaryExpr:
		switch v.Op {
		case token.LAND:
			t1, f1 := f.split(v.X, cons)
			fs = append(fs, f1...)
			for _, t := range t1 {
				t2, f2 := f.split(v.Y, t)
				ts = append(ts, t2...)
				fs = append(fs, f2...)
			}
			return feas(ts), feas(fs)
		case token.LOR:
			t1, f1 := f.split(v.X, cons)
			ts = append(ts, t1...)
			for _, e := range f1 {
				t2, f2 := f.split(v.Y, e)
				ts = append(ts, t2...)
				fs = append(fs, f2...)
			}
			return feas(ts), feas(fs)
		case token.EQL, token.NEQ, token.LSS, token.LEQ, token.GTR, token.GEQ:
			p, cv, op := f.paramOf(v.X), f.constOf(v.Y), v.Op
			if p == nil {
				p, cv = f.paramOf(v.Y), f.constOf(v.X)
				op = flipOp(op)
			}
			if p == nil || cv == nil {
				break
			}
			d := cons[p]
			tc, fc := cons.clone(), cons.clone()
			if d.isStr {
				if op != token.EQL && op != token.NEQ || cv.Kind() != constant.String {
					break
				}
				m := map[string]bool{constant.StringVal(cv): true}
				tc[p], fc[p] = d.intersectStrs(m, false), d.intersectStrs(m, true)
				if op == token.NEQ {
					tc, fc = fc, tc
				}
				return feas([]pathCons{tc}), feas([]pathCons{fc})
			}
			n, ok := constant.Int64Val(constant.ToInt(cv))
			if !ok {
				break
			}
			var tset []ivl
			switch op {
			case token.EQL:
				tset = []ivl{{n, n}}
			case token.NEQ:
				tset = complementInts([]ivl{{n, n}})
			case token.LSS:
				if n == math.MinInt64 {
					tset = nil
				} else {
					tset = []ivl{{math.MinInt64, n - 1}}
				}
			case token.LEQ:
				tset = []ivl{{math.MinInt64, n}}
			case token.GTR:
				if n == math.MaxInt64 {
					tset = nil
				} else {
					tset = []ivl{{n + 1, math.MaxInt64}}
				}
			case token.GEQ:
				tset = []ivl{{n, math.MaxInt64}}
			}
			tc[p] = d.intersectInts(tset)
			fc[p] = d.intersectInts(complementInts(tset))
			return feas([]pathCons{tc}), feas([]pathCons{fc})
		}
	}
	// byte(p) <op> constant: decided over the characters 0..0x10FFFF, where byte(p) = p mod 256
	if be, ok := cond.(*ast.BinaryExpr); ok {
		switch be.Op {
		case token.EQL, token.NEQ, token.LSS, token.LEQ, token.GTR, token.GEQ:
			p, m := f.truncOf(be.X)
			cv, op := f.constOf(be.Y), be.Op
			if p == nil {
				p, m = f.truncOf(be.Y)
				cv, op = f.constOf(be.X), flipOp(be.Op)
			}
			if p != nil && cv != nil && !cons[p].isStr {
				if n, ok := constant.Int64Val(constant.ToInt(cv)); ok {
					var small []ivl
					switch op {
					case token.EQL:
						small = []ivl{{n, n}}
					case token.NEQ:
						small = append(small, ivl{0, n - 1}, ivl{n + 1, m - 1})
					case token.LSS:
						small = []ivl{{0, n - 1}}
					case token.LEQ:
						small = []ivl{{0, n}}
					case token.GTR:
						small = []ivl{{n + 1, m - 1}}
					case token.GEQ:
						small = []ivl{{n, m - 1}}
					}
					var keep []ivl
					for _, iv := range small {
						if iv.lo <= iv.hi {
							keep = append(keep, iv)
						}
					}
					tset := periodic(keep, m)
					return f.splitBySet(cons, p, tset)
				}
			}
		}
	}
	// table[p], table[T(p)], table[byte(p)] for a package-level table of booleans with a known content
	if ix, ok := cond.(*ast.IndexExpr); ok {
		if id, ok := ast.Unparen(ix.X).(*ast.Ident); ok {
			if tv, _ := f.info.Uses[id].(*types.Var); tv != nil && boolTables[tv] != nil {
				tb := boolTables[tv]
				if p := f.paramOf(ix.Index); p != nil && !cons[p].isStr {
					// every value that can arrive here must be inside the table (else the lookup panics)
					inside := cons[p].intersectInts([]ivl{{0, tb.n - 1}})
					outside := cons[p].intersectInts(complementInts([]ivl{{0, tb.n - 1}}))
					if !outside.empty() {
						f.fail(cond.Pos(), "table lookup %s can be out of range for %s", types.ExprString(cond), p.Name())
						return nil, nil
					}
					_ = inside
					return f.splitBySet(cons, p, tb.trues)
				}
				if p, m := f.truncOf(ix.Index); p != nil && !cons[p].isStr && m <= tb.n {
					return f.splitBySet(cons, p, periodic(tb.trues, m))
				}
			}
		}
	}
	// utf8.ValidRune(p): 0 <= p < 0xD800 or 0xDFFF < p <= 0x10FFFF (the documented contract of unicode/utf8)
	if call, ok := cond.(*ast.CallExpr); ok && len(call.Args) == 1 {
		if fo, ok := f.info.Uses[calleeIdent(call.Fun)].(*types.Func); ok && fo.Pkg() != nil && fo.Pkg().Path() == "unicode/utf8" && fo.Name() == "ValidRune" {
			if p := f.paramOf(call.Args[0]); p != nil && !cons[p].isStr {
				return f.splitBySet(cons, p, []ivl{{0, 0xD7FF}, {0xE000, 0x10FFFF}})
			}
		}
	}
	// a predicate helper of the same package applied to a parameter: `func isX(r rune) bool { return <condition on r> }`
	// is the condition itself, with the helper's parameter standing for the argument
	if call, ok := cond.(*ast.CallExpr); ok && len(call.Args) == 1 {
		if arg := f.paramOf(call.Args[0]); arg != nil {
			if fo, ok := f.info.Uses[calleeIdent(call.Fun)].(*types.Func); ok {
				if hd := predicateDecls[fo]; hd != nil && hd.Type.Params != nil && len(hd.Type.Params.List) == 1 && len(hd.Type.Params.List[0].Names) == 1 && len(hd.Body.List) == 1 {
					if ret, ok := hd.Body.List[0].(*ast.ReturnStmt); ok && len(ret.Results) == 1 {
						hp, _ := f.info.Defs[hd.Type.Params.List[0].Names[0]].(*types.Var)
						if hp != nil {
							if f.alias == nil {
								f.alias = map[*types.Var]*types.Var{}
							}
							f.alias[hp] = arg
							return f.split(ret.Results[0], cons)
						}
					}
				}
			}
		}
	}
	f.fail(cond.Pos(), "condition not understood: %s", types.ExprString(cond))
	return nil, nil
}

// splitBySet splits the constraint on p into the values inside tset and the others.
func (f *flattener) splitBySet(cons pathCons, p *types.Var, tset []ivl) (ts, fs []pathCons) {
	d := cons[p]
	tc, fc := cons.clone(), cons.clone()
	tc[p] = d.intersectInts(tset)
	fc[p] = d.intersectInts(complementInts(tset))
	return feas([]pathCons{tc}), feas([]pathCons{fc})
}

// predicateDecls: the declarations of the module's single-parameter bool functions (filled when the packages are loaded).
var predicateDecls = map[*types.Func]*ast.FuncDecl{}

func calleeIdent(e ast.Expr) *ast.Ident {
	switch x := ast.Unparen(e).(type) {
	case *ast.Ident:
		return x
	case *ast.SelectorExpr:
		return x.Sel
	}
	return nil
}

func flipOp(op token.Token) token.Token {
	switch op {
	case token.LSS:
		return token.GTR
	case token.LEQ:
		return token.GEQ
	case token.GTR:
		return token.LSS
	case token.GEQ:
		return token.LEQ
	}
	return op
}

func feas(ps []pathCons) []pathCons {
	var out []pathCons
	for _, p := range ps {
		if p.feasible() {
			out = append(out, p)
		}
	}
	return out
}

// funcParams returns the parameter objects of a function declaration in order.
func funcParams(info *types.Info, fd *ast.FuncDecl) []*types.Var {
	var out []*types.Var
	for _, fl := range fd.Type.Params.List {
		for _, n := range fl.Names {
			if v, ok := info.Defs[n].(*types.Var); ok {
				out = append(out, v)
			}
		}
	}
	return out
}


// flattenBlock flattens a statement list (e.g. a loop body) over the given decision variables; a path that runs off the
// end of the list is a leaf without a return.
func flattenBlock(info *types.Info, list []ast.Stmt, params []*types.Var) ([]leaf, token.Pos, error) {
	f := &flattener{info: info, params: map[*types.Var]bool{}}
	cons := pathCons{}
	for _, p := range params {
		f.params[p] = true
		if b, ok := p.Type().Underlying().(*types.Basic); ok && b.Info()&types.IsString != 0 {
			cons[p] = fullStr()
		} else {
			cons[p] = fullInt()
		}
	}
	f.seq(list, cons, nil, func(c pathCons, st []ast.Stmt) {
		f.leaves = append(f.leaves, leaf{cons: c, stmts: append([]ast.Stmt(nil), st...)})
	})
	return f.leaves, f.errPos, f.err
}

func (d dset) hasInt(v int64) bool {
	for _, x := range d.ints {
		if x.lo <= v && v <= x.hi {
			return true
		}
	}
	return false
}
