package main

import (
	"fmt"
	"go/ast"
	"go/token"
	"go/types"
	"strings"

	"golang.org/x/tools/go/packages"
	"golang.org/x/tools/go/ssa"
)

func init() {
	register(&property{id: "C20", run: runC20, meta: propMeta{
		level: "other",
		explanation: "Structural necessary conditions of 'errors are reported at the first offending token': the embedded tables are exactly the LALR(1) tables with explicit error entries and no default actions (so the driver never shifts a token that cannot continue a sentence); the ParseError built on an ACTION error takes its position and quoted lexeme from the very token whose terminal was passed to ACTION; the scanner's error leaf formats the position returned by the call that consumes the pending lexeme (its first character) and the scan loop returns exactly that text; the file name given to the entry points reaches the reader unchanged; the end-marker token carries no position of an earlier token.",
		trusted: []string{"LR correct-prefix property of exact LALR(1) tables", "unicode/utf8's DecodeRune / DecodeLastRune contracts", "the dependency's ParseError formatting"},
		assumptions: []string{"message wording is not checked"},
	}})
}

func runC20(c *Ctx) {
	c.Rule("R20.1", 500, "correct-prefix prerequisite: exact LALR(1) tables, no default actions")
	c.Rule("R20.2", 3, "a syntax error carries the position and lexeme of the look-ahead token")
	c.Rule("R20.3", 3, "a lexical error carries the start of the pending lexeme")
	c.Rule("R20.4", 4, "the file name reaches the reader unchanged")
	c.Rule("R20.5", 2, "the end marker carries no earlier token's position")
	c.Rule("R20.6", 1, "nothing about the text is reported before the first token is scanned")

	c.mute = map[string]bool{"R4.2": true, "R5.4": true}
	g := extractEBNF(c, "R20.1")
	if g == nil {
		return
	}
	// R20.1: re-decide the tables under this property's rule id
	before := len(c.Obs)
	checkTables(c, g)
	for i := before; i < len(c.Obs); i++ {
		if c.Obs[i].Rule == "R4.1" {
			c.Obs[i].Rule = "R20.1"
		}
	}
	// no default actions: violations of R4.2 recorded by extractEBNF stay violations here
	for i := range c.Obs {
		if c.Obs[i].Rule == "R4.2" {
			c.Obs[i].Rule = "R20.1"
		}
	}

	d := findDriver(c, g, "R20.2")
	if d != nil {
		checkSyntaxErrorSite(c, g, d)
	}
	checkLexicalErrorSite(c)
	checkFilenamePlumbing(c)
	checkEndMarkerPos(c, g)
}

func checkSyntaxErrorSite(c *Ctx, g *ebnfGrammar, d *driverFacts) {
	fn := d.fn
	// the token variable: the alloc whose Terminal field feeds ACTION
	var tok *ssa.Alloc
	for _, r := range rootsOf(fn, d.ac.Call.Args[1], nil) {
		if fa, ok := r.(*ssa.FieldAddr); ok && fieldName(fa) == "Terminal" {
			if a, ok := fa.X.(*ssa.Alloc); ok {
				tok = a
			}
		}
	}
	if !c.Check("R20.2", "the look-ahead token variable is identified", d.ac.Pos(), tok != nil, "ACTION's terminal is not a field of a token variable") {
		return
	}
	// the error return controlled by err != nil
	n := 0
	for _, b := range fn.Blocks {
		ret, ok := b.Instrs[len(b.Instrs)-1].(*ssa.Return)
		if !ok || !controlledNil(b, d.err, true) {
			continue
		}
		n++
		// the returned value: MakeInterface of a ParseError alloc
		var pe *ssa.Alloc
		for _, r := range rootsOf(fn, retOperand(ret, 0), nil) {
			if a, ok := r.(*ssa.Alloc); ok {
				pe = a
			}
		}
		if mi, ok := retOperand(ret, 0).(*ssa.MakeInterface); ok {
			if a, ok := mi.X.(*ssa.Alloc); ok {
				pe = a
			}
		}
		if pe == nil {
			// built by a helper of the module (syntaxError(token, cause)): which token's fields it takes is not followed here
			if call, isCall := retOperand(ret, 0).(*ssa.Call); isCall {
				if cf := call.Call.StaticCallee(); cf != nil && strings.HasPrefix(fnPkgPath(cf), modPath) {
					c.Undecided("R20.2", "the syntax error is a fresh ParseError value", ret.Pos(), "the error returned on an ACTION failure is built by "+shortFn(cf)+", which this rule does not look into")
					continue
				}
			}
			if mi, isMI := retOperand(ret, 0).(*ssa.MakeInterface); isMI {
				if call, isCall := mi.X.(*ssa.Call); isCall {
					if cf := call.Call.StaticCallee(); cf != nil && strings.HasPrefix(fnPkgPath(cf), modPath) {
						c.Undecided("R20.2", "the syntax error is a fresh ParseError value", ret.Pos(), "the error returned on an ACTION failure is built by "+shortFn(cf)+", which this rule does not look into")
						continue
					}
				}
			}
		}
		if !c.Check("R20.2", "the syntax error is a fresh ParseError value", ret.Pos(), pe != nil, "the error returned on an ACTION failure is not a locally built value") {
			continue
		}
		posOK, lexOK, causeOK := false, false, false
		for _, r := range *pe.Referrers() {
			fa, ok := r.(*ssa.FieldAddr)
			if !ok {
				continue
			}
			for _, rr := range *fa.Referrers() {
				st, ok := rr.(*ssa.Store)
				if !ok || st.Addr != ssa.Value(fa) {
					continue
				}
				switch fieldName(fa) {
				case "Pos":
					for _, root := range rootsOf(fn, st.Val, nil) {
						if f2, ok := root.(*ssa.FieldAddr); ok && fieldName(f2) == "Pos" && f2.X == ssa.Value(tok) {
							posOK = true
						}
					}
				case "Description":
					// derives from tok.Lexeme through Sprintf's varargs
					seen := map[ssa.Value]bool{}
					var walk func(v ssa.Value)
					walk = func(v ssa.Value) {
						if seen[v] {
							return
						}
						seen[v] = true
						switch x := v.(type) {
						case *ssa.Call:
							for _, a := range x.Call.Args {
								for _, y := range rootsOfArg(fn, a) {
									walk(y)
								}
							}
						case *ssa.UnOp:
							if f2, ok := x.X.(*ssa.FieldAddr); ok && fieldName(f2) == "Lexeme" && f2.X == ssa.Value(tok) {
								lexOK = true
							}
						}
					}
					walk(st.Val)
				case "Cause":
					causeOK = st.Val == d.err
				}
			}
		}
		c.Check("R20.2", "the syntax error's position is the look-ahead token's position", ret.Pos(), posOK, "ParseError.Pos is not taken from the token whose terminal was rejected: the message points elsewhere")
		c.Check("R20.2", "the syntax error quotes the look-ahead token's lexeme", ret.Pos(), lexOK, "ParseError.Description does not derive from the rejected token's lexeme")
		c.Check("R20.2", "the syntax error keeps ACTION's error as its cause", ret.Pos(), causeOK, "ParseError.Cause is not the error returned by ACTION")
	}
	c.Check("R20.2", "an ACTION error ends the parse", d.ac.Pos(), n >= 1, "no return on the path where ACTION failed")
}

func checkLexicalErrorSite(c *Ctx) {
	lp := c.Pkg("internal/ebnf/lexer")
	if lp == nil {
		c.Lost("R20.3", "package internal/ebnf/lexer")
		return
	}
	s := findScanner(c, "R20.3", lp)
	if s == nil {
		return
	}
	info := lp.TypesInfo
	if s.defLeaf == nil {
		c.Lost("R20.3", "error leaf of the evaluation method")
		return
	}
	// the default leaf: val, pos := Lexeme(); Lexeme: Sprintf(..., pos, val); Pos: pos
	lf := s.defLeaf
	c.Check("R20.3", "the error leaf consumes the pending text with Lexeme()", lf.pos, len(lf.consumes) == 1 && lf.consumes[0] == "Lexeme",
		fmt.Sprintf("the error leaf calls %v: the offending text must be consumed once, with its start position", lf.consumes))
	c.Check("R20.3", "the error token's position comes from that call", lf.pos, lf.posFrom == "Lexeme#1", "the error token's Pos is not the position returned by Lexeme()")
	// message mentions the position variable: find the return in evalFn's trailing statements
	msgOK := false
	ast.Inspect(s.evalFn.Body, func(n ast.Node) bool {
		ret, ok := n.(*ast.ReturnStmt)
		if !ok || ret.Pos() != lf.pos {
			return true
		}
		ast.Inspect(ret, func(m ast.Node) bool {
			call, ok := m.(*ast.CallExpr)
			if !ok {
				return true
			}
			if fo, ok := objOf(info, call.Fun).(*types.Func); ok && fo.Pkg() != nil && fo.Pkg().Path() == "fmt" && fo.Name() == "Sprintf" {
				for _, a := range call.Args[1:] {
					if t := info.TypeOf(a); t != nil {
						if _, nme := namedTypeName(t); nme == "Position" {
							msgOK = true
						}
					}
				}
			}
			return true
		})
		return true
	})
	c.Check("R20.3", "the lexical error message is formatted with that position", lf.pos, msgOK, "the error text does not include the position returned by Lexeme()")
	// scan loop returns errors.New(token.Lexeme) for the error terminal: decided by R5.4 classification (error kind); here: text flow
	fn := c.SSAFunc(lp, s.nextFn)
	sl := analyseScanLoop(c, "R5.4", fn, info.Defs[s.advFn.Name], info.Defs[s.evalFn.Name], s.errorState)
	okErr := false
	if sl.ok && s.defLeaf.termOK {
		for _, t := range sl.errTerms {
			if t == s.defLeaf.terminal {
				okErr = true
			}
		}
	}
	if !sl.ok {
		c.Undecided("R20.3", "the scan loop turns the error token into an error", s.nextFn.Pos(), "the treatment of the evaluated token was not understood")
		return
	}
	c.Check("R20.3", "the scan loop turns the error token into an error", s.nextFn.Pos(), okErr, "the terminal of the error leaf is not among the terminals the scan loop reports as errors")
	// the error's text is the token's Lexeme
	textOK := false
	for _, st := range sl.sites {
		ofn := st.outFn
		if sl.outFn != nil {
			ofn = sl.outFn
		}
		for _, b := range ofn.Blocks {
			for _, in := range b.Instrs {
				call, ok := in.(*ssa.Call)
				if !ok || staticCalleeName(call) != "errors.New" {
					continue
				}
				for _, r := range rootsOf(ofn, call.Call.Args[0], nil) {
					if fa, ok := r.(*ssa.FieldAddr); ok && fieldName(fa) == "Lexeme" {
						textOK = true
					}
				}
			}
		}
	}
	c.Check("R20.3", "the error text is the error token's message", s.nextFn.Pos(), textOK, "errors.New is not fed the evaluated token's Lexeme")
	// an unterminated lexical element at the very end of the file is still reported: the pending lexeme is evaluated at end of input
	if sl.pathsDone {
		checkPendingAtEOF(c, "R20.3", sl, "internal/ebnf/lexer")
	}
	// line and column refer to the file: the text reaches the reader unmodified
	if ri := findReader(c, "R20.3"); ri != nil {
		checkSourceUnmodified(c, "R20.3", ri)
	}
}

// checkFilenamePlumbing: the first parameter of each entry point reaches input.New's first argument unchanged.
func checkFilenamePlumbing(c *Ctx) {
	type hop struct {
		pkg, fn      string
		calleePkg    string
		calleeName   string
	}
	hops := []hop{
		{"internal/ebnf/parser/spec", "Parse", modPath + "/internal/ebnf/parser", "New"},
		{"internal/ebnf/parser/ast", "Parse", modPath + "/internal/ebnf/parser", "New"},
		{"internal/ebnf/parser", "New", modPath + "/internal/ebnf/lexer", "New"},
	}
	if ri := findReader(c, "R20.4"); ri != nil {
		callee := ri.ctor.Call.StaticCallee()
		hops = append(hops, hop{"internal/ebnf/lexer", "New", fnPkgPath(callee), callee.Name()})
		if ri.kind == "mem" {
			// the reader is module code: that it stores the name and reports every position under it is decided here
			checkMemReader(c, "R20.4", ri)
			checkMemReaderPositions(c, "R20.4", ri)
			checkNoErrorBeforeScanning(c, ri)
		}
	}
	for _, h := range hops {
		p := c.Pkg(h.pkg)
		fd := FuncDecl(p, "", h.fn)
		if fd == nil {
			c.Lost("R20.4", h.pkg+"."+h.fn)
			continue
		}
		c.Analysed(funcKey(p, fd))
		key := fmt.Sprintf("%s.%s passes its file name to %s.%s", h.pkg, h.fn, h.calleePkg[strings.LastIndex(h.calleePkg, "/")+1:], h.calleeName)
		okHop := checkArg0Flow(p, fd, h.calleePkg, h.calleeName)
		c.Check("R20.4", key, fd.Pos(), okHop, "the first argument of the callee is not the function's own first parameter: diagnostics name a different file")
	}
	// Run: filename = filepath.Base(path) of the chosen argument (display name)
	cp := c.Pkg("internal/command")
	if fd := FuncDecl(cp, "Command", "Run"); fd != nil {
		fn := c.SSAFunc(cp, fd)
		okName, sawParse := false, false
		// Run itself, or a helper of the package it calls (a `load(path)` that opens and parses)
		cands := []*ssa.Function{fn}
		allCalls(fn, func(call ssa.CallInstruction) {
			if cf := call.Common().StaticCallee(); cf != nil && len(cf.Blocks) > 0 && fnPkgPath(cf) == fnPkgPath(fn) {
				cands = append(cands, cf)
			}
		})
		for _, g := range cands {
			g := g
			allCalls(g, func(call ssa.CallInstruction) {
				cv, ok := call.(*ssa.Call)
				if !ok || cv.Call.StaticCallee() != nil || cv.Call.IsInvoke() {
					return
				}
				sig := cv.Call.Signature()
				if sig.Params().Len() == 2 && sig.Results().Len() == 2 && isString(sig.Params().At(0).Type()) {
					sawParse = true
					// c.funcs.Parse(filename, f)
					if b, ok := cv.Call.Args[0].(*ssa.Call); ok && staticCalleeName(b) == "path/filepath.Base" {
						// the same path that is opened
						var opened ssa.Value
						allCalls(g, func(c2 ssa.CallInstruction) {
							if staticCalleeName(c2) == "os.Open" {
								opened = c2.Common().Args[0]
							}
						})
						if opened != nil && opened == b.Call.Args[0] {
							okName = true
						}
					}
				}
			})
		}
		if !sawParse {
			c.Undecided("R20.4", "Run names the file it opens (base name of the chosen argument)", fd.Pos(), "the call of the parse function was not found in Run or in a helper of the package it calls")
			okName = true
		}
		c.Check("R20.4", "Run names the file it opens (base name of the chosen argument)", fd.Pos(), okName, "the name handed to Parse is not derived from the path that is opened")
	}
}

func checkArg0Flow(p *packages.Package, fd *ast.FuncDecl, calleePkg, calleeName string) bool {
	info := p.TypesInfo
	if fd.Type.Params == nil || len(fd.Type.Params.List) == 0 || len(fd.Type.Params.List[0].Names) == 0 {
		return false
	}
	p0 := info.Defs[fd.Type.Params.List[0].Names[0]]
	ok := false
	ast.Inspect(fd.Body, func(n ast.Node) bool {
		call, isCall := n.(*ast.CallExpr)
		if !isCall || len(call.Args) < 1 {
			return true
		}
		fo, _ := objOf(info, call.Fun).(*types.Func)
		if fo == nil || fo.Pkg() == nil || fo.Pkg().Path() != calleePkg || fo.Name() != calleeName {
			return true
		}
		if id, isId := ast.Unparen(call.Args[0]).(*ast.Ident); isId && info.Uses[id] == p0 {
			ok = true
		}
		return true
	})
	return ok
}

// checkEndMarkerPos: on end of input the wrapper returns the lexer's (zero) token with only Terminal/Lexeme overwritten,
// and the scan function's error returns carry the zero token.
func checkEndMarkerPos(c *Ctx, g *ebnfGrammar) {
	p := g.pkg
	var fd *ast.FuncDecl
	AllFuncDecls(p, func(f *ast.FuncDecl) {
		if f.Recv == nil || f.Body == nil {
			return
		}
		fo, _ := p.TypesInfo.Defs[f.Name].(*types.Func)
		sig := fo.Type().(*types.Signature)
		if sig.Params().Len() == 0 && sig.Results().Len() == 2 && typeIs(sig.Results().At(0).Type(), "lexer", "Token") && isErr(sig.Results().At(1).Type()) {
			fd = f
		}
	})
	if fd == nil {
		// another shape of the same wrapper: the method that calls the lexer's NextToken and hands the token out through a
		// pointer parameter. The end-marker path must then write the whole token or reset its position: the caller's variable
		// still holds the previous token.
		var cand *ast.FuncDecl
		n := 0
		AllFuncDecls(p, func(f *ast.FuncDecl) {
			if f.Recv == nil || f.Body == nil {
				return
			}
			calls := false
			ast.Inspect(f.Body, func(nd ast.Node) bool {
				if call, ok := nd.(*ast.CallExpr); ok {
					if sel, ok := call.Fun.(*ast.SelectorExpr); ok && sel.Sel.Name == "NextToken" {
						calls = true
					}
				}
				return true
			})
			fo, _ := p.TypesInfo.Defs[f.Name].(*types.Func)
			sig := fo.Type().(*types.Signature)
			hasOut := false
			for i := 0; i < sig.Params().Len(); i++ {
				if pt, ok := sig.Params().At(i).Type().(*types.Pointer); ok && typeIs(pt.Elem(), "lexer", "Token") {
					hasOut = true
				}
			}
			if calls && hasOut {
				cand = f
				n++
			}
		})
		if n != 1 {
			c.Lost("R20.5", "the parser's next-token wrapper")
			return
		}
		fn := c.SSAFunc(p, cand)
		var out *ssa.Parameter
		for _, prm := range fn.Params {
			if pt, ok := prm.Type().(*types.Pointer); ok && typeIs(pt.Elem(), "lexer", "Token") {
				out = prm
			}
		}
		bad := token.NoPos
		for _, b := range fn.Blocks {
			setsTerminal, setsPosOrAll := false, false
			for _, in := range b.Instrs {
				st, ok := in.(*ssa.Store)
				if !ok {
					continue
				}
				if st.Addr == ssa.Value(out) {
					setsPosOrAll = true
				}
				if fa, ok := st.Addr.(*ssa.FieldAddr); ok && fa.X == ssa.Value(out) {
					switch fieldName(fa) {
					case "Terminal":
						setsTerminal = true
					case "Pos":
						setsPosOrAll = true
					}
				}
			}
			if setsTerminal && !setsPosOrAll {
				// a whole-token store on every path to this block also does
				dominated := false
				for d := b.Idom(); d != nil; d = d.Idom() {
					for _, in := range d.Instrs {
						if st, ok := in.(*ssa.Store); ok && st.Addr == ssa.Value(out) {
							dominated = true
						}
					}
				}
				if !dominated {
					bad = b.Instrs[0].Pos()
				}
			}
		}
		c.Check("R20.5", "the end-marker token's position is not overwritten with another token's", cand.Pos(), bad == token.NoPos,
			"the wrapper fills the caller's token through a pointer and, where it makes it the end marker, sets the terminal but neither the position nor the whole token: the end marker keeps the position of the token the variable held before, and a specification that ends too early is reported at an earlier, innocent token",
			"a specification cut off after any token, e.g. `grammar x; a = b`")
		goto scanFn
	}
	{
	fn := c.SSAFunc(p, fd)
	posStore := false
	for _, b := range fn.Blocks {
		for _, in := range b.Instrs {
			if st, ok := in.(*ssa.Store); ok {
				if fa, ok := st.Addr.(*ssa.FieldAddr); ok && fieldName(fa) == "Pos" {
					posStore = true
				}
			}
		}
	}
	c.Check("R20.5", "the end-marker token's position is not overwritten with another token's", fd.Pos(), !posStore, "the wrapper stores into the token's Pos")
	}
scanFn:
	// scan function: every error return carries the zero token
	lp := c.Pkg("internal/ebnf/lexer")
	if lp == nil {
		return
	}
	if s := findScanner(c, "R20.5", lp); s != nil {
		fn := c.SSAFunc(lp, s.nextFn)
		// a scan function that hands back a state instead of a token leaves the token to its caller: the rule is about the
		// function that returns the token
		if fn != nil && (fn.Signature.Results().Len() == 0 || !typeIs(fn.Signature.Results().At(0).Type(), "lexer", "Token")) {
			var caller *ssa.Function
			for _, cand := range allFuncsOfPkg(fn.Pkg) {
				if cand.Signature.Results().Len() >= 2 && typeIs(cand.Signature.Results().At(0).Type(), "lexer", "Token") {
					allCalls(cand, func(call ssa.CallInstruction) {
						if call.Common().StaticCallee() == fn {
							caller = cand
						}
					})
				}
			}
			if caller == nil {
				c.Undecided("R20.5", "the scan function returns the zero token together with an error", s.nextFn.Pos(), "the function that turns the scanner's result into a token was not found")
				return
			}
			fn = caller
		}
		okZero, n := true, 0
		for _, b := range fn.Blocks {
			ret, ok := b.Instrs[len(b.Instrs)-1].(*ssa.Return)
			if !ok || len(ret.Results) < 2 || isNilConst(ret.Results[len(ret.Results)-1]) {
				continue
			}
			last := ret.Results[len(ret.Results)-1]
			if _, isExtract := last.(*ssa.Extract); isExtract {
				if ex, ok := ret.Results[0].(*ssa.Extract); ok && ex.Tuple == last.(*ssa.Extract).Tuple {
					continue // results of a nested call are passed through
				}
			}
			n++
			if k, ok := ret.Results[0].(*ssa.Const); !ok || k.Value != nil {
				okZero = false
			}
		}
		c.Check("R20.5", "the scan function returns the zero token together with an error", s.nextFn.Pos(), okZero && n >= 1,
			"an error (including end of input) is returned with a non-zero token: the end marker would carry an earlier token's position")
	}
}

var _ = token.NoPos

// checkNoErrorBeforeScanning (R20.6): the scanner's constructor reports only what reading the source reports. An error it
// derives from the text itself (an encoding check of the whole file, a size limit) is reported before the first token is
// scanned, wherever it lies in the file: an error later in the text then pre-empts the first offending token.
func checkNoErrorBeforeScanning(c *Ctx, ri *readerInfo) {
	fn := ri.newSSA
	key := "the scanner's constructor fails only when reading the source fails"
	carriesText := func(t types.Type) bool {
		if p, ok := t.Underlying().(*types.Pointer); ok {
			t = p.Elem()
		}
		switch u := t.Underlying().(type) {
		case *types.Slice:
			if b, ok := u.Elem().Underlying().(*types.Basic); ok && b.Kind() == types.Uint8 {
				return true
			}
		case *types.Basic:
			return u.Kind() == types.String
		case *types.Struct:
			for i := 0; i < u.NumFields(); i++ {
				if sl, ok := u.Field(i).Type().Underlying().(*types.Slice); ok {
					if b, ok := sl.Elem().Underlying().(*types.Basic); ok && b.Kind() == types.Uint8 {
						return true
					}
				}
			}
		}
		return false
	}
	// does the value hold (or wrap) what a read of the source produced? A file name is a string too, but not the text.
	fromRead := func(f *ssa.Function, v ssa.Value) bool {
		found := false
		seen := map[ssa.Value]bool{}
		var walk func(v ssa.Value, depth int)
		walk = func(v ssa.Value, depth int) {
			if v == nil || seen[v] || depth > 8 || found {
				return
			}
			seen[v] = true
			switch x := v.(type) {
			case *ssa.Extract:
				walk(x.Tuple, depth+1)
			case *ssa.Call:
				if x.Call.IsInvoke() {
					if n := x.Call.Method.Name(); n == "Read" || n == "Bytes" || n == "String" {
						found = true
					}
					return
				}
				if callee := x.Call.StaticCallee(); callee != nil {
					pp := fnPkgPath(callee)
					if pp == "io" || pp == "bufio" || pp == "os" || pp == "io/ioutil" || pp == "bytes" {
						found = true
						return
					}
					// a reader value built from the text
					for _, a := range x.Call.Args {
						walk(a, depth+1)
					}
				}
			case *ssa.Phi:
				for _, e := range x.Edges {
					walk(e, depth+1)
				}
			case *ssa.Convert:
				walk(x.X, depth+1)
			case *ssa.ChangeType:
				walk(x.X, depth+1)
			case *ssa.Slice:
				walk(x.X, depth+1)
			case *ssa.MakeInterface:
				walk(x.X, depth+1)
			case *ssa.UnOp:
				walk(x.X, depth+1)
			case *ssa.Alloc:
				// a struct literal: what is stored into its fields
				if x.Referrers() != nil {
					for _, r := range *x.Referrers() {
						if fa, ok := r.(*ssa.FieldAddr); ok && fa.Referrers() != nil {
							for _, rr := range *fa.Referrers() {
								if st, ok := rr.(*ssa.Store); ok {
									walk(st.Val, depth+1)
								}
							}
						}
					}
				}
			}
		}
		walk(v, 0)
		return found
	}
	var origin func(f *ssa.Function, v ssa.Value, depth int) (int, string) // 1 read error, 0 derived from the text, -1 unknown
	origin = func(f *ssa.Function, v ssa.Value, depth int) (int, string) {
		if depth > 3 {
			return -1, "too deep"
		}
		switch x := v.(type) {
		case *ssa.Extract:
			return origin(f, x.Tuple, depth)
		case *ssa.Phi:
			worst, why := 1, ""
			for _, e := range x.Edges {
				if isNilConst(e) {
					continue
				}
				r, w := origin(f, e, depth+1)
				if r < worst {
					worst, why = r, w
				}
			}
			return worst, why
		case *ssa.Call:
			if x.Call.IsInvoke() {
				if x.Call.Method.Name() == "Read" || x.Call.Method.Name() == "ReadByte" || x.Call.Method.Name() == "ReadRune" {
					return 1, ""
				}
				return -1, "an interface method"
			}
			callee := x.Call.StaticCallee()
			if callee == nil {
				return -1, "a dynamic call"
			}
			pp := fnPkgPath(callee)
			if pp == "io" || pp == "bufio" || pp == "os" || pp == "io/ioutil" {
				return 1, ""
			}
			if !strings.HasPrefix(pp, modPath) || len(callee.Blocks) == 0 {
				return -1, "a call outside the module"
			}
			for _, a := range x.Call.Args {
				if carriesText(a.Type()) && fromRead(f, a) {
					return 0, shortFn(callee) + " is given the text and returns an error of its own"
				}
			}
			worst, why := 1, ""
			n := 0
			for _, b := range callee.Blocks {
				r, ok := b.Instrs[len(b.Instrs)-1].(*ssa.Return)
				if !ok || len(r.Results) == 0 {
					continue
				}
				ev := retOperand(r, len(r.Results)-1)
				if isNilConst(ev) {
					continue
				}
				n++
				res, w := origin(callee, ev, depth+1)
				if res < worst {
					worst, why = res, w
				}
			}
			if n == 0 {
				return -1, "no error return in " + shortFn(callee)
			}
			return worst, why
		case *ssa.MakeInterface:
			return 0, "an error value built in the constructor itself"
		}
		return -1, "a value this rule does not follow"
	}
	n := 0
	for _, b := range fn.Blocks {
		ret, ok := b.Instrs[len(b.Instrs)-1].(*ssa.Return)
		if !ok || len(ret.Results) == 0 {
			continue
		}
		ev := retOperand(ret, len(ret.Results)-1)
		if !isErr(ev.Type()) || isNilConst(ev) {
			continue
		}
		n++
		res, why := origin(fn, ev, 0)
		switch res {
		case 1:
			c.Pass("R20.6", key, ret.Pos(), "")
		case 0:
			c.Fail("R20.6", key, ret.Pos(), "the constructor returns an error that is derived from the text, not from reading it ("+why+"): it is reported before the first token is scanned, so a defect anywhere later in the file (an invalid byte in a comment at the end) pre-empts the first offending token",
				"a specification with a syntax error in line 2 and an invalid UTF-8 byte in line 3")
		default:
			c.Undecided("R20.6", key, ret.Pos(), why)
		}
	}
	if n == 0 {
		c.Pass("R20.6", key, fn.Pos(), "the constructor has no error return")
	}
}
