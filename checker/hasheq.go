package main

import (
	"fmt"
	"go/ast"
	"go/token"
	"go/types"
	"strings"

	"golang.org/x/tools/go/packages"
)

// checkMemoHashEq: a hash table keyed by a list is created with a (hash, equality) pair of module functions. When the
// equality is a set equality (each side's elements are looked up in the other side, no positional comparison), the hash
// must not depend on the order of the elements: the loop that feeds the hasher must walk the very list that was sorted
// before it. Otherwise two equal keys written in different orders land in different buckets: the sub-expression memo
// hands out two synthesised non-terminals for one set of alternatives, and a rule handle written in another order than
// its rule names a production that is not the grammar's.
func checkMemoHashEq(c *Ctx, rule string, p *packages.Package) {
	info := p.TypesInfo
	type pair struct {
		hash, eq *types.Func
		pos      token.Pos
	}
	var pairs []pair
	AllFuncDecls(p, func(fd *ast.FuncDecl) {
		if fd.Body == nil {
			return
		}
		ast.Inspect(fd.Body, func(n ast.Node) bool {
			call, ok := n.(*ast.CallExpr)
			if !ok || len(call.Args) < 2 {
				return true
			}
			h, _ := objOf(info, call.Args[0]).(*types.Func)
			e, _ := objOf(info, call.Args[1]).(*types.Func)
			if h == nil || e == nil || h.Pkg() != p.Types || e.Pkg() != p.Types {
				return true
			}
			hs, es := h.Type().(*types.Signature), e.Type().(*types.Signature)
			if hs.Params().Len() != 1 || hs.Results().Len() != 1 || es.Params().Len() != 2 || es.Results().Len() != 1 {
				return true
			}
			if b, ok := es.Results().At(0).Type().Underlying().(*types.Basic); !ok || b.Kind() != types.Bool {
				return true
			}
			if b, ok := hs.Results().At(0).Type().Underlying().(*types.Basic); !ok || b.Info()&types.IsInteger == 0 {
				return true
			}
			if _, ok := hs.Params().At(0).Type().Underlying().(*types.Slice); !ok {
				return true
			}
			pairs = append(pairs, pair{h, e, call.Pos()})
			return true
		})
	})
	if len(pairs) == 0 {
		c.Undecided(rule, "memo key: hash and equality functions of a list-keyed table", p.Types.Scope().Pos(), "no table constructed with a (hash, equality) pair of package functions over a list type was found")
		return
	}
	for _, pr := range pairs {
		hd, ed := declOfFunc(p, pr.hash), declOfFunc(p, pr.eq)
		key := fmt.Sprintf("memo key %s/%s: equal keys hash alike", pr.hash.Name(), pr.eq.Name())
		if hd == nil || ed == nil || hd.Body == nil || ed.Body == nil {
			c.Undecided(rule, key, pr.pos, "declarations not found")
			continue
		}
		c.Analysed(p.Types.Path() + "." + pr.hash.Name())
		// an equality that compares hashes is no equality: the hash is a 64-bit digest (and here writes the elements one after
		// another without a separator), so different keys compare equal and share one table entry
		callsHash := token.NoPos
		ast.Inspect(ed.Body, func(n ast.Node) bool {
			if call, ok := n.(*ast.CallExpr); ok && objOf(info, call.Fun) == types.Object(pr.hash) {
				callsHash = call.Pos()
			}
			return true
		})
		if callsHash != token.NoPos {
			c.Fail(rule, key, callsHash, "the equality function of the table is computed from the hash function: keys whose hashes collide (the digest writes the alternatives back to back, so {a b}, {a, b} and {ab}, or {x} and {x, ε}, are fed the same bytes) are taken for the same key, and two different sub-expressions share one synthesised non-terminal",
				`first = ("a" "b") "x"  together with  second = ("a" | "b") "y"  in one specification`)
			continue
		}
		// is the equality a set equality?
		eparams := map[types.Object]bool{}
		for _, f := range ed.Type.Params.List {
			for _, n := range f.Names {
				eparams[info.Defs[n]] = true
			}
		}
		ranged := map[types.Object]bool{}
		positional := false
		ast.Inspect(ed.Body, func(n ast.Node) bool {
			switch x := n.(type) {
			case *ast.RangeStmt:
				if id, ok := ast.Unparen(x.X).(*ast.Ident); ok && eparams[info.Uses[id]] {
					ranged[info.Uses[id]] = true
				}
			case *ast.IndexExpr:
				if id, ok := ast.Unparen(x.X).(*ast.Ident); ok && eparams[info.Uses[id]] {
					positional = true
				}
			}
			return true
		})
		setEq := len(ranged) == 2 && !positional
		if !setEq {
			if positional {
				c.Pass(rule, key, hd.Pos(), "") // positional equality: an order-dependent hash is consistent with it
			} else {
				c.Undecided(rule, key, ed.Pos(), "the equality was recognised neither as a set equality (both sides ranged, membership) nor as positional")
			}
			continue
		}
		// the hash: range loops and sort calls
		var sorted []types.Object
		var sortPos []token.Pos
		type rng struct {
			obj   types.Object
			pos   token.Pos
			feeds bool
		}
		var ranges []rng
		ast.Inspect(hd.Body, func(n ast.Node) bool {
			switch x := n.(type) {
			case *ast.CallExpr:
				if fo, ok := objOf(info, x.Fun).(*types.Func); ok && fo.Pkg() != nil && len(x.Args) >= 1 {
					pp := fo.Pkg().Path()
					if strings.HasSuffix(pp, "sort") || pp == "slices" {
						if id, ok := ast.Unparen(x.Args[0]).(*ast.Ident); ok && info.Uses[id] != nil {
							sorted = append(sorted, info.Uses[id])
							sortPos = append(sortPos, x.Pos())
						}
					}
				}
			case *ast.RangeStmt:
				id, ok := ast.Unparen(x.X).(*ast.Ident)
				if !ok {
					return true
				}
				if _, isSl := info.TypeOf(x.X).Underlying().(*types.Slice); !isSl {
					return true
				}
				// does the body hand the element to something together with a stateful hasher (any call with >= 2 args, or a method call)?
				feeds := false
				ast.Inspect(x.Body, func(m ast.Node) bool {
					if _, ok := m.(*ast.CallExpr); ok {
						feeds = true
					}
					return true
				})
				ranges = append(ranges, rng{info.Uses[id], x.Pos(), feeds})
			}
			return true
		})
		var feed *rng
		for i := range ranges {
			if ranges[i].feeds {
				feed = &ranges[i]
			}
		}
		switch {
		case feed == nil:
			c.Undecided(rule, key, hd.Pos(), "no loop over the key that feeds the hasher was recognised")
		case len(sorted) == 0:
			c.Fail(rule, key, feed.pos, fmt.Sprintf("%s is a set equality, but %s feeds the elements to the hasher in the order they were written, without sorting: equal keys written in different orders get different hashes and are not found in the table", pr.eq.Name(), pr.hash.Name()))
		default:
			ok := false
			for i, s := range sorted {
				if s == feed.obj && sortPos[i] < feed.pos {
					ok = true
				}
			}
			if ok {
				c.Pass(rule, key, hd.Pos(), "")
			} else {
				c.Fail(rule, key, feed.pos, fmt.Sprintf("%s sorts %s but feeds the hasher from %s: the hash depends on the order in which the alternatives were written while %s does not, so equal keys are not found in the table (a sub-expression gets a second synthesised non-terminal; a rule handle written in another order than its rule names a production the grammar does not have)", pr.hash.Name(), sorted[0].Name(), feed.obj.Name(), pr.eq.Name()))
			}
		}
	}
}
