package main

import (
	"fmt"
	"go/token"
	"sort"
	"strings"
)

func init() {
	register(&property{id: "C05", run: runC05, meta: propMeta{
		level: "other",
		explanation: "advanceDFA is flattened from the syntax tree into a complete state x rune-interval transition table over all of Unicode and evalDFA into state -> (terminal, lexeme operation, consume call); " +
			"the resulting Moore machine is compared by product exploration with a reference machine the checker builds from the documented token table (docs/5-definitions.md) plus the property's whitespace/comment clauses; " +
			"lexeme, consume-once, position-source, scan-loop and token-loop obligations are decided on the AST/SSA; the reader (module code: the lexer scans the text in memory) is decided as well: cursor invariant, end-of-input test, lexeme slice, and the offset/line/column walk (R5.5). Decides every (state, code point) pair and every accepting state; does not execute the scanner.",
		trusted: []string{"checker's regex->NFA->DFA engine (automata.go)", "unicode/utf8's DecodeRune / DecodeLastRune contracts (0 <= size <= len(p); a size of 1 with RuneError means an invalid encoding)",
			"documented token table in docs/5-definitions.md and comment rules in docs/6-design.md"},
		assumptions: []string{"REGEX excludes the forms that start a comment (// and /*), as docs/6-design.md states", "the reader is the module's in-memory reader (R5.5 decides it); were lexer.New to use the dependency's reader again, R5.5 records that it is trusted"},
	}})
}

type docToken struct {
	name  string
	isStr bool
	val   string // literal or regex source
}

func parseDocTokens(c *Ctx) []docToken {
	doc := readDoc(c, "5-definitions.md")
	i := strings.Index(doc, "### Tokens")
	if i < 0 {
		return nil
	}
	rest := doc[i:]
	if j := strings.Index(rest[4:], "\n### "); j >= 0 {
		rest = rest[:j+4]
	}
	var out []docToken
	for _, line := range strings.Split(rest, "\n") {
		line = strings.TrimSpace(line)
		if !strings.HasPrefix(line, "| `") {
			continue
		}
		// split on unescaped |
		var cells []string
		cur := ""
		rs := []rune(line)
		for k := 0; k < len(rs); k++ {
			if rs[k] == '\\' && k+1 < len(rs) && rs[k+1] == '|' {
				cur += "|"
				k++
				continue
			}
			if rs[k] == '|' {
				cells = append(cells, cur)
				cur = ""
				continue
			}
			cur += string(rs[k])
		}
		cells = append(cells, cur)
		if len(cells) < 4 {
			continue
		}
		name := strings.Trim(strings.TrimSpace(cells[1]), "`")
		lex := strings.TrimSpace(cells[2])
		lex = strings.TrimPrefix(lex, "`")
		lex = strings.TrimSuffix(lex, "`")
		switch {
		case strings.HasPrefix(lex, "\""):
			v := strings.TrimPrefix(lex, "\"")
			for strings.HasSuffix(v, "\"") {
				v = strings.TrimSuffix(v, "\"")
			}
			out = append(out, docToken{name: name, isStr: true, val: v})
		case strings.HasPrefix(lex, "/") && strings.HasSuffix(lex, "/") && len(lex) >= 2:
			out = append(out, docToken{name: name, val: lex[1 : len(lex)-1]})
		}
	}
	return out
}

func escapeRe(s string) string {
	var sb strings.Builder
	for _, r := range s {
		if strings.ContainsRune(`\|.?*+()[]{}$^/`, r) {
			sb.WriteByte('\\')
		}
		sb.WriteRune(r)
	}
	return sb.String()
}

// firstRestrict returns a node for { w in L(n) : w != "" and w[0] not in excl }.
func firstRestrict(n *rnode, excl rset) *rnode {
	empty := &rnode{kind: "set"}
	switch n.kind {
	case "eps":
		return empty
	case "set":
		return &rnode{kind: "set", set: minus(n.set, excl)}
	case "alt":
		return &rnode{kind: "alt", kids: []*rnode{firstRestrict(n.kids[0], excl), firstRestrict(n.kids[1], excl)}}
	case "cat":
		a, b := n.kids[0], n.kids[1]
		r := &rnode{kind: "cat", kids: []*rnode{firstRestrict(a, excl), b}}
		if nullableNode(a) {
			return &rnode{kind: "alt", kids: []*rnode{r, firstRestrict(b, excl)}}
		}
		return r
	case "star", "plus":
		return &rnode{kind: "cat", kids: []*rnode{firstRestrict(n.kids[0], excl), {kind: "star", kids: []*rnode{n.kids[0]}}}}
	case "opt":
		return firstRestrict(n.kids[0], excl)
	}
	return empty
}

func nullableNode(n *rnode) bool {
	switch n.kind {
	case "eps", "star", "opt":
		return true
	case "set":
		return false
	case "alt":
		return nullableNode(n.kids[0]) || nullableNode(n.kids[1])
	case "cat":
		return nullableNode(n.kids[0]) && nullableNode(n.kids[1])
	case "plus":
		return nullableNode(n.kids[0])
	}
	return false
}

// catList flattens nested cat nodes, dropping eps.
func catList(n *rnode) []*rnode {
	if n.kind == "cat" {
		return append(catList(n.kids[0]), catList(n.kids[1])...)
	}
	if n.kind == "eps" {
		return nil
	}
	return []*rnode{n}
}

var asciiText = rset{{'\t', '\t'}, {'\n', '\n'}, {'\r', '\r'}, {0x20, 0x7E}}

// buildEBNFReference builds the documented scanner as a Moore machine. Labels are terminal names; the three
// layout kinds (blanks, line ends, comments) carry the label "<skip>".
func buildEBNFReference(c *Ctx, rule string) (*mooreT, []docToken, map[string]bool) {
	toks := parseDocTokens(c)
	if len(toks) < 20 {
		c.Lost(rule, fmt.Sprintf("documented token table (found %d rows)", len(toks)))
		return nil, nil, nil
	}
	var defs []nodeDef
	delimited := map[string]bool{}
	add := func(label, re string) *rnode {
		n, err := parseRegex(re, asciiText)
		if err != nil {
			c.Undecided(rule, "documented token "+label, token.NoPos, err.Error())
			return nil
		}
		return n
	}
	// keywords and punctuation first (string definitions win over patterns)
	for _, t := range toks {
		if t.isStr {
			n := add(t.val, escapeRe(t.val))
			if n == nil {
				return nil, nil, nil
			}
			defs = append(defs, nodeDef{t.val, n})
		}
	}
	// comments take precedence over REGEX (docs/6-design.md: // and /* start comments)
	for _, re := range []string{`//[\t\x20-\x7E]*`, `/\*([^*]|\*+[^*/])*\*+/`} {
		n := add("<skip>", re)
		if n == nil {
			return nil, nil, nil
		}
		defs = append(defs, nodeDef{"<skip>", n})
	}
	for _, t := range toks {
		if t.isStr {
			continue
		}
		n := add(t.name, t.val)
		if n == nil {
			return nil, nil, nil
		}
		parts := catList(n)
		if len(parts) >= 2 && parts[0].kind == "set" && parts[len(parts)-1].kind == "set" &&
			parts[0].set.count() == 1 && parts[0].set.equal(parts[len(parts)-1].set) {
			delimited[t.name] = true
			if parts[0].set.has('/') {
				// a pattern literal must not begin like a comment
				rest := catNodes(parts[1:]...)
				n = &rnode{kind: "cat", kids: []*rnode{parts[0], firstRestrict(rest, rset{{'*', '*'}, {'/', '/'}})}}
			}
		}
		defs = append(defs, nodeDef{t.name, n})
	}
	for _, re := range []string{`[\t ]+`, `[\n\r]+`} {
		n := add("<skip>", re)
		defs = append(defs, nodeDef{"<skip>", n})
	}
	return buildMooreNodes(defs), toks, delimited
}

func runC05(c *Ctx) {
	c.Rule("R5.1", 3000, "transition/acceptance table equals the documented scanner (product exploration over all states x rune intervals)")
	c.Rule("R5.2", 20, "lexeme of every accepting state is the source text (delimiters removed exactly once for delimited tokens)")
	c.Rule("R5.3", 25, "every evaluation path consumes the lexeme exactly once and takes the token position from that call")
	c.Rule("R5.4", 8, "scan loop: advance until dead, retract once, evaluate the previous state, skip only layout tokens")
	c.Rule("R5.5", 1, "the reader's cursors, lexemes and positions (decided when the reader is module code)")

	p := c.Pkg("internal/ebnf/lexer")
	if p == nil {
		c.Lost("R5.1", "package internal/ebnf/lexer")
		return
	}
	s := findScanner(c, "R5.1", p)
	if s == nil {
		return
	}
	fn := c.SSAFunc(p, s.nextFn)
	if fn == nil {
		c.Lost("R5.4", "SSA of the scan loop")
		return
	}
	sl := analyseScanLoop(c, "R5.4", fn, p.TypesInfo.Defs[s.advFn.Name], p.TypesInfo.Defs[s.evalFn.Name], s.errorState)
	errSet, skipSet := map[string]bool{}, map[string]bool{}
	for _, t := range sl.errTerms {
		errSet[t] = true
	}
	for _, t := range sl.skipTerms {
		skipSet[t] = true
	}
	if !sl.ok {
		// which terminals are skipped, reported as errors or returned is not known: nothing that depends on it is decided
		c.Undecided("R5.1", "outcome of every accepting state against the documented token table", fn.Pos(), "the scan loop's treatment of the evaluated token (skip / error / token) was not understood, so the labels of the coded machine are unknown")
		return
	}
	c.Check("R5.4", "an error token becomes an error", fn.Pos(), len(sl.errTerms) >= 1, "no terminal is turned into an error by the scan loop")
	if s.defLeaf == nil || !s.defLeaf.termOK || !errSet[s.defLeaf.terminal] {
		c.Fail("R5.4", "non-accepting states evaluate to the error token", s.evalFn.Pos(), "the default leaf of the evaluation method does not produce a terminal that the scan loop turns into an error")
	} else {
		c.Pass("R5.4", "non-accepting states evaluate to the error token", s.evalFn.Pos(), "default leaf -> "+s.defLeaf.terminal)
	}

	// code machine labels
	code := s.m
	for st, lf := range s.stateLeaf {
		switch {
		case !lf.termOK:
			c.Undecided("R5.1", fmt.Sprintf("terminal of state %d", st), lf.pos, "terminal is not a constant")
		case errSet[lf.terminal]:
			code.label[st] = ""
		case skipSet[lf.terminal]:
			code.label[st] = "<skip>"
		default:
			code.label[st] = lf.terminal
		}
	}
	ref, toks, delimited := buildEBNFReference(c, "R5.1")
	if ref == nil {
		return
	}
	// skip set must be exactly layout: in the reference only "<skip>" states are skipped; a documented token that is
	// skipped (or a layout token returned) shows up as a label mismatch below.
	mism, product, pairs, folded := compareMoore(ref, code)
	c.Extra("states", s.nStates)
	c.Extra("transitions", pairs)
	c.Extra("product_states", product)
	c.Extra("reference_states", len(ref.trans))
	c.Extra("documented_tokens", len(toks))
	c.Extra("mismatches_folded", folded)
	c.Extra("exhaustive", true)
	short := code.shortestTo()
	for _, m := range mism {
		switch m.kind {
		case "label":
			want := m.ref
			if want == "" {
				want = "a lexical error"
			}
			got := m.code
			if got == "" {
				got = "a lexical error"
			}
			pos := s.evalFn.Pos()
			if lf := s.stateLeaf[m.codeSt]; lf != nil {
				pos = lf.pos
			}
			c.Fail("R5.1", fmt.Sprintf("scanner outcome after reading %q", m.word), pos,
				fmt.Sprintf("after reading %q the documented scanner yields %s but state %d yields %s", m.word, want, m.codeSt, got), fmt.Sprintf("%q", m.word))
		case "liveness":
			what := "can continue"
			if m.ref == "false" {
				what = "must stop"
			}
			pos := s.advFn.Pos()
			if t := code.step(m.codeSt, m.on); t >= 0 {
				if p, ok := s.transPos[[2]int{m.codeSt, t}]; ok {
					pos = p
				}
			}
			c.Fail("R5.1", fmt.Sprintf("scanner continuation after reading %q on %s", m.word, showRune(m.on)), pos,
				fmt.Sprintf("after reading %q, on %s the documented scanner %s but the coded transition function disagrees", m.word, showRune(m.on), what), fmt.Sprintf("%q", m.word+string(m.on)))
		}
	}
	// discharged obligations: one per explored (product state, interval) pair minus mismatches
	bad := len(mism) + folded
	for i := 0; i < pairs+product-bad; i++ {
		c.Obs = append(c.Obs, Ob{Rule: "R5.1", Key: fmt.Sprintf("pair#%d", i), OK: true})
	}
	for st := 0; st < len(code.trans) && st < 6; st++ {
		var parts []string
		var ts []int
		for t := range code.trans[st] {
			ts = append(ts, t)
		}
		sort.Ints(ts)
		for _, t := range ts {
			parts = append(parts, fmt.Sprintf("%s->%d", code.trans[st][t], t))
		}
		c.Sample("state %d [%s]: %s", st, code.label[st], strings.Join(parts, " "))
	}
	// unreachable coded states are dead code that could hide entries
	for st := range code.trans {
		if _, ok := short[st]; !ok && (len(code.trans[st]) > 0 || code.label[st] != "") {
			c.Fail("R5.1", fmt.Sprintf("scanner state %d reachable", st), s.advFn.Pos(), "state has transitions or a label but is unreachable from the start state")
		}
	}

	// the source text reaches the reader unmodified (positions and lexemes refer to the file)
	if ri := findReader(c, "R5.3"); ri != nil {
		checkSourceUnmodified(c, "R5.3", ri)
		if ri.kind == "mem" {
			// the reader is module code: its cursors, lexemes and positions are decided, not trusted
			checkMemReader(c, "R5.5", ri)
			checkMemReaderPositions(c, "R5.5", ri)
		} else {
			c.Pass("R5.5", "the reader is the dependency's Input (trusted, see assumptions)", token.NoPos, "")
		}
	}

	// R5.2 / R5.3 per accepting leaf
	for _, lf := range s.leaves {
		key := "default leaf"
		if !lf.infinite {
			key = fmt.Sprintf("states %v (%s)", lf.states, lf.terminal)
		}
		one := len(lf.consumes) == 1
		c.Check("R5.3", "consume exactly once: "+key, lf.pos, one, fmt.Sprintf("the path calls %v: the lexeme must be consumed exactly once (Skip or Lexeme)", lf.consumes))
		c.Check("R5.3", "position comes from the consume call: "+key, lf.pos, one && lf.posFrom == lf.consumes[0]+"#1",
			"the token's Pos does not derive from the position result of the single Skip/Lexeme call (the start of the lexeme)")
		if lf.infinite || !lf.termOK || errSet[lf.terminal] || skipSet[lf.terminal] {
			continue
		}
		for _, st := range lf.states {
			w, reach := short[st]
			if !reach {
				continue
			}
			k := fmt.Sprintf("lexeme of state %d (%s)", st, lf.terminal)
			switch lf.lexeme.kind {
			case "text":
				c.Check("R5.2", k, lf.pos, !delimited[lf.terminal], "a delimited token returns its text including the delimiters")
			case "const":
				u, ok := code.uniqueStringTo(st)
				c.Check("R5.2", k, lf.pos, ok && u == lf.lexeme.cval,
					fmt.Sprintf("the lexeme is the constant %q but the strings reaching the state are not exactly that (unique=%v %q)", lf.lexeme.cval, ok, u), fmt.Sprintf("%q", w))
			case "slice":
				minLen := len([]rune(w))
				want := 0
				if delimited[lf.terminal] {
					want = 1
				}
				c.Check("R5.2", k, lf.pos, lf.lexeme.a == want && lf.lexeme.b == want && minLen >= lf.lexeme.a+lf.lexeme.b,
					fmt.Sprintf("lexeme[%d:len-%d]: expected exactly %d delimiter(s) removed on each side; shortest lexeme has %d characters", lf.lexeme.a, lf.lexeme.b, want, minLen), fmt.Sprintf("%q", w))
			case "trim":
				if !delimited[lf.terminal] {
					c.Fail("R5.2", k, lf.pos, "a non-delimited token is trimmed")
					break
				}
				wit := trimWitness(code, st, lf.lexeme)
				c.Check("R5.2", k, lf.pos, wit == "",
					fmt.Sprintf("strings.%s(lexeme, %q) removes more than the delimiters for some lexeme", lf.lexeme.fn, lf.lexeme.cutset), fmt.Sprintf("%q", wit))
			default:
				c.Undecided("R5.2", k, lf.pos, "lexeme expression not understood: "+lf.lexeme.src)
			}
		}
	}
}

// trimWitness returns a lexeme reaching state q for which the Trim* call removes interior characters.
func trimWitness(d *mooreT, q int, l lexAbs) string {
	short := d.shortestTo()
	cut := runesToSet([]rune(l.cutset))
	left := l.fn == "Trim" || l.fn == "TrimLeft"
	right := l.fn == "Trim" || l.fn == "TrimRight"
	if l.fn == "TrimPrefix" || l.fn == "TrimSuffix" {
		// removes at most one occurrence of a fixed string: safe if it is one delimiter; but only one side is handled
		return short[q]
	}
	// predecessor edges into q
	for p := range d.trans {
		set, ok := d.trans[p][q]
		if !ok || set.empty() {
			continue
		}
		if _, reach := short[p]; !reach {
			continue
		}
		if right {
			// penultimate character: edges into p
			for pp := range d.trans {
				s2, ok := d.trans[pp][p]
				if !ok {
					continue
				}
				if _, reach := short[pp]; !reach || pp == 0 && false {
					continue
				}
				if x := intersect(s2, cut); !x.empty() && len([]rune(short[pp])) >= 1 {
					return short[pp] + string(x[0].lo) + string(set[0].lo)
				}
			}
		}
	}
	if left {
		// second character of some string reaching q
		for a := range d.trans[0] {
			for b, s2 := range d.trans[a] {
				if x := intersect(s2, cut); !x.empty() && canReach(d, b, q) {
					w := string(d.trans[0][a][0].lo) + string(x[0].lo)
					return w + pathFrom(d, b, q)
				}
			}
		}
	}
	return ""
}

func canReach(d *mooreT, from, to int) bool { return from == to || pathFrom(d, from, to) != "" || from == to }

func pathFrom(d *mooreT, from, to int) string {
	type item struct {
		s int
		w string
	}
	seen := map[int]bool{from: true}
	q := []item{{from, ""}}
	for len(q) > 0 {
		it := q[0]
		q = q[1:]
		if it.s == to && it.w != "" {
			return it.w
		}
		for t, set := range d.trans[it.s] {
			if set.empty() {
				continue
			}
			if t == to {
				return it.w + string(set[0].lo)
			}
			if !seen[t] {
				seen[t] = true
				q = append(q, item{t, it.w + string(set[0].lo)})
			}
		}
	}
	return ""
}
