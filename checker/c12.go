package main

import (
	"golang.org/x/tools/go/ssa"
	"fmt"
	"go/ast"
	"go/token"
	"go/types"
	"sort"
	"strings"
)

func init() {
	register(&property{id: "C12", run: runC12, meta: propMeta{
		level: "other",
		explanation: "AST/type rules on the directive actions of spec.Parse, keyed by the shape of the production each case is indexed by: the associativity constant matches the directive keyword; the handles list of `handles → handles X` is the left operand's list with exactly the right operand's handles appended, base cases build from their only operand; the whole list reaches lr.NewPrecedenceHandles and the level is registered exactly once; terminal handles take the address of a per-action variable; AddPrecedence appends and Precedences returns the list untouched (no sort/reverse); every production placed in a rule's handle list is the very object registered with AddProduction in the same iteration. Set semantics of handles inside the dependency are trusted.",
		trusted: []string{"lr.NewPrecedenceHandles builds a set of exactly its arguments", "the driver hands each action exactly its body's values (C18)"},
		assumptions: []string{"directive order = reduction order of `decls → decls decl`, which is source order by the LR(1) tables (C04)"},
	}})
}

func runC12(c *Ctx) {
	c.Rule("R12.1", 3, "associativity constant matches the directive keyword")
	c.Rule("R12.2", 10, "handles are complete, in order, without aliasing")
	c.Rule("R12.3", 3, "levels are recorded in source order: append only, returned untouched")
	c.Rule("R12.5", 1, "a rule handle finds the synthesised non-terminals of its rule: the memo's hash agrees with its equality")
	c.Rule("R12.4", 4, "handle productions are the grammar's own production objects")

	c.Rule("R12.6", 1, "the levels handed out with the result are the recorded levels themselves")
	checkLevelsHandedOutAsRecorded(c, "R12.6")
	c.mute = map[string]bool{"R4.2": true}
	g := extractEBNF(c, "R12.1")
	if g == nil {
		return
	}
	sp := c.Pkg("internal/ebnf/parser/spec")
	ev := findEvaluator(c, "R12.1", sp, g)
	if ev == nil {
		return
	}
	checkAssocConstants(c, ev, "R12.1")
	checkMemoHashEq(c, "R12.5", sp)
	info := sp.TypesInfo

	var idxs []int
	for i := range ev.cases {
		idxs = append(idxs, i)
	}
	sort.Ints(idxs)
	isAppend := func(e ast.Expr) (*ast.CallExpr, bool) {
		call, ok := ast.Unparen(e).(*ast.CallExpr)
		if !ok {
			return nil, false
		}
		id, ok := call.Fun.(*ast.Ident)
		return call, ok && id.Name == "append" && info.Uses[id] == types.Universe.Lookup("append")
	}
	returned := func(cs *evalCase) []ast.Expr {
		var out []ast.Expr
		for _, r := range returnsOf(cs.clause.Body) {
			if len(r.Results) == 2 && isNilExpr(info, r.Results[1]) {
				out = append(out, r.Results[0])
			}
		}
		return out
	}
	for _, i := range idxs {
		cs := ev.cases[i]
		origins := ev.varOrigins(cs)
		key := fmt.Sprintf("case %d (%s)", i, cs.prod)
		switch {
		// ---- handles → handles X  /  handles → X
		case cs.prod.head == "handles":
			rets := returned(cs)
			if len(rets) != 1 {
				c.Undecided("R12.2", key, cs.clause.Pos(), "not exactly one successful return")
				continue
			}
			recursive := len(cs.prod.body) == 2 && !cs.prod.body[0].term && cs.prod.body[0].name == "handles"
			operand := len(cs.prod.body) - 1 // index of X
			rid, isIdent := ast.Unparen(rets[0]).(*ast.Ident)
			if !isIdent {
				c.Undecided("R12.2", key, rets[0].Pos(), "the returned list is not a variable")
				continue
			}
			robj := info.Uses[rid]
			// all assignments to the returned variable
			baseOK, appendsOK, nApp := !recursive, true, 0
			var appended []ast.Expr
			for _, st := range cs.clause.Body {
				ast.Inspect(st, func(n ast.Node) bool {
					as, ok := n.(*ast.AssignStmt)
					if !ok || len(as.Lhs) != 1 || len(as.Rhs) != 1 {
						return true
					}
					lid, ok := as.Lhs[0].(*ast.Ident)
					if !ok {
						return true
					}
					lobj := info.Defs[lid]
					if lobj == nil {
						lobj = info.Uses[lid]
					}
					if lobj != robj {
						return true
					}
					if call, ok := isAppend(as.Rhs[0]); ok {
						if aid, ok := ast.Unparen(call.Args[0]).(*ast.Ident); !ok || info.Uses[aid] != robj || call.Ellipsis.IsValid() {
							appendsOK = false
						}
						nApp++
						appended = append(appended, call.Args[1:]...)
						return true
					}
					// initialisation
					refs := ev.rhsRefs(as.Rhs[0], origins)
					if recursive {
						if k, ok := ev.rhsVal(ast.Unparen(stripAssert(as.Rhs[0]))); ok && k == 0 {
							baseOK = true
						} else {
							appendsOK = false
						}
					} else if cl, ok := ast.Unparen(as.Rhs[0]).(*ast.CompositeLit); ok {
						// literal list: its elements are the appended handles
						for _, el := range cl.Elts {
							appended = append(appended, el)
						}
						nApp++
						_ = refs
					}
					return true
				})
			}
			if !recursive {
				// `var handles []T` followed by appends, or a literal
				baseOK = true
			}
			c.Check("R12.2", key+": the list starts as the left operand's list", cs.clause.Pos(), baseOK, "the result is not initialised from rhs[0].Val: handles listed earlier in the directive are lost")
			c.Check("R12.2", key+": the list is only extended by append", cs.clause.Pos(), appendsOK && nApp >= 1, "the list is rebuilt or nothing is appended")
			// every appended handle derives from the operand and is a fresh handle
			for _, a := range appended {
				refs := ev.rhsRefs(a, origins)
				okRef := len(refs) == 1 && refs[0] == operand
				c.Check("R12.2", key+": each appended handle comes from operand "+cs.prod.body[operand].String(), a.Pos(), okRef,
					fmt.Sprintf("an appended handle derives from body positions %v, expected %d", refs, operand))
				checkHandleLiteral(c, ev, cs, a, key)
			}
			// loops must range over the operand's own list
			for _, st := range cs.clause.Body {
				ast.Inspect(st, func(n ast.Node) bool {
					rs, ok := n.(*ast.RangeStmt)
					if !ok {
						return true
					}
					refs := ev.rhsRefs(rs.X, origins)
					c.Check("R12.2", key+": the loop visits every production of the rule handle", rs.Pos(), len(refs) == 1 && refs[0] == operand && rs.Key != nil,
						"the loop does not range over the complete list carried by the rule handle")
					return true
				})
			}
		// ---- directive → KW handles
		case cs.prod.head == "directive":
			var hv types.Object
			newHandles, addPrec := 0, 0
			var levelVar types.Object
			for _, st := range cs.clause.Body {
				ast.Inspect(st, func(n ast.Node) bool {
					switch s := n.(type) {
					case *ast.AssignStmt:
						if len(s.Lhs) == 1 && len(s.Rhs) == 1 {
							if k, ok := ev.rhsVal(stripAssert(s.Rhs[0])); ok && k == 1 {
								if id, ok := s.Lhs[0].(*ast.Ident); ok {
									hv = info.Defs[id]
								}
							}
							if u, ok := ast.Unparen(s.Rhs[0]).(*ast.UnaryExpr); ok && u.Op == token.AND {
								if _, n := namedTypeName(info.TypeOf(u.X)); n == "PrecedenceLevel" {
									if id, ok := s.Lhs[0].(*ast.Ident); ok {
										levelVar = info.Defs[id]
									}
								}
							}
						}
					case *ast.CallExpr:
						if fo, ok := objOf(info, s.Fun).(*types.Func); ok {
							switch fo.Name() {
							case "NewPrecedenceHandles":
								if len(s.Args) == 1 && s.Ellipsis.IsValid() {
									if id, ok := ast.Unparen(s.Args[0]).(*ast.Ident); ok && hv != nil && info.Uses[id] == hv {
										newHandles++
									} else if k, ok := ev.rhsVal(stripAssert(s.Args[0])); ok && k == 1 {
										newHandles++ // the list taken from the stack is passed on directly
									}
								}
							case "AddPrecedence":
								if len(s.Args) == 1 {
									if id, ok := ast.Unparen(s.Args[0]).(*ast.Ident); ok && levelVar != nil && info.Uses[id] == levelVar {
										addPrec++
									}
								}
							}
						}
					}
					return true
				})
			}
			// when the direct shape is not there, the same two calls may sit in helpers of the package: count them deep; what is
			// passed to them through the helpers' parameters is then not followed (undecided), but their absence is definite
			deepNew, deepAdd := 0, 0
			for _, st := range cs.clause.Body {
				deepInspectNode(ev.pkg, st, 3, func(n ast.Node) bool {
					if call, ok := n.(*ast.CallExpr); ok {
						if fo, ok := objOf(info, call.Fun).(*types.Func); ok {
							switch fo.Name() {
							case "NewPrecedenceHandles":
								deepNew++
							case "AddPrecedence":
								deepAdd++
							}
						}
					}
					return true
				})
			}
			switch {
			case newHandles == 1:
				c.Pass("R12.2", key+": the whole handles list becomes the level's handle set", cs.clause.Pos(), "")
			case deepNew == 1 && newHandles == 0:
				c.Undecided("R12.2", key+": the whole handles list becomes the level's handle set", cs.clause.Pos(), "lr.NewPrecedenceHandles is called in a helper; what reaches it is not followed")
			default:
				c.Fail("R12.2", key+": the whole handles list becomes the level's handle set", cs.clause.Pos(), fmt.Sprintf("lr.NewPrecedenceHandles is called %d times with the complete list rhs[1].Val... (%d calls in all)", newHandles, deepNew))
			}
			switch {
			case addPrec == 1:
				c.Pass("R12.3", key+": the level is registered exactly once", cs.clause.Pos(), "")
			case deepAdd == 1 && addPrec == 0:
				c.Undecided("R12.3", key+": the level is registered exactly once", cs.clause.Pos(), "AddPrecedence is called in a helper (or with a value this rule does not follow)")
			default:
				c.Fail("R12.3", key+": the level is registered exactly once", cs.clause.Pos(), fmt.Sprintf("AddPrecedence is called %d times with the level built here (%d calls in all)", addPrec, deepAdd))
			}
		// ---- rule → lhs "=" rhs | lhs "="
		case cs.prod.head == "rule":
			checkRuleCase(c, ev, cs, key)
		// ---- rule_handle → "<" rule ">"
		case cs.prod.head == "rule_handle":
			rets := returned(cs)
			okPass := len(rets) == 1
			if okPass {
				k, ok := ev.rhsVal(rets[0])
				okPass = ok && k < len(cs.prod.body) && !cs.prod.body[k].term && cs.prod.body[k].name == "rule"
			}
			c.Check("R12.4", key+": passes the rule's productions through", cs.clause.Pos(), okPass, "the rule handle does not carry exactly the productions of its rule")
		}
	}

	// R12.3 on the symbol table
	checkPrecedenceStore(c)
}

func stripAssert(e ast.Expr) ast.Expr {
	if ta, ok := ast.Unparen(e).(*ast.TypeAssertExpr); ok {
		return ta.X
	}
	return e
}

// checkHandleLiteral: &lr.PrecedenceHandle{Terminal: &local} / {Production: p}: exactly one of the two, no aliasing of shared variables.
func checkHandleLiteral(c *Ctx, ev *evaluator, cs *evalCase, e ast.Expr, key string) {
	info := ev.pkg.TypesInfo
	x := ast.Unparen(e)
	if u, ok := x.(*ast.UnaryExpr); ok && u.Op == token.AND {
		x = u.X
	}
	cl, ok := x.(*ast.CompositeLit)
	if !ok {
		// built by a constructor: its every return must be a handle of one fixed kind made from its parameter
		if call, isCall := x.(*ast.CallExpr); isCall {
			kind := "unknown callee"
			if fo, ok := objOf(info, call.Fun).(*types.Func); ok {
				kind = handleCtorKind(c, fo)
			}
			c.Check("R12.2", key+": a handle built by a constructor is always the kind of handle that was written", e.Pos(), kind == "production" || kind == "terminal",
				"the handle is built by "+types.ExprString(call.Fun)+", which yields "+kind+": a rule handle whose production contains a terminal is recorded as that terminal instead of the rule",
				"@right <expr = \"-\" expr>")
		} else {
			c.Undecided("R12.2", key+": handle expression", e.Pos(), "neither a handle literal nor a constructor call: "+types.ExprString(x))
		}
		return
	}
	fs, err := compositeFields(cl)
	if err != nil {
		return
	}
	_, hasT := fs["Terminal"]
	_, hasP := fs["Production"]
	c.Check("R12.2", key+": a handle is a terminal or a production, not both", cl.Pos(), hasT != hasP, "the handle literal sets both or neither of Terminal/Production")
	if hasT {
		u, ok := ast.Unparen(fs["Terminal"]).(*ast.UnaryExpr)
		okLocal := false
		if ok && u.Op == token.AND {
			if id, ok := u.X.(*ast.Ident); ok {
				o := info.Uses[id]
				// declared inside this case clause and not a loop variable
				if o != nil && o.Pos() >= cs.clause.Pos() && o.Pos() <= cs.clause.End() {
					okLocal = true
					for _, st := range cs.clause.Body {
						ast.Inspect(st, func(n ast.Node) bool {
							if rs, ok := n.(*ast.RangeStmt); ok {
								for _, kv := range []ast.Expr{rs.Key, rs.Value} {
									if kid, ok := kv.(*ast.Ident); ok && info.Defs[kid] == o {
										okLocal = false
									}
								}
							}
							return true
						})
					}
				}
			}
		}
		c.Check("R12.2", key+": a terminal handle points at a per-action copy", cl.Pos(), okLocal, "the address taken for the terminal handle is not that of a variable local to this action: handles of different directives would alias")
	}
}

func checkRuleCase(c *Ctx, ev *evaluator, cs *evalCase, key string) {
	info := ev.pkg.TypesInfo
	origins := ev.varOrigins(cs)
	// productions registered with AddProduction (first argument objects) per block, and those placed into the returned list
	registered := map[types.Object]bool{}
	var placed []types.Object
	var placedPos []token.Pos
	var prodLits []*ast.CompositeLit
	for _, st := range cs.clause.Body {
		ast.Inspect(st, func(n ast.Node) bool {
			switch s := n.(type) {
			case *ast.CallExpr:
				if fo, ok := objOf(info, s.Fun).(*types.Func); ok && fo.Name() == "AddProduction" && len(s.Args) >= 1 {
					if id, ok := ast.Unparen(s.Args[0]).(*ast.Ident); ok {
						registered[info.Uses[id]] = true
					}
				}
				if id, ok := s.Fun.(*ast.Ident); ok && id.Name == "append" {
					for _, a := range s.Args[1:] {
						if aid, ok := ast.Unparen(a).(*ast.Ident); ok {
							placed = append(placed, info.Uses[aid])
							placedPos = append(placedPos, a.Pos())
						} else {
							placed = append(placed, nil)
							placedPos = append(placedPos, a.Pos())
						}
					}
				}
			case *ast.CompositeLit:
				if _, n := namedTypeName(info.TypeOf(s)); n == "Production" {
					prodLits = append(prodLits, s)
				}
				// []*grammar.Production{p}
				if sl, ok := info.TypeOf(s).Underlying().(*types.Slice); ok {
					if pt, ok := sl.Elem().(*types.Pointer); ok {
						if _, n := namedTypeName(pt.Elem()); n == "Production" {
							for _, el := range s.Elts {
								if aid, ok := ast.Unparen(el).(*ast.Ident); ok {
									placed = append(placed, info.Uses[aid])
								} else {
									placed = append(placed, nil)
								}
								placedPos = append(placedPos, el.Pos())
							}
						}
					}
				}
			}
			return true
		})
	}
	for i, o := range placed {
		c.Check("R12.4", key+": a production in the handle list is the object registered with AddProduction", placedPos[i], o != nil && registered[o],
			"the production carried to a `< >` handle is not the one added to the grammar: the precedence would refer to a production the grammar does not contain")
	}
	if len(placed) == 0 {
		// the work may have moved into a function of the package that the clause calls: then this rule says nothing here
		viaHelper := ""
		for _, st := range cs.clause.Body {
			ast.Inspect(st, func(n ast.Node) bool {
				if call, ok := n.(*ast.CallExpr); ok {
					if fo, ok := objOf(info, call.Fun).(*types.Func); ok && fo.Pkg() == ev.pkg.Types && fo.Name() != "AddProduction" {
						if sig, ok := fo.Type().(*types.Signature); ok && sig.Results().Len() >= 1 {
							viaHelper = fo.Name()
						}
					}
				}
				return true
			})
		}
		if viaHelper != "" {
			c.Undecided("R12.4", key+": the rule contributes productions to its handle list", cs.clause.Pos(), "the clause hands the work to "+viaHelper+", which this rule does not look into")
			return
		}
	}
	c.Check("R12.4", key+": the rule contributes productions to its handle list", cs.clause.Pos(), len(placed) >= 1, "nothing is placed in the returned production list")
	// every registered production is placed, unconditionally: registration and placement are sibling statements
	var walkBlocks func(list []ast.Stmt)
	walkBlocks = func(list []ast.Stmt) {
		regHere := map[types.Object]token.Pos{}
		placedHere := map[types.Object]bool{}
		regIn := func(n ast.Node) {
			if n == nil {
				return
			}
			ast.Inspect(n, func(n ast.Node) bool {
				switch n.(type) {
				case *ast.BlockStmt, *ast.FuncLit:
					return false
				}
				if call, ok := n.(*ast.CallExpr); ok {
					if fo, ok := objOf(info, call.Fun).(*types.Func); ok && fo.Name() == "AddProduction" && len(call.Args) >= 1 {
						if id, ok := ast.Unparen(call.Args[0]).(*ast.Ident); ok {
							regHere[info.Uses[id]] = call.Pos()
						}
					}
				}
				return true
			})
		}
		for _, st := range list {
			switch s := st.(type) {
			case *ast.ExprStmt:
				regIn(s.X)
			case *ast.IfStmt:
				// a registration in the condition: whatever the body places is placed for some outcomes only
				if s.Init != nil {
					regIn(s.Init)
				}
				regIn(s.Cond)
			case *ast.SwitchStmt:
				if s.Init != nil {
					regIn(s.Init)
				}
				if s.Tag != nil {
					regIn(s.Tag)
				}
			case *ast.AssignStmt:
				for _, r := range s.Rhs {
					if call, ok := ast.Unparen(r).(*ast.CallExpr); ok {
						if fo, ok := objOf(info, call.Fun).(*types.Func); ok && fo.Name() == "AddProduction" {
							regIn(r)
						}
					}
				}
				for _, r := range s.Rhs {
					ast.Inspect(r, func(n ast.Node) bool {
						if id, ok := n.(*ast.Ident); ok {
							if o := info.Uses[id]; o != nil {
								placedHere[o] = true
							}
						}
						return true
					})
				}
			}
		}
		for o, pos := range regHere {
			c.Check("R12.4", key+": each production added to the grammar is also carried to the handle list", pos, placedHere[o],
				"a production registered with AddProduction is not (unconditionally) placed in the rule's production list: a `< >` handle written with alternation misses some of its productions", "@left <e = e \"+\" e | e \"-\" e>")
		}
		for _, st := range list {
			ast.Inspect(st, func(n ast.Node) bool {
				if b, ok := n.(*ast.BlockStmt); ok {
					walkBlocks(b.List)
					return false
				}
				return true
			})
		}
	}
	walkBlocks(cs.clause.Body)
	// head/body of the production literals
	for _, cl := range prodLits {
		fs, _ := compositeFields(cl)
		hrefs := ev.rhsRefs(fs["Head"], origins)
		c.Check("R12.4", key+": the production's head is the rule's left-hand side", cl.Pos(), len(hrefs) == 1 && hrefs[0] == 0, fmt.Sprintf("Head derives from body positions %v", hrefs))
		if len(cs.prod.body) == 3 {
			brefs := ev.rhsRefs(fs["Body"], origins)
			// body is the loop variable of a range over rhs[2]'s strings
			okBody := false
			if id, ok := ast.Unparen(fs["Body"]).(*ast.Ident); ok {
				for _, st := range cs.clause.Body {
					ast.Inspect(st, func(n ast.Node) bool {
						if rs, ok := n.(*ast.RangeStmt); ok {
							if vid, ok := rs.Value.(*ast.Ident); ok && info.Defs[vid] == info.Uses[id] {
								r := ev.rhsRefs(rs.X, origins)
								okBody = len(r) == 1 && r[0] == 2
							}
						}
						return true
					})
				}
			}
			_ = brefs
			c.Check("R12.4", key+": one production per alternative of the right-hand side", cl.Pos(), okBody, "the production body is not each alternative of rhs[2] in turn")
		} else {
			o := objOf(info, fs["Body"])
			c.Check("R12.4", key+": an empty right-hand side yields the ε-production", cl.Pos(), isDepObj(o, "grammar", "E"), "Body is not grammar.E")
		}
	}
}

func checkPrecedenceStore(c *Ctx) {
	sp := c.Pkg("internal/ebnf/parser/spec")
	info := sp.TypesInfo
	add := FuncDecl(sp, "SymbolTable", "AddPrecedence")
	get := FuncDecl(sp, "SymbolTable", "Precedences")
	if add == nil || get == nil {
		c.Lost("R12.3", "SymbolTable.AddPrecedence / Precedences")
		return
	}
	c.Analysed(funcKey(sp, add))
	c.Analysed(funcKey(sp, get))
	// AddPrecedence: X = append(X, p) with p the parameter; no other assignment
	param := info.Defs[add.Type.Params.List[0].Names[0]]
	okApp, n := false, 0
	var listExpr string
	ast.Inspect(add.Body, func(nd ast.Node) bool {
		as, ok := nd.(*ast.AssignStmt)
		if !ok {
			return true
		}
		n++
		if len(as.Lhs) == 1 && len(as.Rhs) == 1 {
			if call, ok := ast.Unparen(as.Rhs[0]).(*ast.CallExpr); ok && len(call.Args) == 2 && !call.Ellipsis.IsValid() {
				if id, ok := call.Fun.(*ast.Ident); ok && id.Name == "append" &&
					types.ExprString(call.Args[0]) == types.ExprString(as.Lhs[0]) {
					if pid, ok := ast.Unparen(call.Args[1]).(*ast.Ident); ok && info.Uses[pid] == param {
						okApp = true
						listExpr = types.ExprString(as.Lhs[0])
					}
				}
			}
		}
		return true
	})
	c.Check("R12.3", "AddPrecedence appends the level at the end of the list", add.Pos(), okApp && n == 1, "the level is not appended (prepend/insert/overwrite changes which directive binds tighter)")
	// ... on every path: a level that is left out under some condition (it looks like one recorded before) never reaches the
	// verifier that reports a handle listed in two levels, and the recorded list is no longer the directives as written
	if fn := c.SSAFunc(sp, add); fn != nil && okApp {
		var appBlocks []*ssa.BasicBlock
		for _, b := range fn.Blocks {
			for _, in := range b.Instrs {
				if call, ok := in.(*ssa.Call); ok {
					if bi, ok := call.Call.Value.(*ssa.Builtin); ok && bi.Name() == "append" {
						appBlocks = append(appBlocks, b)
					}
				}
			}
		}
		skipped := token.NoPos
		for _, b := range fn.Blocks {
			ret, ok := b.Instrs[len(b.Instrs)-1].(*ssa.Return)
			if !ok {
				continue
			}
			through := false
			for _, ab := range appBlocks {
				if ab == b || ab.Dominates(b) {
					through = true
				}
			}
			if !through {
				skipped = ret.Pos()
			}
		}
		c.Check("R12.3", "AddPrecedence records the level on every path", add.Pos(), len(appBlocks) >= 1 && skipped == token.NoPos,
			"a return of AddPrecedence ("+c.rel(skipped)+") is reached without appending the level: a directive that looks like an earlier one is dropped, so a handle written in two levels is accepted and the recorded levels are not the directives in order",
			"@left \"+\"  written twice")
	}
	// Precedences: returns the same list expression; no sort / reverse calls in either
	okRet := false
	ast.Inspect(get.Body, func(nd ast.Node) bool {
		if r, ok := nd.(*ast.ReturnStmt); ok && len(r.Results) == 1 && types.ExprString(r.Results[0]) == listExpr {
			okRet = true
		}
		return true
	})
	c.Check("R12.3", "Precedences returns the recorded list itself", get.Pos(), okRet, "the returned value is not the list AddPrecedence appends to")
	reorder := false
	for _, fd := range []*ast.FuncDecl{add, get} {
		ast.Inspect(fd.Body, func(nd ast.Node) bool {
			if call, ok := nd.(*ast.CallExpr); ok {
				if fo, ok := objOf(info, call.Fun).(*types.Func); ok && fo.Pkg() != nil {
					q := fo.Pkg().Path() + "." + fo.Name()
					if sortFuncs[q] || fo.Name() == "Reverse" {
						reorder = true
					}
				}
			}
			return true
		})
	}
	c.Check("R12.3", "the list is never sorted or reversed", add.Pos(), !reorder, "a sort/reverse call reorders the precedence levels")
}


// handleCtorKind summarises a function returning *lr.PrecedenceHandle: "production" if every return is a literal with only
// Production set, "terminal" if only Terminal, otherwise a description of the mixture.
func handleCtorKind(c *Ctx, fo *types.Func) string {
	if fo.Pkg() == nil {
		return "a function without source"
	}
	p := c.All[fo.Pkg().Path()]
	if p == nil {
		return "a function without source"
	}
	var fd *ast.FuncDecl
	AllFuncDecls(p, func(f *ast.FuncDecl) {
		if p.TypesInfo.Defs[f.Name] == types.Object(fo) {
			fd = f
		}
	})
	if fd == nil || fd.Body == nil {
		return "a function without source"
	}
	kinds := map[string]bool{}
	ast.Inspect(fd.Body, func(n ast.Node) bool {
		if _, ok := n.(*ast.FuncLit); ok {
			return false
		}
		r, ok := n.(*ast.ReturnStmt)
		if !ok || len(r.Results) != 1 {
			return true
		}
		x := ast.Unparen(r.Results[0])
		if u, ok := x.(*ast.UnaryExpr); ok {
			x = u.X
		}
		cl, ok := x.(*ast.CompositeLit)
		if !ok {
			kinds["?"] = true
			return true
		}
		fs, _ := compositeFields(cl)
		_, t := fs["Terminal"]
		_, pr := fs["Production"]
		switch {
		case t && !pr:
			kinds["terminal"] = true
		case pr && !t:
			kinds["production"] = true
		default:
			kinds["?"] = true
		}
		return true
	})
	if len(kinds) == 1 {
		for k := range kinds {
			if k != "?" {
				return k
			}
		}
	}
	var ks []string
	for k := range kinds {
		ks = append(ks, k)
	}
	sort.Strings(ks)
	return "sometimes a " + strings.Join(ks, " and sometimes a ") + " handle"
}


// checkLevelsHandedOutAsRecorded (R12.6): the Precedences field of the *Spec that spec.Parse returns is what the symbol table's
// accessor of the recorded levels returned (directly, or through a local), not a function of it: a post-pass over the finished
// levels (dropping handles no rule mentions, merging levels) makes the result differ from the directives.
func checkLevelsHandedOutAsRecorded(c *Ctx, rule string) {
	sp := c.Pkg("internal/ebnf/parser/spec")
	if sp == nil {
		return
	}
	info := sp.TypesInfo
	isAccessor := func(e ast.Expr) bool {
		call, ok := ast.Unparen(e).(*ast.CallExpr)
		if !ok || len(call.Args) != 0 {
			return false
		}
		fo, ok := objOf(info, call.Fun).(*types.Func)
		if !ok || fo.Pkg() != sp.Types {
			return false
		}
		sig := fo.Type().(*types.Signature)
		return sig.Recv() != nil && sig.Results().Len() == 1 && typeIs(sig.Results().At(0).Type(), "parser/lr", "PrecedenceLevels")
	}
	found := 0
	AllFuncDecls(sp, func(fd *ast.FuncDecl) {
		if fd.Body == nil {
			return
		}
		// locals defined by the accessor
		fromAccessor := map[types.Object]bool{}
		ast.Inspect(fd.Body, func(n ast.Node) bool {
			if as, ok := n.(*ast.AssignStmt); ok && len(as.Lhs) == 1 && len(as.Rhs) == 1 && isAccessor(as.Rhs[0]) {
				if id, ok := as.Lhs[0].(*ast.Ident); ok {
					if o := info.Defs[id]; o != nil {
						fromAccessor[o] = true
					} else if o := info.Uses[id]; o != nil {
						fromAccessor[o] = true
					}
				}
			}
			return true
		})
		ast.Inspect(fd.Body, func(n ast.Node) bool {
			cl, ok := n.(*ast.CompositeLit)
			if !ok {
				return true
			}
			if _, name := namedTypeName(info.TypeOf(cl)); name != "Spec" {
				return true
			}
			fs, _ := compositeFields(cl)
			v, ok := fs["Precedences"]
			if !ok {
				return true
			}
			found++
			key := funcKey(sp, fd) + ": the result's precedence levels are the recorded ones"
			switch x := ast.Unparen(v).(type) {
			case *ast.Ident:
				if fromAccessor[info.Uses[x]] {
					c.Pass(rule, key, v.Pos(), "")
					return true
				}
			case *ast.CallExpr:
				if isAccessor(x) {
					c.Pass(rule, key, v.Pos(), "")
					return true
				}
				if fo, ok := objOf(info, x.Fun).(*types.Func); ok && fo.Pkg() == sp.Types {
					c.Fail(rule, key, v.Pos(), "the levels pass through "+fo.Name()+"(…) before they are handed out: what the caller gets is a function of the recorded directives, not the directives",
						`a directive that lists a terminal no rule mentions: @left "*" "/" "%" with no rule using "%"`)
					return true
				}
			}
			c.Undecided(rule, key, v.Pos(), "the value of the Precedences field was not traced to the accessor of the recorded levels")
			return true
		})
	})
	if found == 0 {
		c.Undecided(rule, "the result's precedence levels are the recorded ones", token.NoPos, "no Spec literal with a Precedences field was found")
	}
}
