package main

// The reader of the built-in scanner: how lexer.New builds it, and, when it is module code (an in-memory reader), the
// rules that its pointer and position bookkeeping must obey. Shared by C05 (positions, lexemes), C13 (no buffer
// boundaries, plumbing), C14 (slice bounds through the pointer invariant) and C20 (file name).

import (
	"os"
	"fmt"
	"go/ast"
	"go/token"
	"go/types"
	"sort"
	"strings"

	"golang.org/x/tools/go/packages"
	"golang.org/x/tools/go/ssa"
)

type readerInfo struct {
	pkg     *packages.Package
	newFn   *ast.FuncDecl // lexer.New
	newSSA  *ssa.Function
	ctorAST *ast.CallExpr // the call in lexer.New that builds the reader
	ctor    *ssa.Call
	kind    string       // "dep": the dependency's two-buffer input.New; "mem": a module type reading a text in memory
	typ     *types.Named // the reader type (mem)
	ctorFn  *ssa.Function
}

func hasReaderMethods(T types.Type) bool {
	ms := types.NewMethodSet(T)
	n := 0
	for i := 0; i < ms.Len(); i++ {
		switch ms.At(i).Obj().Name() {
		case "Next", "Retract", "Lexeme", "Skip":
			n++
		}
	}
	return n == 4
}

// findReader resolves the reader constructor call in the scanner package's New.
func findReader(c *Ctx, rule string) *readerInfo {
	lp := c.Pkg("internal/ebnf/lexer")
	if lp == nil {
		c.Lost(rule, "package internal/ebnf/lexer")
		return nil
	}
	newFn := FuncDecl(lp, "", "New")
	if newFn == nil {
		c.Lost(rule, "lexer.New")
		return nil
	}
	ri := &readerInfo{pkg: lp, newFn: newFn, newSSA: c.SSAFunc(lp, newFn)}
	if ri.newSSA == nil {
		c.Lost(rule, "SSA of lexer.New")
		return nil
	}
	info := lp.TypesInfo
	ast.Inspect(newFn.Body, func(n ast.Node) bool {
		call, ok := n.(*ast.CallExpr)
		if !ok || len(call.Args) < 2 {
			return true
		}
		fo, _ := objOf(info, call.Fun).(*types.Func)
		if fo == nil {
			return true
		}
		res := fo.Type().(*types.Signature).Results()
		if res.Len() < 1 || !hasReaderMethods(res.At(0).Type()) {
			return true
		}
		ri.ctorAST = call
		return true
	})
	if ri.ctorAST == nil {
		c.Lost(rule, "the call in lexer.New that builds the reader (a value with Next, Retract, Lexeme and Skip)")
		return nil
	}
	allCalls(ri.newSSA, func(ci ssa.CallInstruction) {
		if cv, ok := ci.(*ssa.Call); ok && cv.Pos() == ri.ctorAST.Lparen {
			ri.ctor = cv
		}
	})
	if ri.ctor == nil {
		c.Lost(rule, "SSA of the reader constructor call")
		return nil
	}
	callee := ri.ctor.Call.StaticCallee()
	switch {
	case callee != nil && fnPkgPath(callee) == depPath+"/lexer/input":
		ri.kind = "dep"
	case callee != nil && strings.HasPrefix(fnPkgPath(callee), modPath):
		ri.kind = "mem"
		ri.ctorFn = callee
		T := callee.Signature.Results().At(0).Type()
		if pt, ok := T.(*types.Pointer); ok {
			T = pt.Elem()
		}
		ri.typ, _ = T.(*types.Named)
		if ri.typ == nil {
			c.Lost(rule, "the module reader type")
			return nil
		}
		// a loader in front of the real constructor (read the source, then build the reader): the function that allocates the
		// reader is the constructor
		for depth := 0; depth < 3; depth++ {
			allocs := false
			for _, b := range ri.ctorFn.Blocks {
				for _, in := range b.Instrs {
					if a, ok := in.(*ssa.Alloc); ok {
						if pt, ok := a.Type().(*types.Pointer); ok && types.Identical(pt.Elem(), types.Type(ri.typ)) {
							allocs = true
						}
					}
				}
			}
			if allocs {
				break
			}
			var inner *ssa.Function
			allCalls(ri.ctorFn, func(ci ssa.CallInstruction) {
				g := ci.Common().StaticCallee()
				if g == nil || g.Pkg != ri.ctorFn.Pkg || g == ri.ctorFn || g.Signature.Results().Len() < 1 {
					return
				}
				if types.Identical(g.Signature.Results().At(0).Type(), ri.ctorFn.Signature.Results().At(0).Type()) {
					inner = g
				}
			})
			if inner == nil {
				break
			}
			ri.ctorFn = inner
		}
	default:
		c.Lost(rule, "a known kind of reader constructor")
		return nil
	}
	return ri
}

func (ri *readerInfo) method(c *Ctx, name string) *ssa.Function {
	prog := ri.newSSA.Prog
	for _, T := range []types.Type{types.NewPointer(ri.typ), ri.typ} {
		if sel := prog.MethodSets.MethodSet(T).Lookup(ri.pkg.Types, name); sel != nil {
			return prog.MethodValue(sel)
		}
	}
	return nil
}

func (ri *readerInfo) fieldIndex(name string) int {
	st, _ := ri.typ.Underlying().(*types.Struct)
	if st == nil {
		return -1
	}
	for i := 0; i < st.NumFields(); i++ {
		if st.Field(i).Name() == name {
			return i
		}
	}
	return -1
}

// memReaderRoles infers the roles of the reader's fields from how the methods use them: the text (the only []byte field),
// the two cursors (the int fields used as slice bounds of the text: low bound = lexemeBegin, high bound/Next's low = forward).
type memRoles struct {
	text, begin, forward, filename int
}

func (ri *readerInfo) roles() (memRoles, string) {
	r := memRoles{-1, -1, -1, -1}
	st := ri.typ.Underlying().(*types.Struct)
	for i := 0; i < st.NumFields(); i++ {
		switch t := st.Field(i).Type().Underlying().(type) {
		case *types.Slice:
			if b, ok := t.Elem().Underlying().(*types.Basic); ok && b.Kind() == types.Uint8 {
				if r.text >= 0 {
					return r, "two byte-slice fields"
				}
				r.text = i
			}
		case *types.Basic:
			if t.Kind() == types.String {
				if r.filename >= 0 {
					return r, "two string fields"
				}
				r.filename = i
			}
		}
	}
	if r.text < 0 {
		return r, "no []byte field"
	}
	return r, ""
}

// loadOfField: v is a load of recv.field (UnOp * of FieldAddr(recv, f)).
func loadOfField(v ssa.Value, recv ssa.Value, f int) bool {
	u, ok := v.(*ssa.UnOp)
	if !ok || u.Op != token.MUL {
		return false
	}
	fa, ok := u.X.(*ssa.FieldAddr)
	return ok && fa.Field == f && isSameOrSpilled(fa.X, recv)
}

// isSameOrSpilled: v is p, or a load of the cell into which the parameter p was spilled (a parameter captured by a closure
// lives in a heap cell that is written once, on entry).
func isSameOrSpilled(v ssa.Value, p ssa.Value) bool {
	if v == p {
		return true
	}
	u, ok := v.(*ssa.UnOp)
	if !ok || u.Op != token.MUL {
		return false
	}
	a, ok := u.X.(*ssa.Alloc)
	if !ok {
		return false
	}
	n := 0
	for _, r := range *a.Referrers() {
		if st, ok := r.(*ssa.Store); ok && st.Addr == ssa.Value(a) {
			n++
			if st.Val != p {
				return false
			}
		}
	}
	return n == 1
}

func fieldOfLoad(v ssa.Value, recv ssa.Value) int {
	u, ok := v.(*ssa.UnOp)
	if !ok || u.Op != token.MUL {
		return -1
	}
	fa, ok := u.X.(*ssa.FieldAddr)
	if !ok || fa.X != recv {
		return -1
	}
	return fa.Field
}

// checkMemReader decides the pointer invariant and the position bookkeeping of an in-memory reader.
//
//	I:  0 <= begin <= forward <= len(text), text is never written after construction.
//
// It returns the set of slice positions whose bounds follow from I.
func checkMemReader(c *Ctx, rule string, ri *readerInfo) map[token.Pos]bool {
	proved := map[token.Pos]bool{}
	roles, why := ri.roles()
	if why != "" {
		c.Undecided(rule, "reader: field roles", ri.typ.Obj().Pos(), why)
		return proved
	}
	st := ri.typ.Underlying().(*types.Struct)
	fname := func(i int) string {
		if i < 0 {
			return "?"
		}
		return st.Field(i).Name()
	}
	// all methods + constructor
	var fns []*ssa.Function
	for _, f := range allFuncsOfPkg(ri.newSSA.Pkg) {
		if f.Signature.Recv() != nil {
			T := f.Signature.Recv().Type()
			if pt, ok := T.(*types.Pointer); ok {
				T = pt.Elem()
			}
			if T == types.Type(ri.typ) {
				fns = append(fns, f)
			}
		}
	}
	sort.Slice(fns, func(i, j int) bool { return fns[i].Name() < fns[j].Name() })
	for _, f := range fns {
		c.Analysed(shortFn(f))
	}
	c.Analysed(shortFn(ri.ctorFn))

	// the cursors: int fields used as bounds in slices of the text
	sliceSites := 0
	for _, f := range fns {
		recv := ssa.Value(f.Params[0])
		for _, b := range f.Blocks {
			for _, in := range b.Instrs {
				sl, ok := in.(*ssa.Slice)
				if !ok || !loadOfField(sl.X, recv, roles.text) {
					continue
				}
				sliceSites++
				if sl.Low != nil && sl.High != nil {
					lo, hi := fieldOfLoad(sl.Low, recv), fieldOfLoad(sl.High, recv)
					if lo >= 0 && hi >= 0 {
						if roles.begin < 0 {
							roles.begin, roles.forward = lo, hi
						}
					}
				}
			}
		}
	}
	if roles.begin < 0 || roles.forward < 0 {
		c.Undecided(rule, "reader: the two cursors", ri.typ.Obj().Pos(), "no slice text[begin:forward] over two fields of the reader was found")
		return proved
	}
	c.Sample("reader %s: text=%s begin=%s forward=%s filename=%s", ri.typ.Obj().Name(), fname(roles.text), fname(roles.begin), fname(roles.forward), fname(roles.filename))

	// (1) writes to the fields, everywhere in the package
	type wr struct {
		fn    *ssa.Function
		st    *ssa.Store
		field int
	}
	var writes []wr
	elemWrites := 0
	for _, f := range allFuncsOfPkg(ri.newSSA.Pkg) {
		for _, b := range f.Blocks {
			for _, in := range b.Instrs {
				s, ok := in.(*ssa.Store)
				if !ok {
					continue
				}
				if fa, ok := s.Addr.(*ssa.FieldAddr); ok {
					T := fa.X.Type()
					if pt, ok := T.Underlying().(*types.Pointer); ok {
						T = pt.Elem()
					}
					if T == types.Type(ri.typ) {
						writes = append(writes, wr{f, s, fa.Field})
					}
				}
				// element stores into the text
				if ia, ok := s.Addr.(*ssa.IndexAddr); ok {
					if u, ok := ia.X.(*ssa.UnOp); ok {
						if fa, ok := u.X.(*ssa.FieldAddr); ok && fa.Field == roles.text {
							T := fa.X.Type()
							if pt, ok := T.Underlying().(*types.Pointer); ok {
								T = pt.Elem()
							}
							if T == types.Type(ri.typ) {
								elemWrites++
							}
						}
					}
				}
			}
		}
	}
	// text and filename: written by the constructor only; no element of the text is ever written; no copy/append into it
	immutable := elemWrites == 0
	whyImm := ""
	for _, w := range writes {
		if (w.field == roles.text || w.field == roles.filename) && w.fn != ri.ctorFn {
			immutable = false
			whyImm = fmt.Sprintf("%s writes field %s", shortFn(w.fn), fname(w.field))
		}
	}
	for _, f := range fns {
		recv := ssa.Value(f.Params[0])
		allCalls(f, func(call ssa.CallInstruction) {
			if bi, ok := call.Common().Value.(*ssa.Builtin); ok && (bi.Name() == "copy" || bi.Name() == "append") && len(call.Common().Args) > 0 {
				for _, r := range rootsOf(f, call.Common().Args[0], nil) {
					if loadOfField(r, recv, roles.text) {
						immutable = false
						whyImm = shortFn(f) + " passes the text to " + bi.Name()
					}
				}
			}
			// a method that reads from a source re-fills a buffer: there must be none
			if methodNameOf(call) == "Read" || staticCalleeName(call) == "io.ReadFull" || staticCalleeName(call) == "io.ReadAtLeast" {
				immutable = false
				whyImm = shortFn(f) + " reads from a source"
			}
		})
	}
	c.Check(rule, "reader: the text is fixed at construction (never written, re-sliced into the field, or re-filled from a source)", ri.typ.Obj().Pos(), immutable,
		whyImm+": the reader would have buffer boundaries or a changing text, and neither the pointer invariant nor layout independence follows")

	invariantUnknownCtor := false
	// (2) constructor: cursors start at 0 (left zero or stored const 0), text is the constructor's []byte parameter unchanged
	ctorOK, ctorWhy := true, ""
	for _, w := range writes {
		if w.fn != ri.ctorFn {
			continue
		}
		switch w.field {
		case roles.begin, roles.forward:
			if !isConstInt(w.st.Val, 0) {
				ctorOK, ctorWhy = false, "a cursor does not start at 0"
			}
		case roles.text:
			if _, isParam := w.st.Val.(*ssa.Parameter); !isParam {
				ctorOK, ctorWhy = false, "the text stored is not the constructor's parameter"
			}
		case roles.filename:
			if _, isParam := w.st.Val.(*ssa.Parameter); !isParam {
				ctorOK, ctorWhy = false, "the file name stored is not the constructor's parameter"
			}
		}
	}
	nText, nName := 0, 0
	for _, w := range writes {
		if w.fn == ri.ctorFn && w.field == roles.text {
			nText++
		}
		if w.fn == ri.ctorFn && w.field == roles.filename {
			nName++
		}
	}
	switch {
	case !ctorOK:
		c.Fail(rule, "reader: the constructor stores its text parameter and starts both cursors at 0", ri.ctorFn.Pos(), ctorWhy)
	case nText == 1:
		c.Pass(rule, "reader: the constructor stores its text parameter and starts both cursors at 0", ri.ctorFn.Pos(), fmt.Sprintf("text stores=%d, file name stores=%d", nText, nName))
	default:
		invariantUnknownCtor = true
		c.Undecided(rule, "reader: the constructor stores its text parameter and starts both cursors at 0", ri.ctorFn.Pos(), fmt.Sprintf("text stores=%d", nText))
	}

	invariantUnknown := false
	// (3) cursor updates preserve I
	//   forward += size   with  _, size := utf8.DecodeRune(text[forward:])        (0 <= size <= len(text)-forward)
	//   forward -= size   with  _, size := utf8.DecodeLastRune(text[begin:forward]) (0 <= size <= forward-begin)
	//   begin    = forward
	var helperRecv ssa.Value // receiver parameter of the helper whose returned slice was resolved (the fields are read from it)
	decodeSize := func(f *ssa.Function, v ssa.Value, want string) (*ssa.Slice, bool) {
		helperRecv = nil
		ex, ok := v.(*ssa.Extract)
		if !ok || ex.Index != 1 {
			return nil, false
		}
		call, ok := ex.Tuple.(*ssa.Call)
		if !ok || staticCalleeName(call) != want {
			return nil, false
		}
		if sl, ok := call.Call.Args[0].(*ssa.Slice); ok {
			return sl, true
		}
		// a helper of the reader that returns a slice of the text (e.g. pending() = text[begin:forward])
		if hc, ok := call.Call.Args[0].(*ssa.Call); ok {
			if callee := hc.Call.StaticCallee(); callee != nil && len(callee.Blocks) == 1 && len(callee.Params) >= 1 && len(hc.Call.Args) >= 1 && isSameOrSpilled(hc.Call.Args[0], f.Params[0]) {
				if ret, ok := callee.Blocks[0].Instrs[len(callee.Blocks[0].Instrs)-1].(*ssa.Return); ok && len(ret.Results) == 1 {
					if sl, ok := ret.Results[0].(*ssa.Slice); ok {
						helperRecv = callee.Params[0]
						return sl, true
					}
				}
			}
		}
		return nil, false
	}
	for _, w := range writes {
		if w.fn == ri.ctorFn || (w.field != roles.begin && w.field != roles.forward) {
			continue
		}
		f := w.fn
		if len(f.Params) == 0 {
			c.Fail(rule, "reader: cursor update in "+shortFn(f), w.st.Pos(), "a cursor of the reader is written outside its methods")
			continue
		}
		recv := ssa.Value(f.Params[0])
		ok, form, definite := false, "unrecognised update", false
		okStep := false
		lf := func(v ssa.Value, field int) bool {
			if helperRecv != nil && loadOfField(v, helperRecv, field) {
				return true
			}
			return loadOfField(v, recv, field)
		}
		switch w.field {
		case roles.begin:
			if loadOfField(w.st.Val, recv, roles.forward) {
				ok, form = true, "begin = forward"
			} else if _, isConst := w.st.Val.(*ssa.Const); isConst {
				definite, form = true, "begin = constant"
			}
		case roles.forward:
			if bo, isB := w.st.Val.(*ssa.BinOp); isB && loadOfField(bo.X, recv, roles.forward) {
				if k, isConst := bo.Y.(*ssa.Const); isConst {
					definite, form = true, "forward moved by a constant, not by the size of a decoded rune"
					// a single-byte step is fine where forward is known to be short of the end (the fast path for one-byte runes)
					if bo.Op == token.ADD && isConstInt(k, 1) {
						for _, cd := range controlConds(w.st.Block()) {
							cmp, ok := cd.v.(*ssa.BinOp)
							if !ok {
								continue
							}
							// len(text[forward:]) != 0
							if lc, ok := cmp.X.(*ssa.Call); ok && isConstInt(cmp.Y, 0) {
								if bi, ok := lc.Call.Value.(*ssa.Builtin); ok && bi.Name() == "len" {
									if sl, ok := lc.Call.Args[0].(*ssa.Slice); ok && loadOfField(sl.X, recv, roles.text) && sl.High == nil && sl.Low != nil && loadOfField(sl.Low, recv, roles.forward) {
										if (cmp.Op == token.EQL && !cd.pol) || (cmp.Op == token.NEQ && cd.pol) || (cmp.Op == token.GTR && cd.pol) {
											definite = false
											okStep = true
										}
									}
								}
							}
							if !loadOfField(cmp.X, recv, roles.forward) {
								continue
							}
							call, ok := cmp.Y.(*ssa.Call)
							if !ok {
								continue
							}
							bi, ok := call.Call.Value.(*ssa.Builtin)
							if !ok || bi.Name() != "len" || !loadOfField(call.Call.Args[0], recv, roles.text) {
								continue
							}
							if (cmp.Op == token.EQL && !cd.pol) || (cmp.Op == token.NEQ && cd.pol) || (cmp.Op == token.LSS && cd.pol) || (cmp.Op == token.GEQ && !cd.pol) {
								ok2 := true
								_ = ok2
								definite = false
								okStep = true
							}
						}
					}
				}
				// forward-- under `forward > begin`, repeated until utf8.RuneStart(text[forward]): the retraction walks back over the
				// continuation bytes of the last rune of the pending text (which holds whole runes only: Next refuses anything else)
				if k, isConst := bo.Y.(*ssa.Const); isConst && bo.Op == token.SUB && isConstInt(k, 1) {
					above := false
					for _, cd := range controlConds(w.st.Block()) {
						cmp, isB := cd.v.(*ssa.BinOp)
						if !isB {
							continue
						}
						fx, by := loadOfField(cmp.X, recv, roles.forward), loadOfField(cmp.Y, recv, roles.begin)
						bx, fy := loadOfField(cmp.X, recv, roles.begin), loadOfField(cmp.Y, recv, roles.forward)
						switch {
						case fx && by && ((cmp.Op == token.GTR && cd.pol) || (cmp.Op == token.LEQ && !cd.pol)):
							above = true
						case bx && fy && ((cmp.Op == token.LSS && cd.pol) || (cmp.Op == token.GEQ && !cd.pol)):
							above = true
						}
					}
					runeStart := false
					for _, b := range f.Blocks {
						for _, in := range b.Instrs {
							call, isCall := in.(*ssa.Call)
							if !isCall || staticCalleeName(call) != "unicode/utf8.RuneStart" || len(call.Call.Args) != 1 {
								continue
							}
							if un, isUn := call.Call.Args[0].(*ssa.UnOp); isUn && un.Op == token.MUL {
								if ia, isIA := un.X.(*ssa.IndexAddr); isIA && loadOfField(ia.X, recv, roles.text) && loadOfField(ia.Index, recv, roles.forward) {
									for _, r := range *call.Referrers() {
										if _, isIf := r.(*ssa.If); isIf {
											runeStart = true
										}
										if u2, isU := r.(*ssa.UnOp); isU && u2.Op == token.NOT {
											runeStart = true
										}
									}
								}
							}
						}
					}
					switch {
					case above && runeStart:
						ok, definite, form = true, false, "forward-- while forward > begin, until utf8.RuneStart(text[forward])"
					case above:
						form = "forward moved back by one byte (above begin) without looking for the beginning of the rune: a multi-byte character is retracted in part"
					}
				}
				// forward += size (+ k on some path): more bytes are consumed than the rune that is handed out occupies (a CR LF pair
				// folded into one '\n'), while a retraction steps back by one decoded rune: part of what was consumed stays in the lexeme
				if bo.Op == token.ADD {
					var plus func(v ssa.Value, d int) bool
					plus = func(v ssa.Value, d int) bool {
						if d > 4 {
							return false
						}
						switch x := v.(type) {
						case *ssa.Phi:
							for _, e := range x.Edges {
								if plus(e, d+1) {
									return true
								}
							}
						case *ssa.BinOp:
							if x.Op == token.ADD {
								if k, isK := x.Y.(*ssa.Const); isK && k.Value != nil && k.Int64() > 0 {
									if _, isD := decodeSize(f, x.X, "unicode/utf8.DecodeRune"); isD {
										return true
									}
								}
							}
						}
						return false
					}
					if plus(bo.Y, 0) {
						definite, form = true, "forward advanced by the size of the decoded rune plus a constant on some path: more is consumed than the one rune Next hands out, and Retract, which steps back by one rune, gives back only part of it (the rest stays in the pending lexeme)"
					}
				}
				switch bo.Op {
				case token.ADD:
					if sl, isD := decodeSize(f, bo.Y, "unicode/utf8.DecodeRune"); isD {
						if lf(sl.X, roles.text) && sl.High == nil && sl.Low != nil && lf(sl.Low, roles.forward) {
							ok, form = true, "forward += size of DecodeRune(text[forward:])"
						} else {
							definite, form = true, "forward += size of a rune decoded somewhere else than at text[forward:]"
						}
					}
				case token.SUB:
					if sl, isD := decodeSize(f, bo.Y, "unicode/utf8.DecodeLastRune"); isD {
						if lf(sl.X, roles.text) && sl.Low != nil && sl.High != nil && lf(sl.Low, roles.begin) && lf(sl.High, roles.forward) {
							ok, form = true, "forward -= size of DecodeLastRune(text[begin:forward])"
						} else {
							definite, form = true, "forward -= size of the last rune of something else than text[begin:forward] (a retraction can pass the beginning of the lexeme)"
						}
					} else if wf := fieldOfLoad(bo.Y, recv); wf >= 0 && wf != roles.begin && wf != roles.forward && wf != roles.text {
						// forward -= width, a remembered step: every advance of forward must record the very amount it moved by,
						// in the same block; else a retraction after that advance steps back by a stale amount.
						advances, paired, unclear := 0, 0, 0
						var stale *ssa.Store
						for _, w2 := range writes {
							if w2.field != roles.forward || w2.fn == ri.ctorFn || w2.st == w.st || len(w2.fn.Params) == 0 {
								continue
							}
							b2, isB2 := w2.st.Val.(*ssa.BinOp)
							if !isB2 || b2.Op != token.ADD || !loadOfField(b2.X, w2.fn.Params[0], roles.forward) {
								if isB2 && b2.Op == token.SUB {
									continue
								}
								unclear++
								continue
							}
							advances++
							found, sawOther := false, false
							for _, w3 := range writes {
								if w3.field != wf || w3.fn != w2.fn {
									continue
								}
								if w3.st.Block() != w2.st.Block() {
									continue
								}
								k1, c1 := w3.st.Val.(*ssa.Const)
								k2, c2 := b2.Y.(*ssa.Const)
								if w3.st.Val == b2.Y || (c1 && c2 && k1.Value != nil && k2.Value != nil && k1.Int64() == k2.Int64()) {
									found = true
								} else {
									sawOther = true
								}
							}
							switch {
							case found && !sawOther:
								paired++
							case sawOther:
								unclear++
							default:
								// no store of the remembered step on this advance: is there one anywhere else in the function that
								// every path to the advance passes (a dominating block)? then it is a different shape, not a stale one
								dom := false
								for _, w3 := range writes {
									if w3.field == wf && w3.fn == w2.fn && w3.st.Block() != w2.st.Block() && (w3.st.Block().Dominates(w2.st.Block()) || w2.st.Block().Dominates(w3.st.Block())) {
										dom = true
									}
								}
								if dom {
									unclear++
								} else if stale == nil {
									stale = w2.st
								}
							}
						}
						switch {
						case stale != nil:
							definite, form = true, fmt.Sprintf("forward -= %s, but %s advances forward (%s) without recording that step in %s: a retraction after that advance steps back by the amount of an earlier one (a multi-byte character after a one-byte one is retracted by one byte: the lexeme ends inside the character)", fname(wf), shortFn(stale.Parent()), c.rel(stale.Pos()), fname(wf))
						case advances > 0 && paired == advances && unclear == 0:
							// the remembered step is right after an advance; that a retraction is only asked for right after an
							// advance (once, and not across a Skip/Lexeme) is the scanner's protocol (R5.4), so it is zeroed or the rule cannot tell
							zeroed := 0
							for _, w3 := range writes {
								if w3.field == wf && w3.fn != ri.ctorFn && isConstInt(w3.st.Val, 0) {
									zeroed++
								}
							}
							if zeroed >= 2 {
								ok, form = true, fmt.Sprintf("forward -= %s, the step recorded by every advance and cleared by the retraction and by the commit", fname(wf))
							}
						}
					}
				}
			}
		}
		key := fmt.Sprintf("reader: %s updates %s in a way that keeps begin <= forward <= len(text)", shortFn(f), fname(w.field))
		if okStep && !definite {
			// one byte is a whole rune only if it is below utf8.RuneSelf: the step must also be dominated by such a test
			ascii := false
			for _, cd := range controlConds(w.st.Block()) {
				cmp, isB := cd.v.(*ssa.BinOp)
				if !isB || !cd.pol || cmp.Op != token.LSS {
					continue
				}
				k, isK := cmp.Y.(*ssa.Const)
				if !isK || k.Value == nil || k.Int64() > 128 {
					continue
				}
				if bt, isBasic := cmp.X.Type().Underlying().(*types.Basic); isBasic && bt.Kind() == types.Uint8 {
					ascii = true
				}
			}
			if ascii {
				ok, form = true, "forward += 1 where forward < len(text) and the byte there is a one-byte rune"
			} else {
				definite, form = true, "forward moved by one byte without knowing that the byte is a whole rune: the pending text can end inside a multi-byte character"
			}
		}
		switch {
		case ok:
			c.Pass(rule, key, w.st.Pos(), form)
		case definite:
			c.Fail(rule, key, w.st.Pos(), form+": the invariant that makes every slice of the text in bounds (and Retract stop at the beginning of the lexeme) does not hold")
		default:
			invariantUnknown = true
			c.Undecided(rule, key, w.st.Pos(), "the update is not one of: forward += size of utf8.DecodeRune(text[forward:]); forward -= size of utf8.DecodeLastRune(text[begin:forward]); begin = forward")
		}
	}
	// with I established by (1)-(3), text[forward:], text[begin:forward] are in bounds
	invariantHolds := !invariantUnknown && !invariantUnknownCtor
	for _, o := range c.Obs {
		if o.Rule == rule && strings.HasPrefix(o.Key, "reader:") && !o.OK {
			invariantHolds = false
		}
	}
	for _, f := range fns {
		recv := ssa.Value(f.Params[0])
		for _, b := range f.Blocks {
			for _, in := range b.Instrs {
				// text[forward] where forward != len(text) is known: in bounds by I
				if ia, isIdx := in.(*ssa.IndexAddr); isIdx && invariantHolds && loadOfField(ia.X, recv, roles.text) && loadOfField(ia.Index, recv, roles.forward) {
					for _, cd := range controlConds(b) {
						cmp, isB := cd.v.(*ssa.BinOp)
						if !isB || !loadOfField(cmp.X, recv, roles.forward) {
							continue
						}
						lc, isC := cmp.Y.(*ssa.Call)
						if !isC {
							continue
						}
						if bi, isBi := lc.Call.Value.(*ssa.Builtin); !isBi || bi.Name() != "len" || !loadOfField(lc.Call.Args[0], recv, roles.text) {
							continue
						}
						if (cmp.Op == token.EQL && !cd.pol) || (cmp.Op == token.NEQ && cd.pol) || (cmp.Op == token.LSS && cd.pol) || (cmp.Op == token.GEQ && !cd.pol) {
							proved[ia.Pos()] = true
						}
					}
				}
				sl, ok := in.(*ssa.Slice)
				if !ok || !loadOfField(sl.X, recv, roles.text) {
					continue
				}
				lowOK := sl.Low == nil || loadOfField(sl.Low, recv, roles.begin) || loadOfField(sl.Low, recv, roles.forward)
				highOK := sl.High == nil || loadOfField(sl.High, recv, roles.forward)
				// text[begin:forward], text[forward:], text[begin:], text[:forward]; not text[forward:begin]
				if sl.Low != nil && sl.High != nil && loadOfField(sl.Low, recv, roles.forward) && !loadOfField(sl.High, recv, roles.forward) {
					lowOK = false
				}
				if invariantHolds && lowOK && highOK {
					proved[sl.Pos()] = true
				}
			}
		}
	}
	c.Extra("reader_text_slices", sliceSites)
	return proved
}

// checkMemReaderPositions decides the line / column / offset bookkeeping and the end-of-input and lexeme clauses.
func checkMemReaderPositions(c *Ctx, rule string, ri *readerInfo) {
	roles, why := ri.roles()
	if why != "" {
		return
	}
	next, retract, lexeme, skip := ri.method(c, "Next"), ri.method(c, "Retract"), ri.method(c, "Lexeme"), ri.method(c, "Skip")
	if next == nil || retract == nil || lexeme == nil || skip == nil {
		c.Lost(rule, "the four reader methods")
		return
	}
	// re-derive the cursors as in checkMemReader
	for _, f := range []*ssa.Function{lexeme, retract} {
		recv := ssa.Value(f.Params[0])
		for _, b := range f.Blocks {
			for _, in := range b.Instrs {
				if sl, ok := in.(*ssa.Slice); ok && loadOfField(sl.X, recv, roles.text) && sl.Low != nil && sl.High != nil && roles.begin < 0 {
					roles.begin, roles.forward = fieldOfLoad(sl.Low, recv), fieldOfLoad(sl.High, recv)
				}
			}
		}
	}
	if roles.begin < 0 {
		c.Undecided(rule, "reader positions: cursors", next.Pos(), "cursors not identified")
		return
	}
	// Next: io.EOF exactly when forward == len(text), and nothing is consumed then
	recv := ssa.Value(next.Params[0])
	eofOK, eofSeen, eofOnCursor := false, false, false
	for _, b := range next.Blocks {
		ret, ok := b.Instrs[len(b.Instrs)-1].(*ssa.Return)
		if !ok || len(ret.Results) != 2 {
			continue
		}
		isEOF := false
		for _, r := range rootsOf(next, ret.Results[1], nil) {
			if g, ok := r.(*ssa.Global); ok && g.Pkg != nil && g.Pkg.Pkg.Path() == "io" && g.Name() == "EOF" {
				isEOF = true
			}
		}
		if !isEOF {
			continue
		}
		eofSeen = true
		for _, cd := range controlConds(b) {
			if bo, ok := cd.v.(*ssa.BinOp); ok && (loadOfField(bo.X, recv, roles.forward) || loadOfField(bo.Y, recv, roles.forward)) {
				eofOnCursor = true
			}
			if bo, ok := cd.v.(*ssa.BinOp); ok && ((bo.Op == token.EQL && cd.pol) || (bo.Op == token.NEQ && !cd.pol) || (bo.Op == token.GEQ && cd.pol) || (bo.Op == token.LSS && !cd.pol)) {
				if loadOfField(bo.X, recv, roles.forward) {
					if call, ok := bo.Y.(*ssa.Call); ok {
						if bi, ok := call.Call.Value.(*ssa.Builtin); ok && bi.Name() == "len" && loadOfField(call.Call.Args[0], recv, roles.text) {
							eofOK = true
						}
					}
				}
			}
		}
	}
	switch {
	case eofOK:
		c.Pass(rule, "reader: Next reports io.EOF exactly when forward has reached the end of the text", next.Pos(), "")
	case eofSeen && eofOnCursor:
		c.Fail(rule, "reader: Next reports io.EOF exactly when forward has reached the end of the text", next.Pos(),
			"io.EOF is returned under a comparison of the forward cursor with something other than len(text): the end of the input is reported early or late")
	default:
		c.Undecided(rule, "reader: Next reports io.EOF exactly when forward has reached the end of the text", next.Pos(), "no return of io.EOF under a test of the forward cursor was recognised")
	}
	// the rune returned by Next is the one decoded at forward, and an invalid encoding is an error that consumes nothing
	decoded := false
	for _, b := range next.Blocks {
		ret, ok := b.Instrs[len(b.Instrs)-1].(*ssa.Return)
		if !ok || len(ret.Results) != 2 || !isNilConst(ret.Results[1]) {
			continue
		}
		if ex, ok := ret.Results[0].(*ssa.Extract); ok && ex.Index == 0 {
			if call, ok := ex.Tuple.(*ssa.Call); ok && staticCalleeName(call) == "unicode/utf8.DecodeRune" {
				// the forward update is in a block dominating this return
				for _, b2 := range next.Blocks {
					for _, in := range b2.Instrs {
						if st, ok := in.(*ssa.Store); ok {
							if fa, ok := st.Addr.(*ssa.FieldAddr); ok && fa.Field == roles.forward && (b2 == b || b2.Dominates(b)) {
								decoded = true
							}
						}
					}
				}
			}
		}
	}
	if decoded {
		c.Pass(rule, "reader: Next returns the rune decoded at forward and advances forward by its size", next.Pos(), "")
	} else {
		c.Undecided(rule, "reader: Next returns the rune decoded at forward and advances forward by its size", next.Pos(), "the successful return of Next was not recognised as the rune decoded by utf8.DecodeRune after the forward pointer was advanced")
	}
	errNoConsume := true
	for _, b := range next.Blocks {
		ret, ok := b.Instrs[len(b.Instrs)-1].(*ssa.Return)
		if !ok || len(ret.Results) != 2 || isNilConst(ret.Results[1]) {
			continue
		}
		for _, b2 := range next.Blocks {
			if b2 != b && !b2.Dominates(b) {
				continue
			}
			for _, in := range b2.Instrs {
				if st, ok := in.(*ssa.Store); ok {
					if fa, ok := st.Addr.(*ssa.FieldAddr); ok && fa.X == recv {
						errNoConsume = false
					}
				}
			}
		}
	}
	c.Check(rule, "reader: a failing Next leaves the reader unchanged", next.Pos(), errNoConsume, "an error return of Next is preceded by a write to the reader")

	// Lexeme: the string is text[begin:forward]
	lrecv := ssa.Value(lexeme.Params[0])
	lexOK, lexSeen := false, false
	for _, b := range lexeme.Blocks {
		ret, ok := b.Instrs[len(b.Instrs)-1].(*ssa.Return)
		if !ok || len(ret.Results) != 2 {
			continue
		}
		v := retOperand(ret, 0)
		if cv, ok := v.(*ssa.Convert); ok {
			if sl, ok := cv.X.(*ssa.Slice); ok && loadOfField(sl.X, lrecv, roles.text) {
				lexSeen = true
			}
			if sl, ok := cv.X.(*ssa.Slice); ok && loadOfField(sl.X, lrecv, roles.text) && sl.Low != nil && sl.High != nil &&
				loadOfField(sl.Low, lrecv, roles.begin) && loadOfField(sl.High, lrecv, roles.forward) {
				// taken before the cursors are committed: the slice precedes any call that writes begin
				lexOK = true
				for _, in := range b.Instrs {
					if call, ok := in.(*ssa.Call); ok && call.Pos() < sl.Pos() {
						lexOK = false
					}
				}
			}
		}
	}
	switch {
	case lexOK:
		c.Pass(rule, "reader: Lexeme returns exactly text[begin:forward], taken before the cursors are committed", lexeme.Pos(), "")
	case lexSeen:
		c.Fail(rule, "reader: Lexeme returns exactly text[begin:forward], taken before the cursors are committed", lexeme.Pos(),
			"the string returned by Lexeme is a slice of the text, but not text[begin:forward] taken before the cursors are committed")
	default:
		c.Undecided(rule, "reader: Lexeme returns exactly text[begin:forward], taken before the cursors are committed", lexeme.Pos(), "the returned string was not recognised as a conversion of a slice of the text")
	}
	// Lexeme's position is Skip's
	posFromSkip := false
	allCalls(lexeme, func(call ssa.CallInstruction) {
		if cv, ok := call.(*ssa.Call); ok && cv.Call.StaticCallee() == skip {
			for _, b := range lexeme.Blocks {
				if ret, ok := b.Instrs[len(b.Instrs)-1].(*ssa.Return); ok && len(ret.Results) == 2 && retOperand(ret, 1) == ssa.Value(cv) {
					posFromSkip = true
				}
			}
		}
	})
	if posFromSkip {
		c.Pass(rule, "reader: Lexeme's position is the one Skip returns", lexeme.Pos(), "")
	} else {
		c.Undecided(rule, "reader: Lexeme's position is the one Skip returns", lexeme.Pos(), "Lexeme does not return the result of Skip as its position (positions may be computed in another way)")
	}

	// the position function: pos(pending)
	var posFn *ssa.Function
	allCalls(skip, func(call ssa.CallInstruction) {
		if f := call.Common().StaticCallee(); f != nil && f.Signature.Recv() != nil && f.Signature.Results().Len() == 1 && f != skip {
			if _, n := namedTypeName(f.Signature.Results().At(0).Type()); n == "Position" {
				posFn = f
			}
		}
	})
	if posFn == nil {
		c.Undecided(rule, "reader positions: the position function called by Skip", skip.Pos(), "Skip does not compute positions through a method returning Position")
		return
	}
	c.Analysed(shortFn(posFn))
	initOf := checkPosWalk(c, rule, ri, roles, posFn)

	// Next: an invalid encoding is an error at the offending byte. utf8.DecodeRune reports it as (RuneError, 1); a validly
	// encoded U+FFFD decodes to (RuneError, 3) and is an ordinary character.
	{
		var dec *ssa.Call
		allCalls(next, func(call ssa.CallInstruction) {
			if cv, ok := call.(*ssa.Call); ok && staticCalleeName(cv) == "unicode/utf8.DecodeRune" {
				dec = cv
			}
		})
		var rv, sv ssa.Value
		if dec != nil {
			for _, ref := range *dec.Referrers() {
				if ex, ok := ref.(*ssa.Extract); ok {
					if ex.Index == 0 {
						rv = ex
					} else {
						sv = ex
					}
				}
			}
		}
		nErr, onRune, onSize := 0, 0, 0
		var at token.Pos
		for _, b := range next.Blocks {
			ret, ok := b.Instrs[len(b.Instrs)-1].(*ssa.Return)
			if !ok || len(ret.Results) != 2 || isNilConst(ret.Results[1]) || rv == nil {
				continue
			}
			hasRune, hasSize := false, false
			for _, cd := range controlConds(b) {
				if k, eq, ok := eqConst(cd.v, rv); ok && k == 0xFFFD && eq == cd.pol {
					hasRune = true
				}
				if bo, ok := cd.v.(*ssa.BinOp); ok && sv != nil && (bo.X == sv || bo.Y == sv) {
					hasSize = true
				}
			}
			if hasRune {
				nErr++
				at = ret.Pos()
				onRune++
				if hasSize {
					onSize++
				}
			}
		}
		key := "reader: Next takes (RuneError, size 1) for an invalid encoding, not U+FFFD itself"
		switch {
		case nErr > 0 && onSize == onRune:
			c.Pass(rule, key, next.Pos(), "")
		case nErr > 0:
			c.Fail(rule, key, at, "an error is returned whenever the decoded rune equals utf8.RuneError, without a test of the decoded size: a validly encoded U+FFFD (size 3) in the text is reported as an invalid byte and scanning stops there")
		default:
			c.Undecided(rule, key, next.Pos(), "no error return of Next under a comparison of the decoded rune with utf8.RuneError was recognised")
		}
		// the error carries the position of the forward cursor (pos(true)), not of the pending lexeme's beginning
		nTrue, nFalse := 0, 0
		var bad token.Pos
		allCalls(next, func(call ssa.CallInstruction) {
			cv, ok := call.(*ssa.Call)
			if !ok || cv.Call.StaticCallee() != posFn || len(cv.Call.Args) == 0 {
				return
			}
			if k, ok := cv.Call.Args[len(cv.Call.Args)-1].(*ssa.Const); ok && k.Value != nil {
				if k.Value.String() == "true" {
					nTrue++
				} else {
					nFalse++
					bad = cv.Pos()
				}
			}
		})
		key = "reader: an error of Next is reported at the forward cursor"
		switch {
		case nFalse > 0:
			c.Fail(rule, key, bad, "Next computes the position of its error without walking the pending lexeme: an invalid byte is reported at the first character of whatever precedes it (the previous token, blanks or an open comment), not at the byte")
		case nTrue > 0:
			c.Pass(rule, key, next.Pos(), "")
		case nErr > 0:
			c.Undecided(rule, key, next.Pos(), "the position attached to the error of Next was not recognised as a call of the position function")
		}
	}

	// Skip: returns the position before (pos(false)), commits pos(true) to the stored position and begin = forward
	srecv := ssa.Value(skip.Params[0])
	var before, after *ssa.Call
	var afters []*ssa.Call
	allCalls(skip, func(call ssa.CallInstruction) {
		cv, ok := call.(*ssa.Call)
		if !ok || cv.Call.StaticCallee() != posFn {
			return
		}
		if k, ok := cv.Call.Args[len(cv.Call.Args)-1].(*ssa.Const); ok && k.Value != nil {
			if k.Value.String() == "false" {
				before = cv
			} else if k.Value.String() == "true" {
				after = cv
				afters = append(afters, cv)
			}
		}
	})
	retBefore := false
	for _, b := range skip.Blocks {
		if ret, ok := b.Instrs[len(b.Instrs)-1].(*ssa.Return); ok && len(ret.Results) == 1 && before != nil {
			for _, r := range rootsOf(skip, retOperand(ret, 0), func(v ssa.Value) bool { return v == ssa.Value(before) }) {
				if r == ssa.Value(before) {
					retBefore = true
				}
			}
		}
	}
	switch {
	case before != nil && retBefore:
		c.Pass(rule, "reader: Skip returns the position of the beginning of the lexeme", skip.Pos(), "")
	case before == nil && after != nil && func() bool {
		for _, b := range skip.Blocks {
			if ret, ok := b.Instrs[len(b.Instrs)-1].(*ssa.Return); ok && len(ret.Results) == 1 {
				for _, a := range afters {
					for _, r := range rootsOf(skip, retOperand(ret, 0), func(v ssa.Value) bool { return v == ssa.Value(a) }) {
						if r == ssa.Value(a) {
							return true
						}
					}
				}
			}
		}
		return false
	}():
		c.Fail(rule, "reader: Skip returns the position of the beginning of the lexeme", skip.Pos(), "Skip returns the position after the lexeme")
	default:
		c.Undecided(rule, "reader: Skip returns the position of the beginning of the lexeme", skip.Pos(), "the value returned by Skip was not recognised as the position computed before the lexeme")
	}
	committed := map[string]bool{}
	for _, b := range skip.Blocks {
		for _, in := range b.Instrs {
			st, ok := in.(*ssa.Store)
			if !ok {
				continue
			}
			fa, ok := st.Addr.(*ssa.FieldAddr)
			if !ok || fa.X != srecv || after == nil {
				continue
			}
			name := ri.typ.Underlying().(*types.Struct).Field(fa.Field).Name()
			// the stored value is field <Name> of the after-position
			for _, r := range rootsOf(skip, st.Val, nil) {
				if f, ok := r.(*ssa.Field); ok && f.X == ssa.Value(after) {
					pf := f.X.Type().Underlying().(*types.Struct).Field(f.Field).Name()
					committed[name+"<-"+pf] = true
				}
				if fa2, ok := r.(*ssa.FieldAddr); ok {
					if al, ok := fa2.X.(*ssa.Alloc); ok {
						for _, ref := range *al.Referrers() {
							if s2, ok := ref.(*ssa.Store); ok && s2.Addr == ssa.Value(al) && s2.Val == ssa.Value(after) {
								pf := al.Type().(*types.Pointer).Elem().Underlying().(*types.Struct).Field(fa2.Field).Name()
								committed[name+"<-"+pf] = true
							}
						}
					}
				}
			}
		}
	}
	// the commit is the inverse of the initialisation: the reader field a Position field starts from receives that Position field
	commitOK := true
	for _, pf := range []string{"Offset", "Line", "Column"} {
		if initOf[pf] == "" || !committed[initOf[pf]+"<-"+pf] {
			commitOK = false
		}
	}
	if !commitOK && (after == nil || len(initOf) == 0) {
		c.Undecided(rule, "reader: Skip commits offset, line and column of the position after the lexeme", skip.Pos(), "the way Skip stores the new position was not recognised")
	} else {
		c.Check(rule, "reader: Skip commits offset, line and column of the position after the lexeme", skip.Pos(), commitOK,
			fmt.Sprintf("stored position fields: %v; a position starts from %v (each reader field a position field starts from must receive that field of pos(true))", sortedKeys(committed), initOf))
	}
}

// checkPosWalk: pos(pending) starts from the stored (file name, offset, line, column) and, when pending, walks the runes of
// text[begin:forward]: Offset+1 per rune; Line+1 and Column=1 on '\n', otherwise Column+1.
func checkPosWalk(c *Ctx, rule string, ri *readerInfo, roles memRoles, posFn *ssa.Function) map[string]string {
	initOf := map[string]string{} // Position field -> reader field it starts from
	recv := ssa.Value(posFn.Params[0])
	// the result struct
	var res *ssa.Alloc
	for _, b := range posFn.Blocks {
		for _, in := range b.Instrs {
			if a, ok := in.(*ssa.Alloc); ok {
				if _, n := namedTypeName(a.Type().(*types.Pointer).Elem()); n == "Position" {
					res = a
				}
			}
		}
	}
	if res == nil {
		c.Undecided(rule, "reader positions: the Position value built by "+shortFn(posFn), posFn.Pos(), "no local Position value")
		return initOf
	}
	pst := res.Type().(*types.Pointer).Elem().Underlying().(*types.Struct)
	pfield := func(i int) string { return pst.Field(i).Name() }
	rst := ri.typ.Underlying().(*types.Struct)
	// the range loop over the pending lexeme
	var rng *ssa.Range
	for _, b := range posFn.Blocks {
		for _, in := range b.Instrs {
			if r, ok := in.(*ssa.Range); ok {
				rng = r
			}
		}
	}
	overLexeme := false
	if rng != nil {
		if cv, ok := rng.X.(*ssa.Convert); ok {
			if sl, ok := cv.X.(*ssa.Slice); ok && loadOfField(sl.X, recv, roles.text) && sl.Low != nil && sl.High != nil && loadOfField(sl.Low, recv, roles.begin) && loadOfField(sl.High, recv, roles.forward) {
				overLexeme = true
			}
		}
	}
	if rng == nil {
		if checkPosCountForm(c, rule, ri, roles, posFn, res, pfield, initOf) {
			return initOf
		}
		c.Undecided(rule, "reader positions: the pending part is walked rune by rune over text[begin:forward]", posFn.Pos(), "no `for _, r := range string(text[begin:forward])` in the position function: positions are computed in a way this rule does not decide")
		return initOf
	}
	c.Check(rule, "reader positions: the pending part is walked rune by rune over text[begin:forward]", posFn.Pos(), overLexeme, "the position function ranges over something else than string(text[begin:forward])")
	// the walk happens only when the flag parameter is true
	var flag *ssa.Parameter
	for _, p := range posFn.Params[1:] {
		if b, ok := p.Type().Underlying().(*types.Basic); ok && b.Kind() == types.Bool {
			flag = p
		}
	}
	guarded := false
	if flag != nil {
		for _, cd := range controlConds(rng.Block()) {
			if cd.v == ssa.Value(flag) && cd.pol {
				guarded = true
			}
		}
	}
	c.Check(rule, "reader positions: the pending part is included exactly when asked for", posFn.Pos(), flag != nil && guarded, "the walk over the pending lexeme is not guarded by the flag parameter")
	// the rune of the iteration
	var runeVal ssa.Value
	var nextInstr *ssa.Next
	for _, r := range *rng.Referrers() {
		if n, ok := r.(*ssa.Next); ok {
			nextInstr = n
			for _, rr := range *n.Referrers() {
				if ex, ok := rr.(*ssa.Extract); ok && ex.Index == 2 {
					runeVal = ex
				}
			}
		}
	}
	// stores to the result's fields
	type upd struct {
		field string
		kind  string // init:<readerfield> | inc | one
		cond  string // "" | nl | notnl
		inLoop bool
	}
	var upds []upd
	loopBlocks := map[*ssa.BasicBlock]bool{}
	if nextInstr != nil {
		for b := range reach(nextInstr.Block(), nil) {
			if reach(b, nil)[nextInstr.Block()] {
				loopBlocks[b] = true
			}
		}
		loopBlocks[nextInstr.Block()] = true
	}
	for _, b := range posFn.Blocks {
		for _, in := range b.Instrs {
			st, ok := in.(*ssa.Store)
			if !ok {
				continue
			}
			fa, ok := st.Addr.(*ssa.FieldAddr)
			if !ok || fa.X != ssa.Value(res) {
				continue
			}
			u := upd{field: pfield(fa.Field), inLoop: loopBlocks[b]}
			switch v := st.Val.(type) {
			case *ssa.Const:
				if isConstInt(v, 1) {
					u.kind = "one"
				} else {
					u.kind = "const"
				}
			case *ssa.BinOp:
				if v.Op == token.ADD && isConstInt(v.Y, 1) {
					if ld, ok := v.X.(*ssa.UnOp); ok {
						if fa2, ok := ld.X.(*ssa.FieldAddr); ok && fa2.X == ssa.Value(res) && fa2.Field == fa.Field {
							u.kind = "inc"
						}
					}
				}
			case *ssa.UnOp:
				if f := fieldOfLoad(v, recv); f >= 0 {
					u.kind = "init:" + rst.Field(f).Name()
				}
			}
			if u.kind == "" {
				u.kind = "other"
			}
			if runeVal != nil {
				for _, cd := range controlConds(b) {
					if bo, ok := cd.v.(*ssa.BinOp); ok && bo.X == runeVal {
						if k, ok := bo.Y.(*ssa.Const); ok && k.Value != nil && k.Int64() == '\n' {
							isNL := (bo.Op == token.EQL) == cd.pol
							if bo.Op != token.EQL && bo.Op != token.NEQ {
								continue
							}
							if isNL {
								u.cond = "nl"
							} else {
								u.cond = "notnl"
							}
						}
					}
				}
			}
			upds = append(upds, u)
		}
	}
	has := func(field, kind, cond string, inLoop bool) bool {
		for _, u := range upds {
			if strings.EqualFold(u.field, field) && u.kind == kind && u.cond == cond && u.inLoop == inLoop {
				return true
			}
		}
		return false
	}
	count := func(field string) int {
		n := 0
		for _, u := range upds {
			if strings.EqualFold(u.field, field) {
				n++
			}
		}
		return n
	}
	var desc []string
	for _, u := range upds {
		desc = append(desc, fmt.Sprintf("%s:%s/%s/loop=%v", u.field, u.kind, u.cond, u.inLoop))
	}
	sort.Strings(desc)
	// every field of the Position starts from a field of the reader, each from a different one; the file name from the
	// reader's string field
	for _, u := range upds {
		if strings.HasPrefix(u.kind, "init:") && !u.inLoop {
			initOf[u.field] = strings.TrimPrefix(u.kind, "init:")
		}
	}
	distinct := map[string]bool{}
	for _, v := range initOf {
		distinct[v] = true
	}
	nameOK := roles.filename >= 0 && initOf["Filename"] == rst.Field(roles.filename).Name()
	c.Check(rule, "reader positions: a position starts from the stored file name, offset, line and column", posFn.Pos(),
		nameOK && initOf["Offset"] != "" && initOf["Line"] != "" && initOf["Column"] != "" && len(distinct) == len(initOf) && len(initOf) == pst.NumFields(),
		fmt.Sprintf("updates found: %v", desc))
	c.Check(rule, "reader positions: every rune advances the offset by one", posFn.Pos(), has("Offset", "inc", "", true) && count("Offset") == 2, fmt.Sprintf("updates found: %v", desc))
	c.Check(rule, "reader positions: a line terminator advances the line and resets the column to 1", posFn.Pos(),
		has("Line", "inc", "nl", true) && has("Column", "one", "nl", true) && count("Line") == 2, fmt.Sprintf("updates found: %v", desc))
	c.Check(rule, "reader positions: every other rune advances the column by one", posFn.Pos(), has("Column", "inc", "notnl", true) && count("Column") == 3, fmt.Sprintf("updates found: %v", desc))
	return initOf
}

func sortedKeys(m map[string]bool) []string {
	var k []string
	for x := range m {
		k = append(k, x)
	}
	sort.Strings(k)
	return k
}

// checkPosCountForm decides a position function that counts the pending lexeme as a whole instead of walking it: the offset
// grows by the number of runes, the line by the number of line feeds, and the column is either old column + runes (no line feed
// in the lexeme) or 1 + the runes after the LAST line feed. A column set to a constant when the lexeme holds a line feed forgets
// what follows the last line feed: a block comment that is closed in the middle of a line shifts every token after it.
// It reports whether it decided (passed or failed) the function.
func checkPosCountForm(c *Ctx, rule string, ri *readerInfo, roles memRoles, posFn *ssa.Function, res *ssa.Alloc, pfield func(int) string, initOf map[string]string) bool {
	recv := ssa.Value(posFn.Params[0])
	isLexeme := func(v ssa.Value) bool {
		for i := 0; i < 4; i++ {
			switch x := v.(type) {
			case *ssa.Convert:
				v = x.X
				continue
			case *ssa.ChangeType:
				v = x.X
				continue
			}
			break
		}
		sl, ok := v.(*ssa.Slice)
		return ok && loadOfField(sl.X, recv, roles.text) && sl.Low != nil && sl.High != nil && loadOfField(sl.Low, recv, roles.begin) && loadOfField(sl.High, recv, roles.forward)
	}
	callName := func(v ssa.Value) (string, *ssa.Call) {
		if call, ok := v.(*ssa.Call); ok {
			return staticCalleeName(call), call
		}
		return "", nil
	}
	isRuneCount := func(v ssa.Value, arg func(ssa.Value) bool) bool {
		n, call := callName(v)
		return (n == "unicode/utf8.RuneCount" || n == "unicode/utf8.RuneCountInString") && arg(call.Call.Args[0])
	}
	isNLCount := func(v ssa.Value) bool {
		n, call := callName(v)
		return (n == "bytes.Count" || n == "strings.Count") && isLexeme(call.Call.Args[0])
	}
	// the tail after the last line feed: a slice of the lexeme (or of the text) whose low bound is LastIndex...(lexeme, '\n') + 1
	isTail := func(v ssa.Value) bool {
		for i := 0; i < 4; i++ {
			if cv, ok := v.(*ssa.Convert); ok {
				v = cv.X
				continue
			}
			break
		}
		sl, ok := v.(*ssa.Slice)
		if !ok || sl.Low == nil {
			return false
		}
		found := false
		low := sl.Low
		if bo, ok := low.(*ssa.BinOp); ok && bo.Op == token.ADD && isConstInt(bo.Y, 1) {
			low = bo.X
		}
		for _, r := range rootsOf(posFn, low, func(x ssa.Value) bool { _, ok := x.(*ssa.Call); return ok }) {
			if n, _ := callName(r); n == "bytes.LastIndexByte" || n == "bytes.LastIndex" || n == "strings.LastIndexByte" || n == "strings.LastIndex" || n == "bytes.LastIndexAny" {
				found = true
			}
		}
		return found
	}
	loadOfRes := func(v ssa.Value, field int) bool {
		u, ok := v.(*ssa.UnOp)
		if !ok || u.Op != token.MUL {
			return false
		}
		fa, ok := u.X.(*ssa.FieldAddr)
		return ok && fa.X == ssa.Value(res) && fa.Field == field
	}
	sawCount := false
	for _, b := range posFn.Blocks {
		for _, in := range b.Instrs {
			if v, ok := in.(ssa.Value); ok && (isNLCount(v) || isRuneCount(v, isLexeme)) {
				sawCount = true
			}
		}
	}
	if !sawCount {
		return false
	}
	okOffset, okLine, colPlain, colTail := false, false, false, false
	bad, unclear := "", ""
	for _, b := range posFn.Blocks {
		for _, in := range b.Instrs {
			st, ok := in.(*ssa.Store)
			if !ok {
				continue
			}
			fa, ok := st.Addr.(*ssa.FieldAddr)
			if !ok || fa.X != ssa.Value(res) {
				continue
			}
			if _, isInit := st.Val.(*ssa.UnOp); isInit && fieldOfLoad(st.Val, recv) >= 0 {
				initOf[pfield(fa.Field)] = ri.typ.Underlying().(*types.Struct).Field(fieldOfLoad(st.Val, recv)).Name()
				continue // starts from the reader's stored position
			}
			name := pfield(fa.Field)
			// is this store made where the lexeme is known to hold a line feed?
			hasNL := false
			for _, cd := range controlConds(b) {
				if bo, ok := cd.v.(*ssa.BinOp); ok && isNLCount(bo.X) && isConstInt(bo.Y, 0) {
					if (bo.Op == token.GTR && cd.pol) || (bo.Op == token.NEQ && cd.pol) || (bo.Op == token.EQL && !cd.pol) || (bo.Op == token.LEQ && !cd.pol) {
						hasNL = true
					}
				}
				if bo, ok := cd.v.(*ssa.BinOp); ok && isConstInt(bo.Y, 0) {
					if n, _ := callName(bo.X); strings.Contains(n, "LastIndex") || strings.Contains(n, "IndexByte") {
						if (bo.Op == token.GEQ && cd.pol) || (bo.Op == token.LSS && !cd.pol) {
							hasNL = true
						}
					}
				}
			}
			bo, isAdd := st.Val.(*ssa.BinOp)
			switch name {
			case "Offset":
				if isAdd && bo.Op == token.ADD && loadOfRes(bo.X, fa.Field) && isRuneCount(bo.Y, isLexeme) {
					okOffset = true
				} else {
					unclear = "the offset is not old offset + number of runes of the lexeme"
				}
			case "Line":
				if isAdd && bo.Op == token.ADD && loadOfRes(bo.X, fa.Field) && isNLCount(bo.Y) {
					okLine = true
				} else {
					unclear = "the line is not old line + number of line feeds of the lexeme"
				}
			case "Column":
				switch {
				case isAdd && bo.Op == token.ADD && loadOfRes(bo.X, fa.Field) && isRuneCount(bo.Y, isLexeme) && !hasNL:
					colPlain = true
				case isAdd && bo.Op == token.ADD && ((isConstInt(bo.X, 1) && isRuneCount(bo.Y, isTail)) || (isConstInt(bo.Y, 1) && isRuneCount(bo.X, isTail))):
					colTail = true
				case hasNL:
					if _, isConst := st.Val.(*ssa.Const); isConst {
						bad = "where the lexeme holds a line feed the column is set to a constant: the characters between the last line feed of the lexeme and its end are not counted"
					} else {
						unclear = "the column after a line feed is not 1 + the runes after the last line feed"
					}
				default:
					unclear = "a column update that is neither old column + runes nor 1 + runes after the last line feed"
				}
			}
		}
	}
	key := "reader positions: the pending lexeme is counted as a whole (runes, line feeds, runes after the last line feed)"
	switch {
	case bad != "":
		c.Fail(rule, key, posFn.Pos(), bad+": every token up to the next line feed is reported too far left", "a /* ... */ comment that spans two lines and is closed in the middle of a line, followed by a token on that line")
		return true
	case unclear == "" && okOffset && okLine && colPlain && colTail:
		c.Pass(rule, key, posFn.Pos(), "offset + runes; line + line feeds; column + runes, or 1 + runes after the last line feed")
		return true
	}
	if os.Getenv("EMCHECK_DEBUG") != "" {
		fmt.Fprintf(os.Stderr, "count form: offset=%v line=%v colPlain=%v colTail=%v unclear=%q\n", okOffset, okLine, colPlain, colTail, unclear)
	}
	return false
}
