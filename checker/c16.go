package main

import (
	"fmt"
	"go/ast"
	"go/constant"
	"go/token"
	"go/types"
	"regexp/syntax"
	"sort"
	"strings"

	"golang.org/x/tools/go/ssa"
)

func init() {
	register(&property{id: "C16", run: runC16, meta: propMeta{
		level: "other",
		explanation: "Effect confinement over the RTA call graph from main.main (the only file-system mutators reachable in non-stdlib code are os.Mkdir and os.OpenFile with O_CREATE|O_EXCL and without O_TRUNC/O_APPEND); " +
			"validate-before-create and prepare-before-render dominance; path arguments derive from -out, the (possibly overridden) name and constant file names; success message / nil error / exit 0 are tied together by control dependence and error-reaches-return; the identifier rule (syntax pattern = Go identifier, all 25 keywords reserved, blank identifier). " +
			"Decides these structural necessary conditions, not behaviour against concrete directory states.",
		trusted: []string{"documented semantics of os.Mkdir (fails if the name exists) and O_EXCL", "stdlib functions outside the reviewed mutator table do not modify the file system", "RTA call graph (x/tools v0.29.0)"},
		assumptions: []string{"symlinks/permissions of pre-existing directories are outside the rule", "text/template.Execute writes only to the writer it is given"},
	}})
}

// reviewed table of file-system mutators and process-spawning entry points (fully-qualified)
var fsForbidden = map[string]string{
	"os.MkdirAll": "creates missing parents silently", "os.Create": "truncates an existing file", "os.WriteFile": "truncates an existing file",
	"os.Remove": "deletes", "os.RemoveAll": "deletes", "os.Rename": "moves/overwrites", "os.Truncate": "truncates", "os.Chmod": "changes mode",
	"os.Chown": "changes owner", "os.Lchown": "changes owner", "os.Chtimes": "changes times", "os.Symlink": "creates a link", "os.Link": "creates a link",
	"os.MkdirTemp": "creates a directory", "os.CreateTemp": "creates a file", "os.CopyFS": "writes a tree",
	"os.(File).Truncate": "truncates", "os.(File).Chmod": "changes mode", "os.(File).Chown": "changes owner", "os.(File).WriteAt": "overwrites",
	"os.(Root).Create": "truncates", "os.(Root).Remove": "deletes", "os.(Root).OpenFile": "unchecked flags", "os.(Root).Mkdir": "creates",
	"io/ioutil.WriteFile": "truncates an existing file", "io/ioutil.TempFile": "creates a file", "io/ioutil.TempDir": "creates a directory",
	"os/exec.Command": "spawns a process", "os/exec.CommandContext": "spawns a process", "os.StartProcess": "spawns a process",
	"syscall.Unlink": "deletes", "syscall.Rename": "moves", "syscall.Open": "raw open", "syscall.Mkdir": "raw mkdir", "syscall.Rmdir": "deletes",
	"syscall.Truncate": "truncates", "syscall.Chmod": "changes mode", "syscall.Exec": "replaces the process",
}

func runC16(c *Ctx) {
	c.Rule("R16.1", 3, "effect confinement: reachable file-system mutators are exactly os.Mkdir and os.OpenFile(O_CREATE|O_EXCL, no O_TRUNC/O_APPEND)")
	c.Rule("R16.2", 3, "validate before create; prepare before render")
	c.Rule("R16.3", 5, "created paths derive from -out, the name and constant file names; -name override precedes generation")
	c.Rule("R16.4", 8, "success message <=> nil error <=> exit 0")
	c.Rule("R16.6", 2, "a step that writes files of the package does not return success before it has rendered them")
	c.Rule("R16.5", 4, "identifier rule: Go identifier syntax, all keywords reserved")

	main := c.mainFunc()
	if main == nil {
		c.Lost("R16.1", "cmd/emerge main.main")
		return
	}
	ri := c.reachableFrom(main)
	c.Extra("reachable_functions", len(ri.funcs))
	c.Extra("reachable_non_stdlib", len(ri.nonStd()))

	// ---- R16.1
	var mkdirs, opens []*ssa.Call
	nSites := 0
	for _, f := range ri.nonStd() {
		allCalls(f, func(call ssa.CallInstruction) {
			n := staticCalleeName(call)
			if n == "" {
				return
			}
			if strings.HasPrefix(n, "os.") || strings.HasPrefix(n, "io/ioutil.") || strings.HasPrefix(n, "os/exec.") || strings.HasPrefix(n, "syscall.") {
				nSites++
			}
			if why, bad := fsForbidden[n]; bad {
				c.Fail("R16.1", "no call of "+n+" in "+shortFn(f), call.Pos(), fmt.Sprintf("%s is reachable from main.main via %s: %s; a run may modify or delete something that existed before it started", n, shortFn(f), why))
			}
			if cv, ok := call.(*ssa.Call); ok {
				switch n {
				case "os.Mkdir":
					mkdirs = append(mkdirs, cv)
				case "os.OpenFile":
					opens = append(opens, cv)
				}
			}
		})
	}
	c.Extra("os_call_sites_examined", nSites)
	for _, call := range opens {
		k, ok := call.Call.Args[1].(*ssa.Const)
		key := "os.OpenFile flags in " + shortFn(call.Parent())
		if !ok || k.Value == nil {
			c.Fail("R16.1", key, call.Pos(), "the open flags are not a constant: exclusivity cannot be established")
			continue
		}
		fl, _ := constant.Int64Val(constant.ToInt(k.Value))
		const oCreate, oExcl, oTrunc, oAppend = 0x40, 0x80, 0x200, 0x400 // linux values, cross-checked below
		good := fl&oCreate != 0 && fl&oExcl != 0 && fl&oTrunc == 0 && fl&oAppend == 0
		c.Check("R16.1", key, call.Pos(), good, fmt.Sprintf("flags %#x: need O_CREATE|O_EXCL and neither O_TRUNC nor O_APPEND, otherwise an existing file is modified", fl))
	}
	checkOSFlagConsts(c)
	c.Check("R16.1", "at least one os.Mkdir site (fails on an existing name)", token.NoPos, len(mkdirs) >= 1, "no os.Mkdir site is reachable: the rule no longer sees how the package directory is created")
	c.Check("R16.1", "at least one os.OpenFile site", token.NoPos, len(opens) >= 1, "no os.OpenFile site is reachable: the rule no longer sees how files are created")

	gp := c.Pkg("internal/generate/golang")
	if gp == nil {
		c.Lost("R16.2", "package internal/generate/golang")
		return
	}
	// ---- R16.2 / R16.3 on creation sites
	var idValid *types.Func
	if fds := findFuncBySig(gp, []func(types.Type) bool{isString}, []func(types.Type) bool{isBool}); len(fds) == 1 {
		idValid, _ = gp.TypesInfo.Defs[fds[0].Name].(*types.Func)
		checkIdentifierRule(c, fds[0])
	} else {
		c.Lost("R16.5", fmt.Sprintf("the identifier validity function func(string) bool (found %d)", len(fds)))
	}
	// a creation site: where the path is built and the call is guarded. When the primitive sits in a small helper whose
	// path is its parameter, the helper's call sites are the creation sites.
	type site struct {
		pos   token.Pos
		path  ssa.Value
		block *ssa.BasicBlock
		fn    *ssa.Function
	}
	var expand func(fn *ssa.Function, path ssa.Value, block *ssa.BasicBlock, pos token.Pos, depth int) []site
	expand = func(fn *ssa.Function, path ssa.Value, block *ssa.BasicBlock, pos token.Pos, depth int) []site {
		if par, ok := path.(*ssa.Parameter); ok && depth < 3 {
			idx := -1
			for i, q := range fn.Params {
				if q == par {
					idx = i
				}
			}
			var out []site
			for _, g := range ri.module() {
				allCalls(g, func(cs ssa.CallInstruction) {
					if cs.Common().StaticCallee() == fn && idx >= 0 && idx < len(cs.Common().Args) {
						out = append(out, expand(g, cs.Common().Args[idx], cs.Block(), cs.Pos(), depth+1)...)
					}
				})
			}
			if len(out) > 0 {
				return out
			}
		}
		return []site{{pos, path, block, fn}}
	}
	for _, call := range mkdirs {
		for _, st := range expand(call.Parent(), call.Call.Args[0], call.Block(), call.Pos(), 0) {
			fn := st.fn
			c.Analysed(shortFn(fn))
			parts := joinParts(fn, st.path)
			okPath := len(parts) == 2 && strings.HasSuffix(parts[0], ".Path") && strings.HasSuffix(parts[1], ".Spec.Name")
			if !okPath && partsUnknown(parts) {
				c.Undecided("R16.3", "os.Mkdir path is Join(<out>, <name>) in "+shortFn(fn), st.pos, fmt.Sprintf("the directory path is built in a way this rule does not follow: %v", parts))
			} else {
				c.Check("R16.3", "os.Mkdir path is Join(<out>, <name>) in "+shortFn(fn), st.pos, okPath, fmt.Sprintf("directory path is built from %v", parts))
			}
			// validity test dominates
			guarded := false
			var guardArg string
			for _, cd := range controlConds(st.block) {
				if vc, ok := cd.v.(*ssa.Call); ok && calleeFunc(vc) == idValid && idValid != nil && cd.pol {
					guarded = true
					guardArg = accessPath(vc.Call.Args[0])
				}
			}
			c.Check("R16.2", "os.Mkdir is dominated by a successful identifier check in "+shortFn(fn), st.pos, guarded, "a directory can be created before (or without) the package name being validated")
			if guarded && len(parts) == 2 {
				c.Check("R16.2", "the validated name is the directory name in "+shortFn(fn), st.pos, guardArg != "" && guardArg == parts[1], fmt.Sprintf("validated %q, created %q", guardArg, parts[1]))
			}
		}
	}
	for _, call := range opens {
		for _, st := range expand(call.Parent(), call.Call.Args[0], call.Block(), call.Pos(), 0) {
			fn := st.fn
			c.Analysed(shortFn(fn))
			parts := joinParts(fn, st.path)
			okPath := len(parts) == 3 && strings.HasSuffix(parts[0], ".Path") && strings.HasSuffix(parts[1], ".Spec.Name") && strings.HasPrefix(parts[2], "param:")
			if !okPath && partsUnknown(parts) {
				c.Undecided("R16.3", "os.OpenFile path is Join(<out>, <name>, <file>) in "+shortFn(fn), st.pos, fmt.Sprintf("the file path is built in a way this rule does not follow: %v", parts))
			} else {
				c.Check("R16.3", "os.OpenFile path is Join(<out>, <name>, <file>) in "+shortFn(fn), st.pos, okPath, fmt.Sprintf("file path is built from %v", parts))
			}
		}
	}
	// no store to Spec.Name inside the generator package (the validated name stays the created name)
	nameStores := 0
	for _, f := range ri.module() {
		if fnPkgPath(f) != gp.PkgPath {
			continue
		}
		for _, b := range f.Blocks {
			for _, in := range b.Instrs {
				if st, ok := in.(*ssa.Store); ok {
					if fa, ok := st.Addr.(*ssa.FieldAddr); ok && fieldName(fa) == "Name" {
						nameStores++
						c.Fail("R16.2", "the name is not rewritten after validation in "+shortFn(f), st.Pos(), "the generator stores into a Name field: the validated and the created name may differ")
					}
				}
			}
		}
	}
	if nameStores == 0 {
		c.Pass("R16.2", "the name is not rewritten inside the generator package", token.NoPos, "")
	}

	// prepare before render: in Generate every call that can reach os.OpenFile is dominated by prepare() == nil
	if gen := FuncDecl(gp, "", "Generate"); gen != nil {
		fn := c.SSAFunc(gp, gen)
		c.Analysed(funcKey(gp, gen))
		var prepErr ssa.Value
		allCalls(fn, func(call ssa.CallInstruction) {
			if cf := call.Common().StaticCallee(); cf != nil && ri.reaches(cf, map[string]bool{"os.Mkdir": true}) && !ri.reaches(cf, map[string]bool{"os.OpenFile": true}) {
				if v, ok := call.(ssa.Value); ok && isErr(v.Type()) {
					prepErr = v
				}
			}
		})
		dynamicCalls := false
		allCalls(fn, func(call ssa.CallInstruction) {
			if call.Common().StaticCallee() == nil && !call.Common().IsInvoke() {
				if _, isBuiltin := call.Common().Value.(*ssa.Builtin); !isBuiltin {
					dynamicCalls = true
				}
			}
		})
		// steps kept as function or method values (a table of stages handed to a helper) are dynamic dispatch too
		for _, b := range fn.Blocks {
			for _, in := range b.Instrs {
				if _, isMC := in.(*ssa.MakeClosure); isMC {
					dynamicCalls = true
				}
				if call, isCall := in.(ssa.CallInstruction); isCall {
					for _, a := range call.Common().Args {
						if _, isFn := a.(*ssa.Function); isFn {
							dynamicCalls = true
						}
					}
				}
				if st, isStore := in.(*ssa.Store); isStore {
					if _, isFn := st.Val.(*ssa.Function); isFn {
						dynamicCalls = true
					}
				}
			}
		}
		if prepErr == nil && dynamicCalls {
			c.Undecided("R16.2", "Generate: the preparation step (creates the directory, creates no file) is identified", gen.Pos(), "Generate runs its steps through function values: which call is the preparation step, and what it dominates, was not followed")
		} else if c.Check("R16.2", "Generate: the preparation step (creates the directory, creates no file) is identified", gen.Pos(), prepErr != nil, "no callee of Generate reaches os.Mkdir without reaching os.OpenFile") {
			n := 0
			allCalls(fn, func(call ssa.CallInstruction) {
				cf := call.Common().StaticCallee()
				if cf == nil || !ri.reaches(cf, map[string]bool{"os.OpenFile": true}) {
					return
				}
				n++
				c.Check("R16.2", "Generate: "+cf.Name()+" runs only after a successful preparation", call.Pos(), controlledNil(call.Block(), prepErr, false),
					"a file-creating step is not dominated by the nil test of the preparation step's error")
			})
			c.Check("R16.2", "Generate: file-creating steps found", gen.Pos(), n >= 3, fmt.Sprintf("%d file-creating steps", n))
			// R16.4: every step's error reaches Generate's result
			allCalls(fn, func(call ssa.CallInstruction) {
				v, ok := call.(ssa.Value)
				if !ok || !isErr(v.Type()) || call.Common().StaticCallee() == nil || !strings.HasPrefix(fnPkgPath(call.Common().StaticCallee()), modPath) {
					return
				}
				c.Check("R16.4", "Generate: error of "+call.Common().StaticCallee().Name()+" reaches the result", call.Pos(), errReachesReturn(fn, v), "the step's error is dropped: the run can report success with files missing")
			})
		}
	} else {
		c.Lost("R16.2", "golang.Generate")
	}
	// R16.4 inside the generator: every error produced on the way to a file reaches the caller
	for _, f := range ri.module() {
		if fnPkgPath(f) != gp.PkgPath || f.Name() == "Generate" {
			continue
		}
		res := f.Signature.Results()
		if res.Len() == 0 || !isErr(res.At(res.Len()-1).Type()) {
			continue
		}
		allCalls(f, func(call ssa.CallInstruction) {
			v, ok := call.(ssa.Value)
			if !ok {
				// a deferred call hands its results to nobody: `defer w.Flush()` drops the error of the write that empties the buffer
				if d, isDefer := call.(*ssa.Defer); isDefer {
					sig := d.Call.Signature()
					if sig != nil && sig.Results().Len() > 0 && isErr(sig.Results().At(sig.Results().Len()-1).Type()) {
						name := staticCalleeName(call)
						if name == "" {
							name = methodNameOf(call)
						}
						// closing an *os.File loses nothing that Write has not reported already (the file is not buffered)
						if !errorIgnorable(name) && name != "os.(File).Close" && name != "(*os.File).Close" {
							c.Fail("R16.4", shortFn(f)+": error of the deferred "+name+" reaches the result", call.Pos(),
								"the call is deferred as it is, so its error result is discarded: a write that fails inside it (the last flush of a buffered writer) leaves a truncated file while success is reported",
								"a write fault that hits only the final flush (a file-size limit between the last full buffer and the end of the file)")
						}
					}
				}
				return
			}
			var ev ssa.Value
			if isErr(v.Type()) {
				ev = v
			} else if tu, ok := v.Type().(*types.Tuple); ok && tu.Len() > 0 && isErr(tu.At(tu.Len()-1).Type()) {
				for _, r := range *v.Referrers() {
					if ex, ok := r.(*ssa.Extract); ok && ex.Index == tu.Len()-1 {
						ev = ex
					}
				}
				if ev == nil {
					name := staticCalleeName(call)
					if name == "" {
						name = methodNameOf(call)
					}
					if !errorIgnorable(name) {
						c.Fail("R16.4", shortFn(f)+": error of "+name+" is used", call.Pos(), "the error result is discarded")
					}
					return
				}
			}
			if ev == nil {
				return
			}
			name := staticCalleeName(call)
			if name == "" {
				name = methodNameOf(call)
			}
			if errorIgnorable(name) {
				return
			}
			c.Check("R16.4", shortFn(f)+": error of "+name+" reaches the result", call.Pos(), errReachesReturn(f, ev), "the error is dropped on the way to the caller: success can be reported although a file was not (completely) written")
		})
	}

	checkDeferOverwrite(c, "R16.4", ri.module())
	// ---- Run
	checkRun(c)
	// ---- main
	checkMainExit(c, "R16.4")
	checkNoSuccessBeforeRender(c, "R16.6")
}

func errorIgnorable(name string) bool {
	switch name {
	case "fmt.Fprintf", "fmt.Fprint", "fmt.Fprintln", "fmt.Println", "fmt.Printf", "bytes.(Buffer).WriteString", "bytes.(Buffer).Write":
		return true // writes to in-memory buffers / terminal chatter
	}
	return false
}

func isBool(t types.Type) bool {
	b, ok := t.Underlying().(*types.Basic)
	return ok && b.Kind() == types.Bool
}

func shortFn(f *ssa.Function) string {
	if f == nil {
		return "?"
	}
	s := f.String()
	s = strings.ReplaceAll(s, modPath+"/", "")
	return s
}

// accessPath renders a pure load/field chain rooted at a parameter: "g.Params.Spec.Name".
func accessPath(v ssa.Value) string {
	switch x := v.(type) {
	case *ssa.Parameter:
		return x.Name()
	case *ssa.UnOp:
		if x.Op == token.MUL {
			return accessPath(x.X)
		}
	case *ssa.FieldAddr:
		if p := accessPath(x.X); p != "" {
			return p + "." + fieldName(x)
		}
	case *ssa.Field:
		if p := accessPath(x.X); p != "" {
			st := x.X.Type().Underlying().(*types.Struct)
			return p + "." + st.Field(x.Field).Name()
		}
	case *ssa.FreeVar:
		return x.Name()
	case *ssa.IndexAddr:
		if k, ok := x.Index.(*ssa.Const); ok && k.Value != nil {
			if p := accessPath(x.X); p != "" {
				return p + "[" + k.Value.ExactString() + "]"
			}
		}
	case *ssa.Extract, *ssa.Call, *ssa.Phi, *ssa.TypeAssert, *ssa.Lookup, *ssa.Next:
		return v.Name() // an SSA value is immutable: a field/element path rooted at it denotes one location
	}
	return ""
}

// joinParts resolves path == filepath.Join(a, b, ...) and returns the access paths / parameter names of the parts.
func joinParts(fn *ssa.Function, v ssa.Value) []string {
	call, ok := v.(*ssa.Call)
	if !ok {
		return []string{"<not filepath.Join>"}
	}
	if staticCalleeName(call) != "path/filepath.Join" {
		// a helper of the package that returns the joined path (e.g. the package directory)
		if parts := helperPathParts(call, 0); parts != nil {
			return parts
		}
		return []string{"<not filepath.Join>"}
	}
	return joinElems(fn, call, 0)
}

// joinElems flattens the elements of a filepath.Join call; an element that is itself a joined path (a nested Join, or a helper
// of the package returning one) contributes its own elements.
func joinElems(fn *ssa.Function, call *ssa.Call, depth int) []string {
	if len(call.Call.Args) != 1 {
		return []string{"<not a literal argument list>"}
	}
	sl, ok := call.Call.Args[0].(*ssa.Slice)
	if !ok {
		return []string{"<not a literal argument list>"}
	}
	al, ok := sl.X.(*ssa.Alloc)
	if !ok {
		return []string{"<not a literal argument list>"}
	}
	parts := map[int64][]string{}
	for _, r := range *al.Referrers() {
		ia, ok := r.(*ssa.IndexAddr)
		if !ok {
			continue
		}
		k, ok := ia.Index.(*ssa.Const)
		if !ok {
			return []string{"<computed index>"}
		}
		idx, _ := constant.Int64Val(constant.ToInt(k.Value))
		for _, rr := range *ia.Referrers() {
			if st, ok := rr.(*ssa.Store); ok {
				switch x := st.Val.(type) {
				case *ssa.Parameter:
					parts[idx] = []string{"param:" + x.Name()}
				case *ssa.Const:
					parts[idx] = []string{"const:" + x.Value.ExactString()}
				case *ssa.Call:
					if staticCalleeName(x) == "path/filepath.Join" && depth < 3 {
						parts[idx] = joinElems(fn, x, depth+1)
					} else if hp := helperPathParts(x, depth+1); hp != nil {
						parts[idx] = hp
					} else {
						parts[idx] = []string{"<" + x.String() + ">"}
					}
				default:
					if p := accessPath(st.Val); p != "" {
						parts[idx] = []string{p}
					} else {
						parts[idx] = []string{"<" + st.Val.String() + ">"}
					}
				}
			}
		}
	}
	var idxs []int64
	for k := range parts {
		idxs = append(idxs, k)
	}
	sort.Slice(idxs, func(i, j int) bool { return idxs[i] < idxs[j] })
	var out []string
	for _, k := range idxs {
		out = append(out, parts[k]...)
	}
	return out
}

// helperPathParts: call is a static call of a function of the module with one string result, every return of which is a
// filepath.Join (or another such helper): the elements of that path, named relative to the helper's own receiver/parameters.
func helperPathParts(call *ssa.Call, depth int) []string {
	g := call.Call.StaticCallee()
	if g == nil || depth > 3 || len(g.Blocks) == 0 || !strings.HasPrefix(fnPkgPath(g), modPath) || g.Signature.Results().Len() != 1 {
		return nil
	}
	var parts []string
	n := 0
	for _, b := range g.Blocks {
		ret, ok := b.Instrs[len(b.Instrs)-1].(*ssa.Return)
		if !ok {
			continue
		}
		n++
		rc, ok := retOperand(ret, 0).(*ssa.Call)
		if !ok {
			return nil
		}
		var p []string
		if staticCalleeName(rc) == "path/filepath.Join" {
			p = joinElems(g, rc, depth+1)
		} else {
			p = helperPathParts(rc, depth+1)
		}
		if p == nil || (parts != nil && strings.Join(parts, "|") != strings.Join(p, "|")) {
			return nil
		}
		parts = p
	}
	if n == 0 {
		return nil
	}
	return parts
}

func checkOSFlagConsts(c *Ctx) {
	// cross-check the numeric values used above with package os as type-checked for this build
	osp := c.All["os"]
	if osp == nil {
		c.Lost("R16.1", "package os")
		return
	}
	want := map[string]int64{"O_CREATE": 0x40, "O_EXCL": 0x80, "O_TRUNC": 0x200, "O_APPEND": 0x400}
	for n, w := range want {
		k, ok := osp.Types.Scope().Lookup(n).(*types.Const)
		v, _ := constant.Int64Val(constant.ToInt(k.Val()))
		if !ok || v != w {
			c.Fail("R16.1", "os."+n+" value", token.NoPos, fmt.Sprintf("os.%s is %#x on this platform, the rule assumes %#x", n, v, w))
		}
	}
}

// ---------- R16.5 ----------

func checkIdentifierRule(c *Ctx, fd *ast.FuncDecl) {
	gp := c.Pkg("internal/generate/golang")
	info := gp.TypesInfo
	c.Analysed(funcKey(gp, fd))
	// shape: return A && !B (in any order), A = <pkg regexp>.MatchString(name), B = AnyMatch(<pkg list>, func(s) bool { return s == name })
	var ret *ast.ReturnStmt
	if len(fd.Body.List) == 1 {
		ret, _ = fd.Body.List[0].(*ast.ReturnStmt)
	}
	if ret == nil || len(ret.Results) != 1 {
		c.Undecided("R16.5", "identifier rule shape", fd.Pos(), "the function is not a single return of a conjunction")
		return
	}
	var conj []ast.Expr
	var flat func(e ast.Expr)
	flat = func(e ast.Expr) {
		e = ast.Unparen(e)
		if b, ok := e.(*ast.BinaryExpr); ok && b.Op == token.LAND {
			flat(b.X)
			flat(b.Y)
			return
		}
		conj = append(conj, e)
	}
	flat(ret.Results[0])
	var pattern string
	var reserved []string
	haveSyntax, haveReserved, haveBlank := false, false, false
	param := info.Defs[fd.Type.Params.List[0].Names[0]]
	for _, e := range conj {
		switch v := e.(type) {
		case *ast.CallExpr:
			if sel, ok := v.Fun.(*ast.SelectorExpr); ok && sel.Sel.Name == "MatchString" && len(v.Args) == 1 && objOf(info, v.Args[0]) == param {
				if rv, ok := objOf(info, sel.X).(*types.Var); ok {
					if init, _ := PkgVarInit(gp, rv.Name()); init != nil {
						if call, ok := init.(*ast.CallExpr); ok && len(call.Args) == 1 {
							if s, ok := constStr(info, call.Args[0]); ok {
								pattern, haveSyntax = s, true
							}
						}
					}
				}
			}
		case *ast.UnaryExpr:
			if v.Op != token.NOT {
				continue
			}
			call, ok := ast.Unparen(v.X).(*ast.CallExpr)
			if !ok || len(call.Args) != 2 {
				continue
			}
			if fo := objOf(info, call.Fun); fo == nil || fo.Name() != "AnyMatch" {
				continue
			}
			lv, ok := objOf(info, call.Args[0]).(*types.Var)
			if !ok {
				continue
			}
			init, _ := PkgVarInit(gp, lv.Name())
			if init == nil {
				continue
			}
			list, err := evalStringList(info, init)
			if err != nil {
				continue
			}
			// predicate must be equality with the parameter
			if fl, ok := call.Args[1].(*ast.FuncLit); ok && len(fl.Body.List) == 1 {
				if r, ok := fl.Body.List[0].(*ast.ReturnStmt); ok && len(r.Results) == 1 {
					if b, ok := ast.Unparen(r.Results[0]).(*ast.BinaryExpr); ok && b.Op == token.EQL &&
						(objOf(info, b.X) == param || objOf(info, b.Y) == param) {
						reserved, haveReserved = list, true
					}
				}
			}
		case *ast.BinaryExpr:
			if v.Op == token.NEQ {
				if s, ok := constStr(info, v.Y); ok && s == "_" && objOf(info, v.X) == param {
					haveBlank = true
				}
			}
		}
	}
	if !c.Check("R16.5", "identifier rule has a syntax test and a reserved-word test", fd.Pos(), haveSyntax && haveReserved, "the validity function is not syntax-test && !reserved") {
		return
	}
	// syntax: the Go identifier language
	want, _ := syntax.Parse(`^[\pL_][\pL\p{Nd}_]*$`, syntax.Perl)
	got, err := syntax.Parse(pattern, syntax.Perl)
	same := err == nil && got.Simplify().String() == want.Simplify().String()
	c.Check("R16.5", "the syntax pattern is exactly Go's identifier syntax (anchored)", fd.Pos(), same, fmt.Sprintf("pattern %q is not equivalent to ^[\\pL_][\\pL\\p{Nd}_]*$: names that are not Go identifiers pass, or identifiers are refused", pattern))
	rs := map[string]bool{}
	for _, r := range reserved {
		rs[r] = true
	}
	var missing []string
	for t := token.BREAK; t <= token.VAR; t++ {
		if t.IsKeyword() && !rs[t.String()] {
			missing = append(missing, t.String())
		}
	}
	c.Check("R16.5", "all 25 Go keywords are reserved", fd.Pos(), len(missing) == 0, fmt.Sprintf("keywords accepted as package names: %v", missing), strings.Join(missing, " "))
	c.Check("R16.5", "the blank identifier is refused", fd.Pos(), haveBlank || rs["_"], "the name _ passes the identifier test, but `package _` is not a usable package name", "_")
}

// ---------- Run ----------

func checkRun(c *Ctx) {
	cp := c.Pkg("internal/command")
	if cp == nil {
		c.Lost("R16.4", "package internal/command")
		return
	}
	fd := FuncDecl(cp, "Command", "Run")
	if fd == nil {
		c.Lost("R16.4", "(*Command).Run")
		return
	}
	fn := c.SSAFunc(cp, fd)
	c.Analysed(funcKey(cp, fd))
	var parseCall, genCall *ssa.Call
	allCalls(fn, func(call ssa.CallInstruction) {
		cv, ok := call.(*ssa.Call)
		if !ok || call.Common().IsInvoke() || call.Common().StaticCallee() != nil {
			return
		}
		sig := call.Common().Signature()
		if sig.Results().Len() == 2 && isErr(sig.Results().At(1).Type()) {
			if _, n := namedTypeName(sig.Results().At(0).Type()); n == "Spec" {
				parseCall = cv
			}
		}
		if sig.Results().Len() == 1 && isErr(sig.Results().At(0).Type()) && sig.Params().Len() == 2 {
			if _, n := namedTypeName(sig.Params().At(1).Type()); n == "Params" {
				genCall = cv
			}
		}
	})
	if parseCall == nil || genCall == nil {
		c.Lost("R16.4", "the parse and generate calls in Run")
		return
	}
	var parseErr, specVal ssa.Value
	for _, r := range *parseCall.Referrers() {
		if ex, ok := r.(*ssa.Extract); ok {
			if ex.Index == 1 {
				parseErr = ex
			} else {
				specVal = ex
			}
		}
	}
	c.Check("R16.4", "Run: the parse error is returned", parseCall.Pos(), parseErr != nil && errReachesReturn(fn, parseErr), "the error of the parse step does not reach Run's result")
	c.Check("R16.4", "Run: the generate error is returned", genCall.Pos(), errReachesReturn(fn, genCall), "the error of the generate step does not reach Run's result")
	c.Check("R16.4", "Run: generation only after a successful parse", genCall.Pos(), parseErr != nil && controlledNil(genCall.Block(), parseErr, false), "Generate can run although Parse failed")
	// every `return nil` is controlled by both errors being nil
	nNil := 0
	for _, b := range fn.Blocks {
		ret, ok := b.Instrs[len(b.Instrs)-1].(*ssa.Return)
		if !ok || !isNilConst(retOperand(ret, 0)) {
			continue
		}
		nNil++
		c.Check("R16.4", "Run: success is returned only if parse and generate succeeded", ret.Pos(),
			parseErr != nil && controlledNil(b, parseErr, false) && controlledNil(b, genCall, false), "a nil result is returned on a path where one of the two errors was not tested to be nil")
	}
	c.Check("R16.4", "Run: has a success return", fd.Pos(), nNil >= 1, "no `return nil` in Run")
	// success message
	msgs := 0
	allCalls(fn, func(call ssa.CallInstruction) {
		for _, a := range call.Common().Args {
			if k, ok := a.(*ssa.Const); ok && k.Value != nil && k.Value.Kind() == constant.String && strings.Contains(strings.ToLower(constant.StringVal(k.Value)), "success") {
				msgs++
				c.Check("R16.4", "Run: success is announced only if parse and generate succeeded", call.Pos(),
					parseErr != nil && controlledNil(call.Block(), parseErr, false) && controlledNil(call.Block(), genCall, false), "the success message is printed on a path where an error was not excluded")
			}
		}
	})
	c.Check("R16.4", "Run: success message found", fd.Pos(), msgs >= 1, "no success message in Run")

	// R16.3: Params{Path: c.Out, Spec: spec}; spec.Name = c.Name under c.Name != ""
	var params *ssa.Alloc
	if a, ok := genCall.Call.Args[1].(*ssa.Alloc); ok {
		params = a
	}
	if !c.Check("R16.3", "Run: Generate receives a Params literal", genCall.Pos(), params != nil, "the second argument of Generate is not a local Params literal") {
		return
	}
	got := map[string]string{}
	for _, r := range *params.Referrers() {
		fa, ok := r.(*ssa.FieldAddr)
		if !ok {
			continue
		}
		for _, rr := range *fa.Referrers() {
			if st, ok := rr.(*ssa.Store); ok && st.Addr == fa {
				if st.Val == specVal {
					got[fieldName(fa)] = "<spec>"
				} else {
					got[fieldName(fa)] = accessPath(st.Val)
				}
			}
		}
	}
	c.Check("R16.3", "Run: Params.Path is the -out flag", genCall.Pos(), strings.HasSuffix(got["Path"], ".Out"), "Params.Path is "+got["Path"])
	c.Check("R16.3", "Run: Params.Spec is the parsed specification", genCall.Pos(), got["Spec"] == "<spec>", "Params.Spec is "+got["Spec"])
	// name override
	over := false
	for _, b := range fn.Blocks {
		for _, in := range b.Instrs {
			st, ok := in.(*ssa.Store)
			if !ok {
				continue
			}
			fa, ok := st.Addr.(*ssa.FieldAddr)
			if !ok || fieldName(fa) != "Name" || fa.X != specVal {
				continue
			}
			src := accessPath(st.Val)
			guard := false
			for _, cd := range controlConds(b) {
				if bo, ok := cd.v.(*ssa.BinOp); ok && bo.Op == token.NEQ && cd.pol && accessPath(bo.X) == src {
					if k, ok := bo.Y.(*ssa.Const); ok && k.Value != nil && k.Value.Kind() == constant.String && constant.StringVal(k.Value) == "" {
						guard = true
					}
				}
			}
			before := b.Dominates(genCall.Block()) || reach(b, nil)[genCall.Block()]
			if strings.HasSuffix(src, ".Name") && guard && before {
				over = true
			} else {
				c.Fail("R16.3", "Run: the name override is `if c.Name != \"\" { spec.Name = c.Name }` before Generate", st.Pos(), fmt.Sprintf("store of %q into spec.Name (guarded=%v, before Generate=%v)", src, guard, before))
			}
		}
	}
	c.Check("R16.3", "Run: -name replaces the grammar's name before generation", fd.Pos(), over, "no guarded store of the -name flag into the specification's name precedes Generate")
}

// partsUnknown: the path was not resolved into elements (a helper with a variadic tail, a computed list, ...).
func partsUnknown(parts []string) bool {
	for _, p := range parts {
		if strings.HasPrefix(p, "<") {
			return true
		}
	}
	return len(parts) == 0
}


// checkNoSuccessBeforeRender (R16.6): in every function of the generator that renders files (calls the rendering function, directly
// or through helpers of the package), no return statement placed before the first rendering statement may report success. Such a
// return leaves the package without those files while Generate, Run and the exit status say that everything was written.
func checkNoSuccessBeforeRender(c *Ctx, rule string) {
	gp := c.Pkg("internal/generate/golang")
	if gp == nil {
		c.Lost(rule, "package internal/generate/golang")
		return
	}
	info := gp.TypesInfo
	decls := map[types.Object]*ast.FuncDecl{}
	AllFuncDecls(gp, func(fd *ast.FuncDecl) {
		if fd.Body != nil {
			decls[info.Defs[fd.Name]] = fd
		}
	})
	// the rendering function: executes a template
	renders := map[types.Object]bool{}
	for o, fd := range decls {
		ast.Inspect(fd.Body, func(n ast.Node) bool {
			call, ok := n.(*ast.CallExpr)
			if !ok {
				return true
			}
			if fn, ok := objOf(info, call.Fun).(*types.Func); ok && fn.Pkg() != nil && fn.Pkg().Path() == "text/template" && (fn.Name() == "Execute" || fn.Name() == "ExecuteTemplate") {
				renders[o] = true
			}
			return true
		})
	}
	if len(renders) == 0 {
		c.Lost(rule, "the function that executes a template")
		return
	}
	base := map[types.Object]bool{}
	for o := range renders {
		base[o] = true
	}
	callsRendering := func(n ast.Node) bool {
		found := false
		ast.Inspect(n, func(m ast.Node) bool {
			if _, isLit := m.(*ast.FuncLit); isLit {
				return false
			}
			if call, ok := m.(*ast.CallExpr); ok {
				if o := objOf(info, call.Fun); o != nil && renders[o] {
					found = true
				}
			}
			return !found
		})
		return found
	}
	for changed := true; changed; {
		changed = false
		for o, fd := range decls {
			if !renders[o] && callsRendering(fd.Body) {
				renders[o] = true
				changed = true
			}
		}
	}
	var names []string
	byName := map[string]*ast.FuncDecl{}
	for o, fd := range decls {
		if renders[o] && !base[o] {
			names = append(names, funcKey(gp, fd))
			byName[funcKey(gp, fd)] = fd
		}
	}
	sort.Strings(names)
	for _, name := range names {
		fd := byName[name]
		sig, _ := info.Defs[fd.Name].Type().(*types.Signature)
		if sig == nil || sig.Results().Len() == 0 || !isErrorType(sig.Results().At(sig.Results().Len()-1).Type()) {
			continue
		}
		first := -1
		for i, st := range fd.Body.List {
			if callsRendering(st) {
				first = i
				break
			}
		}
		if first < 0 {
			continue
		}
		key := name + ": no return before the first rendering statement reports success"
		bad, unclear := token.NoPos, token.NoPos
		var stack []ast.Node
		for _, st := range fd.Body.List[:first] {
			ast.Inspect(st, func(n ast.Node) bool {
				if n == nil {
					stack = stack[:len(stack)-1]
					return true
				}
				defer func() { stack = append(stack, n) }()
				if _, isLit := n.(*ast.FuncLit); isLit {
					return true
				}
				for _, anc := range stack {
					if _, isLit := anc.(*ast.FuncLit); isLit {
						return true
					}
				}
				ret, ok := n.(*ast.ReturnStmt)
				if !ok {
					return true
				}
				if len(ret.Results) == 0 {
					unclear = ret.Pos()
					return true
				}
				r := ast.Unparen(ret.Results[len(ret.Results)-1])
				switch {
				case isNilExpr(info, r):
					bad = ret.Pos()
				case isErrCtorCall(info, r):
				default:
					// `return err` under `if err != nil`
					id, isID := r.(*ast.Ident)
					guarded := false
					if isID {
						for _, anc := range stack {
							ifs, ok := anc.(*ast.IfStmt)
							if !ok || !(ret.Pos() >= ifs.Body.Pos() && ret.End() <= ifs.Body.End()) {
								continue
							}
							if be, ok := ast.Unparen(ifs.Cond).(*ast.BinaryExpr); ok && be.Op == token.NEQ {
								if x, ok := ast.Unparen(be.X).(*ast.Ident); ok && x.Name == id.Name && isNilExpr(info, be.Y) {
									guarded = true
								}
							}
						}
					}
					if !guarded {
						unclear = ret.Pos()
					}
				}
				return true
			})
		}
		switch {
		case bad != token.NoPos:
			c.Fail(rule, key, bad, "this return reports success (nil) although the files this function renders have not been written yet: Generate and the command then announce a complete package that lacks them",
				"a specification that takes this path (for an early exit on `no terminal definitions`: `grammar x; start = ;`), then list the output directory")
		case unclear != token.NoPos:
			c.Undecided(rule, key, unclear, "a return before the rendering statement whose value is not recognisably a non-nil error")
		default:
			c.Pass(rule, key, fd.Body.List[first].Pos(), "every earlier return hands back a non-nil error")
		}
	}
}

// isErrCtorCall: fmt.Errorf(...), errors.New(...), or a composite literal / call whose type is an error type other than plain nil.
func isErrCtorCall(info *types.Info, e ast.Expr) bool {
	switch v := ast.Unparen(e).(type) {
	case *ast.CallExpr:
		if fn, ok := objOf(info, v.Fun).(*types.Func); ok && fn.Pkg() != nil {
			n := fn.Pkg().Path() + "." + fn.Name()
			if n == "fmt.Errorf" || n == "errors.New" || strings.HasSuffix(n, "/errors.New") {
				return true
			}
		}
	case *ast.UnaryExpr:
		if v.Op == token.AND {
			if _, ok := ast.Unparen(v.X).(*ast.CompositeLit); ok {
				return true
			}
		}
	}
	return false
}
