package main

// R4.3 (second half): the documented EBNF grammar (docs/5-definitions.md) and the `productions` list
// agree rule by rule, compared as regular languages over grammar symbols after eliminating the
// helper non-terminals that the production list introduces for {..}, [..] and {{..}}.

import (
	"fmt"
	"go/token"
	"sort"
	"strings"
)

type symAlphabet struct {
	m    map[gsym]rune
	back map[rune]gsym
}

func (a *symAlphabet) rune(s gsym) rune {
	if r, ok := a.m[s]; ok {
		return r
	}
	r := rune(0xE000 + len(a.m))
	a.m[s] = r
	a.back[r] = s
	return r
}

func (a *symAlphabet) word(w string) string {
	var parts []string
	for _, r := range w {
		parts = append(parts, a.back[r].String())
	}
	return strings.Join(parts, " ")
}

func symNode(a *symAlphabet, s gsym) *rnode {
	r := a.rune(s)
	return &rnode{kind: "set", set: rset{{r, r}}}
}

func catNodes(ns ...*rnode) *rnode {
	n := &rnode{kind: "eps"}
	for _, x := range ns {
		n = &rnode{kind: "cat", kids: []*rnode{n, x}}
	}
	return n
}

func altNodes(ns ...*rnode) *rnode {
	if len(ns) == 0 {
		return &rnode{kind: "set", set: nil} // empty language
	}
	n := ns[0]
	for _, x := range ns[1:] {
		n = &rnode{kind: "alt", kids: []*rnode{n, x}}
	}
	return n
}

type docParser struct {
	toks []docTok
	i    int
	a    *symAlphabet
	err  error
}

func (p *docParser) peek() docTok {
	if p.i < len(p.toks) {
		return p.toks[p.i]
	}
	return docTok{"eof", ""}
}

func (p *docParser) alt() *rnode {
	ns := []*rnode{p.cat()}
	for p.peek().kind == "punct" && p.peek().val == "|" {
		p.i++
		ns = append(ns, p.cat())
	}
	return altNodes(ns...)
}

func (p *docParser) cat() *rnode {
	var ns []*rnode
	for p.err == nil {
		t := p.peek()
		if t.kind == "eof" || (t.kind == "punct" && (t.val == "|" || t.val == ")" || t.val == "]" || t.val == "}" || t.val == "}}")) {
			break
		}
		p.i++
		switch {
		case t.kind == "str":
			ns = append(ns, symNode(p.a, gsym{t.val, true}))
		case t.kind == "ident":
			ns = append(ns, symNode(p.a, gsym{t.val, strings.ToUpper(t.val) == t.val}))
		case t.val == "(" || t.val == "[" || t.val == "{" || t.val == "{{":
			closer := map[string]string{"(": ")", "[": "]", "{": "}", "{{": "}}"}[t.val]
			inner := p.alt()
			if p.peek().val != closer {
				p.err = fmt.Errorf("missing %s", closer)
				return nil
			}
			p.i++
			switch t.val {
			case "(":
				ns = append(ns, inner)
			case "[":
				ns = append(ns, &rnode{kind: "opt", kids: []*rnode{inner}})
			case "{":
				ns = append(ns, &rnode{kind: "star", kids: []*rnode{inner}})
			case "{{":
				ns = append(ns, &rnode{kind: "plus", kids: []*rnode{inner}})
			}
		default:
			p.err = fmt.Errorf("unexpected %q", t.val)
			return nil
		}
	}
	return catNodes(ns...)
}

func checkDocsGrammar(c *Ctx, g *ebnfGrammar) {
	doc := readDoc(c, "5-definitions.md")
	i := strings.Index(doc, "## Extended Backus-Naur Form")
	if i < 0 {
		c.Lost("R4.3", "EBNF section of docs/5-definitions.md")
		return
	}
	block, ok := fencedAfter(doc[i:], "### Grammar")
	if !ok {
		c.Lost("R4.3", "fenced EBNF grammar in docs/5-definitions.md")
		return
	}
	// split into rules: a line "name = ..." starts a rule; other non-empty lines continue the previous one
	type drule struct{ name, rhs string }
	var rules []drule
	for _, line := range strings.Split(block, "\n") {
		t := strings.TrimSpace(line)
		if t == "" {
			continue
		}
		f := strings.Fields(t)
		if len(f) >= 2 && f[1] == "=" && isLowerIdent(f[0]) {
			rules = append(rules, drule{f[0], strings.TrimSpace(t[strings.Index(t, "=")+1:])})
		} else if len(rules) > 0 {
			rules[len(rules)-1].rhs += " " + t
		}
	}
	if len(rules) < 8 {
		c.Lost("R4.3", fmt.Sprintf("documented EBNF rules (found %d)", len(rules)))
		return
	}
	a := &symAlphabet{m: map[gsym]rune{}, back: map[rune]gsym{}}
	docRe := map[string]*rnode{}
	var names []string
	for _, r := range rules {
		toks, err := lexDocEBNF(r.rhs)
		if err != nil {
			c.Undecided("R4.3", "documented rule "+r.name, token.NoPos, err.Error())
			return
		}
		p := &docParser{toks: toks, a: a}
		n := p.alt()
		if p.err == nil && p.i != len(toks) {
			p.err = fmt.Errorf("trailing tokens")
		}
		if p.err != nil {
			c.Undecided("R4.3", "documented rule "+r.name, token.NoPos, p.err.Error())
			return
		}
		if old, dup := docRe[r.name]; dup {
			n = altNodes(old, n)
		} else {
			names = append(names, r.name)
		}
		docRe[r.name] = n
	}
	// code side
	byHead := map[string][]gprod{}
	for _, p := range g.prods {
		byHead[p.head] = append(byHead[p.head], p)
	}
	memo := map[string]*rnode{}
	onStack := map[string]bool{}
	var helper func(h string) (*rnode, error)
	bodyNode := func(body []gsym, self string) (*rnode, error) {
		var ns []*rnode
		for _, s := range body {
			if !s.term && docRe[s.name] == nil {
				if s.name == self {
					return nil, fmt.Errorf("helper %s is recursive in the middle of a body", self)
				}
				n, err := helper(s.name)
				if err != nil {
					return nil, err
				}
				ns = append(ns, n)
			} else {
				ns = append(ns, symNode(a, s))
			}
		}
		return catNodes(ns...), nil
	}
	helper = func(h string) (*rnode, error) {
		if n, ok := memo[h]; ok {
			return n, nil
		}
		if onStack[h] {
			return nil, fmt.Errorf("helper non-terminals are mutually recursive at %s", h)
		}
		onStack[h] = true
		defer delete(onStack, h)
		var base, ltail, rhead []*rnode
		for _, p := range byHead[h] {
			b := p.body
			switch {
			case len(b) > 0 && !b[0].term && b[0].name == h && !(len(b) > 1 && b[len(b)-1] == b[0]):
				n, err := bodyNode(b[1:], h)
				if err != nil {
					return nil, err
				}
				ltail = append(ltail, n)
			case len(b) > 1 && !b[len(b)-1].term && b[len(b)-1].name == h && b[0] != b[len(b)-1]:
				n, err := bodyNode(b[:len(b)-1], h)
				if err != nil {
					return nil, err
				}
				rhead = append(rhead, n)
			default:
				n, err := bodyNode(b, h)
				if err != nil {
					return nil, err
				}
				base = append(base, n)
			}
		}
		if len(byHead[h]) == 0 {
			return nil, fmt.Errorf("non-terminal %s has no production", h)
		}
		if len(ltail) > 0 && len(rhead) > 0 {
			return nil, fmt.Errorf("helper %s is both left- and right-recursive", h)
		}
		n := altNodes(base...)
		if len(ltail) > 0 {
			n = catNodes(n, &rnode{kind: "star", kids: []*rnode{altNodes(ltail...)}})
		}
		if len(rhead) > 0 {
			n = catNodes(&rnode{kind: "star", kids: []*rnode{altNodes(rhead...)}}, n)
		}
		memo[h] = n
		return n, nil
	}
	sort.Strings(names)
	for _, name := range names {
		if len(byHead[name]) == 0 {
			c.Fail("R4.3", "documented rule "+name+" has productions", g.startPos, "the documented non-terminal has no production in `productions`")
			continue
		}
		var alts []*rnode
		var err error
		for _, p := range byHead[name] {
			var n *rnode
			n, err = bodyNode(p.body, "\x00")
			if err != nil {
				break
			}
			alts = append(alts, n)
		}
		if err != nil {
			c.Undecided("R4.3", "documented rule "+name, g.startPos, err.Error())
			continue
		}
		ref := buildMooreNodes([]nodeDef{{"body", docRe[name]}})
		code := buildMooreNodes([]nodeDef{{"body", altNodes(alts...)}})
		mism, _, _, _ := compareMoore(ref, code)
		if len(mism) == 0 {
			c.Pass("R4.3", "documented rule "+name+" = productions with that head (as regular languages of bodies)", g.startPos, "")
			continue
		}
		m := mism[0]
		w := m.word
		if m.kind == "liveness" {
			w += string(m.on)
		}
		c.Fail("R4.3", "documented rule "+name+" = productions with that head (as regular languages of bodies)", g.startPos,
			fmt.Sprintf("body [%s]: documented grammar %s, productions %s (%s)", a.word(w), m.ref, m.code, m.kind), a.word(w))
	}
	// every non-helper head is documented; the start symbol is the first documented rule
	c.Check("R4.3", "start symbol is the first documented rule", g.startPos, len(rules) > 0 && rules[0].name == g.start, fmt.Sprintf("docs start with %q, code start is %q", rules[0].name, g.start))
}

func isLowerIdent(s string) bool {
	for _, r := range s {
		if !(r == '_' || (r >= 'a' && r <= 'z') || (r >= '0' && r <= '9')) {
			return false
		}
	}
	return s != ""
}
