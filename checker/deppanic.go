package main

// R14.9: a panic that starts inside the dependency must not leave emerge as a crash. The rule does not trust a list of
// "functions known to panic": on every run it looks in the dependency's own code (the part reachable from the entry points)
// for the one shape that was confirmed against the real code, a pointer that is nil on some path and is kept in a struct field
// whose readers call a method on it that dereferences its receiver without a test, and then asks that every call from module
// code that can reach such a place happens under a deferred function that calls recover().
//
//   (1) nil kept: a store into a field F of pointer type whose value is nil on some path: a phi with a nil edge, as left by
//       `var h *T; switch { case A: h = ...; case B: h = ... }` without a default.
//   (2) nil used: somewhere in the same package a value loaded from field F is the receiver of a statically resolved method
//       with a pointer receiver that reads a field of the receiver in a block no nil test of the receiver dominates (directly,
//       or by handing the receiver on to another such method).
//
// Where (1) and (2) meet, every function that contains (1) may panic, and so may every function of the dependency that
// statically reaches it. If the dependency is repaired the obligation disappears by itself.

import (
	"fmt"
	"go/token"
	"go/types"
	"os"
	"sort"
	"strings"

	"golang.org/x/tools/go/ssa"
)

type nilField struct {
	owner *types.Named
	field int
}

func fieldKeyOf(fa *ssa.FieldAddr) (nilField, bool) {
	pt, ok := fa.X.Type().Underlying().(*types.Pointer)
	if !ok {
		return nilField{}, false
	}
	named, ok := pt.Elem().(*types.Named)
	if !ok {
		return nilField{}, false
	}
	return nilField{named, fa.Field}, true
}

// derefsReceiverUnguarded: the method reads a field of its pointer receiver where no nil test of the receiver dominates, or
// hands the receiver to another method of which that is true.
func derefsReceiverUnguarded(f *ssa.Function, memo map[*ssa.Function]int, depth int) bool {
	if f == nil || len(f.Blocks) == 0 || len(f.Params) == 0 || f.Signature.Recv() == nil {
		return false
	}
	if _, isPtr := f.Signature.Recv().Type().(*types.Pointer); !isPtr {
		return false
	}
	if v, ok := memo[f]; ok {
		return v == 1
	}
	if depth > 5 {
		return false
	}
	memo[f] = 0
	recv := ssa.Value(f.Params[0])
	guardedIn := func(b *ssa.BasicBlock) bool {
		for _, cd := range controlConds(b) {
			if nn, ok := isNilCheck(cd.v, recv); ok && nn == cd.pol {
				return true
			}
		}
		return false
	}
	res := false
	for _, b := range f.Blocks {
		if guardedIn(b) {
			continue
		}
		for _, in := range b.Instrs {
			switch x := in.(type) {
			case *ssa.FieldAddr:
				if x.X == recv {
					// &recv.f alone does not fault; a load or store through it does
					for _, r := range *x.Referrers() {
						switch r.(type) {
						case *ssa.UnOp, *ssa.Store:
							res = true
						}
					}
				}
			case ssa.CallInstruction:
				com := x.Common()
				if callee := com.StaticCallee(); callee != nil && len(com.Args) > 0 && com.Args[0] == recv && callee != f {
					if derefsReceiverUnguarded(callee, memo, depth+1) {
						res = true
					}
				}
			}
		}
	}
	if res {
		memo[f] = 1
	}
	return res
}

func checkDependencyPanics(c *Ctx, rule string, ri *reachInfo) {
	var dep []*ssa.Function
	for _, f := range ri.nonStd() {
		if p := fnPkgPath(f); strings.HasPrefix(p, depPath) && len(f.Blocks) > 0 {
			dep = append(dep, f)
		}
	}
	c.Extra("dependency_functions_examined_for_nil_receivers", len(dep))
	// (1) nil kept in a field
	kept := map[nilField][]*ssa.Store{}
	mayBeNil := func(v ssa.Value) bool {
		if isNilConst(v) {
			return true
		}
		if ph, ok := v.(*ssa.Phi); ok {
			for _, e := range ph.Edges {
				if isNilConst(e) {
					return true
				}
			}
		}
		return false
	}
	for _, f := range dep {
		for _, b := range f.Blocks {
			for _, in := range b.Instrs {
				st, ok := in.(*ssa.Store)
				if !ok {
					continue
				}
				fa, ok := st.Addr.(*ssa.FieldAddr)
				if !ok {
					continue
				}
				if _, isPtr := st.Val.Type().Underlying().(*types.Pointer); !isPtr {
					continue
				}
				// only a value that is nil on one path and something on another: an explicit `F: nil` is a deliberate "absent"
				if _, isPhi := st.Val.(*ssa.Phi); !isPhi || !mayBeNil(st.Val) {
					continue
				}
				if k, ok := fieldKeyOf(fa); ok {
					kept[k] = append(kept[k], st)
				}
			}
		}
	}
	// (2) the field's value is the receiver of a method that dereferences it unguarded
	memo := map[*ssa.Function]int{}
	type use struct {
		in     *ssa.Function
		callee *ssa.Function
		pos    token.Pos
	}
	used := map[nilField][]use{}
	for _, f := range dep {
		for _, b := range f.Blocks {
			for _, in := range b.Instrs {
				call, ok := in.(ssa.CallInstruction)
				if !ok {
					continue
				}
				com := call.Common()
				callee := com.StaticCallee()
				if callee == nil || len(com.Args) == 0 {
					continue
				}
				ld, ok := com.Args[0].(*ssa.UnOp)
				if !ok || ld.Op != token.MUL {
					continue
				}
				fa, ok := ld.X.(*ssa.FieldAddr)
				if !ok {
					continue
				}
				k, ok := fieldKeyOf(fa)
				if !ok || len(kept[k]) == 0 {
					continue
				}
				// a nil test of the loaded value dominating the call takes the site out
				guarded := false
				for _, cd := range controlConds(b) {
					if bo, ok := cd.v.(*ssa.BinOp); ok && (bo.Op == token.EQL || bo.Op == token.NEQ) {
						for _, side := range [][2]ssa.Value{{bo.X, bo.Y}, {bo.Y, bo.X}} {
							if l2, ok := side[0].(*ssa.UnOp); ok && isNilConst(side[1]) {
								if fa2, ok := l2.X.(*ssa.FieldAddr); ok {
									if k2, ok := fieldKeyOf(fa2); ok && k2 == k && (bo.Op == token.NEQ) == cd.pol {
										guarded = true
									}
								}
							}
						}
					}
				}
				if guarded {
					continue
				}
				if derefsReceiverUnguarded(callee, memo, 0) {
					used[k] = append(used[k], use{f, callee, in.Pos()})
				}
			}
		}
	}
	// where both meet: the functions that keep the nil may panic (further down their call tree)
	panicky := map[*ssa.Function]string{}
	var keys []nilField
	for k := range kept {
		if len(used[k]) > 0 {
			keys = append(keys, k)
		}
	}
	sort.Slice(keys, func(i, j int) bool {
		return keys[i].owner.String()+fmt.Sprint(keys[i].field) < keys[j].owner.String()+fmt.Sprint(keys[j].field)
	})
	for _, k := range keys {
		fname := k.owner.Underlying().(*types.Struct).Field(k.field).Name()
		u := used[k][0]
		for _, st := range kept[k] {
			why := fmt.Sprintf("%s keeps a pointer that is nil on some path in %s.%s (%s); %s calls %s on that field, which dereferences its receiver without a nil test (%s)",
				shortFn(st.Parent()), k.owner.Obj().Name(), fname, c.relAny(st.Pos()), shortFn(u.in), shortFn(u.callee), c.relAny(u.pos))
			panicky[st.Parent()] = why
		}
	}
	lastNilSites = map[*ssa.Function]string{}
	for f, w := range panicky {
		lastNilSites[f] = w
	}
	c.Extra("dependency_nil_receiver_sites", len(panicky))
	// sites confirmed by reading and by reproduction against the real code, each re-verified structurally on every run (an entry
	// whose shape is gone, because the dependency was repaired or replaced, demands nothing any more)
	lastIndexSites = map[*ssa.Function]string{}
	for _, f := range dep {
		if why := reviewedIndexPanic(f); why != "" {
			panicky[f] = why
			lastIndexSites[f] = why
		}
	}
	c.Extra("dependency_reviewed_index_sites", len(lastIndexSites))
	if len(panicky) == 0 {
		c.Pass(rule, "no pointer that is nil on some path is kept in a field and dereferenced as a receiver in the reachable part of the dependency", token.NoPos, fmt.Sprintf("%d functions", len(dep)))
		return
	}
	// dependency functions that statically reach a panicky one
	reaches := map[*ssa.Function]string{}
	for f, why := range panicky {
		reaches[f] = why
	}
	for changed := true; changed; {
		changed = false
		for _, f := range dep {
			if _, ok := reaches[f]; ok {
				continue
			}
			// a function literal (the body of a range-over-func loop, a callback) runs on behalf of the function it is written in
			for _, af := range f.AnonFuncs {
				if why, ok := reaches[af]; ok {
					if _, have := reaches[f]; !have {
						reaches[f] = why
						changed = true
					}
				}
			}
			if _, ok := reaches[f]; ok {
				continue
			}
			allCalls(f, func(call ssa.CallInstruction) {
				if callee := call.Common().StaticCallee(); callee != nil {
					if why, ok := reaches[callee]; ok {
						if _, have := reaches[f]; !have {
							reaches[f] = why
							changed = true
						}
					}
				}
			})
			// calls through an interface of the dependency (queue.Enqueue): the call graph's edges
			if _, ok := reaches[f]; !ok {
				if n := ri.res.CallGraph.Nodes[f]; n != nil {
					for _, e := range n.Out {
						if e.Site == nil || !e.Site.Common().IsInvoke() {
							continue
						}
						if why, ok := reaches[e.Callee.Func]; ok && strings.HasPrefix(fnPkgPath(e.Callee.Func), depPath) {
							reaches[f] = why
							changed = true
							break
						}
					}
				}
			}
		}
	}
	if os.Getenv("EMCHECK_DEBUG") != "" {
		for f, w := range reaches {
			fmt.Fprintln(os.Stderr, "reaches:", f.String(), "::", w[:40])
		}
	}
	// module call sites
	hasRecover := func(f *ssa.Function) bool {
		for _, b := range f.Blocks {
			for _, in := range b.Instrs {
				d, ok := in.(*ssa.Defer)
				if !ok {
					continue
				}
				var body *ssa.Function
				if mc, ok := d.Call.Value.(*ssa.MakeClosure); ok {
					body, _ = mc.Fn.(*ssa.Function)
				} else if fn, ok := d.Call.Value.(*ssa.Function); ok {
					body = fn
				} else {
					body = d.Call.StaticCallee()
				}
				if body == nil {
					continue
				}
				found := false
				allCalls(body, func(call ssa.CallInstruction) {
					if bi, ok := call.Common().Value.(*ssa.Builtin); ok && bi.Name() == "recover" {
						found = true
					}
				})
				if !found {
					continue
				}
				// the handler must be able to set what the function returns after a recovered panic: the results then are the
				// named results' cells (a function without named results returns zero values: success with nothing), so the cell
				// of the error result has to be handed to the deferred call (argument or captured variable)
				if f.Recover == nil {
					continue
				}
				ret, isRet := f.Recover.Instrs[len(f.Recover.Instrs)-1].(*ssa.Return)
				if !isRet || len(ret.Results) == 0 {
					continue
				}
				u, isLoad := ret.Results[len(ret.Results)-1].(*ssa.UnOp)
				if !isLoad {
					continue // a constant nil error: the recovered panic is reported as success
				}
				cell := u.X
				handed := false
				for _, a := range d.Call.Args {
					if a == cell {
						handed = true
					}
				}
				if mc, ok := d.Call.Value.(*ssa.MakeClosure); ok {
					for _, bnd := range mc.Bindings {
						if bnd == cell {
							handed = true
						}
					}
				}
				if handed {
					return true
				}
			}
		}
		return false
	}
	// a call site is covered when its function recovers, or when every function of the module that calls that function
	// (statically) is covered: the panic unwinds through them
	callersOf := map[*ssa.Function][]*ssa.Function{}
	for _, g := range ri.module() {
		allCalls(g, func(call ssa.CallInstruction) {
			if cal := call.Common().StaticCallee(); cal != nil && strings.HasPrefix(fnPkgPath(cal), modPath) && cal != g {
				callersOf[cal] = append(callersOf[cal], g)
			}
		})
	}
	plainRecover := hasRecover
	var covered func(f *ssa.Function, depth int) bool
	covered = func(f *ssa.Function, depth int) bool {
		if plainRecover(f) {
			return true
		}
		if depth > 4 || len(callersOf[f]) == 0 {
			return false
		}
		for _, g := range callersOf[f] {
			if !covered(g, depth+1) {
				return false
			}
		}
		return true
	}
	hasRecover = func(f *ssa.Function) bool { return covered(f, 0) }
	sites := 0
	for _, f := range ri.module() {
		if strings.HasSuffix(fnPkgPath(f), "parser/generate") {
			continue
		}
		allCalls(f, func(call ssa.CallInstruction) {
			callee := call.Common().StaticCallee()
			if callee == nil {
				return
			}
			why, ok := reaches[callee]
			if !ok {
				// the dependency function handed on as a value to a function of the module that calls it
				for _, a := range call.Common().Args {
					if ct, isCT := a.(*ssa.ChangeType); isCT {
						a = ct.X
					}
					g, isFn := a.(*ssa.Function)
					if !isFn {
						continue
					}
					if why2, hit := reaches[g]; hit && strings.HasPrefix(fnPkgPath(callee), modPath) {
						sites++
						c.Check(rule, "a panic of "+qualifiedFuncName(g)+" cannot leave "+shortFn(f)+" as a crash", call.Pos(), hasRecover(f) || hasRecover(callee),
							"the dependency function can panic ("+why2+"); it is handed to "+shortFn(callee)+" as a value, and neither that function nor the caller has a deferred recover",
							"grammar x; start = start | \"a\";  (a conflict between accepting the input and a reduction)")
					}
				}
				return
			}
			sites++
			c.Check(rule, "a panic of "+qualifiedFuncName(callee)+" cannot leave "+shortFn(f)+" as a crash", call.Pos(), hasRecover(f),
				"the dependency function can panic ("+why+") and the caller has no deferred function that recovers and can set the caller's error result (a recover that writes into local variables leaves the results at their zero values: success with a nil table): the input that takes that path ends emerge with a stack trace, or is reported as success",
				"grammar x; start = start | \"a\";  (a conflict between accepting the input and a reduction)")
		})
	}
	c.Extra("module_calls_into_panicky_dependency_functions", sites)
}

// relAny renders a position that may lie outside the repository (module cache) without the machine-specific prefix.
func (c *Ctx) relAny(p token.Pos) string {
	s := c.rel(p)
	if i := strings.Index(s, "/pkg/mod/"); i >= 0 {
		return s[i+len("/pkg/mod/"):]
	}
	return s
}

// reviewed explicit panics of the dependency that module code can reach by static calls: function -> why no input gets there
var reviewedDepPanics = map[string]string{
	"github.com/moorara/algo/grammar.(CFG).AddNewNonTerminal":     "panics when the start symbol and all four primed variants of it (U+2032..U+2057) are non-terminals already: user non-terminals are IDENT tokens, ASCII letters, digits and underscore (R5.1), and synthesised names are ASCII (R1.2), so no name ends in a prime",
	"github.com/moorara/algo/grammar.(CFG).ComputeFIRST":          "panics on a body symbol that is neither a terminal nor a non-terminal of the grammar: every symbol of a production is registered by the action that creates it, and CFG.Verify (R7.1) precedes table construction",
	"github.com/moorara/algo/grammar.(CFG).ComputeFOLLOW":         "panics when asked for a non-terminal the grammar does not have: the table builders ask for heads of the grammar's own productions",
	"github.com/moorara/algo/parser/lr.(Item0).Compare":           "panics when an LR(0) item is compared with an item of another kind: every item set is filled by one builder with one kind of item",
	"github.com/moorara/algo/parser/lr.(Item1).Compare":           "panics when an LR(1) item is compared with an item of another kind: every item set is filled by one builder with one kind of item",
	"github.com/moorara/algo/parser/lr.(PrecedenceHandle).String": "panics on a handle that is neither a terminal nor a production: the module builds handles with the dependency's two single-kind constructors only (R12.2), as does the dependency; a nil handle (R14.9) does not get here, fmt prints a nil receiver as <nil>",
	"github.com/moorara/algo/parser/lr.cmpPrecedenceHandle":       "panics on a handle that is neither a terminal nor a production: as for PrecedenceHandle.String; used to sort the handles of a level, which the module's actions built with the two constructors",
	"github.com/moorara/algo/symboltable.NewQuadraticHashTable":   "panics on an initial capacity that is not a prime >= the minimum: the module passes the constant 89 in one options literal, the dependency's own callers pass constants or the default",
}

// checkDependencyExplicitPanics: R14.10, an inventory. Every explicit panic statement of the dependency that module code reaches
// (RTA call graph; closures of a function count for it) must be in the reviewed table above; one that is not is undecided, not a
// violation: somebody has to read it.
func checkDependencyExplicitPanics(c *Ctx, rule string, ri *reachInfo) {
	reach := map[*ssa.Function]bool{}
	var work []*ssa.Function
	push := func(g *ssa.Function) {
		if g != nil && len(g.Blocks) > 0 && strings.HasPrefix(fnPkgPath(g), depPath) && !reach[g] {
			reach[g] = true
			work = append(work, g)
		}
	}
	for _, f := range ri.module() {
		if strings.HasSuffix(fnPkgPath(f), "parser/generate") {
			continue
		}
		allCalls(f, func(call ssa.CallInstruction) { push(call.Common().StaticCallee()) })
	}
	for len(work) > 0 {
		f := work[len(work)-1]
		work = work[:len(work)-1]
		allCalls(f, func(call ssa.CallInstruction) { push(call.Common().StaticCallee()) })
		for _, af := range f.AnonFuncs {
			push(af)
		}
	}
	// functions reached through interface calls as well (RTA): more of them, same question
	for _, f := range ri.nonStd() {
		if strings.HasPrefix(fnPkgPath(f), depPath) && len(f.Blocks) > 0 {
			reach[f] = true
		}
	}
	sites := map[string]token.Pos{}
	for f := range reach {
		for _, b := range f.Blocks {
			for _, in := range b.Instrs {
				pn, ok := in.(*ssa.Panic)
				if !ok || !pn.Pos().IsValid() {
					continue // panics without a position are the compiler's range-over-func protocol checks
				}
				top := f
				for top.Parent() != nil {
					top = top.Parent()
				}
				sites[qualifiedFuncName(top)] = pn.Pos()
			}
		}
	}
	var names []string
	for n := range sites {
		names = append(names, n)
	}
	sort.Strings(names)
	for _, n := range names {
		key := "explicit panic in " + n + " (dependency, reachable from module code)"
		if why, ok := reviewedDepPanics[n]; ok {
			c.Pass(rule, key, token.NoPos, "reviewed: "+why)
		} else {
			c.Undecided(rule, key, token.NoPos, "an explicit panic of the dependency became reachable that has not been reviewed ("+c.relAny(sites[n])+")")
		}
	}
	c.Extra("dependency_functions_reached_by_static_calls", len(reach))
	c.Extra("dependency_explicit_panic_functions", names)
}

// lastNilSites: the functions of the dependency found by checkDependencyPanics to keep a nil pointer that is dereferenced later.
var lastNilSites map[*ssa.Function]string

// checkRecoveredPanicOrder (R15.4): a panic of the dependency that the module recovers from becomes a diagnostic. If the place
// where the nil pointer is kept is the body of a loop over one of the dependency's unordered collections (a range-over-func
// over set.Set, whose iteration order changes from run to run), then whether a given input takes the panic path or the
// ordinary error path depends on that order: one specification, two different diagnostics.
func checkRecoveredPanicOrder(c *Ctx, rule string, ri *reachInfo) {
	quiet := &Ctx{Prop: c.Prop, Repo: c.Repo, Fset: c.Fset, Pkgs: c.Pkgs, All: c.All, Prog: c.Prog, SSAPk: c.SSAPk,
		floors: map[string]int{}, ruleDoc: map[string]string{}, analysedF: map[string]bool{}, analysedP: map[string]bool{}, extra: map[string]any{}}
	checkDependencyPanics(quiet, "R14.9", ri)
	n := 0
	var fns []*ssa.Function
	for f := range lastNilSites {
		fns = append(fns, f)
	}
	sort.Slice(fns, func(i, j int) bool { return fns[i].String() < fns[j].String() })
	for _, f := range fns {
		parent := f.Parent()
		if parent == nil {
			continue
		}
		// parent calls  X.All()(closure f)  with X one of the dependency's set types
		overSet := ""
		allCalls(parent, func(call ssa.CallInstruction) {
			com := call.Common()
			passes := false
			for _, a := range com.Args {
				if mc, ok := a.(*ssa.MakeClosure); ok && mc.Fn == ssa.Value(f) {
					passes = true
				}
			}
			if !passes {
				return
			}
			if it, ok := com.Value.(*ssa.Call); ok && it.Call.IsInvoke() && it.Call.Method.Name() == "All" {
				if pk, tn := namedTypeName(it.Call.Value.Type()); strings.HasPrefix(pk, depPath+"/set") {
					overSet = pk + "." + tn
				}
			}
		})
		if overSet == "" {
			continue
		}
		n++
		c.Fail(rule, "a recovered panic of the dependency is taken or not depending on the iteration order of an unordered collection: "+shortFn(parent), token.NoPos,
			"the nil pointer is kept inside a loop over "+overSet+" (hash-based, its order differs from run to run): for an input that reaches it, one run ends in the recovered panic's message and another in the ordinary conflict report: "+lastNilSites[f],
			"grammar x; start = start | \"a\";  run a dozen times: two different diagnostics")
	}
	if n == 0 {
		c.Pass(rule, "no recovered panic of the dependency depends on the iteration order of an unordered collection", token.NoPos, "")
	}
}

// lastIndexSites: the reviewed index-panic sites of the dependency that were found alive in this run.
var lastIndexSites map[*ssa.Function]string

// reviewedIndexPanic: is f one of the dependency's functions known (by reading and by a failing input) to index out of range,
// and does it still have the shape that makes it do so? Returns the reason, or "".
//
//   list.(*arrayQueue).Enqueue: the rear index is incremented first; when the queue has just been drained at the end of a block
//   (front node nil) a fresh block is allocated but the rear index is not set back to 0, and block[rearIndex] is written with
//   rearIndex == len(block). A breadth-first walk over a chain of 64 states (the automaton of a long literal) gets there.
func reviewedIndexPanic(f *ssa.Function) string {
	if qualifiedFuncName(f) != depPath+"/list.(arrayQueue).Enqueue" || len(f.Params) == 0 {
		return ""
	}
	recv := ssa.Value(f.Params[0])
	fieldOf := func(v ssa.Value) string {
		if u, ok := v.(*ssa.UnOp); ok && u.Op == token.MUL {
			if fa, ok := u.X.(*ssa.FieldAddr); ok && fa.X == recv {
				return fieldName(fa)
			}
		}
		return ""
	}
	// the element store indexed by a field of the receiver
	idxField := ""
	for _, b := range f.Blocks {
		for _, in := range b.Instrs {
			if st, ok := in.(*ssa.Store); ok {
				if ia, ok := st.Addr.(*ssa.IndexAddr); ok {
					if n := fieldOf(ia.Index); n != "" {
						idxField = n
					}
				}
			}
		}
	}
	if idxField == "" {
		return ""
	}
	// the branch taken when a node pointer of the receiver is nil: it must set the index field, or the site is alive
	for _, b := range f.Blocks {
		ifi, ok := b.Instrs[len(b.Instrs)-1].(*ssa.If)
		if !ok {
			continue
		}
		bo, ok := ifi.Cond.(*ssa.BinOp)
		if !ok || bo.Op != token.EQL || !isNilConst(bo.Y) || fieldOf(bo.X) == "" {
			continue
		}
		then := b.Succs[0]
		resets := false
		for _, in := range then.Instrs {
			if st, ok := in.(*ssa.Store); ok {
				if fa, ok := st.Addr.(*ssa.FieldAddr); ok && fa.X == recv && fieldName(fa) == idxField {
					resets = true
				}
			}
		}
		if !resets {
			return "(*list.arrayQueue).Enqueue writes block[" + idxField + "] after allocating a fresh block for a drained queue without setting " + idxField + " back: index out of range once the queue is drained at the end of a block (a breadth-first walk over a chain of 64 states, i.e. the automaton of a literal of 63 or more characters)"
		}
	}
	return ""
}

// checkRecoveredPanicRejects (R7.7): a reviewed index-panic site of the dependency that the token-automaton construction can
// reach turns, once recovered, into an error for specifications that are perfectly well-formed (those whose automaton takes
// the dependency down that path). Rejection must mean ill-formed; this is a rejection of another kind.
func checkRecoveredPanicRejects(c *Ctx, rule string, ri *reachInfo) {
	quiet := &Ctx{Prop: c.Prop, Repo: c.Repo, Fset: c.Fset, Pkgs: c.Pkgs, All: c.All, Prog: c.Prog, SSAPk: c.SSAPk,
		floors: map[string]int{}, ruleDoc: map[string]string{}, analysedF: map[string]bool{}, analysedP: map[string]bool{}, extra: map[string]any{}}
	checkDependencyPanics(quiet, "R14.9", ri)
	var fns []*ssa.Function
	for f := range lastIndexSites {
		fns = append(fns, f)
	}
	sort.Slice(fns, func(i, j int) bool { return fns[i].String() < fns[j].String() })
	for _, f := range fns {
		c.Fail(rule, "a well-formed specification is not rejected because the dependency fails on it: "+qualifiedFuncName(f), token.NoPos,
			"the construction of the token automaton reaches a function of the dependency that indexes out of range for some well-formed specifications; recovered, the panic becomes an error, and a specification that is not ill-formed is rejected: "+lastIndexSites[f],
			"grammar x;  ID = /[a-z]+/;  start = \"<a literal of 63 or more characters>\" ID;")
	}
	if len(fns) == 0 {
		c.Pass(rule, "no reviewed panic site of the dependency is reachable from the construction of the token automaton", token.NoPos, "")
	}
}
