package main

import (
	"fmt"
	"go/ast"
	"go/constant"
	"go/token"
	"go/types"
	"sort"
	"strings"

	"golang.org/x/tools/go/packages"
	"golang.org/x/tools/go/ssa"
)

func init() {
	register(&property{id: "C09", run: runC09, meta: propMeta{
		level: "other",
		explanation: "Structural necessary conditions of whole-sentence acceptance of patterns: the success of the top-level combinator is made conditional on the remaining input being nil (in Parser.Parse or in every caller); both mapper sets record an error for a descending character range and for a repetition range whose minimum exceeds a present maximum, and both Parse functions return the recorded errors before touching the result; the control skeletons of the 23 same-named mappers of the two routes agree; the list of characters that must be escaped equals the documented escaped_char alternatives and is used both to exclude unescaped characters and to accept escaped ones. That the combinators accept every documented form (ordered choice vs the documented unordered alternatives) is out of reach.",
		trusted: []string{"combinator library semantics", "docs/5-definitions.md regular-expression grammar"},
		assumptions: []string{},
	}})
}

func runC09(c *Ctx) {
	c.Rule("R9.1", 1, "no unconsumed input: success requires Remaining == nil")
	c.Rule("R9.2", 34, "semantic validation is present, heard, and the sibling mapper sets agree")
	c.Rule("R9.4", 1, "a count that does not fit into an int is rejected, not wrapped around")
	c.Rule("R9.3", 3, "the escape list equals the documented one and is used on both sides")
	c.Rule("R9.5", 20, "the combinator grammar equals the documented pattern grammar rule by rule")
	c.Rule("R9.6", 4, "a range end is clipped to an interval that reaches beyond the table of supported characters, so that the group mapper still finds it unsupported")
	checkClampKeepsOutsider(c, "R9.6")
	c.Rule("R9.7", 4, "a direct alternative of an ordered choice fails only by shape: a value that is not acceptable is an error, not a failed parse that lets the next alternative re-read the text")
	checkAlternativesFailByShape(c, "R9.7")
	checkRegexGrammarDocs(c, "R9.5")
	checkClassPresence(c, "R9.2")
	checkRuneHelperResults(c, "R9.2")

	pp := c.Pkg("internal/regex/parser")
	if pp == nil {
		c.Lost("R9.1", "package internal/regex/parser")
		return
	}
	checkRemaining(c, pp)
	for _, pk := range []string{"internal/regex/parser/nfa", "internal/regex/parser/ast"} {
		checkSemanticValidation(c, c.Pkg(pk))
	}
	checkSiblingMappers(c, "R9.2")
	checkEscapeList(c, pp)
	checkDigitAccumulation(c, "R9.4", "internal/regex/parser")
}

// checkRemaining: R9.1
func checkRemaining(c *Ctx, pp *packages.Package) {
	// the method func(string) (comb.Output, bool)
	var fd *ast.FuncDecl
	AllFuncDecls(pp, func(f *ast.FuncDecl) {
		if f.Recv == nil || f.Body == nil {
			return
		}
		fo := pp.TypesInfo.Defs[f.Name].(*types.Func)
		sig := fo.Type().(*types.Signature)
		if sig.Params().Len() == 1 && isString(sig.Params().At(0).Type()) && sig.Results().Len() == 2 {
			if _, n := namedTypeName(sig.Results().At(0).Type()); n == "Output" {
				fd = f
			}
		}
	})
	if fd == nil {
		c.Lost("R9.1", "the top-level parse method func(string) (Output, bool)")
		return
	}
	fn := c.SSAFunc(pp, fd)
	c.Analysed(funcKey(pp, fd))
	if remainingChecked(fn, nil) {
		c.Pass("R9.1", "Parser.Parse succeeds only if nothing remains of the input", fd.Pos(), "Remaining is compared with nil on the path to the successful return")
		return
	}
	// the check may be a combinator of its own (a parser that fails unless its input is nil, bound behind the top-level rule):
	// where such a parser exists in the package, whether it sits behind the rule Parse runs is not followed, and that is undecided
	if sp := c.SSAPk[pp.PkgPath]; sp != nil {
		for _, f := range ssaFuncsOf(c, sp) {
			sig := f.Signature
			if sig.Params().Len() != 1 || sig.Results().Len() != 2 || !typeIs(sig.Params().At(0).Type(), "parser/combinator", "Input") {
				continue
			}
			if len(f.Params) == 0 {
				continue
			}
			par := f.Params[len(f.Params)-1]
			for _, r := range *par.Referrers() {
				bo, ok := r.(*ssa.BinOp)
				if !ok || (bo.Op != token.EQL && bo.Op != token.NEQ) {
					continue
				}
				if k, ok := bo.Y.(*ssa.Const); ok && k.IsNil() {
					for _, rr := range *bo.Referrers() {
						if _, isIf := rr.(*ssa.If); isIf {
							c.Undecided("R9.1", "Parser.Parse succeeds only if nothing remains of the input", fd.Pos(),
								"Remaining is not compared with nil in Parse, but "+shortFn(f)+" is a parser that tests its input against nil (an end-of-input combinator): whether it is bound behind the rule Parse runs is not followed")
							return
						}
					}
				}
			}
		}
	}
	// otherwise every caller must check
	callers := 0
	okAll := true
	for _, p := range c.Pkgs {
		sp := c.SSAPk[p.PkgPath]
		if sp == nil {
			continue
		}
		for _, m := range sp.Members {
			f, ok := m.(*ssa.Function)
			if !ok {
				continue
			}
			allCalls(f, func(call ssa.CallInstruction) {
				if call.Common().StaticCallee() == fn {
					callers++
					cv := call.(*ssa.Call)
					okc := remainingChecked(f, cv)
					if !okc {
						okAll = false
					}
					c.Check("R9.1", "caller "+shortFn(f)+" rejects a pattern with unconsumed input", call.Pos(), okc,
						"the parse result is used although out.Remaining was never compared with nil: a pattern is accepted on a parsed prefix and the rest is silently ignored", "ab)")
				}
			})
		}
	}
	if callers == 0 {
		c.Fail("R9.1", "Parser.Parse succeeds only if nothing remains of the input", fd.Pos(), "Remaining is never examined", "ab)")
	}
	_ = okAll
}

// remainingChecked: in fn, the Output value (result of the combinator call, or of `of` when given) has its Remaining field
// compared with nil, and the comparison controls a return.
func remainingChecked(fn *ssa.Function, of *ssa.Call) bool {
	for _, b := range fn.Blocks {
		for _, in := range b.Instrs {
			var isRem bool
			switch x := in.(type) {
			case *ssa.Field:
				st, ok := x.X.Type().Underlying().(*types.Struct)
				isRem = ok && st.Field(x.Field).Name() == "Remaining"
			case *ssa.FieldAddr:
				isRem = fieldName(x) == "Remaining"
			}
			if !isRem {
				continue
			}
			v := in.(ssa.Value)
			vals := []ssa.Value{v}
			for _, r := range *v.Referrers() {
				if u, ok := r.(*ssa.UnOp); ok && u.Op == token.MUL {
					vals = append(vals, u)
				}
			}
			for _, x := range vals {
				for _, r := range *x.Referrers() {
					bo, ok := r.(*ssa.BinOp)
					if !ok || (bo.Op != token.EQL && bo.Op != token.NEQ) {
						continue
					}
					if !isNilConst(bo.X) && !isNilConst(bo.Y) {
						continue
					}
					for _, rr := range *bo.Referrers() {
						if _, ok := rr.(*ssa.If); ok {
							return true
						}
					}
				}
			}
		}
	}
	return false
}

// checkSemanticValidation: R9.2 (a),(b) for one mapper package.
func checkSemanticValidation(c *Ctx, p *packages.Package) {
	if p == nil {
		c.Lost("R9.2", "mapper package")
		return
	}
	info := p.TypesInfo
	pk := trimMod(p.PkgPath)
	records := func(fd *ast.FuncDecl, pred func(cond ast.Expr) bool) bool {
		found := false
		ast.Inspect(fd.Body, func(n ast.Node) bool {
			ifs, ok := n.(*ast.IfStmt)
			if !ok || !pred(ifs.Cond) {
				return true
			}
			deepInspectNode(p, ifs.Body, 2, func(m ast.Node) bool {
				as, ok := m.(*ast.AssignStmt)
				if !ok || len(as.Lhs) != 1 || len(as.Rhs) != 1 {
					return true
				}
				if sel, ok := as.Lhs[0].(*ast.SelectorExpr); ok && isErrField(info, sel) {
					if call, ok := ast.Unparen(as.Rhs[0]).(*ast.CallExpr); ok {
						if fo, ok := objOf(info, call.Fun).(*types.Func); ok && (fo.Name() == "Join" || fo.Name() == "Append") {
							found = true
						}
					}
				}
				return true
			})
			return true
		})
		return found
	}
	// "lower bound exceeds upper bound": a comparison (>, <) between two variables of the function, the greater side taken
	// from an earlier element of the parsed sequence (r.Get(i)) than the smaller side (r.Get(j), i < j). Names play no part.
	var curFd *ast.FuncDecl
	getIndex := func(e ast.Expr) int {
		// follow an identifier (or *identifier) back to the Get index of the result it was taken from
		e = ast.Unparen(e)
		if st, ok := e.(*ast.StarExpr); ok {
			e = ast.Unparen(st.X)
		}
		id, ok := e.(*ast.Ident)
		if !ok || curFd == nil {
			return -1
		}
		best := -1
		seen := map[types.Object]bool{}
		var resolve func(o types.Object, depth int)
		resolve = func(o types.Object, depth int) {
			if o == nil || seen[o] || depth > 6 {
				return
			}
			seen[o] = true
			ast.Inspect(curFd.Body, func(n ast.Node) bool {
				as, ok := n.(*ast.AssignStmt)
				if !ok {
					return true
				}
				for i, l := range as.Lhs {
					lid, ok := l.(*ast.Ident)
					if !ok {
						continue
					}
					lo := info.Defs[lid]
					if lo == nil {
						lo = info.Uses[lid]
					}
					if lo != o {
						continue
					}
					var rhs ast.Expr
					if len(as.Rhs) == len(as.Lhs) {
						rhs = as.Rhs[i]
					} else if len(as.Rhs) == 1 {
						rhs = as.Rhs[0]
					}
					if rhs == nil {
						continue
					}
					ast.Inspect(rhs, func(m ast.Node) bool {
						switch x := m.(type) {
						case *ast.CallExpr:
							if sel, ok := x.Fun.(*ast.SelectorExpr); ok && sel.Sel.Name == "Get" && len(x.Args) == 1 {
								if v, ok := constInt(info, x.Args[0]); ok && int(v) > best {
									best = int(v)
								}
							}
						case *ast.Ident:
							if ro := info.Uses[x]; ro != nil && ro != o {
								if _, isVar := ro.(*types.Var); isVar {
									resolve(ro, depth+1)
								}
							}
						}
						return true
					})
				}
				return true
			})
		}
		o := info.Uses[id]
		if o == nil {
			o = info.Defs[id]
		}
		resolve(o, 0)
		return best
	}
	descending := func(cond ast.Expr) bool {
		ok := false
		ast.Inspect(cond, func(n ast.Node) bool {
			if b, isB := n.(*ast.BinaryExpr); isB && (b.Op == token.GTR || b.Op == token.LSS) {
				x, y := b.X, b.Y
				if b.Op == token.LSS {
					x, y = y, x
				}
				// x > y must mean: the earlier element exceeds the later one
				ix, iy := getIndex(x), getIndex(y)
				if ix >= 0 && iy >= 0 && ix < iy {
					ok = true
				}
			}
			return true
		})
		return ok
	}
	var mappers *types.Named
	for _, n := range p.Types.Scope().Names() {
		if tn, ok := p.Types.Scope().Lookup(n).(*types.TypeName); ok {
			if named, ok := tn.Type().(*types.Named); ok {
				if _, isStruct := named.Underlying().(*types.Struct); isStruct {
					ms := types.NewMethodSet(types.NewPointer(named))
					if ms.Lookup(p.Types, "ToRange") != nil && ms.Lookup(p.Types, "ToCharRange") != nil {
						mappers = named
					}
				}
			}
		}
	}
	if mappers == nil {
		c.Lost("R9.2", "mappers type in "+pk)
		return
	}
	// when the expected shape is not found: a function that compares two computed values at all has some validation whose form
	// this rule does not follow (undecided); one that compares nothing validates nothing (violation)
	comparesSomething := func(fd *ast.FuncDecl) bool {
		found := false
		deepInspect(p, fd, 2, func(n ast.Node) bool {
			if b, ok := n.(*ast.BinaryExpr); ok {
				switch b.Op {
				case token.LSS, token.GTR, token.LEQ, token.GEQ:
					_, kx := constInt(info, b.X)
					_, ky := constInt(info, b.Y)
					if !kx && !ky {
						found = true
					}
				}
			}
			return true
		})
		return found
	}
	// a comparison of the two bounds in which one side carries an arithmetic offset (low > up+1): the bounds are compared, but
	// not with each other's values
	offsetCompare := func(fd *ast.FuncDecl) string {
		out := ""
		strip := func(e ast.Expr) (ast.Expr, bool) {
			if b, ok := ast.Unparen(e).(*ast.BinaryExpr); ok && (b.Op == token.ADD || b.Op == token.SUB) {
				if _, isK := constInt(info, b.Y); isK {
					return b.X, true
				}
				if _, isK := constInt(info, b.X); isK && b.Op == token.ADD {
					return b.Y, true
				}
			}
			return e, false
		}
		ast.Inspect(fd.Body, func(n ast.Node) bool {
			b, ok := n.(*ast.BinaryExpr)
			if !ok {
				return true
			}
			switch b.Op {
			case token.LSS, token.GTR, token.LEQ, token.GEQ:
			default:
				return true
			}
			x, ox := strip(b.X)
			y, oy := strip(b.Y)
			if (ox || oy) && getIndex(x) >= 0 && getIndex(y) >= 0 && getIndex(x) != getIndex(y) {
				out = types.ExprString(b)
			}
			return true
		})
		return out
	}
	decide := func(fd *ast.FuncDecl, key string, ok bool, detail, witness string) {
		if off := offsetCompare(fd); off != "" && !ok {
			c.Fail("R9.2", key, fd.Pos(), "the bounds are compared with an offset (`"+off+"`), not with each other: a range that is off by that much passes", witness)
			return
		}
		switch {
		case ok:
			c.Pass("R9.2", key, fd.Pos(), "")
		case comparesSomething(fd):
			c.Undecided("R9.2", key, fd.Pos(), "the function compares its bounds, but not in a form this rule follows")
		default:
			c.Fail("R9.2", key, fd.Pos(), detail, witness)
		}
	}
	if fd := FuncDecl(p, mappers.Obj().Name(), "ToCharRange"); fd != nil {
		curFd = fd
		c.Analysed(funcKey(p, fd))
		decide(fd, pk+": a descending character range is recorded as an error", records(fd, descending), "no `if low > up { m.errors = errors.Join(...) }`", "[z-a]")
	} else {
		c.Lost("R9.2", pk+".ToCharRange")
	}
	if fd := FuncDecl(p, mappers.Obj().Name(), "ToRange"); fd != nil {
		curFd = fd
		c.Analysed(funcKey(p, fd))
		// the comparison, under a nil test of the bound: in the same condition or in an enclosing if statement
		withNil := func(cond ast.Expr) bool {
			if !descending(cond) {
				return false
			}
			if strings.Contains(types.ExprString(cond), "!= nil") {
				return true
			}
			enclosed := false
			ast.Inspect(fd.Body, func(n ast.Node) bool {
				outer, ok := n.(*ast.IfStmt)
				if !ok || !strings.Contains(types.ExprString(outer.Cond), "!= nil") {
					return true
				}
				ast.Inspect(outer.Body, func(m ast.Node) bool {
					if inner, ok := m.(*ast.IfStmt); ok && inner.Cond == cond {
						enclosed = true
					}
					return true
				})
				return true
			})
			return enclosed
		}
		decide(fd, pk+": a repetition range whose minimum exceeds a present maximum is recorded as an error", records(fd, withNil), "no `if up != nil && low > *up { m.errors = errors.Join(...) }`", "a{3,1}")
	} else {
		c.Lost("R9.2", pk+".ToRange")
	}
	// the bounds that reach the comparison are the parsed ones: between the parsed numbers and the comparison, a value is
	// installed under presence tests only (comma-ok flag, nil test), never under a test on the value itself
	for _, name := range []string{"ToUpperBound", "ToRange"} {
		fd := FuncDecl(p, mappers.Obj().Name(), name)
		if fd == nil {
			c.Lost("R9.2", pk+"."+name)
			continue
		}
		c.Analysed(funcKey(p, fd))
		nGuards, bad := 0, ""
		ast.Inspect(fd.Body, func(n ast.Node) bool {
			ifs, ok := n.(*ast.IfStmt)
			if !ok {
				return true
			}
			installs := false
			for _, st := range ifs.Body.List {
				// an assignment to a variable that lives outside the branch (a temporary declared in the branch installs nothing)
				if as, ok := st.(*ast.AssignStmt); ok && len(as.Lhs) == 1 && as.Tok != token.DEFINE {
					if _, isIdent := as.Lhs[0].(*ast.Ident); isIdent {
						installs = true
					}
				}
			}
			if !installs {
				return true
			}
			nGuards++
			okVars := map[string]bool{}
			ast.Inspect(fd.Body, func(m ast.Node) bool {
				if as, isAs := m.(*ast.AssignStmt); isAs && len(as.Lhs) == 2 && len(as.Rhs) == 1 {
					if _, isTA := ast.Unparen(as.Rhs[0]).(*ast.TypeAssertExpr); isTA {
						if id, isID := as.Lhs[1].(*ast.Ident); isID {
							okVars[id.Name] = true
						}
					}
				}
				return true
			})
			var presence func(e ast.Expr) bool
			presence = func(e ast.Expr) bool {
				switch x := ast.Unparen(e).(type) {
				case *ast.UnaryExpr:
					return x.Op == token.NOT && presence(x.X)
				case *ast.Ident:
					return okVars[x.Name]
				case *ast.BinaryExpr:
					if x.Op == token.LAND {
						return presence(x.X) && presence(x.Y)
					}
					return x.Op == token.NEQ && (isNilExpr(info, x.Y) || isNilExpr(info, x.X))
				}
				return false
			}
			if !presence(ifs.Cond) {
				bad = types.ExprString(ifs.Cond)
			}
			return true
		})
		if nGuards == 0 {
			c.Undecided("R9.2", pk+"."+name+": a parsed bound is installed whenever it is present (the guard is a presence test, not a test on the value)", fd.Pos(), "no if statement that installs a bound into a local variable: the bound is carried in another way")
			continue
		}
		c.Check("R9.2", pk+"."+name+": a parsed bound is installed whenever it is present (the guard is a presence test, not a test on the value)", fd.Pos(), nGuards >= 1 && bad == "",
			fmt.Sprintf("the bound is installed under `%s`: for the values the extra test excludes, the comparison of minimum and maximum never sees the written bound", bad), "a{1,0}")
	}
	// Parse returns m.errors when non-nil, before using the result
	if fd := FuncDecl(p, "", "Parse"); fd != nil {
		c.Analysed(funcKey(p, fd))
		// a return of (nil, <error field>) guarded by `<error field> != nil` (an if statement or a case of a tagless switch),
		// placed before the first use of the parse result
		var errIf ast.Node
		var firstUse token.Pos
		guardOK := func(cond ast.Expr) bool {
			if b, ok := ast.Unparen(cond).(*ast.BinaryExpr); ok && b.Op == token.NEQ && isNilExpr(info, b.Y) {
				if sel, ok := ast.Unparen(b.X).(*ast.SelectorExpr); ok && isErrField(info, sel) {
					return true
				}
			}
			return false
		}
		returnsErr := func(list []ast.Stmt) bool {
			for _, st := range list {
				if r, ok := st.(*ast.ReturnStmt); ok && len(r.Results) == 2 {
					if rs, ok := ast.Unparen(r.Results[1]).(*ast.SelectorExpr); ok && isErrField(info, rs) && isNilExpr(info, r.Results[0]) {
						return true
					}
				}
			}
			return false
		}
		ast.Inspect(fd.Body, func(n ast.Node) bool {
			switch s := n.(type) {
			case *ast.IfStmt:
				if guardOK(s.Cond) && returnsErr(s.Body.List) && errIf == nil {
					errIf = s
				}
			case *ast.CaseClause:
				if len(s.List) == 1 && guardOK(s.List[0]) && returnsErr(s.Body) && errIf == nil {
					errIf = s
				}
			case *ast.SelectorExpr:
				if s.Sel.Name == "Result" && !firstUse.IsValid() {
					firstUse = s.Pos()
				}
			}
			return true
		})
		c.Check("R9.2", pk+".Parse returns the recorded semantic errors before using the result", fd.Pos(), errIf != nil && (!firstUse.IsValid() || errIf.Pos() < firstUse),
			"semantic errors recorded by the mappers are not returned (or only after the result was used)", "a{3,1}")
	} else {
		c.Lost("R9.2", pk+".Parse")
	}
}

// skeleton renders the control skeleton of a mapper: Get indices, asserted types (package-specific node/automaton types
// abstracted), conditions, error formats, return flags.
// counterVars: local integers of the mapper under analysis that are only ever set to a constant or counted up: compared with zero
// they are flags ("was anything unsupported seen?") and are dropped from the skeleton like boolean flags.
var counterVars = map[types.Object]bool{}

func findCounters(info *types.Info, fd *ast.FuncDecl) map[types.Object]bool {
	cand := map[types.Object]bool{}
	bad := map[types.Object]bool{}
	obj := func(e ast.Expr) types.Object {
		id, ok := ast.Unparen(e).(*ast.Ident)
		if !ok {
			return nil
		}
		if o := info.Defs[id]; o != nil {
			return o
		}
		return info.Uses[id]
	}
	isInt := func(o types.Object) bool {
		b, ok := o.Type().Underlying().(*types.Basic)
		return ok && b.Info()&types.IsInteger != 0
	}
	ast.Inspect(fd.Body, func(n ast.Node) bool {
		switch x := n.(type) {
		case *ast.IncDecStmt:
			if o := obj(x.X); o != nil && isInt(o) && x.Tok == token.INC {
				cand[o] = true
			} else if o != nil {
				bad[o] = true
			}
		case *ast.AssignStmt:
			for i, l := range x.Lhs {
				o := obj(l)
				if o == nil {
					continue
				}
				if _, isVar := o.(*types.Var); !isVar || !isInt(o) {
					continue
				}
				if i < len(x.Rhs) && len(x.Lhs) == len(x.Rhs) {
					if tv, ok := info.Types[x.Rhs[i]]; ok && tv.Value != nil && (x.Tok == token.ASSIGN || x.Tok == token.DEFINE || x.Tok == token.ADD_ASSIGN) {
						continue
					}
				}
				bad[o] = true
			}
		case *ast.UnaryExpr:
			if x.Op == token.AND {
				if o := obj(x.X); o != nil {
					bad[o] = true
				}
			}
		}
		return true
	})
	out := map[types.Object]bool{}
	for o := range cand {
		if !bad[o] {
			out[o] = true
		}
	}
	return out
}

func mapperSkeleton(p *packages.Package, fd *ast.FuncDecl) []string {
	counterVars = findCounters(p.TypesInfo, fd)
	info := p.TypesInfo
	var out []string
	abstractType := func(t types.Type) string {
		s := types.TypeString(t, func(pk *types.Package) string {
			if pk == p.Types {
				return ""
			}
			return pk.Name()
		})
		// the value domain of each route
		for _, local := range []string{"*automata.NFA", "Node", "*Alt", "*Concat", "*Star", "*Char", "*Empty"} {
			if s == local {
				return "V"
			}
		}
		return s
	}
	// what the mapper takes apart and what it can say, wherever it is written: helper functions of the package that the mapper
	// calls are looked into, the order of the statements and the spelling of the conditions play no part
	set := map[string]bool{}
	// booleans defined by a comparison (x := a != nil), so that a condition on x reads as the comparison
	boolDefs := map[types.Object]ast.Expr{}
	deepInspect(p, fd, 3, func(n ast.Node) bool {
		if as, ok := n.(*ast.AssignStmt); ok && as.Tok == token.DEFINE && len(as.Lhs) == 1 && len(as.Rhs) == 1 {
			if id, ok := as.Lhs[0].(*ast.Ident); ok {
				if be, ok := ast.Unparen(as.Rhs[0]).(*ast.BinaryExpr); ok {
					switch be.Op {
					case token.EQL, token.NEQ, token.LSS, token.GTR, token.LEQ, token.GEQ, token.LAND, token.LOR:
						boolDefs[info.Defs[id]] = be
					}
				}
			}
		}
		return true
	})
	deepInspect(p, fd, 3, func(n ast.Node) bool {
		switch s := n.(type) {
		case *ast.CallExpr:
			if sel, ok := s.Fun.(*ast.SelectorExpr); ok && sel.Sel.Name == "Get" && len(s.Args) == 1 {
				if k, ok := constInt(info, s.Args[0]); ok {
					set[fmt.Sprintf("get%d", k)] = true
				}
			}
			// the text of a message: a constant handed to fmt / errors, or to a function of the package that formats it
			if fo, ok := objOf(info, s.Fun).(*types.Func); ok && fo.Pkg() != nil && (fo.Pkg().Path() == "fmt" || fo.Pkg().Path() == "errors" || fo.Pkg() == p.Types) && len(s.Args) > 0 {
				if f, ok := constStr(info, s.Args[0]); ok && (fo.Pkg() != p.Types || strings.ContainsAny(f, " %")) {
					set["msg:"+f] = true
				}
			}
		case *ast.TypeAssertExpr:
			if s.Type != nil {
				set["assert:"+abstractType(info.TypeOf(s.Type))] = true
			}
		case *ast.CaseClause:
			// a case of a type switch asserts the type just as x.(T) does
			for _, e := range s.List {
				if tv, ok := info.Types[e]; ok && tv.IsType() {
					set["assert:"+abstractType(tv.Type)] = true
				}
			}
		case *ast.ReturnStmt:
			if len(s.Results) == 2 {
				if tv, ok := info.Types[s.Results[1]]; ok && tv.Value != nil && tv.Value.String() == "false" {
					set["rejects"] = true
				}
			}
		case *ast.IfStmt:
			// what the mapper tests: the atoms of its conditions, abstracted from spelling, order and polarity
			// (only conditions that decide on a rejection or on an error being recorded)
			validating := false
			look := func(n ast.Node) bool {
				switch y := n.(type) {
				case *ast.ReturnStmt:
					if len(y.Results) == 2 {
						if tv, ok := info.Types[y.Results[1]]; ok && tv.Value != nil && tv.Value.String() == "false" {
							validating = true
						}
					}
				case *ast.CallExpr:
					if fo, ok := objOf(info, y.Fun).(*types.Func); ok && fo.Pkg() != nil && (fo.Pkg().Path() == "fmt" || fo.Pkg().Path() == "errors") {
						validating = true
					}
				}
				return true
			}
			deepInspectNode(p, s.Body, 2, look)
			if s.Else != nil {
				deepInspectNode(p, s.Else, 2, look)
			}
			if validating {
				for _, a := range condAtoms(info, s.Cond, abstractType, boolDefs) {
					// presence tests (a comma-ok flag, or its equivalent as a type switch or an inverted guard) are already in
					// the skeleton as assertions; conditions this abstraction cannot read are left out on both sides
					if a == "flag" || a == "opaque" {
						continue
					}
					set["tests:"+a] = true
				}
			}
		}
		return true
	})
	for k := range set {
		out = append(out, k)
	}
	sort.Strings(out)
	return out
}

// deepInspect visits the body of fd and, up to the given depth, the bodies of the functions and methods of the same package
// that it calls (each once), as if they were written in place.
func deepInspect(p *packages.Package, fd *ast.FuncDecl, depth int, visit func(ast.Node) bool) {
	info := p.TypesInfo
	seen := map[*ast.FuncDecl]bool{}
	var rec func(fd *ast.FuncDecl, d int)
	rec = func(fd *ast.FuncDecl, d int) {
		if fd == nil || fd.Body == nil || seen[fd] {
			return
		}
		seen[fd] = true
		ast.Inspect(fd.Body, func(n ast.Node) bool {
			if n == nil {
				return true
			}
			if !visit(n) {
				return false
			}
			if call, ok := n.(*ast.CallExpr); ok && d > 0 {
				if fo, ok := objOf(info, call.Fun).(*types.Func); ok && fo.Pkg() == p.Types {
					rec(declOfFunc(p, fo), d-1)
				}
			}
			return true
		})
	}
	rec(fd, depth)
}

// deepInspectNode is deepInspect starting at an arbitrary node.
func deepInspectNode(p *packages.Package, root ast.Node, depth int, visit func(ast.Node) bool) {
	info := p.TypesInfo
	seen := map[*ast.FuncDecl]bool{}
	var rec func(n ast.Node, d int)
	rec = func(root ast.Node, d int) {
		ast.Inspect(root, func(n ast.Node) bool {
			if n == nil {
				return true
			}
			if !visit(n) {
				return false
			}
			if call, ok := n.(*ast.CallExpr); ok && d > 0 {
				if fo, ok := objOf(info, call.Fun).(*types.Func); ok && fo.Pkg() == p.Types {
					if fd := declOfFunc(p, fo); fd != nil && fd.Body != nil && !seen[fd] {
						seen[fd] = true
						rec(fd.Body, d-1)
					}
				}
			}
			return true
		})
	}
	rec(root, depth)
}

func declOfFunc(p *packages.Package, fo *types.Func) *ast.FuncDecl {
	var out *ast.FuncDecl
	AllFuncDecls(p, func(fd *ast.FuncDecl) {
		if p.TypesInfo.Defs[fd.Name] == types.Object(fo) {
			out = fd
		}
	})
	return out
}

func checkSiblingMappers(c *Ctx, rule string) {
	np, ap := c.Pkg("internal/regex/parser/nfa"), c.Pkg("internal/regex/parser/ast")
	pp := c.Pkg("internal/regex/parser")
	if np == nil || ap == nil || pp == nil {
		c.Lost(rule, "mapper packages")
		return
	}
	iface, _ := pp.Types.Scope().Lookup("Mappers").Type().Underlying().(*types.Interface)
	if iface == nil {
		c.Lost(rule, "parser.Mappers")
		return
	}
	var names []string
	for i := 0; i < iface.NumMethods(); i++ {
		names = append(names, iface.Method(i).Name())
	}
	sort.Strings(names)
	for _, m := range names {
		a, b := FuncDecl(np, mappersTypeName(np), m), FuncDecl(ap, mappersTypeName(ap), m)
		if a == nil || b == nil {
			c.Fail(rule, "sibling mappers "+m+" exist in both routes", token.NoPos, "one route lacks the mapper")
			continue
		}
		sa, sb := mapperSkeleton(np, a), mapperSkeleton(ap, b)
		same := strings.Join(sa, "\n") == strings.Join(sb, "\n")
		diff := ""
		if !same {
			for i := 0; i < len(sa) || i < len(sb); i++ {
				x, y := "", ""
				if i < len(sa) {
					x = sa[i]
				}
				if i < len(sb) {
					y = sb[i]
				}
				if x != y {
					diff = fmt.Sprintf("first difference: nfa %q vs ast %q", x, y)
					break
				}
			}
		}
		c.Check(rule, "sibling mappers "+m+" of the NFA route and the direct route take the same parts, assert the same shapes and report the same errors", a.Pos(), same,
			"the two routes take this construct apart or reject it differently ("+diff+"): a pattern can be accepted by one route and rejected (or read differently) by the other")
	}
	c.Check(rule, "the mapper interface has its 23 methods", token.NoPos, len(names) >= 23, fmt.Sprintf("%d methods", len(names)))
}

func checkEscapeList(c *Ctx, pp *packages.Package) {
	info := pp.TypesInfo
	// the package-level []rune list
	var list []rune
	var listObj types.Object
	// several lists of characters may exist (the repetition operators, say): the one meant is the one handed to ExcludeRunes
	lists := map[types.Object][]rune{}
	pkgVars(pp, func(v *types.Var, init ast.Expr, _ *ast.ValueSpec) {
		if sl, ok := v.Type().Underlying().(*types.Slice); ok && isRune(sl.Elem()) && init != nil {
			if cl, ok := init.(*ast.CompositeLit); ok {
				var l []rune
				for _, e := range cl.Elts {
					if r, ok := constInt(info, e); ok {
						l = append(l, rune(r))
					}
				}
				lists[v] = l
				list, listObj = l, v
			}
		}
	})
	if len(lists) > 1 {
		listObj, list = nil, nil
		for _, f := range pp.Syntax {
			ast.Inspect(f, func(n ast.Node) bool {
				call, ok := n.(*ast.CallExpr)
				if !ok || len(call.Args) != 1 || !call.Ellipsis.IsValid() {
					return true
				}
				if fo, ok := objOf(info, call.Fun).(*types.Func); ok && fo.Name() == "ExcludeRunes" {
					if id, ok := ast.Unparen(call.Args[0]).(*ast.Ident); ok {
						if l, known := lists[info.Uses[id]]; known {
							listObj, list = info.Uses[id], l
						}
					}
				}
				return true
			})
		}
	}
	if listObj == nil {
		c.Lost("R9.3", "the package-level list of characters that must be escaped")
		return
	}
	doc := readDoc(c, "5-definitions.md")
	var docList []rune
	for _, line := range strings.Split(doc, "\n") {
		if strings.HasPrefix(strings.TrimSpace(line), "escaped_char") {
			// escaped_char = "\" ( "\" | "|" | ... )
			i := strings.Index(line, "(")
			j := strings.LastIndex(line, ")")
			if i >= 0 && j > i {
				for _, alt := range strings.Split(line[i+1:j], " | ") {
					alt = strings.TrimSpace(alt)
					if len(alt) >= 3 && alt[0] == '"' && alt[len(alt)-1] == '"' {
						docList = append(docList, []rune(alt[1:len(alt)-1])...)
					}
				}
			}
		}
	}
	if len(docList) == 0 {
		c.Lost("R9.3", "documented escaped_char alternatives")
	} else {
		a, b := runesToSet(list), runesToSet(docList)
		c.Check("R9.3", "the characters that must be escaped are the documented ones", listObj.Pos(), a.equal(b) && len(list) == len(docList),
			fmt.Sprintf("code %s, docs %s", a, b))
	}
	// usage: ExcludeRunes(list...) for unescaped_char and ExpectRuneIn(list...) after a backslash for escaped_char
	newFn := FuncDecl(pp, "", "New")
	if newFn == nil {
		c.Lost("R9.3", "parser.New")
		return
	}
	excl, incl := false, false
	ast.Inspect(newFn.Body, func(n ast.Node) bool {
		call, ok := n.(*ast.CallExpr)
		if !ok || len(call.Args) != 1 || !call.Ellipsis.IsValid() {
			return true
		}
		id, ok := ast.Unparen(call.Args[0]).(*ast.Ident)
		if !ok || info.Uses[id] != listObj {
			return true
		}
		if fo, ok := objOf(info, call.Fun).(*types.Func); ok {
			switch fo.Name() {
			case "ExcludeRunes":
				excl = true
			case "ExpectRuneIn":
				incl = true
			}
		}
		return true
	})
	// what follows the backslash is that list and nothing else: ExpectRune('\\').CONCAT(ExpectRuneIn(list...)) with no further alternative
	ast.Inspect(newFn.Body, func(n ast.Node) bool {
		call, ok := n.(*ast.CallExpr)
		if !ok || len(call.Args) < 1 {
			return true
		}
		sel, ok := call.Fun.(*ast.SelectorExpr)
		if !ok || sel.Sel.Name != "CONCAT" {
			return true
		}
		head, ok := ast.Unparen(sel.X).(*ast.CallExpr)
		if !ok || len(head.Args) != 1 {
			return true
		}
		if fo, ok := objOf(info, head.Fun).(*types.Func); !ok || fo.Name() != "ExpectRune" {
			return true
		}
		if v, ok := constInt(info, head.Args[0]); !ok || v != 92 {
			return true
		}
		exact := false
		if len(call.Args) == 1 {
			if arg, ok := ast.Unparen(call.Args[0]).(*ast.CallExpr); ok && len(arg.Args) == 1 && arg.Ellipsis.IsValid() {
				if fo, ok := objOf(info, arg.Fun).(*types.Func); ok && fo.Name() == "ExpectRuneIn" {
					if id, ok := ast.Unparen(arg.Args[0]).(*ast.Ident); ok && info.Uses[id] == listObj {
						exact = true
					}
				}
			}
		}
		if !exact {
			// is the list there at all, among other things?
			mentions := false
			ast.Inspect(call, func(m ast.Node) bool {
				if id, ok := m.(*ast.Ident); ok && info.Uses[id] == listObj {
					mentions = true
				}
				return true
			})
			if mentions {
				c.Fail("R9.3", "a backslash is followed by a character of that list and by nothing else", call.Pos(),
					"after the backslash the combinator accepts more than the documented list ("+types.ExprString(call.Args[0])+"): escapes the documented grammar does not have are accepted",
					`a\tb (an escape that is not in the documented list)`)
			}
		}
		return true
	})
	c.Check("R9.3", "unescaped characters exclude exactly that list", newFn.Pos(), excl, "unescaped_char is not built with ExcludeRunes(<the list>...)")
	c.Check("R9.3", "escaped characters are exactly that list after a backslash", newFn.Pos(), incl, "escaped_char is not built with ExpectRuneIn(<the list>...)")
}

// mappersTypeName: the struct type of the package whose method set has ToRange and ToCharRange.
func mappersTypeName(p *packages.Package) string {
	for _, n := range p.Types.Scope().Names() {
		if tn, ok := p.Types.Scope().Lookup(n).(*types.TypeName); ok {
			if named, ok := tn.Type().(*types.Named); ok {
				if _, isStruct := named.Underlying().(*types.Struct); isStruct {
					ms := types.NewMethodSet(types.NewPointer(named))
					if ms.Lookup(p.Types, "ToRange") != nil && ms.Lookup(p.Types, "ToCharRange") != nil {
						return tn.Name()
					}
				}
			}
		}
	}
	return "mappers"
}

// isErrField: the selector denotes a struct field of type error.
func isErrField(info *types.Info, sel *ast.SelectorExpr) bool {
	v, ok := info.Uses[sel.Sel].(*types.Var)
	return ok && v.IsField() && isErr(v.Type())
}


// condAtoms splits a condition at && and ||, strips negations, and abstracts every atom: a boolean variable by where it
// was defined (comma-ok of a map index, of a type assertion, or a call), a comparison by its operator class and the kinds of
// its operands (len(...), constant, nil, a value of some type). An atom that is none of these is "opaque".
func condAtoms(info *types.Info, e ast.Expr, abstractType func(types.Type) string, defs map[types.Object]ast.Expr) []string {
	var out []string
	var operand func(e ast.Expr) string
	operand = func(e ast.Expr) string {
		e = ast.Unparen(e)
		if tv, ok := info.Types[e]; ok {
			if tv.IsNil() {
				return "nil"
			}
			if tv.Value != nil {
				return "const " + tv.Value.String()
			}
		}
		switch x := e.(type) {
		case *ast.CallExpr:
			if id, ok := x.Fun.(*ast.Ident); ok && (id.Name == "len" || id.Name == "cap") {
				if _, isB := info.Uses[id].(*types.Builtin); isB {
					return "len"
				}
			}
			return "call"
		case *ast.StarExpr:
			return operand(x.X)
		}
		if t := info.TypeOf(e); t != nil {
			if p, ok := t.(*types.Pointer); ok {
				return abstractType(p.Elem())
			}
			return abstractType(t)
		}
		return "?"
	}
	depthGuard := 0
	var walk func(e ast.Expr)
	walk = func(e ast.Expr) {
		e = ast.Unparen(e)
		switch x := e.(type) {
		case *ast.BinaryExpr:
			switch x.Op {
			case token.LAND, token.LOR:
				walk(x.X)
				walk(x.Y)
				return
			case token.EQL, token.NEQ:
				a, b := operand(x.X), operand(x.Y)
				if a > b {
					a, b = b, a
				}
				out = append(out, "eq("+a+","+b+")")
				return
			case token.LSS, token.GTR, token.LEQ, token.GEQ:
				// a counter compared with zero is a flag
				if id, ok := ast.Unparen(x.X).(*ast.Ident); ok && counterVars[info.Uses[id]] {
					if tv, ok := info.Types[x.Y]; ok && tv.Value != nil && tv.Value.String() == "0" {
						return
					}
				}
				a, b := operand(x.X), operand(x.Y)
				if a > b {
					a, b = b, a
				}
				out = append(out, "order("+a+","+b+")")
				return
			}
		case *ast.UnaryExpr:
			if x.Op == token.NOT {
				walk(x.X)
				return
			}
		case *ast.Ident:
			if o, ok := info.Uses[x].(*types.Var); ok {
				if b, isB := o.Type().Underlying().(*types.Basic); isB && b.Kind() == types.Bool {
					// a boolean that names a comparison stands for it
					if d, ok := defs[o]; ok && depthGuard < 4 {
						depthGuard++
						walk(d)
						depthGuard--
						return
					}
					out = append(out, "flag")
					return
				}
			}
		}
		out = append(out, "opaque")
	}
	walk(e)
	return out
}

// checkClampKeepsOutsider (R9.6 = R7.8): where a mapper clips a parsed character with min/max before enumerating a range, the
// clipping interval must reach beyond the table of supported characters on both sides. The group mapper turns a character down by
// finding it outside the table; a range clipped to the table itself loses its unsupported part silently and the pattern is
// accepted. The bounds are read as a + b*len(table).
func checkClampKeepsOutsider(c *Ctx, rule string) {
	n := 0
	for _, pk := range []string{"internal/regex/parser/nfa", "internal/regex/parser/ast"} {
		sp := c.SSAPk[modPath+"/"+pk]
		if sp == nil {
			continue
		}
		for _, mem := range sp.Members {
			t, ok := mem.(*ssa.Type)
			if !ok {
				continue
			}
			for _, recv := range []types.Type{t.Type(), types.NewPointer(t.Type())} {
				ms := c.Prog.MethodSets.MethodSet(recv)
				for i := 0; i < ms.Len(); i++ {
					f := c.Prog.MethodValue(ms.At(i))
					if f == nil || f.Pkg != sp || len(f.Blocks) == 0 {
						continue
					}
					for _, b := range f.Blocks {
						for _, in := range b.Instrs {
							call, ok := in.(*ssa.Call)
							if !ok {
								continue
							}
							bi, ok := call.Call.Value.(*ssa.Builtin)
							if !ok || (bi.Name() != "min" && bi.Name() != "max") || len(call.Call.Args) != 2 {
								continue
							}
							if bt, ok := call.Type().Underlying().(*types.Basic); !ok || bt.Kind() != types.Int32 {
								continue
							}
							// the bound is the operand that is affine in len(table); the other one is the character
							for _, arg := range call.Call.Args {
								a, k, ok := affineInLen(arg, 0)
								if !ok {
									continue
								}
								n++
								key := fmt.Sprintf("%s: %s(character, %s) leaves an unsupported character outside the table", shortFn(f), bi.Name(), affineText(a, k))
								switch bi.Name() {
								case "max":
									c.Check(rule, key, call.Pos(), k == 0 && a <= -1, "the lower clipping bound is "+affineText(a, k)+": a character below the table is moved into it, the group mapper no longer sees anything unsupported and the pattern is accepted",
										`[\x80000000-a] (a negative code point as the lower end of a range)`)
								case "min":
									c.Check(rule, key, call.Pos(), (k == 1 && a >= 0) || (k == 0 && a >= 128), "the upper clipping bound is "+affineText(a, k)+": a character beyond the table is moved onto its last entry, the group mapper no longer sees anything unsupported and the pattern is accepted",
										`[a-\x00E9]: accepted as [a-\x7F] instead of being rejected`)
								}
							}
						}
					}
				}
			}
		}
	}
	if n == 0 {
		c.Undecided(rule, "clipping of range ends in the mappers", token.NoPos, "no min/max clipping of a character against the table was found")
	}
}

// affineInLen reads v as a + k*len(x): constants, len(...) of anything, conversions, +/- constants; values kept in a local.
func affineInLen(v ssa.Value, depth int) (a int64, k int64, ok bool) {
	if depth > 6 {
		return 0, 0, false
	}
	switch x := v.(type) {
	case *ssa.Const:
		if x.Value != nil && x.Value.Kind() == constant.Int {
			if n, exact := constant.Int64Val(x.Value); exact {
				return n, 0, true
			}
		}
	case *ssa.Convert:
		return affineInLen(x.X, depth+1)
	case *ssa.ChangeType:
		return affineInLen(x.X, depth+1)
	case *ssa.Call:
		if bi, isB := x.Call.Value.(*ssa.Builtin); isB && bi.Name() == "len" {
			return 0, 1, true
		}
	case *ssa.BinOp:
		if x.Op == token.ADD || x.Op == token.SUB {
			a1, k1, ok1 := affineInLen(x.X, depth+1)
			a2, k2, ok2 := affineInLen(x.Y, depth+1)
			if ok1 && ok2 {
				if x.Op == token.ADD {
					return a1 + a2, k1 + k2, true
				}
				return a1 - a2, k1 - k2, true
			}
		}
	}
	return 0, 0, false
}

func affineText(a, k int64) string {
	switch {
	case k == 0:
		return fmt.Sprint(a)
	case a == 0 && k == 1:
		return "len(table)"
	case k == 1 && a < 0:
		return fmt.Sprintf("len(table)%d", a)
	case k == 1:
		return fmt.Sprintf("len(table)+%d", a)
	}
	return fmt.Sprintf("%d+%d*len(table)", a, k)
}

// checkAlternativesFailByShape (R9.7 = R2.7): in an ordered choice `a.ALT(b, c)` the next alternative is tried when one fails. A leaf
// mapper (`x.Map(toX)`, toX a function of the pattern-parser package) that fails because of the *value* it was handed (a comparison, a
// validity test) rather than because the parsed parts do not have the expected shape makes the choice fall through, and a later
// alternative that begins with the same literal re-reads the same text as something else: `\xD800` becomes `\xD8` followed by "00".
// A value that is not acceptable has to be recorded as an error (the mappers' error list), not turned into a failed parse.
func checkAlternativesFailByShape(c *Ctx, rule string) {
	pp := c.Pkg("internal/regex/parser")
	if pp == nil {
		return
	}
	info := pp.TypesInfo
	type def struct {
		mapper *types.Func
		lit    string
		pos    token.Pos
	}
	defs := map[string]*def{}
	firstLit := func(e ast.Expr) string {
		// the innermost receiver of the method chain: comb.ExpectString(lit) / comb.ExpectRune(c)
		for {
			call, ok := ast.Unparen(e).(*ast.CallExpr)
			if !ok {
				return ""
			}
			if sel, ok := call.Fun.(*ast.SelectorExpr); ok {
				if fo, ok := info.Uses[sel.Sel].(*types.Func); ok && fo.Pkg() != nil && strings.HasSuffix(fo.Pkg().Path(), "combinator") {
					if _, isPkg := info.Uses[identOf(sel.X)].(*types.PkgName); isPkg {
						if len(call.Args) == 1 {
							if v, ok := constStr(info, call.Args[0]); ok {
								return v
							}
							if v, ok := constInt(info, call.Args[0]); ok {
								return string(rune(v))
							}
						}
						return ""
					}
				}
				e = sel.X
				continue
			}
			return ""
		}
	}
	AllFuncDecls(pp, func(fd *ast.FuncDecl) {
		if fd.Body == nil {
			return
		}
		ast.Inspect(fd.Body, func(n ast.Node) bool {
			as, ok := n.(*ast.AssignStmt)
			if !ok || len(as.Lhs) != 1 || len(as.Rhs) != 1 {
				return true
			}
			lsel, ok := as.Lhs[0].(*ast.SelectorExpr)
			if !ok {
				return true
			}
			call, ok := ast.Unparen(as.Rhs[0]).(*ast.CallExpr)
			if !ok || len(call.Args) != 1 {
				return true
			}
			msel, ok := call.Fun.(*ast.SelectorExpr)
			if !ok || msel.Sel.Name != "Map" {
				return true
			}
			fo, ok := objOf(info, call.Args[0]).(*types.Func)
			if !ok || fo.Pkg() != pp.Types {
				return true
			}
			defs[lsel.Sel.Name] = &def{mapper: fo, lit: firstLit(msel.X), pos: as.Pos()}
			return true
		})
	})
	// mappers that can fail on a value
	valueFail := map[*types.Func]token.Pos{}
	for _, d := range defs {
		fd := declOfFunc(pp, d.mapper)
		if fd == nil || fd.Body == nil {
			continue
		}
		var stack []ast.Node
		ast.Inspect(fd.Body, func(n ast.Node) bool {
			if n == nil {
				stack = stack[:len(stack)-1]
				return true
			}
			defer func() { stack = append(stack, n) }()
			ret, ok := n.(*ast.ReturnStmt)
			if !ok || len(ret.Results) != 2 {
				return true
			}
			if tv, ok := info.Types[ret.Results[1]]; !ok || tv.Value == nil || tv.Value.String() != "false" {
				return true
			}
			for _, anc := range stack {
				ifs, ok := anc.(*ast.IfStmt)
				if !ok {
					continue
				}
				byValue := false
				ast.Inspect(ifs.Cond, func(m ast.Node) bool {
					switch x := m.(type) {
					case *ast.BinaryExpr:
						switch x.Op {
						case token.EQL, token.NEQ, token.LSS, token.LEQ, token.GTR, token.GEQ:
							if !isNilExpr(info, x.X) && !isNilExpr(info, x.Y) {
								byValue = true
							}
						}
					case *ast.CallExpr:
						if tv, has := info.Types[x.Fun]; !(has && tv.IsType()) {
							byValue = true
						}
					}
					return true
				})
				if byValue {
					valueFail[d.mapper] = ret.Pos()
				}
			}
			return true
		})
	}
	n := 0
	AllFuncDecls(pp, func(fd *ast.FuncDecl) {
		if fd.Body == nil {
			return
		}
		ast.Inspect(fd.Body, func(nd ast.Node) bool {
			call, ok := nd.(*ast.CallExpr)
			if !ok {
				return true
			}
			sel, ok := call.Fun.(*ast.SelectorExpr)
			if !ok || sel.Sel.Name != "ALT" {
				return true
			}
			ops := append([]ast.Expr{sel.X}, call.Args...)
			for i, op := range ops {
				osel, ok := ast.Unparen(op).(*ast.SelectorExpr)
				if !ok {
					continue
				}
				d := defs[osel.Sel.Name]
				if d == nil {
					continue
				}
				n++
				at, fails := valueFail[d.mapper]
				key := fmt.Sprintf("alternative %s (mapper %s) of an ordered choice fails only when the parsed parts do not have its shape", osel.Sel.Name, d.mapper.Name())
				if !fails {
					c.Pass(rule, key, op.Pos(), "")
					continue
				}
				later := ""
				for _, op2 := range ops[i+1:] {
					if s2, ok := ast.Unparen(op2).(*ast.SelectorExpr); ok {
						if d2 := defs[s2.Sel.Name]; d2 != nil && d.lit != "" && d2.lit == d.lit {
							later = s2.Sel.Name
						}
					}
				}
				if later != "" {
					c.Fail(rule, key, at, fmt.Sprintf("%s returns false under a test on the value; the choice then tries %s, which begins with the same literal %q and reads the same text as something else", d.mapper.Name(), later, d.lit),
						`a\xD800b: read as a, \xD8, "0", "0", b`)
				} else {
					c.Undecided(rule, key, at, d.mapper.Name()+" returns false under a test on the value; whether a later alternative can read the same text is not decided")
				}
			}
			return true
		})
	})
	if n == 0 {
		c.Undecided(rule, "alternatives of ordered choices fail only by shape", token.NoPos, "no ordered choice over mapped leaf parsers was found")
	}
}

func identOf(e ast.Expr) *ast.Ident {
	id, _ := ast.Unparen(e).(*ast.Ident)
	return id
}
