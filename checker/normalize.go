package main

// Normalisation of the loaded syntax trees before any rule looks at them (and before SSA is built from them).
//
// The rules are rules over program shape; many equivalent spellings of one program differ only mechanically. Instead of
// teaching every rule every spelling, the trees are brought into one normal form first. Each rewrite keeps the program's
// meaning and keeps go/types' records valid (nodes are re-used, or the new node's type is recorded), so that go/ssa builds the
// same program it would have built from the source:
//
//	N1  var x = e            ->  x := e                       (one name, one value, no type, inside a function)
//	N2  K == x, K < x        ->  x == K, x > K                 (a constant or nil on the left goes to the right)
//	    len(s) > i           ->  i < len(s)                    (a length on the left, a plain value on the right)
//	N3  if c { …; return } else { rest }  ->  if c { …; return }; rest     (else after a terminating body; last statement of a block)
//	N4  switch { case a: A; case b: B; default: C }  ->  if a { A } else if b { B } else { C }      (no break/fallthrough inside)
//	N5  if !c { A } else { B }  ->  if c { B } else { A };  if a != b { A } else { B }  ->  if a == b { B } else { A }
//
//	N6  for i := 0; i < len(x); i++ { v := x[i]; … }  ->  for i, v := range x { … }     (x a plain value the body does not assign;
//	    i and v not assigned in the body)
//	N7  r := f(…); return r  ->  return f(…)                  (r used nowhere else)
//
// Positions of moved nodes are kept, so reports still point into the source.

import (
	"go/ast"
	"go/token"
	"go/types"

	"golang.org/x/tools/go/ast/astutil"
	"golang.org/x/tools/go/packages"
)

var normCounts = map[string]int{}

func normalizePackage(p *packages.Package) {
	if p == nil || p.TypesInfo == nil {
		return
	}
	for _, f := range p.Syntax {
		normalizeFile(p.TypesInfo, f)
	}
}

func isConstOrNil(info *types.Info, e ast.Expr) bool {
	if tv, ok := info.Types[e]; ok {
		if tv.Value != nil || tv.IsNil() {
			return true
		}
	}
	return false
}

func isLenCall(info *types.Info, e ast.Expr) bool {
	call, ok := ast.Unparen(e).(*ast.CallExpr)
	if !ok || len(call.Args) != 1 {
		return false
	}
	id, ok := call.Fun.(*ast.Ident)
	if !ok || id.Name != "len" {
		return false
	}
	_, isB := info.Uses[id].(*types.Builtin)
	return isB
}

// plainValue: an identifier or a selector chain (no calls, no indexing): evaluating it has no effect and cannot panic
// in a way that the other operand's evaluation could observe.
func plainValue(e ast.Expr) bool {
	switch x := ast.Unparen(e).(type) {
	case *ast.Ident:
		return true
	case *ast.SelectorExpr:
		return plainValue(x.X)
	case *ast.BasicLit:
		return true
	}
	return false
}

func effectFree(info *types.Info, e ast.Expr) bool {
	ok := true
	ast.Inspect(e, func(n ast.Node) bool {
		switch x := n.(type) {
		case *ast.CallExpr:
			if tv, has := info.Types[x.Fun]; has && tv.IsType() {
				return true
			}
			if isLenCall(info, x) {
				return true
			}
			ok = false
		case *ast.UnaryExpr:
			if x.Op == token.ARROW {
				ok = false
			}
		case *ast.IndexExpr, *ast.SliceExpr, *ast.StarExpr, *ast.TypeAssertExpr, *ast.FuncLit:
			ok = false
		}
		return ok
	})
	return ok
}

var flipCmp = map[token.Token]token.Token{token.EQL: token.EQL, token.NEQ: token.NEQ, token.LSS: token.GTR, token.GTR: token.LSS, token.LEQ: token.GEQ, token.GEQ: token.LEQ}

func terminates(list []ast.Stmt) bool {
	if len(list) == 0 {
		return false
	}
	switch x := list[len(list)-1].(type) {
	case *ast.ReturnStmt:
		return true
	case *ast.BranchStmt:
		return x.Tok == token.CONTINUE || x.Tok == token.BREAK || x.Tok == token.GOTO
	case *ast.ExprStmt:
		if c, ok := x.X.(*ast.CallExpr); ok {
			if id, ok := c.Fun.(*ast.Ident); ok && id.Name == "panic" {
				return true
			}
		}
	}
	return false
}

// freeBreak: an unlabeled break (or a fallthrough) that binds to the statement n itself.
func freeBreak(n ast.Node) bool {
	found := false
	ast.Inspect(n, func(m ast.Node) bool {
		if found {
			return false
		}
		switch x := m.(type) {
		case *ast.ForStmt, *ast.RangeStmt, *ast.SwitchStmt, *ast.TypeSwitchStmt, *ast.SelectStmt:
			if m != n {
				return false
			}
		case *ast.FuncLit:
			return false
		case *ast.BranchStmt:
			if (x.Tok == token.BREAK && x.Label == nil) || x.Tok == token.FALLTHROUGH {
				found = true
			}
		}
		return true
	})
	return found
}

func normalizeFile(info *types.Info, f *ast.File) {
	// N1, N2, N5 (in place), N4 (replace)
	astutil.Apply(f, nil, func(c *astutil.Cursor) bool {
		switch x := c.Node().(type) {
		case *ast.DeclStmt:
			gd, ok := x.Decl.(*ast.GenDecl)
			if !ok || gd.Tok != token.VAR || len(gd.Specs) != 1 {
				return true
			}
			vs := gd.Specs[0].(*ast.ValueSpec)
			if vs.Type != nil || len(vs.Names) != 1 || len(vs.Values) != 1 || vs.Names[0].Name == "_" {
				return true
			}
			if _, inBlock := c.Parent().(*ast.BlockStmt); !inBlock {
				if _, inCase := c.Parent().(*ast.CaseClause); !inCase {
					return true
				}
			}
			// an untyped constant initialiser takes its default type either way; a nil initialiser cannot be written with :=
			if tv, ok := info.Types[vs.Values[0]]; ok && tv.IsNil() {
				return true
			}
			c.Replace(&ast.AssignStmt{Lhs: []ast.Expr{vs.Names[0]}, TokPos: vs.Names[0].End(), Tok: token.DEFINE, Rhs: []ast.Expr{vs.Values[0]}})
			normCounts["N1"]++
		case *ast.BinaryExpr:
			op, isCmp := flipCmp[x.Op]
			if !isCmp {
				return true
			}
			lc, rc := isConstOrNil(info, x.X), isConstOrNil(info, x.Y)
			switch {
			case lc && !rc && effectFree(info, x.Y):
				x.X, x.Y, x.Op = x.Y, x.X, op
				normCounts["N2"]++
			case !lc && !rc && isLenCall(info, x.X) && !isLenCall(info, x.Y) && plainValue(x.Y) && effectFree(info, x.X):
				x.X, x.Y, x.Op = x.Y, x.X, op
				normCounts["N2"]++
			}
		case *ast.IfStmt:
			eb, ok := x.Else.(*ast.BlockStmt)
			if !ok {
				return true
			}
			switch cnd := ast.Unparen(x.Cond).(type) {
			case *ast.UnaryExpr:
				if cnd.Op == token.NOT {
					x.Cond, x.Body, x.Else = cnd.X, eb, x.Body
					normCounts["N5"]++
				}
			case *ast.BinaryExpr:
				if cnd.Op == token.NEQ && !isConstOrNil(info, cnd.Y) {
					cnd.Op = token.EQL
					x.Body, x.Else = eb, x.Body
					normCounts["N5"]++
				}
			}
		case *ast.SwitchStmt:
			if x.Tag != nil || x.Init != nil || len(x.Body.List) == 0 || freeBreak(x) {
				return true
			}
			if _, lab := c.Parent().(*ast.LabeledStmt); lab {
				return true
			}
			var head, tail *ast.IfStmt
			var def *ast.BlockStmt
			for i, st := range x.Body.List {
				cc := st.(*ast.CaseClause)
				if cc.List == nil {
					if i != len(x.Body.List)-1 {
						return true
					}
					def = &ast.BlockStmt{Lbrace: cc.Colon, List: cc.Body, Rbrace: cc.End()}
					continue
				}
				var cond ast.Expr
				for _, e := range cc.List {
					if cond == nil {
						cond = e
						continue
					}
					or := &ast.BinaryExpr{X: cond, OpPos: e.Pos(), Op: token.LOR, Y: e}
					info.Types[or] = types.TypeAndValue{Type: types.Typ[types.Bool]}
					cond = or
				}
				n := &ast.IfStmt{If: cc.Case, Cond: cond, Body: &ast.BlockStmt{Lbrace: cc.Colon, List: cc.Body, Rbrace: cc.End()}}
				if head == nil {
					head = n
				} else {
					tail.Else = n
				}
				tail = n
			}
			if head == nil {
				return true
			}
			if def != nil {
				tail.Else = def
			}
			c.Replace(head)
			normCounts["N4"]++
		}
		return true
	})
	// N6, N7
	uses := map[types.Object]int{}
	for id, o := range info.Uses {
		if id.Pos() >= f.Pos() && id.End() <= f.End() {
			uses[o]++
		}
	}
	assignedIn := func(body ast.Node, match func(ast.Expr) bool) bool {
		found := false
		ast.Inspect(body, func(n ast.Node) bool {
			switch a := n.(type) {
			case *ast.AssignStmt:
				for _, l := range a.Lhs {
					if match(l) {
						found = true
					}
				}
			case *ast.IncDecStmt:
				if match(a.X) {
					found = true
				}
			case *ast.UnaryExpr:
				if a.Op == token.AND && match(a.X) {
					found = true
				}
			case *ast.RangeStmt:
				if a.Tok == token.ASSIGN && ((a.Key != nil && match(a.Key)) || (a.Value != nil && match(a.Value))) {
					found = true
				}
			}
			return !found
		})
		return found
	}
	isObj := func(o types.Object) func(ast.Expr) bool {
		return func(e ast.Expr) bool {
			id, ok := ast.Unparen(e).(*ast.Ident)
			return ok && (info.Uses[id] == o || info.Defs[id] == o)
		}
	}
	astutil.Apply(f, nil, func(c *astutil.Cursor) bool {
		switch x := c.Node().(type) {
		case *ast.ForStmt:
			if _, lab := c.Parent().(*ast.LabeledStmt); lab {
				return true
			}
			init, ok := x.Init.(*ast.AssignStmt)
			if !ok || init.Tok != token.DEFINE || len(init.Lhs) != 1 || len(init.Rhs) != 1 {
				return true
			}
			iv, ok := init.Lhs[0].(*ast.Ident)
			if !ok {
				return true
			}
			if tv, ok := info.Types[init.Rhs[0]]; !ok || tv.Value == nil || tv.Value.String() != "0" {
				return true
			}
			io := info.Defs[iv]
			cond, ok := x.Cond.(*ast.BinaryExpr)
			if !ok || cond.Op != token.LSS || io == nil || !isObj(io)(cond.X) || !isLenCall(info, cond.Y) {
				return true
			}
			post, ok := x.Post.(*ast.IncDecStmt)
			if !ok || post.Tok != token.INC || !isObj(io)(post.X) {
				return true
			}
			coll := ast.Unparen(cond.Y).(*ast.CallExpr).Args[0]
			if !plainValue(coll) {
				return true
			}
			if t := info.TypeOf(coll); t == nil {
				return true
			} else if _, isSlice := t.Underlying().(*types.Slice); !isSlice {
				if _, isArr := t.Underlying().(*types.Array); !isArr {
					return true
				}
			}
			collText := types.ExprString(coll)
			sameColl := func(e ast.Expr) bool { return types.ExprString(ast.Unparen(e)) == collText }
			if assignedIn(x.Body, isObj(io)) || assignedIn(x.Body, sameColl) {
				return true
			}
			// a selector operand could be reassigned by any call in the body
			if _, isSel := ast.Unparen(coll).(*ast.SelectorExpr); isSel {
				called := false
				ast.Inspect(x.Body, func(n ast.Node) bool {
					if ce, ok := n.(*ast.CallExpr); ok {
						if tv, has := info.Types[ce.Fun]; !(has && tv.IsType()) && !isLenCall(info, ce) {
							if id, isID := ce.Fun.(*ast.Ident); !isID || (id.Name != "append" && id.Name != "cap") {
								called = true
							}
						}
					}
					return !called
				})
				if called {
					return true
				}
			}
			rs := &ast.RangeStmt{For: x.For, Key: iv, TokPos: init.TokPos, Tok: token.DEFINE, X: coll, Body: x.Body}
			// v := x[i] as the first statement
			if len(x.Body.List) > 0 {
				if as, ok := x.Body.List[0].(*ast.AssignStmt); ok && as.Tok == token.DEFINE && len(as.Lhs) == 1 && len(as.Rhs) == 1 {
					if vv, ok := as.Lhs[0].(*ast.Ident); ok && vv.Name != "_" {
						if ix, ok := ast.Unparen(as.Rhs[0]).(*ast.IndexExpr); ok && sameColl(ix.X) && isObj(io)(ix.Index) {
							if vo := info.Defs[vv]; vo != nil {
								rest := &ast.BlockStmt{List: x.Body.List[1:]}
								if !assignedIn(rest, isObj(vo)) {
									rs.Value = vv
									rs.Body = &ast.BlockStmt{Lbrace: x.Body.Lbrace, List: x.Body.List[1:], Rbrace: x.Body.Rbrace}
								}
							}
						}
					}
				}
			}
			c.Replace(rs)
			normCounts["N6"]++
		case *ast.BlockStmt:
			x.List = inlineReturnTemp(info, uses, x.List)
		case *ast.CaseClause:
			x.Body = inlineReturnTemp(info, uses, x.Body)
		}
		return true
	})
	// N3: else after a terminating body, where the if statement is the last statement of its block (so that moving the else
	// branch out does not change what runs after it) or the body cannot fall through at all
	var flatten func(list []ast.Stmt) []ast.Stmt
	flatten = func(list []ast.Stmt) []ast.Stmt {
		var out []ast.Stmt
		for _, st := range list {
			ifs, ok := st.(*ast.IfStmt)
			if !ok {
				out = append(out, st)
				continue
			}
			out = append(out, ifs)
			for {
				if ifs.Else == nil || !terminates(ifs.Body.List) {
					break
				}
				switch e := ifs.Else.(type) {
				case *ast.BlockStmt:
					ifs.Else = nil
					out = append(out, flatten(e.List)...)
					normCounts["N3"]++
				case *ast.IfStmt:
					ifs.Else = nil
					out = append(out, e)
					normCounts["N3"]++
					ifs = e
					continue
				}
				break
			}
		}
		return out
	}
	astutil.Apply(f, nil, func(c *astutil.Cursor) bool {
		switch x := c.Node().(type) {
		case *ast.BlockStmt:
			if needsFlatten(x.List) {
				x.List = flatten(x.List)
			}
		case *ast.CaseClause:
			if needsFlatten(x.Body) {
				x.Body = flatten(x.Body)
			}
		}
		return true
	})
}

func needsFlatten(list []ast.Stmt) bool {
	for _, st := range list {
		for ifs, ok := st.(*ast.IfStmt); ok && ifs != nil; {
			if ifs.Else != nil && terminates(ifs.Body.List) {
				// declarations in the else branch would move into the enclosing block: only when they cannot clash, i.e. the
				// else branch declares nothing at its top level that the rest of the block declares again
				return true
			}
			next, isIf := ifs.Else.(*ast.IfStmt)
			if !isIf {
				break
			}
			ifs = next
		}
	}
	return false
}


// inlineReturnTemp: N7.
func inlineReturnTemp(info *types.Info, uses map[types.Object]int, list []ast.Stmt) []ast.Stmt {
	for i := 0; i+1 < len(list); i++ {
		as, ok := list[i].(*ast.AssignStmt)
		if !ok || as.Tok != token.DEFINE || len(as.Lhs) != 1 || len(as.Rhs) != 1 {
			continue
		}
		id, ok := as.Lhs[0].(*ast.Ident)
		if !ok || id.Name == "_" {
			continue
		}
		ret, ok := list[i+1].(*ast.ReturnStmt)
		if !ok || len(ret.Results) != 1 {
			continue
		}
		rid, ok := ast.Unparen(ret.Results[0]).(*ast.Ident)
		o := info.Defs[id]
		if !ok || o == nil || info.Uses[rid] != o || uses[o] != 1 {
			continue
		}
		if _, isCall := ast.Unparen(as.Rhs[0]).(*ast.CallExpr); !isCall {
			continue
		}
		// the temporary has the type of the call; so has the returned expression (a single-valued call keeps its type)
		ret.Results[0] = as.Rhs[0]
		list = append(list[:i:i], list[i+1:]...)
		normCounts["N7"]++
	}
	return list
}
