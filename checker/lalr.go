package main

// E4: checker-side canonical LR(1) -> LALR(1) (merge by core) with the documented precedence /
// associativity resolution, and comparison with an embedded ACTION/GOTO table modulo state renaming.
// Independent of moorara/algo/parser/lr.

import (
	"fmt"
	"sort"
	"strings"
)

const endmarkerName = "￿$end"

type laction struct {
	typ   string // SHIFT REDUCE ACCEPT
	param int
}

func (a laction) String() string {
	if a.typ == "ACCEPT" {
		return a.typ
	}
	return fmt.Sprintf("%s %d", a.typ, a.param)
}

type litem struct {
	p, dot int
	la     string
}

type refTable struct {
	action     []map[string][]laction
	gotoT      []map[string]int
	path       []string // symbol path from state 0
	lr1States  int
	conflicts  int
	unresolved []string
}

func buildLALR(prods []gprod, start string, levels []glevel) *refTable {
	aug := len(prods)
	all := append(append([]gprod{}, prods...), gprod{head: "￿S'", body: []gsym{{start, false}}})
	byHead := map[string][]int{}
	for i, p := range all {
		byHead[p.head] = append(byHead[p.head], i)
	}
	nullable := map[string]bool{}
	first := map[string]map[string]bool{}
	for ch := true; ch; {
		ch = false
		for _, p := range all {
			if !nullable[p.head] {
				ok := true
				for _, s := range p.body {
					if s.term || !nullable[s.name] {
						ok = false
						break
					}
				}
				if ok {
					nullable[p.head] = true
					ch = true
				}
			}
			if first[p.head] == nil {
				first[p.head] = map[string]bool{}
			}
			for _, s := range p.body {
				if s.term {
					if !first[p.head][s.name] {
						first[p.head][s.name] = true
						ch = true
					}
					break
				}
				for t := range first[s.name] {
					if !first[p.head][t] {
						first[p.head][t] = true
						ch = true
					}
				}
				if !nullable[s.name] {
					break
				}
			}
		}
	}
	firstOf := func(rest []gsym, la string) []string {
		out := map[string]bool{}
		done := false
		for _, s := range rest {
			if s.term {
				out[s.name] = true
				done = true
				break
			}
			for t := range first[s.name] {
				out[t] = true
			}
			if !nullable[s.name] {
				done = true
				break
			}
		}
		if !done {
			out[la] = true
		}
		var r []string
		for t := range out {
			r = append(r, t)
		}
		sort.Strings(r)
		return r
	}
	closure := func(kernel []litem) []litem {
		seen := map[litem]bool{}
		var work []litem
		for _, it := range kernel {
			if !seen[it] {
				seen[it] = true
				work = append(work, it)
			}
		}
		for i := 0; i < len(work); i++ {
			it := work[i]
			b := all[it.p].body
			if it.dot < len(b) && !b[it.dot].term {
				for _, la := range firstOf(b[it.dot+1:], it.la) {
					for _, q := range byHead[b[it.dot].name] {
						n := litem{q, 0, la}
						if !seen[n] {
							seen[n] = true
							work = append(work, n)
						}
					}
				}
			}
		}
		sort.Slice(work, func(i, j int) bool {
			a, b := work[i], work[j]
			if a.p != b.p {
				return a.p < b.p
			}
			if a.dot != b.dot {
				return a.dot < b.dot
			}
			return a.la < b.la
		})
		return work
	}
	key := func(items []litem, withLA bool) string {
		var sb strings.Builder
		last := ""
		for _, it := range items {
			s := fmt.Sprintf("%d.%d", it.p, it.dot)
			if withLA {
				s += "/" + it.la
			} else if s == last {
				continue
			}
			last = s
			sb.WriteString(s)
			sb.WriteByte(';')
		}
		return sb.String()
	}
	type state struct {
		items []litem
		trans map[gsym]int
		order []gsym
		path  string
	}
	var states []*state
	index := map[string]int{}
	s0 := closure([]litem{{aug, 0, endmarkerName}})
	states = append(states, &state{items: s0, trans: map[gsym]int{}})
	index[key(s0, true)] = 0
	for i := 0; i < len(states); i++ {
		st := states[i]
		next := map[gsym][]litem{}
		for _, it := range st.items {
			b := all[it.p].body
			if it.dot < len(b) {
				s := b[it.dot]
				if _, ok := next[s]; !ok {
					st.order = append(st.order, s)
				}
				next[s] = append(next[s], litem{it.p, it.dot + 1, it.la})
			}
		}
		for _, s := range st.order {
			c := closure(next[s])
			k := key(c, true)
			j, ok := index[k]
			if !ok {
				j = len(states)
				index[k] = j
				states = append(states, &state{items: c, trans: map[gsym]int{}, path: strings.TrimSpace(st.path + " " + s.String())})
			}
			st.trans[s] = j
		}
	}
	coreIdx := map[string]int{}
	merged := make([]int, len(states))
	var paths []string
	n := 0
	for i, st := range states {
		k := key(st.items, false)
		j, ok := coreIdx[k]
		if !ok {
			j = n
			n++
			coreIdx[k] = j
			paths = append(paths, st.path)
		}
		merged[i] = j
	}
	ref := &refTable{lr1States: len(states), path: paths}
	ref.action = make([]map[string][]laction, n)
	ref.gotoT = make([]map[string]int, n)
	for j := 0; j < n; j++ {
		ref.action[j] = map[string][]laction{}
		ref.gotoT[j] = map[string]int{}
	}
	add := func(j int, t string, a laction) {
		for _, x := range ref.action[j][t] {
			if x == a {
				return
			}
		}
		ref.action[j][t] = append(ref.action[j][t], a)
	}
	for i, st := range states {
		j := merged[i]
		for s, k := range st.trans {
			if s.term {
				add(j, s.name, laction{"SHIFT", merged[k]})
			} else {
				ref.gotoT[j][s.name] = merged[k]
			}
		}
		for _, it := range st.items {
			if it.dot == len(all[it.p].body) {
				if it.p == aug {
					add(j, endmarkerName, laction{"ACCEPT", 0})
				} else {
					add(j, it.la, laction{"REDUCE", it.p})
				}
			}
		}
	}
	// documented resolution: a reduce takes the level of the production's leftmost terminal, else of the
	// production itself if listed as a handle; a shift takes the level of the terminal; earlier level wins;
	// same level: LEFT -> reduce, RIGHT -> shift, NONE or same kind -> unresolved.
	lvlOfTerm := map[string]int{}
	for i, l := range levels {
		for _, t := range l.terms {
			if _, dup := lvlOfTerm[t]; !dup {
				lvlOfTerm[t] = i
			}
		}
	}
	lvlOfProd := map[int]int{}
	for li, l := range levels {
		for _, lp := range l.prods {
			for i, p := range prods {
				if p.equal(lp) {
					if _, dup := lvlOfProd[i]; !dup {
						lvlOfProd[i] = li
					}
				}
			}
		}
	}
	handleLevel := func(t string, a laction) (int, bool) {
		if a.typ == "SHIFT" {
			l, ok := lvlOfTerm[t]
			return l, ok
		}
		if a.typ == "ACCEPT" {
			return 0, false
		}
		for _, s := range prods[a.param].body {
			if s.term {
				l, ok := lvlOfTerm[s.name]
				return l, ok
			}
		}
		l, ok := lvlOfProd[a.param]
		return l, ok
	}
	for j := 0; j < n; j++ {
		var ts []string
		for t := range ref.action[j] {
			ts = append(ts, t)
		}
		sort.Strings(ts)
		for _, t := range ts {
			as := ref.action[j][t]
			if len(as) <= 1 {
				continue
			}
			sort.Slice(as, func(x, y int) bool { return as[x].String() < as[y].String() })
			ref.conflicts++
			best := as[0]
			ok := true
			for _, a := range as[1:] {
				lb, okb := handleLevel(t, best)
				la, oka := handleLevel(t, a)
				if !okb || !oka {
					ok = false
					break
				}
				switch {
				case la < lb:
					best = a
				case la > lb:
				default:
					assoc := levels[la].assoc
					if a.typ == best.typ || assoc == "NONE" {
						ok = false
					} else if assoc == "LEFT" {
						if a.typ == "REDUCE" {
							best = a
						}
					} else if assoc == "RIGHT" {
						if a.typ == "SHIFT" {
							best = a
						}
					} else {
						ok = false
					}
				}
				if !ok {
					break
				}
			}
			if !ok {
				ref.unresolved = append(ref.unresolved, fmt.Sprintf("state after [%s] on %q: %v", paths[j], t, as))
				continue
			}
			ref.action[j][t] = []laction{best}
		}
	}
	return ref
}

type tabMismatch struct {
	key    string // stable construct key: kind + symbol path + symbol
	detail string
	state  int // embedded state, -1 if none
	sym    string
}

// compareTables checks that the embedded tables are, entry for entry and with no extras, the reference
// tables modulo a bijective renaming of states fixed by start -> embStart.
func compareTables(ref *refTable, act map[int]map[string]laction, gt map[int]map[string]int, embStart int) (mism []tabMismatch, entries int, mapped int) {
	m := map[int]int{0: embStart}
	inv := map[int]int{embStart: 0}
	queue := []int{0}
	show := func(t string) string {
		if t == endmarkerName {
			return "$end"
		}
		return t
	}
	report := func(kind string, r int, sym string, e int, f string, a ...any) {
		mism = append(mism, tabMismatch{
			key:    fmt.Sprintf("%s after [%s] on %s", kind, ref.path[r], show(sym)),
			detail: fmt.Sprintf(f, a...) + fmt.Sprintf(" (embedded state %d, reached by the symbol path [%s])", e, ref.path[r]),
			state:  e, sym: sym,
		})
	}
	bind := func(r, e int, from int, sym string) {
		if x, ok := m[r]; ok {
			if x != e {
				report("target", from, sym, m[from], "transition leads to embedded state %d but the reference target is already bound to embedded state %d", e, x)
			}
			return
		}
		if y, ok := inv[e]; ok && y != r {
			report("target", from, sym, m[from], "embedded target state %d is already the image of another reference state (path [%s])", e, ref.path[y])
			return
		}
		m[r] = e
		inv[e] = r
		queue = append(queue, r)
	}
	for len(queue) > 0 {
		r := queue[0]
		queue = queue[1:]
		e := m[r]
		var ts []string
		for t := range ref.action[r] {
			ts = append(ts, t)
		}
		sort.Strings(ts)
		for _, t := range ts {
			as := ref.action[r][t]
			entries++
			ea, ok := act[e][t]
			if len(as) != 1 {
				// unresolved in the reference: the embedded table must not silently pick one
				if ok {
					report("action", r, t, e, "reference has an unresolved conflict %v but embedded ACTION is %v", as, ea)
				}
				continue
			}
			a := as[0]
			if !ok {
				report("action", r, t, e, "missing ACTION entry; reference says %v", a)
				continue
			}
			if ea.typ != a.typ {
				report("action", r, t, e, "ACTION is %v; reference says %v", ea, a)
				continue
			}
			switch a.typ {
			case "SHIFT":
				bind(a.param, ea.param, r, t)
			case "REDUCE":
				if ea.param != a.param {
					report("action", r, t, e, "ACTION reduces by production %d; reference reduces by %d", ea.param, a.param)
				}
			}
		}
		var es []string
		for t := range act[e] {
			es = append(es, t)
		}
		sort.Strings(es)
		for _, t := range es {
			if _, ok := ref.action[r][t]; !ok {
				report("extra-action", r, t, e, "extra ACTION entry %v: the reference table has an error entry here", act[e][t])
			}
		}
		var ns []string
		for A := range ref.gotoT[r] {
			ns = append(ns, A)
		}
		sort.Strings(ns)
		for _, A := range ns {
			entries++
			eg, ok := gt[e][A]
			if !ok {
				report("goto", r, A, e, "missing GOTO entry")
				continue
			}
			bind(ref.gotoT[r][A], eg, r, A)
		}
		var gs []string
		for A := range gt[e] {
			gs = append(gs, A)
		}
		sort.Strings(gs)
		for _, A := range gs {
			if _, ok := ref.gotoT[r][A]; !ok {
				report("extra-goto", r, A, e, "extra GOTO entry -> %d", gt[e][A])
			}
		}
	}
	var extraStates []int
	for e := range act {
		if _, ok := inv[e]; !ok {
			extraStates = append(extraStates, e)
		}
	}
	for e := range gt {
		if _, ok := inv[e]; !ok {
			if _, dup := act[e]; !dup {
				extraStates = append(extraStates, e)
			}
		}
	}
	sort.Ints(extraStates)
	for _, e := range extraStates {
		mism = append(mism, tabMismatch{key: fmt.Sprintf("extra-state with %d action / %d goto entries", len(act[e]), len(gt[e])),
			detail: fmt.Sprintf("embedded state %d has entries but is not the image of any reference LALR(1) state", e), state: e})
	}
	return mism, entries, len(m)
}
