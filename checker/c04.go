package main

import (
	"fmt"
	"go/ast"
	"go/token"
	"go/types"
	"os"
	"path/filepath"
	"sort"
	"strings"
)

func init() {
	register(&property{id: "C04", run: runC04, meta: propMeta{
		level: "proof",
		explanation: "The embedded ACTION/GOTO switches are flattened from the syntax tree into complete (state, symbol) tables and compared, entry for entry and modulo a bijective state renaming, " +
			"with LALR(1) tables the checker builds itself (canonical LR(1), merge by core, documented precedence resolution) from the grammar variables extracted from the same package; " +
			"no default actions; documented precedence list and documented EBNF rules agree with the extracted grammar (rule by rule, as regular languages of bodies); the generator's three copies of the grammar agree; " +
			"the shift/reduce driver obeys the LR protocol (SSA). Decides the table clause completely; byte-for-byte regeneration is only decided up to the ordering/format obligations of R4.4.",
		trusted: []string{"checker's own LR(1)/LALR(1) construction (lalr.go)", "LR parsing theory: exact LALR(1) tables + conforming driver accept exactly L(G) under the resolution",
			"go/types constant evaluation", "the documented precedence semantics in docs/1-documentation.md"},
		assumptions: []string{"state numbering is chosen by the dependency; equality is modulo renaming", "lexer supplies the token sequence (C05)"},
	}})
}

func runC04(c *Ctx) {
	c.Rule("R4.1", 500, "every reference LALR(1) entry is present in the embedded table with the same action; state renaming is a bijection; no extra entries or states")
	c.Rule("R4.2", 3, "no default actions: every unbounded leaf of ACTION/GOTO is the explicit error entry")
	c.Rule("R4.3", 6, "documented precedence list and documented grammar equal the extracted ones")
	c.Rule("R4.4", 6, "table generator is not stale: its grammar copies equal the checked-in one; emission order matches")
	c.Rule("R4.5", 8, "shift/reduce driver conformance")

	g := extractEBNF(c, "R4.1")
	if g == nil {
		return
	}
	checkTables(c, g)
	checkDocsPrecedence(c, g)
	checkDocsGrammar(c, g)
	checkGenerator(c, g)
	checkDriver(c, g, "R4.5")
}

func checkTables(c *Ctx, g *ebnfGrammar) {
	// sanity of the extracted grammar
	termSet := map[string]bool{}
	for _, t := range g.terminals {
		termSet[t] = true
	}
	ntSet := map[string]bool{}
	for _, t := range g.nonTerminals {
		ntSet[t] = true
	}
	okSyms := true
	for _, p := range g.prods {
		if !ntSet[p.head] {
			okSyms = false
			c.Fail("R4.1", "production head declared: "+p.String(), p.pos, "head is not in nonTerminals")
		}
		for _, s := range p.body {
			if (s.term && !termSet[s.name]) || (!s.term && !ntSet[s.name]) {
				okSyms = false
				c.Fail("R4.1", "production symbol declared: "+p.String(), p.pos, "symbol "+s.String()+" is not declared")
			}
		}
	}
	if okSyms {
		c.Pass("R4.1", "all production symbols declared", g.startPos, fmt.Sprintf("%d productions, %d terminals, %d non-terminals, start %q", len(g.prods), len(g.terminals), len(g.nonTerminals), g.start))
	}

	ref := buildLALR(g.prods, g.start, g.levels)
	c.Extra("lalr", map[string]any{"lr1_states": ref.lr1States, "lalr_states": len(ref.action), "conflicts_resolved_by_precedence": ref.conflicts - len(ref.unresolved), "unresolved": ref.unresolved,
		"embedded_action_states": len(g.action), "embedded_goto_states": len(g.gotoT), "error_leaves": g.errLeaves})
	for _, u := range ref.unresolved {
		c.Fail("R4.1", "unresolved conflict: "+u, g.startPos, "the documented precedence list does not resolve this LALR(1) conflict of the extracted grammar, so no deterministic table is its LALR(1) table")
	}
	// normalise endmarker
	act := map[int]map[string]laction{}
	for s, m := range g.action {
		act[s] = map[string]laction{}
		for a, v := range m {
			if a == g.endmarker {
				a = endmarkerName
			}
			act[s][a] = v
		}
	}
	mism, entries, mapped := compareTables(ref, act, g.gotoT, 0)
	bad := map[string]bool{}
	for _, m := range mism {
		pos := g.actionFn.Pos()
		if m.state >= 0 {
			sym := m.sym
			if sym == endmarkerName {
				sym = g.endmarker
			}
			if p, ok := g.actionPos[m.state][sym]; ok {
				pos = p
			} else if p, ok := g.gotoPos[m.state][sym]; ok {
				pos = p
			}
		}
		bad[m.key] = true
		c.Fail("R4.1", m.key, pos, m.detail, "token/symbol path from the start state: "+m.key)
	}
	// one discharged obligation per compared entry
	n := 0
	for r := range ref.action {
		var ts []string
		for t := range ref.action[r] {
			ts = append(ts, t)
		}
		sort.Strings(ts)
		for _, t := range ts {
			show := t
			if t == endmarkerName {
				show = "$end"
			}
			k := fmt.Sprintf("action after [%s] on %s", ref.path[r], show)
			if !bad[k] && len(ref.action[r][t]) == 1 {
				c.Pass("R4.1", k, token.NoPos, "")
				if n%40 == 0 {
					c.Sample("ACTION after [%s] on %s = %v (reference and embedded agree)", ref.path[r], show, ref.action[r][t][0].typ)
				}
				n++
			}
		}
		for A := range ref.gotoT[r] {
			k := fmt.Sprintf("goto after [%s] on %s", ref.path[r], A)
			if !bad[k] {
				c.Pass("R4.1", k, token.NoPos, "")
			}
		}
	}
	c.Check("R4.1", "state renaming is a bijection onto the embedded states", g.actionFn.Pos(), mapped == len(ref.action),
		fmt.Sprintf("mapped %d of %d reference states", mapped, len(ref.action)))
	c.Extra("exhaustive", true)
	c.Extra("entries_compared", entries)
	// REDUCE parameters index productions; ACCEPT only on endmarker
	for s, m := range g.action {
		for a, v := range m {
			switch v.typ {
			case "REDUCE":
				if v.param < 0 || v.param >= len(g.prods) {
					c.Fail("R4.1", fmt.Sprintf("reduce parameter in range (state %d)", s), g.actionPos[s][a], fmt.Sprintf("REDUCE %d does not index productions (len %d): the driver panics", v.param, len(g.prods)))
				}
			case "ACCEPT":
				if a != g.endmarker {
					c.Fail("R4.1", fmt.Sprintf("accept only at end of input (state %d)", s), g.actionPos[s][a], "ACCEPT on a terminal other than the end marker")
				}
			}
		}
	}
}

// ---------- R4.3 docs ----------

func readDoc(c *Ctx, name string) string {
	b, err := os.ReadFile(filepath.Join(c.Repo, "docs", name))
	if err != nil {
		return ""
	}
	return string(b)
}

// fencedAfter returns the first fenced code block after the given heading line.
func fencedAfter(doc, heading string) (string, bool) {
	i := strings.Index(doc, heading)
	if i < 0 {
		return "", false
	}
	rest := doc[i+len(heading):]
	// stop at next heading of same or higher level
	a := strings.Index(rest, "```")
	if a < 0 {
		return "", false
	}
	body := rest[a+3:]
	nl := strings.Index(body, "\n")
	body = body[nl+1:]
	b := strings.Index(body, "```")
	if b < 0 {
		return "", false
	}
	return body[:b], true
}

type docTok struct {
	kind string // str ident punct
	val  string
}

func lexDocEBNF(s string) ([]docTok, error) {
	var out []docTok
	rs := []rune(s)
	for i := 0; i < len(rs); {
		r := rs[i]
		switch {
		case r == ' ' || r == '\t' || r == '\n' || r == '\r':
			i++
		case r == '"':
			j := i + 1
			for j < len(rs) && rs[j] != '"' {
				j++
			}
			if j >= len(rs) {
				return nil, fmt.Errorf("unterminated string")
			}
			out = append(out, docTok{"str", string(rs[i+1 : j])})
			i = j + 1
		case r == '@' || r == '_' || (r >= 'a' && r <= 'z') || (r >= 'A' && r <= 'Z'):
			j := i + 1
			for j < len(rs) && (rs[j] == '_' || (rs[j] >= 'a' && rs[j] <= 'z') || (rs[j] >= 'A' && rs[j] <= 'Z') || (rs[j] >= '0' && rs[j] <= '9')) {
				j++
			}
			out = append(out, docTok{"ident", string(rs[i:j])})
			i = j
		case (r == '{' || r == '}') && i+1 < len(rs) && rs[i+1] == r:
			out = append(out, docTok{"punct", string([]rune{r, r})})
			i += 2
		case strings.ContainsRune("=|()[]{}<>", r):
			out = append(out, docTok{"punct", string(r)})
			i++
		default:
			return nil, fmt.Errorf("unexpected character %q", r)
		}
	}
	return out, nil
}

func checkDocsPrecedence(c *Ctx, g *ebnfGrammar) {
	doc := readDoc(c, "5-definitions.md")
	block, ok := fencedAfter(doc, "### Precedence and Associativity")
	if !ok {
		c.Lost("R4.3", "fenced precedence list in docs/5-definitions.md")
		return
	}
	var levels []glevel
	for _, line := range strings.Split(block, "\n") {
		line = strings.TrimSpace(line)
		if line == "" {
			continue
		}
		toks, err := lexDocEBNF(line)
		if err != nil || len(toks) == 0 || toks[0].kind != "ident" {
			c.Undecided("R4.3", "docs-precedence-line", token.NoPos, "cannot read documented precedence line: "+line)
			return
		}
		var l glevel
		switch toks[0].val {
		case "@left":
			l.assoc = "LEFT"
		case "@right":
			l.assoc = "RIGHT"
		case "@none":
			l.assoc = "NONE"
		default:
			c.Undecided("R4.3", "docs-precedence-line", token.NoPos, "unknown directive: "+line)
			return
		}
		for i := 1; i < len(toks); i++ {
			t := toks[i]
			switch {
			case t.kind == "str":
				l.terms = append(l.terms, t.val)
			case t.kind == "ident":
				l.terms = append(l.terms, t.val)
			case t.kind == "punct" && t.val == "<":
				// <lhs = body>
				if i+2 >= len(toks) || toks[i+1].kind != "ident" || toks[i+2].val != "=" {
					c.Undecided("R4.3", "docs-precedence-line", token.NoPos, "bad rule handle: "+line)
					return
				}
				p := gprod{head: toks[i+1].val}
				j := i + 3
				for ; j < len(toks) && toks[j].val != ">"; j++ {
					switch toks[j].kind {
					case "str":
						p.body = append(p.body, gsym{toks[j].val, true})
					case "ident":
						isT := strings.ToUpper(toks[j].val) == toks[j].val
						p.body = append(p.body, gsym{toks[j].val, isT})
					default:
						c.Undecided("R4.3", "docs-precedence-line", token.NoPos, "operators inside a documented rule handle: "+line)
						return
					}
				}
				l.prods = append(l.prods, p)
				i = j
			default:
				c.Undecided("R4.3", "docs-precedence-line", token.NoPos, "unexpected token in: "+line)
				return
			}
		}
		levels = append(levels, l)
	}
	c.Check("R4.3", "number of precedence levels", g.startPos, len(levels) == len(g.levels),
		fmt.Sprintf("docs list %d levels, parsing_table.go has %d", len(levels), len(g.levels)))
	for i := 0; i < len(levels) && i < len(g.levels); i++ {
		d, e := levels[i], g.levels[i]
		same := d.assoc == e.assoc && sameStrSet(d.terms, e.terms) && len(d.prods) == len(e.prods)
		if same {
			for _, dp := range d.prods {
				found := false
				for _, ep := range e.prods {
					if dp.equal(ep) {
						found = true
					}
				}
				same = same && found
			}
		}
		c.Check("R4.3", fmt.Sprintf("precedence level %d equals the documented one", i+1), g.startPos, same,
			fmt.Sprintf("documented: %s %v %v; code: %s %v %v", d.assoc, d.terms, d.prods, e.assoc, e.terms, e.prods))
	}
}

func sameStrSet(a, b []string) bool {
	m := map[string]int{}
	for _, x := range a {
		m[x]++
	}
	for _, x := range b {
		m[x]--
	}
	for _, v := range m {
		if v != 0 {
			return false
		}
	}
	return len(a) == len(b)
}

// ---------- R4.4 generator ----------

func checkGenerator(c *Ctx, g *ebnfGrammar) {
	gp := c.Pkg("internal/ebnf/parser/generate")
	if gp == nil {
		c.Lost("R4.4", "package internal/ebnf/parser/generate")
		return
	}
	gg, err := extractGrammarVars(gp)
	if err != nil {
		c.Undecided("R4.4", "generator-grammar-vars", token.NoPos, err.Error())
		return
	}
	cmpGrammar := func(what string, x *ebnfGrammar, pos token.Pos) {
		same := len(x.prods) == len(g.prods)
		for i := 0; same && i < len(g.prods); i++ {
			same = x.prods[i].equal(g.prods[i])
		}
		c.Check("R4.4", what+": productions (same list, same order)", pos, same, "the production list differs from parsing_table.go's: REDUCE indices emitted by the generator would not mean the same productions")
		c.Check("R4.4", what+": terminals (same order)", pos, fmt.Sprint(x.terminals) == fmt.Sprint(g.terminals), fmt.Sprintf("%v vs %v", x.terminals, g.terminals))
		c.Check("R4.4", what+": nonTerminals (same order)", pos, fmt.Sprint(x.nonTerminals) == fmt.Sprint(g.nonTerminals), fmt.Sprintf("%v vs %v", x.nonTerminals, g.nonTerminals))
		c.Check("R4.4", what+": start symbol", pos, x.start == g.start, x.start+" vs "+g.start)
		c.Check("R4.4", what+": precedences", pos, fmt.Sprint(x.levels) == fmt.Sprint(stripPos(g.levels)) || levelsEqual(x.levels, g.levels), "precedence levels differ")
	}
	cmpGrammar("generator's own grammar variables", gg, gg.startPos)

	// The header raw string the generator writes: parse it as a Go file fragment and compare its var block textually
	// (modulo whitespace/comments) with parsing_table.go's declarations.
	var header string
	var headerPos token.Pos
	for _, f := range gp.Syntax {
		ast.Inspect(f, func(n ast.Node) bool {
			if bl, ok := n.(*ast.BasicLit); ok && bl.Kind == token.STRING && strings.HasPrefix(bl.Value, "`") && strings.Contains(bl.Value, "package parser") {
				header = bl.Value[1 : len(bl.Value)-1]
				headerPos = bl.Pos()
			}
			return true
		})
	}
	if header == "" {
		c.Lost("R4.4", "raw-string header written by the generator")
		return
	}
	// checked-in file: everything before the ACTION function's doc comment
	tf := c.Fset.File(g.actionFn.Pos())
	src, err := os.ReadFile(tf.Name())
	if err != nil {
		c.Lost("R4.4", "source of parsing_table.go")
		return
	}
	start := g.actionFn.Pos()
	if g.actionFn.Doc != nil {
		start = g.actionFn.Doc.Pos()
	}
	prefix := string(src[:tf.Offset(start)])
	c.Check("R4.4", "generator header equals the checked-in declarations (token for token)", headerPos,
		goTokens(prefix) == goTokens(header),
		"the text the generator writes before ACTION differs from parsing_table.go's declarations: regenerating would not reproduce the checked-in file")

	// checked-in clause order: ascending by state; inner clauses in terminals+Endmarker / nonTerminals order
	checkClauseOrder(c, g)
}

func stripPos(l []glevel) []glevel { return l }

func levelsEqual(a, b []glevel) bool {
	if len(a) != len(b) {
		return false
	}
	for i := range a {
		if a[i].assoc != b[i].assoc || fmt.Sprint(a[i].terms) != fmt.Sprint(b[i].terms) || len(a[i].prods) != len(b[i].prods) {
			return false
		}
		for j := range a[i].prods {
			if !a[i].prods[j].equal(b[i].prods[j]) {
				return false
			}
		}
	}
	return true
}

// goTokens returns the Go token stream of src without comments, as one string.
func goTokens(src string) string {
	fs := token.NewFileSet()
	f := fs.AddFile("x.go", -1, len(src))
	var s goScanner
	s.init(f, []byte(src))
	return s.all()
}

func checkClauseOrder(c *Ctx, g *ebnfGrammar) {
	info := g.pkg.TypesInfo
	order := func(fd *ast.FuncDecl, symOrder []string, what string) {
		idx := map[string]int{}
		for i, s := range symOrder {
			idx[s] = i
		}
		var sw *ast.SwitchStmt
		for _, s := range fd.Body.List {
			if x, ok := s.(*ast.SwitchStmt); ok {
				sw = x
				break
			}
		}
		if sw == nil {
			// a refactored (non-switch) table cannot be byte-identical to generator output, but that is
			// the byte-for-byte clause; report as undecided only for this obligation.
			c.Fail("R4.4", what+": outer switch present", fd.Pos(), "the lookup function is not a switch over the state: it is not what the generator emits")
			return
		}
		last := int64(-1)
		asc, innerOK := true, true
		for _, cc := range sw.Body.List {
			cl := cc.(*ast.CaseClause)
			for _, e := range cl.List {
				if v, ok := constInt(info, e); ok {
					if v <= last {
						asc = false
					}
					last = v
				}
			}
			for _, st := range cl.Body {
				isw, ok := st.(*ast.SwitchStmt)
				if !ok {
					continue
				}
				li := -1
				for _, icc := range isw.Body.List {
					for _, e := range icc.(*ast.CaseClause).List {
						if s, ok := constStr(info, e); ok {
							if i, ok := idx[s]; !ok || i <= li {
								innerOK = false
							} else {
								li = i
							}
						}
					}
				}
			}
		}
		c.Check("R4.4", what+": state clauses ascending (generator iterates T.States)", fd.Pos(), asc, "state clauses are not in ascending order: not generator output")
		c.Check("R4.4", what+": symbol clauses in declaration order", fd.Pos(), innerOK, "inner clauses are not in the order the generator iterates symbols: not generator output")
	}
	order(g.actionFn, append(append([]string{}, g.terminals...), g.endmarker), "ACTION")
	order(g.gotoFn, g.nonTerminals, "GOTO")
}

// ---------- R4.5 driver (placeholder filled in driver.go) ----------

var _ = types.Universe
