package main

// Extraction of a coded scanner (advanceDFA / evalDFA / NextToken) as data, shared by C05, C13, C19, C20.

import (
	"fmt"
	"go/ast"
	"go/constant"
	"go/token"
	"go/types"
	"sort"

	"golang.org/x/tools/go/packages"
	"golang.org/x/tools/go/ssa"
)

type lexAbs struct {
	kind   string // text | slice | trim | const | other
	a, b   int    // slice [a : len-b]
	cutset string
	fn     string // Trim / TrimLeft / TrimRight / TrimPrefix / TrimSuffix
	cval   string
	src    string
}

type evalLeaf struct {
	states   []int
	infinite bool // default leaf
	terminal string
	termOK   bool
	lexeme   lexAbs
	consumes []string // Skip / Lexeme calls on the path, in order
	posFrom  string   // which consume call the Pos field derives from ("" unknown)
	pos      token.Pos
}

type scanner struct {
	pkg        *packages.Package
	advFn      *ast.FuncDecl
	evalFn     *ast.FuncDecl
	nextFn     *ast.FuncDecl
	m          *mooreT // transitions; labels are terminal names ("" = not accepting / error token)
	errorState int64
	leaves     []evalLeaf
	stateLeaf  map[int]*evalLeaf
	defLeaf    *evalLeaf
	transPos   map[[2]int]token.Pos
	nStates    int
}

// extractAdvance flattens func(state int, r rune) int into a transition relation.
func extractAdvance(c *Ctx, rule string, p *packages.Package, fd *ast.FuncDecl) (*mooreT, int64, map[[2]int]token.Pos, bool) {
	info := p.TypesInfo
	ps := funcParams(info, fd)
	if len(ps) != 2 {
		c.Lost(rule, "transition function parameters")
		return nil, 0, nil, false
	}
	leaves, epos, err := flattenFunc(info, fd, ps)
	if err != nil {
		c.Undecided(rule, "transition function "+fd.Name.Name, epos, err.Error())
		return nil, 0, nil, false
	}
	m := &mooreT{}
	m.grow(0)
	tpos := map[[2]int]token.Pos{}
	var errState int64
	haveErr := false
	okAll := true
	for _, lf := range leaves {
		if len(lf.ret.Results) != 1 || len(lf.stmts) != 0 {
			c.Undecided(rule, "transition leaf", lf.ret.Pos(), "unexpected shape")
			return nil, 0, nil, false
		}
		n, ok := constInt(info, lf.ret.Results[0])
		if !ok {
			c.Undecided(rule, "transition leaf", lf.ret.Pos(), "non-constant next state")
			return nil, 0, nil, false
		}
		sd, rd := lf.cons[ps[0]], lf.cons[ps[1]]
		if n < 0 {
			if haveErr && errState != n {
				c.Undecided(rule, "transition leaf", lf.ret.Pos(), "two different negative states")
				return nil, 0, nil, false
			}
			errState, haveErr = n, true
			continue
		}
		if sd.infinite() {
			okAll = false
			c.Fail(rule, fmt.Sprintf("default transition to state %d", n), lf.ret.Pos(), "the transition function returns a live state for an unbounded set of source states")
			continue
		}
		var rs rset
		for _, x := range rd.ints {
			lo, hi := x.lo, x.hi
			if hi < 0 || lo > maxRune {
				continue
			}
			if lo < 0 {
				lo = 0
			}
			if hi > maxRune {
				hi = maxRune
			}
			rs = append(rs, iv{rune(lo), rune(hi)})
		}
		rs = norm(rs)
		if rs.empty() {
			continue
		}
		for _, s := range sd.intValues() {
			if s < 0 {
				continue
			}
			m.grow(s)
			m.grow(int(n))
			m.trans[s][int(n)] = union(m.trans[s][int(n)], rs)
			if _, ok := tpos[[2]int{s, int(n)}]; !ok {
				tpos[[2]int{s, int(n)}] = lf.ret.Pos()
			}
		}
	}
	if !haveErr {
		c.Fail(rule, "transition function has a dead (error) state", fd.Pos(), "no negative error state is ever returned: the scanner can never stop")
		return nil, 0, nil, false
	}
	// determinism: the flattening yields a function by construction (first match wins), so target sets are disjoint.
	return m, errState, tpos, okAll
}

// extractEval flattens the accepting-state evaluation method.
func extractEval(c *Ctx, rule string, p *packages.Package, fd *ast.FuncDecl) ([]evalLeaf, bool) {
	info := p.TypesInfo
	ps := funcParams(info, fd)
	if len(ps) != 1 {
		c.Lost(rule, "evaluation function parameter")
		return nil, false
	}
	leaves, epos, err := flattenFunc(info, fd, ps)
	if err != nil {
		c.Undecided(rule, "evaluation function "+fd.Name.Name, epos, err.Error())
		return nil, false
	}
	var out []evalLeaf
	for _, lf := range leaves {
		el := evalLeaf{pos: lf.ret.Pos()}
		sd := lf.cons[ps[0]]
		if sd.infinite() {
			el.infinite = true
		} else {
			el.states = sd.intValues()
		}
		// abstract straight-line evaluation
		strv := map[types.Object]lexAbs{}
		posv := map[types.Object]string{}
		consumeKind := func(e ast.Expr) string {
			call, ok := ast.Unparen(e).(*ast.CallExpr)
			if !ok {
				return ""
			}
			sel, ok := call.Fun.(*ast.SelectorExpr)
			if !ok {
				return ""
			}
			fn, _ := info.Uses[sel.Sel].(*types.Func)
			if fn == nil {
				return ""
			}
			sig := fn.Type().(*types.Signature)
			if sig.Recv() == nil || sig.Params().Len() != 0 {
				return ""
			}
			isPos := func(t types.Type) bool { _, n := namedTypeName(t); return n == "Position" }
			switch {
			case sig.Results().Len() == 2 && isString(sig.Results().At(0).Type()) && isPos(sig.Results().At(1).Type()):
				return "Lexeme"
			case sig.Results().Len() == 1 && isPos(sig.Results().At(0).Type()):
				return "Skip"
			}
			return ""
		}
		var evalStr func(e ast.Expr) lexAbs
		evalStr = func(e ast.Expr) lexAbs {
			e = ast.Unparen(e)
			if s, ok := constStr(info, e); ok {
				return lexAbs{kind: "const", cval: s}
			}
			switch v := e.(type) {
			case *ast.Ident:
				if a, ok := strv[info.Uses[v]]; ok {
					return a
				}
			case *ast.SliceExpr:
				base := evalStr(v.X)
				if base.kind == "text" && v.Max == nil {
					a, b := 0, 0
					okA, okB := true, true
					if v.Low != nil {
						n, ok := constInt(info, v.Low)
						a, okA = int(n), ok
					}
					if v.High != nil {
						// len(x) - k
						okB = false
						if be, ok := ast.Unparen(v.High).(*ast.BinaryExpr); ok && be.Op == token.SUB {
							if lc, ok := ast.Unparen(be.X).(*ast.CallExpr); ok && len(lc.Args) == 1 {
								if id, ok := lc.Fun.(*ast.Ident); ok && id.Name == "len" && info.Uses[id] == types.Universe.Lookup("len") && evalStr(lc.Args[0]).kind == "text" {
									if n, ok := constInt(info, be.Y); ok {
										b, okB = int(n), true
									}
								}
							}
						}
					}
					if okA && okB {
						return lexAbs{kind: "slice", a: a, b: b}
					}
				}
			case *ast.CallExpr:
				if fn, ok := objOf(info, v.Fun).(*types.Func); ok && fn.Pkg() != nil && fn.Pkg().Path() == "strings" && len(v.Args) == 2 {
					base := evalStr(v.Args[0])
					cs, okc := constStr(info, v.Args[1])
					if base.kind == "text" && okc {
						switch fn.Name() {
						case "Trim", "TrimLeft", "TrimRight", "TrimPrefix", "TrimSuffix":
							return lexAbs{kind: "trim", fn: fn.Name(), cutset: cs}
						}
					}
				}
			}
			return lexAbs{kind: "other", src: types.ExprString(e)}
		}
		bad := false
		for _, st := range lf.stmts {
			as, ok := st.(*ast.AssignStmt)
			if !ok {
				bad = true
				continue
			}
			if len(as.Rhs) == 1 && consumeKind(as.Rhs[0]) != "" {
				k := consumeKind(as.Rhs[0])
				el.consumes = append(el.consumes, k)
				tag := fmt.Sprintf("%s#%d", k, len(el.consumes))
				lhsObj := func(e ast.Expr) types.Object {
					id, ok := e.(*ast.Ident)
					if !ok {
						return nil
					}
					if o := info.Defs[id]; o != nil {
						return o
					}
					return info.Uses[id]
				}
				if k == "Lexeme" && len(as.Lhs) == 2 {
					if o := lhsObj(as.Lhs[0]); o != nil {
						strv[o] = lexAbs{kind: "text"}
					}
					if o := lhsObj(as.Lhs[1]); o != nil {
						posv[o] = tag
					}
				} else if k == "Skip" && len(as.Lhs) == 1 {
					if o := lhsObj(as.Lhs[0]); o != nil {
						posv[o] = tag
					}
				}
				continue
			}
			if len(as.Lhs) == 1 && len(as.Rhs) == 1 {
				if id, ok := as.Lhs[0].(*ast.Ident); ok {
					o := info.Defs[id]
					if o == nil {
						o = info.Uses[id]
					}
					if o != nil && isString(o.Type()) {
						strv[o] = evalStr(as.Rhs[0])
						continue
					}
				}
			}
			bad = true
		}
		// also count consume calls hidden inside the return expression
		ast.Inspect(lf.ret, func(n ast.Node) bool {
			if e, ok := n.(ast.Expr); ok {
				if k := consumeKind(e); k != "" {
					el.consumes = append(el.consumes, k)
					bad = true // value plumbing through an inline call is not tracked
				}
			}
			return true
		})
		if len(lf.ret.Results) != 1 {
			c.Undecided(rule, "evaluation leaf", lf.ret.Pos(), "return arity")
			return nil, false
		}
		cl, ok := ast.Unparen(lf.ret.Results[0]).(*ast.CompositeLit)
		if !ok {
			c.Undecided(rule, "evaluation leaf", lf.ret.Pos(), "result is not a token literal")
			return nil, false
		}
		fs, err := compositeFields(cl)
		if err != nil {
			c.Undecided(rule, "evaluation leaf", lf.ret.Pos(), err.Error())
			return nil, false
		}
		if t := fs["Terminal"]; t != nil {
			el.terminal, el.termOK = constStr(info, t)
		}
		if l := fs["Lexeme"]; l != nil {
			el.lexeme = evalStr(l)
		} else {
			el.lexeme = lexAbs{kind: "const", cval: ""}
		}
		if pe := fs["Pos"]; pe != nil {
			if id, ok := ast.Unparen(pe).(*ast.Ident); ok {
				el.posFrom = posv[info.Uses[id]]
			}
		}
		if bad && el.lexeme.kind != "other" {
			// unknown statements on the path: be conservative about the lexeme
			el.lexeme = lexAbs{kind: "other", src: "path contains statements the analysis does not model"}
		}
		out = append(out, el)
	}
	return out, true
}

func isString(t types.Type) bool {
	b, ok := t.Underlying().(*types.Basic)
	return ok && b.Info()&types.IsString != 0
}

// findScanner resolves the three anchors of a coded scanner in package p by signature and call relation.
func findScanner(c *Ctx, rule string, p *packages.Package) *scanner {
	s := &scanner{pkg: p}
	adv := findFuncBySig(p, []func(types.Type) bool{isInt, isRune}, []func(types.Type) bool{isInt})
	if len(adv) != 1 {
		c.Lost(rule, fmt.Sprintf("transition function func(int, rune) int in %s (found %d)", p.PkgPath, len(adv)))
		return nil
	}
	s.advFn = adv[0]
	advObj := p.TypesInfo.Defs[s.advFn.Name]
	// NextToken: the method that calls the transition function
	var evalObj types.Object
	_ = evalObj
	AllFuncDecls(p, func(fd *ast.FuncDecl) {
		if fd.Body == nil || fd.Recv == nil {
			return
		}
		calls := false
		ast.Inspect(fd.Body, func(n ast.Node) bool {
			if call, ok := n.(*ast.CallExpr); ok && objOf(p.TypesInfo, call.Fun) == advObj {
				calls = true
			}
			return true
		})
		if calls {
			if s.nextFn != nil {
				s.nextFn = nil
				return
			}
			s.nextFn = fd
		}
	})
	if s.nextFn == nil {
		c.Lost(rule, "the unique method calling the transition function (NextToken)")
		return nil
	}
	// evalDFA: the unique method func(int) Token of the scanner's receiver type
	recv := recvName(s.nextFn.Recv.List[0].Type)
	nEval := 0
	AllFuncDecls(p, func(fd *ast.FuncDecl) {
		if fd.Recv == nil || fd.Body == nil || recvName(fd.Recv.List[0].Type) != recv {
			return
		}
		fn, _ := p.TypesInfo.Defs[fd.Name].(*types.Func)
		if fn == nil {
			return
		}
		sig := fn.Type().(*types.Signature)
		if sig.Params().Len() == 1 && isInt(sig.Params().At(0).Type()) && sig.Results().Len() == 1 {
			if _, n := namedTypeName(sig.Results().At(0).Type()); n == "Token" {
				s.evalFn = fd
				evalObj = fn
				nEval++
			}
		}
	})
	if nEval != 1 {
		s.evalFn = nil
	}
	if s.evalFn == nil {
		c.Lost(rule, "the accepting-state evaluation method func(int) Token called from NextToken")
		return nil
	}
	c.Analysed(funcKey(p, s.advFn))
	c.Analysed(funcKey(p, s.evalFn))
	c.Analysed(funcKey(p, s.nextFn))
	m, es, tpos, ok := extractAdvance(c, rule, p, s.advFn)
	if m == nil {
		return nil
	}
	_ = ok
	s.m, s.errorState, s.transPos = m, es, tpos
	leaves, ok := extractEval(c, rule, p, s.evalFn)
	if !ok {
		return nil
	}
	s.leaves = leaves
	s.stateLeaf = map[int]*evalLeaf{}
	for i := range s.leaves {
		l := &s.leaves[i]
		if l.infinite {
			s.defLeaf = l
			continue
		}
		for _, st := range l.states {
			if st >= 0 {
				s.m.grow(st)
				s.stateLeaf[st] = l
			}
		}
	}
	s.nStates = len(s.m.trans)
	return s
}

// ---------- the scan loop on SSA ----------

type evalSite struct {
	call     *ssa.Call     // the call in the scan function (evaluation method itself or a wrapper around it)
	state    ssa.Value     // state argument at that call
	outFn    *ssa.Function // function in which the outcome of the evaluation is decided
	evalCall *ssa.Call     // the evaluation call inside outFn
	context  string        // dead | eof | other
}

type scanLoop struct {
	fn          *ssa.Function
	adv         *ssa.Call
	curr        *ssa.Phi
	nextCall    ssa.CallInstruction
	nextErr     ssa.Value
	retract     []ssa.CallInstruction
	sites       []*evalSite
	errTerms    []string
	skipTerms   []string
	defaultKind string // what happens for every other terminal: token | error | skip | mixed
	eofPending  bool   // an evaluation site exists on the end-of-input path (pending lexeme is not lost)
	ok          bool
	flagged     bool          // the scan function returns (token, isToken, error) and a driver loops over it
	driver      *ssa.Function // the function looping over a flagged scan function (the public NextToken)
	driverOK    bool
}

// wrapperOf: is callee a function of the same package that passes one of its int parameters as the state of the
// evaluation method? Returns the parameter index and the inner call.
func wrapperOf(callee *ssa.Function, evalObj types.Object) (int, *ssa.Call) {
	if callee == nil || len(callee.Blocks) == 0 {
		return -1, nil
	}
	var inner *ssa.Call
	idx := -1
	allCalls(callee, func(call ssa.CallInstruction) {
		cv, ok := call.(*ssa.Call)
		if !ok {
			return
		}
		if f := calleeFunc(call); f == nil || types.Object(f) != evalObj {
			return
		}
		arg := cv.Call.Args[len(cv.Call.Args)-1]
		for i, p := range callee.Params {
			if ssa.Value(p) == arg {
				idx, inner = i, cv
			}
		}
	})
	return idx, inner
}

func analyseScanLoop(c *Ctx, rule string, fn *ssa.Function, advObj, evalObj types.Object, errorState int64) *scanLoop {
	sl := &scanLoop{fn: fn}
	pos := fn.Pos()
	if fn.Signature.Results().Len() == 3 {
		sl.flagged = true
		checkSkipDriver(c, rule, sl)
	}
	var advs []*ssa.Call
	allCalls(fn, func(call ssa.CallInstruction) {
		if methodNameOf(call) == "Retract" {
			sl.retract = append(sl.retract, call)
		}
		cv, ok := call.(*ssa.Call)
		if !ok {
			return
		}
		f := calleeFunc(call)
		if f != nil && types.Object(f) == advObj {
			advs = append(advs, cv)
		}
		if f != nil && types.Object(f) == evalObj {
			sl.sites = append(sl.sites, &evalSite{call: cv, state: cv.Call.Args[len(cv.Call.Args)-1], outFn: fn, evalCall: cv})
			return
		}
		if callee := cv.Call.StaticCallee(); callee != nil && callee != fn && callee.Pkg == fn.Pkg {
			if pi, inner := wrapperOf(callee, evalObj); inner != nil {
				sl.sites = append(sl.sites, &evalSite{call: cv, state: cv.Call.Args[pi], outFn: callee, evalCall: inner})
			}
		}
	})
	if !c.Check(rule, "scan loop: one transition call", pos, len(advs) == 1, fmt.Sprintf("%d calls of the transition function in the scan loop", len(advs))) {
		return sl
	}
	sl.adv = advs[0]
	// curr: phi [start state 0, adv result]
	phi, _ := sl.adv.Call.Args[0].(*ssa.Phi)
	okPhi := phi != nil
	if okPhi {
		sawInit, sawNext := false, false
		for _, e := range phi.Edges {
			switch {
			case isConstInt(e, 0):
				sawInit = true
			case e == ssa.Value(sl.adv):
				sawNext = true
			default:
				okPhi = false
			}
		}
		okPhi = okPhi && sawInit && sawNext
	}
	if !c.Check(rule, "scan loop: the state fed to the transition function is loop-carried from start state 0", sl.adv.Pos(), okPhi,
		"the first argument of the transition function is not phi[0, previous result]") {
		return sl
	}
	sl.curr = phi
	// r: rune result of Next()
	var nextCall ssa.CallInstruction
	if ex, ok := sl.adv.Call.Args[1].(*ssa.Extract); ok && ex.Index == 0 {
		if call, ok := ex.Tuple.(*ssa.Call); ok && methodNameOf(call) == "Next" {
			nextCall = call
		}
	}
	if !c.Check(rule, "scan loop: the symbol fed to the transition function is the rune just read", sl.adv.Pos(), nextCall != nil, "the second argument is not the rune result of Next()") {
		return sl
	}
	sl.nextCall = nextCall
	for _, r := range *nextCall.(*ssa.Call).Referrers() {
		if ex, ok := r.(*ssa.Extract); ok && ex.Index == 1 {
			sl.nextErr = ex
		}
	}
	c.Check(rule, "scan loop: the read error is tested before the rune is used", sl.adv.Pos(), sl.nextErr != nil && controlledNil(sl.adv.Block(), sl.nextErr, false),
		"the transition function runs on a path where Next()'s error was not tested to be nil")

	if !c.Check(rule, "scan loop: the evaluation method is called", pos, len(sl.sites) >= 1, "no call of the evaluation method (directly or through a wrapper)") {
		return sl
	}
	nDead := 0
	for _, st := range sl.sites {
		b := st.call.Block()
		switch {
		case controlledByEq(b, sl.adv, errorState):
			st.context = "dead"
			nDead++
		case sl.nextErr != nil && controlledNil(b, sl.nextErr, true):
			st.context = "eof"
			sl.eofPending = true
		default:
			st.context = "other"
		}
		key := "evaluation on " + st.context + " path"
		c.Check(rule, "scan loop: "+key+": the state evaluated is the one before the failing step", st.call.Pos(), st.state == ssa.Value(sl.curr),
			"the evaluation does not receive the loop-carried current state")
		// retracts dominating this site
		nR := 0
		for _, r := range sl.retract {
			rb := r.Block()
			if (rb == b && instrIndex(r.(ssa.Instruction)) < instrIndex(st.call)) || (rb != b && rb.Dominates(b)) {
				nR++
			}
		}
		switch st.context {
		case "dead":
			c.Check(rule, "scan loop: "+key+": exactly one Retract precedes the evaluation", st.call.Pos(), nR == 1,
				fmt.Sprintf("%d Retract calls dominate the evaluation on the dead-transition path (the rune that did not belong to the token must be given back exactly once)", nR))
		case "eof":
			c.Check(rule, "scan loop: "+key+": nothing is retracted (no rune was read)", st.call.Pos(), nR == 0,
				"a Retract precedes the evaluation although Next() failed: a rune of the pending lexeme would be given back")
		default:
			c.Fail(rule, "scan loop: evaluation happens only on a dead transition or at end of input", st.call.Pos(),
				fmt.Sprintf("the evaluation is guarded neither by next == %d nor by the read error", errorState))
		}
	}
	c.Check(rule, "scan loop: exactly one evaluation site on the dead-transition path", pos, nDead == 1, fmt.Sprintf("%d evaluation sites guarded by next == %d", nDead, errorState))
	for _, r := range sl.retract {
		c.Check(rule, "scan loop: Retract only on a dead transition", r.Pos(), controlledByEq(r.Block(), sl.adv, errorState), "a Retract that is not guarded by the dead-transition test")
	}

	// outcomes: per distinct function deciding them
	done := map[*ssa.Function]bool{}
	for _, st := range sl.sites {
		if st.outFn != fn {
			// the wrapper's results must be returned unchanged by the scan function
			passes := false
			for _, r := range *st.call.Referrers() {
				if ex, ok := r.(*ssa.Extract); ok {
					for _, rr := range *ex.Referrers() {
						if _, ok := rr.(*ssa.Return); ok {
							passes = true
						}
					}
				}
			}
			c.Check(rule, "scan loop: the wrapper's result is returned unchanged", st.call.Pos(), passes, "the scan function does not return the evaluation wrapper's results")
		}
		if done[st.outFn] {
			continue
		}
		done[st.outFn] = true
		classifyAfterEval(c, rule, sl, st)
	}
	sl.ok = true
	return sl
}

// classifyAfterEval walks the comparison chain on the evaluated token's Terminal.
func classifyAfterEval(c *Ctx, rule string, sl *scanLoop, st *evalSite) {
	fn := st.outFn
	eval := st.evalCall
	isTerm := func(v ssa.Value) bool {
		for _, r := range rootsOf(fn, v, nil) {
			if fa, ok := r.(*ssa.FieldAddr); ok && fieldName(fa) == "Terminal" {
				if a, ok := fa.X.(*ssa.Alloc); ok {
					for _, ref := range *a.Referrers() {
						if s2, ok := ref.(*ssa.Store); ok && s2.Addr == a && s2.Val == ssa.Value(eval) {
							return true
						}
					}
				}
			}
			if f, ok := r.(*ssa.Field); ok && f.X == ssa.Value(eval) {
				return true
			}
		}
		return false
	}
	kinds := map[string]string{} // terminal const -> kind
	defKinds := map[string]bool{}
	var walk func(b *ssa.BasicBlock, eq string, neq map[string]bool, depth int)
	classifyRet := func(b *ssa.BasicBlock) string {
		last := b.Instrs[len(b.Instrs)-1]
		switch v := last.(type) {
		case *ssa.Return:
			if len(v.Results) == 3 {
				// flagged protocol: (token, isToken, error); the driver calls again when !isToken && error == nil
				if !isNilConst(v.Results[2]) {
					return "error"
				}
				k, isK := v.Results[1].(*ssa.Const)
				if !isK || k.Value == nil || k.Value.Kind() != constant.Bool {
					return "other"
				}
				if constant.BoolVal(k.Value) {
					for _, r := range rootsOf(fn, v.Results[0], func(x ssa.Value) bool { return x == ssa.Value(eval) }) {
						if r == ssa.Value(eval) {
							return "token"
						}
					}
					return "other"
				}
				if sl.driverOK {
					return "skip"
				}
				return "other"
			}
			if len(v.Results) != 2 {
				return "other"
			}
			if isNilConst(v.Results[1]) {
				for _, r := range rootsOf(fn, v.Results[0], func(x ssa.Value) bool { return x == ssa.Value(eval) }) {
					if r == ssa.Value(eval) {
						return "token"
					}
				}
				return "other"
			}
			if ex, ok := v.Results[1].(*ssa.Extract); ok {
				if call, ok := ex.Tuple.(*ssa.Call); ok && call.Call.StaticCallee() == sl.fn {
					return "skip"
				}
			}
			return "error"
		case *ssa.Jump:
			// back to the loop header with the state reset to 0
			t := b.Succs[0]
			if fn == sl.fn && t == sl.curr.Block() {
				for i, p := range t.Preds {
					if p == b && isConstInt(sl.curr.Edges[i], 0) {
						return "skip"
					}
				}
			}
		}
		return "other"
	}
	walk = func(b *ssa.BasicBlock, eq string, neq map[string]bool, depth int) {
		if depth > 64 {
			defKinds["other"] = true
			return
		}
		last := b.Instrs[len(b.Instrs)-1]
		if ifi, ok := last.(*ssa.If); ok {
			if bo, ok := ifi.Cond.(*ssa.BinOp); ok && (bo.Op == token.EQL || bo.Op == token.NEQ) {
				var k *ssa.Const
				var other ssa.Value
				if kk, ok := bo.Y.(*ssa.Const); ok {
					k, other = kk, bo.X
				} else if kk, ok := bo.X.(*ssa.Const); ok {
					k, other = kk, bo.Y
				}
				if k != nil && k.Value != nil && isTerm(other) {
					val := constStringOf(k)
					ti, fi := 0, 1
					if bo.Op == token.NEQ {
						ti, fi = 1, 0
					}
					if eq == "" && !neq[val] {
						walk(b.Succs[ti], val, neq, depth+1)
					} else if eq == val {
						walk(b.Succs[ti], eq, neq, depth+1)
						return
					}
					if eq != val {
						n2 := map[string]bool{}
						for x := range neq {
							n2[x] = true
						}
						n2[val] = true
						walk(b.Succs[fi], eq, n2, depth+1)
					}
					return
				}
			}
			defKinds["other"] = true
			return
		}
		if _, ok := last.(*ssa.Jump); ok && !(fn == sl.fn && b.Succs[0] == sl.curr.Block()) {
			walk(b.Succs[0], eq, neq, depth+1)
			return
		}
		k := classifyRet(b)
		if eq != "" {
			if old, ok := kinds[eq]; ok && old != k {
				kinds[eq] = "mixed"
			} else {
				kinds[eq] = k
			}
		} else {
			defKinds[k] = true
		}
	}
	walk(eval.Block(), "", map[string]bool{}, 0)
	for t, k := range kinds {
		switch k {
		case "error":
			sl.errTerms = append(sl.errTerms, t)
		case "skip":
			sl.skipTerms = append(sl.skipTerms, t)
		case "token":
		default:
			c.Fail(rule, "scan loop: outcome for terminal "+t, eval.Pos(), "after evaluation, terminal "+t+" leads to an outcome the analysis cannot classify ("+k+")")
		}
	}
	sort.Strings(sl.errTerms)
	sort.Strings(sl.skipTerms)
	var dk []string
	for k := range defKinds {
		dk = append(dk, k)
	}
	sort.Strings(dk)
	if len(dk) == 1 {
		sl.defaultKind = dk[0]
	} else {
		sl.defaultKind = "mixed"
	}
	c.Check(rule, "scan loop: every other terminal is returned as the token with a nil error", eval.Pos(), sl.defaultKind == "token",
		fmt.Sprintf("the default outcome after evaluation is %v", dk))
}

func constStringOf(k *ssa.Const) string {
	if k.Value == nil {
		return ""
	}
	if k.Value.Kind() == constant.String {
		return constant.StringVal(k.Value)
	}
	return k.Value.ExactString()
}


// checkSkipDriver: a scan function that returns (token, isToken, error) leaves skipping to its caller. The caller must call it
// in a loop, return the token and the error exactly when isToken || error != nil, and otherwise call it again.
func checkSkipDriver(c *Ctx, rule string, sl *scanLoop) {
	fn := sl.fn
	var drivers []*ssa.Function
	var calls []*ssa.Call
	for _, m := range fn.Pkg.Members {
		_ = m
	}
	for _, cand := range allFuncsOfPkg(fn.Pkg) {
		if cand == fn {
			continue
		}
		allCalls(cand, func(call ssa.CallInstruction) {
			if cv, ok := call.(*ssa.Call); ok && cv.Call.StaticCallee() == fn {
				drivers = append(drivers, cand)
				calls = append(calls, cv)
			}
		})
	}
	if !c.Check(rule, "scan loop: the flagged scan function has exactly one caller (the token loop)", fn.Pos(), len(drivers) == 1, fmt.Sprintf("%d call sites of the scan function", len(drivers))) {
		return
	}
	d, call := drivers[0], calls[0]
	sl.driver = d
	var tok, flag, errv ssa.Value
	for _, r := range *call.Referrers() {
		if ex, ok := r.(*ssa.Extract); ok {
			switch ex.Index {
			case 0:
				tok = ex
			case 1:
				flag = ex
			case 2:
				errv = ex
			}
		}
	}
	// the call is inside a loop
	inLoop := reach(call.Block(), nil)[call.Block()]
	// every return forwards (tok, err) and every edge into a return block is taken when isToken or when err != nil
	okRets, nRet, why := true, 0, ""
	for _, b := range d.Blocks {
		ret, isRet := b.Instrs[len(b.Instrs)-1].(*ssa.Return)
		if !isRet {
			continue
		}
		nRet++
		if len(ret.Results) != 2 || retOperand(ret, 0) != tok || retOperand(ret, 1) != errv {
			okRets, why = false, "a return does not forward the scan function's token and error"
			continue
		}
		for _, p := range b.Preds {
			ifi, isIf := p.Instrs[len(p.Instrs)-1].(*ssa.If)
			if !isIf {
				okRets, why = false, "a return is reached unconditionally"
				continue
			}
			onTrue := p.Succs[0] == b
			good := false
			if ifi.Cond == flag && onTrue {
				good = true
			}
			if nn, isN := isNilCheck(ifi.Cond, errv); isN && nn == onTrue {
				good = true
			}
			if !good {
				okRets, why = false, "a return is taken under a condition other than isToken / err != nil"
			}
		}
	}
	// the remaining path (not a token, no error) goes back to the call
	sl.driverOK = c.Check(rule, "scan loop: the token loop calls the scan function again exactly when it yielded no token and no error", call.Pos(),
		tok != nil && flag != nil && errv != nil && inLoop && okRets && nRet >= 1,
		fmt.Sprintf("in %s: in loop=%v, returns=%d %s", shortFn(d), inLoop, nRet, why))
}

func allFuncsOfPkg(p *ssa.Package) []*ssa.Function {
	var out []*ssa.Function
	for _, m := range p.Members {
		switch x := m.(type) {
		case *ssa.Function:
			out = append(out, x)
		case *ssa.Type:
			for _, T := range []types.Type{x.Type(), types.NewPointer(x.Type())} {
				ms := p.Prog.MethodSets.MethodSet(T)
				for i := 0; i < ms.Len(); i++ {
					if f := p.Prog.MethodValue(ms.At(i)); f != nil && f.Pkg == p {
						out = append(out, f)
					}
				}
			}
		}
	}
	seen := map[*ssa.Function]bool{}
	var uniq []*ssa.Function
	for _, f := range out {
		if !seen[f] {
			seen[f] = true
			uniq = append(uniq, f)
		}
	}
	sort.Slice(uniq, func(i, j int) bool { return uniq[i].String() < uniq[j].String() })
	return uniq
}
