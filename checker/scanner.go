package main

// Extraction of a coded scanner (advanceDFA / evalDFA / NextToken) as data, shared by C05, C13, C19, C20.

import (
	"fmt"
	"go/ast"
	"go/constant"
	"go/token"
	"go/types"
	"sort"

	"golang.org/x/tools/go/packages"
	"golang.org/x/tools/go/ssa"
)

type lexAbs struct {
	kind   string // text | slice | trim | const | other
	a, b   int    // slice [a : len-b]
	cutset string
	fn     string // Trim / TrimLeft / TrimRight / TrimPrefix / TrimSuffix
	cval   string
	src    string
}

type evalLeaf struct {
	states   []int
	infinite bool // default leaf
	terminal string
	termOK   bool
	lexeme   lexAbs
	consumes []string // Skip / Lexeme calls on the path, in order
	posFrom  string   // which consume call the Pos field derives from ("" unknown)
	pos      token.Pos
}

type scanner struct {
	pkg        *packages.Package
	advFn      *ast.FuncDecl
	evalFn     *ast.FuncDecl
	nextFn     *ast.FuncDecl
	m          *mooreT // transitions; labels are terminal names ("" = not accepting / error token)
	errorState int64
	leaves     []evalLeaf
	stateLeaf  map[int]*evalLeaf
	defLeaf    *evalLeaf
	transPos   map[[2]int]token.Pos
	nStates    int
}

// extractAdvance flattens func(state int, r rune) int into a transition relation.
func extractAdvance(c *Ctx, rule string, p *packages.Package, fd *ast.FuncDecl) (*mooreT, int64, map[[2]int]token.Pos, bool) {
	info := p.TypesInfo
	ps := funcParams(info, fd)
	if len(ps) != 2 {
		c.Lost(rule, "transition function parameters")
		return nil, 0, nil, false
	}
	leaves, epos, err := flattenFunc(info, fd, ps)
	if err != nil {
		c.Undecided(rule, "transition function "+fd.Name.Name, epos, err.Error())
		return nil, 0, nil, false
	}
	m := &mooreT{}
	m.grow(0)
	tpos := map[[2]int]token.Pos{}
	var errState int64
	haveErr := false
	okAll := true
	for _, lf := range leaves {
		if len(lf.ret.Results) != 1 || len(lf.stmts) != 0 {
			c.Undecided(rule, "transition leaf", lf.ret.Pos(), "unexpected shape")
			return nil, 0, nil, false
		}
		n, ok := constInt(info, lf.ret.Results[0])
		if !ok {
			c.Undecided(rule, "transition leaf", lf.ret.Pos(), "non-constant next state")
			return nil, 0, nil, false
		}
		sd, rd := lf.cons[ps[0]], lf.cons[ps[1]]
		if n < 0 {
			if haveErr && errState != n {
				c.Undecided(rule, "transition leaf", lf.ret.Pos(), "two different negative states")
				return nil, 0, nil, false
			}
			errState, haveErr = n, true
			continue
		}
		if sd.infinite() {
			okAll = false
			c.Fail(rule, fmt.Sprintf("default transition to state %d", n), lf.ret.Pos(), "the transition function returns a live state for an unbounded set of source states")
			continue
		}
		var rs rset
		for _, x := range rd.ints {
			lo, hi := x.lo, x.hi
			if hi < 0 || lo > maxRune {
				continue
			}
			if lo < 0 {
				lo = 0
			}
			if hi > maxRune {
				hi = maxRune
			}
			rs = append(rs, iv{rune(lo), rune(hi)})
		}
		rs = norm(rs)
		if rs.empty() {
			continue
		}
		for _, s := range sd.intValues() {
			if s < 0 {
				continue
			}
			m.grow(s)
			m.grow(int(n))
			m.trans[s][int(n)] = union(m.trans[s][int(n)], rs)
			if _, ok := tpos[[2]int{s, int(n)}]; !ok {
				tpos[[2]int{s, int(n)}] = lf.ret.Pos()
			}
		}
	}
	if !haveErr {
		c.Fail(rule, "transition function has a dead (error) state", fd.Pos(), "no negative error state is ever returned: the scanner can never stop")
		return nil, 0, nil, false
	}
	// determinism: the flattening yields a function by construction (first match wins), so target sets are disjoint.
	return m, errState, tpos, okAll
}

// extractEval flattens the accepting-state evaluation method.
func extractEval(c *Ctx, rule string, p *packages.Package, fd *ast.FuncDecl) ([]evalLeaf, bool) {
	info := p.TypesInfo
	ps := funcParams(info, fd)
	if len(ps) != 1 {
		c.Lost(rule, "evaluation function parameter")
		return nil, false
	}
	leaves, epos, err := flattenFunc(info, fd, ps)
	if err != nil {
		c.Undecided(rule, "evaluation function "+fd.Name.Name, epos, err.Error())
		return nil, false
	}
	var out []evalLeaf
	for _, lf := range leaves {
		el := evalLeaf{pos: lf.ret.Pos()}
		sd := lf.cons[ps[0]]
		if sd.infinite() {
			el.infinite = true
		} else {
			el.states = sd.intValues()
		}
		// abstract straight-line evaluation
		strv := map[types.Object]lexAbs{}
		posv := map[types.Object]string{}
		consumeKind := func(e ast.Expr) string {
			call, ok := ast.Unparen(e).(*ast.CallExpr)
			if !ok {
				return ""
			}
			sel, ok := call.Fun.(*ast.SelectorExpr)
			if !ok {
				return ""
			}
			fn, _ := info.Uses[sel.Sel].(*types.Func)
			if fn == nil {
				return ""
			}
			sig := fn.Type().(*types.Signature)
			if sig.Recv() == nil || sig.Params().Len() != 0 {
				return ""
			}
			isPos := func(t types.Type) bool { _, n := namedTypeName(t); return n == "Position" }
			switch {
			case sig.Results().Len() == 2 && isString(sig.Results().At(0).Type()) && isPos(sig.Results().At(1).Type()):
				return "Lexeme"
			case sig.Results().Len() == 1 && isPos(sig.Results().At(0).Type()):
				return "Skip"
			}
			return ""
		}
		var evalStr func(e ast.Expr) lexAbs
		evalStr = func(e ast.Expr) lexAbs {
			e = ast.Unparen(e)
			if s, ok := constStr(info, e); ok {
				return lexAbs{kind: "const", cval: s}
			}
			switch v := e.(type) {
			case *ast.Ident:
				if a, ok := strv[info.Uses[v]]; ok {
					return a
				}
			case *ast.SliceExpr:
				base := evalStr(v.X)
				if base.kind == "text" && v.Max == nil {
					a, b := 0, 0
					okA, okB := true, true
					if v.Low != nil {
						n, ok := constInt(info, v.Low)
						a, okA = int(n), ok
					}
					if v.High != nil {
						// len(x) - k
						okB = false
						if be, ok := ast.Unparen(v.High).(*ast.BinaryExpr); ok && be.Op == token.SUB {
							if lc, ok := ast.Unparen(be.X).(*ast.CallExpr); ok && len(lc.Args) == 1 {
								if id, ok := lc.Fun.(*ast.Ident); ok && id.Name == "len" && info.Uses[id] == types.Universe.Lookup("len") && evalStr(lc.Args[0]).kind == "text" {
									if n, ok := constInt(info, be.Y); ok {
										b, okB = int(n), true
									}
								}
							}
						}
					}
					if okA && okB {
						return lexAbs{kind: "slice", a: a, b: b}
					}
				}
			case *ast.CallExpr:
				if fn, ok := objOf(info, v.Fun).(*types.Func); ok && fn.Pkg() != nil && fn.Pkg().Path() == "strings" && len(v.Args) == 2 {
					base := evalStr(v.Args[0])
					cs, okc := constStr(info, v.Args[1])
					if base.kind == "text" && okc {
						switch fn.Name() {
						case "Trim", "TrimLeft", "TrimRight", "TrimPrefix", "TrimSuffix":
							return lexAbs{kind: "trim", fn: fn.Name(), cutset: cs}
						}
					}
				}
			}
			return lexAbs{kind: "other", src: types.ExprString(e)}
		}
		bad := false
		for _, st := range lf.stmts {
			as, ok := st.(*ast.AssignStmt)
			if !ok {
				bad = true
				continue
			}
			if len(as.Rhs) == 1 && consumeKind(as.Rhs[0]) != "" {
				k := consumeKind(as.Rhs[0])
				el.consumes = append(el.consumes, k)
				tag := fmt.Sprintf("%s#%d", k, len(el.consumes))
				lhsObj := func(e ast.Expr) types.Object {
					id, ok := e.(*ast.Ident)
					if !ok {
						return nil
					}
					if o := info.Defs[id]; o != nil {
						return o
					}
					return info.Uses[id]
				}
				if k == "Lexeme" && len(as.Lhs) == 2 {
					if o := lhsObj(as.Lhs[0]); o != nil {
						strv[o] = lexAbs{kind: "text"}
					}
					if o := lhsObj(as.Lhs[1]); o != nil {
						posv[o] = tag
					}
				} else if k == "Skip" && len(as.Lhs) == 1 {
					if o := lhsObj(as.Lhs[0]); o != nil {
						posv[o] = tag
					}
				}
				continue
			}
			if len(as.Lhs) == 1 && len(as.Rhs) == 1 {
				if id, ok := as.Lhs[0].(*ast.Ident); ok {
					o := info.Defs[id]
					if o == nil {
						o = info.Uses[id]
					}
					if o != nil && isString(o.Type()) {
						strv[o] = evalStr(as.Rhs[0])
						continue
					}
				}
			}
			bad = true
		}
		// also count consume calls hidden inside the return expression
		ast.Inspect(lf.ret, func(n ast.Node) bool {
			if e, ok := n.(ast.Expr); ok {
				if k := consumeKind(e); k != "" {
					el.consumes = append(el.consumes, k)
					bad = true // value plumbing through an inline call is not tracked
				}
			}
			return true
		})
		if len(lf.ret.Results) != 1 {
			c.Undecided(rule, "evaluation leaf", lf.ret.Pos(), "return arity")
			return nil, false
		}
		cl, ok := ast.Unparen(lf.ret.Results[0]).(*ast.CompositeLit)
		if !ok {
			c.Undecided(rule, "evaluation leaf", lf.ret.Pos(), "result is not a token literal")
			return nil, false
		}
		fs, err := compositeFields(cl)
		if err != nil {
			c.Undecided(rule, "evaluation leaf", lf.ret.Pos(), err.Error())
			return nil, false
		}
		if t := fs["Terminal"]; t != nil {
			el.terminal, el.termOK = constStr(info, t)
		}
		if l := fs["Lexeme"]; l != nil {
			el.lexeme = evalStr(l)
		} else {
			el.lexeme = lexAbs{kind: "const", cval: ""}
		}
		if pe := fs["Pos"]; pe != nil {
			if id, ok := ast.Unparen(pe).(*ast.Ident); ok {
				el.posFrom = posv[info.Uses[id]]
			}
		}
		if bad && el.lexeme.kind != "other" {
			// unknown statements on the path: be conservative about the lexeme
			el.lexeme = lexAbs{kind: "other", src: "path contains statements the analysis does not model"}
		}
		out = append(out, el)
	}
	return out, true
}

func isString(t types.Type) bool {
	b, ok := t.Underlying().(*types.Basic)
	return ok && b.Info()&types.IsString != 0
}

// findScanner resolves the three anchors of a coded scanner in package p by signature and call relation.
func findScanner(c *Ctx, rule string, p *packages.Package) *scanner {
	s := &scanner{pkg: p}
	adv := findFuncBySig(p, []func(types.Type) bool{isInt, isRune}, []func(types.Type) bool{isInt})
	if len(adv) != 1 {
		c.Lost(rule, fmt.Sprintf("transition function func(int, rune) int in %s (found %d)", p.PkgPath, len(adv)))
		return nil
	}
	s.advFn = adv[0]
	advObj := p.TypesInfo.Defs[s.advFn.Name]
	// NextToken: the method that calls the transition function
	var evalObj types.Object
	_ = evalObj
	AllFuncDecls(p, func(fd *ast.FuncDecl) {
		if fd.Body == nil || fd.Recv == nil {
			return
		}
		calls := false
		ast.Inspect(fd.Body, func(n ast.Node) bool {
			if call, ok := n.(*ast.CallExpr); ok && objOf(p.TypesInfo, call.Fun) == advObj {
				calls = true
			}
			return true
		})
		if calls {
			if s.nextFn != nil {
				s.nextFn = nil
				return
			}
			s.nextFn = fd
		}
	})
	if s.nextFn == nil {
		c.Lost(rule, "the unique method calling the transition function (NextToken)")
		return nil
	}
	// evalDFA: the unique method func(int) Token of the scanner's receiver type
	recv := recvName(s.nextFn.Recv.List[0].Type)
	nEval := 0
	AllFuncDecls(p, func(fd *ast.FuncDecl) {
		if fd.Recv == nil || fd.Body == nil || recvName(fd.Recv.List[0].Type) != recv {
			return
		}
		fn, _ := p.TypesInfo.Defs[fd.Name].(*types.Func)
		if fn == nil {
			return
		}
		sig := fn.Type().(*types.Signature)
		if sig.Params().Len() == 1 && isInt(sig.Params().At(0).Type()) && sig.Results().Len() == 1 {
			if _, n := namedTypeName(sig.Results().At(0).Type()); n == "Token" {
				s.evalFn = fd
				evalObj = fn
				nEval++
			}
		}
	})
	if nEval != 1 {
		s.evalFn = nil
	}
	if s.evalFn == nil {
		c.Lost(rule, "the accepting-state evaluation method func(int) Token called from NextToken")
		return nil
	}
	c.Analysed(funcKey(p, s.advFn))
	c.Analysed(funcKey(p, s.evalFn))
	c.Analysed(funcKey(p, s.nextFn))
	m, es, tpos, ok := extractAdvance(c, rule, p, s.advFn)
	if m == nil {
		return nil
	}
	_ = ok
	s.m, s.errorState, s.transPos = m, es, tpos
	leaves, ok := extractEval(c, rule, p, s.evalFn)
	if !ok {
		return nil
	}
	s.leaves = leaves
	s.stateLeaf = map[int]*evalLeaf{}
	for i := range s.leaves {
		l := &s.leaves[i]
		if l.infinite {
			s.defLeaf = l
			continue
		}
		for _, st := range l.states {
			if st >= 0 {
				s.m.grow(st)
				s.stateLeaf[st] = l
			}
		}
	}
	s.nStates = len(s.m.trans)
	return s
}

// ---------- the scan loop on SSA ----------

type evalSite struct {
	call     *ssa.Call     // the call in the scan function (evaluation method itself or a wrapper around it)
	state    ssa.Value     // state argument at that call
	outFn    *ssa.Function // function in which the outcome of the evaluation is decided
	evalCall *ssa.Call     // the evaluation call inside outFn
	context  string        // dead | eof | other
}

type scanLoop struct {
	fn          *ssa.Function
	adv         *ssa.Call
	curr        *ssa.Phi
	nextCall    ssa.CallInstruction
	nextErr     ssa.Value
	retract     []ssa.CallInstruction
	sites       []*evalSite
	errTerms    []string
	skipTerms   []string
	defaultKind string // what happens for every other terminal: token | error | skip | mixed
	eofPending  bool   // an evaluation site exists on the end-of-input path (pending lexeme is not lost)
	ok          bool
	eofPaths    []*scanPath
	outFn       *ssa.Function // the function that decides the outcome from the evaluated token's terminal
	outVal      ssa.Value     // the token value there
	pathsDone      bool // the paths through one iteration were enumerated (the end-of-input clauses can be decided)
	classUndecided bool // the outcome classification met a shape it does not understand
	discards    bool          // some dead-transition path in the start state consumes the rune and restarts
	flagged     bool          // the scan function returns (token, isToken, error) and a driver loops over it
	driver      *ssa.Function // the function looping over a flagged scan function (the public NextToken)
	driverOK    bool
}

// wrapperOf: is callee a function of the same package that passes one of its int parameters as the state of the
// evaluation method? Returns the parameter index and the inner call.
func wrapperOf(callee *ssa.Function, evalObj types.Object) (int, *ssa.Call) {
	if callee == nil || len(callee.Blocks) == 0 {
		return -1, nil
	}
	var inner *ssa.Call
	idx := -1
	allCalls(callee, func(call ssa.CallInstruction) {
		cv, ok := call.(*ssa.Call)
		if !ok {
			return
		}
		if f := calleeFunc(call); f == nil || types.Object(f) != evalObj {
			return
		}
		arg := cv.Call.Args[len(cv.Call.Args)-1]
		for i, p := range callee.Params {
			if ssa.Value(p) == arg {
				idx, inner = i, cv
			}
		}
	})
	return idx, inner
}

// scanPath is one way through the body of the scan loop, from the read of the next rune to an evaluation, a return, or the
// next iteration.
type scanPath struct {
	hasErr   bool // Next()'s error was non-nil on this path
	errNil   bool
	dead     bool // the transition function returned the error state on this path
	alive    bool
	eofTest  bool // the error was tested to be io.EOF (true branch)
	pending  bool // the loop-carried state was tested to be different from 0 (true branch)
	retracts int
	skips    int  // Skip() calls on the path (a consumed, discarded rune)
	atStart  bool // the loop-carried state was tested to be 0 (true branch)
	site     *evalSite // evaluation reached (nil if none)
	end      string    // eval | return | loop | other
	endPos   token.Pos
	lastBlk  *ssa.BasicBlock
	lastPrev *ssa.BasicBlock // the block the walk came from (to resolve a phi condition on this path)
}

func analyseScanLoop(c *Ctx, rule string, fn *ssa.Function, advObj, evalObj types.Object, errorState int64) *scanLoop {
	sl := &scanLoop{fn: fn}
	pos := fn.Pos()
	var advs []*ssa.Call
	siteOf := map[ssa.Instruction]*evalSite{}
	allCalls(fn, func(call ssa.CallInstruction) {
		if methodNameOf(call) == "Retract" {
			sl.retract = append(sl.retract, call)
		}
		cv, ok := call.(*ssa.Call)
		if !ok {
			return
		}
		f := calleeFunc(call)
		if f != nil && types.Object(f) == advObj {
			advs = append(advs, cv)
		}
		if f != nil && types.Object(f) == evalObj {
			st := &evalSite{call: cv, state: cv.Call.Args[len(cv.Call.Args)-1], outFn: fn, evalCall: cv}
			sl.sites = append(sl.sites, st)
			siteOf[cv] = st
			return
		}
		if callee := cv.Call.StaticCallee(); callee != nil && callee != fn && callee.Pkg == fn.Pkg {
			if pi, inner := wrapperOf(callee, evalObj); inner != nil {
				st := &evalSite{call: cv, state: cv.Call.Args[pi], outFn: callee, evalCall: inner}
				sl.sites = append(sl.sites, st)
				siteOf[cv] = st
			}
		}
	})
	if len(advs) != 1 {
		c.Undecided(rule, "scan loop: one transition call", pos, fmt.Sprintf("%d calls of the transition function in the scan function", len(advs)))
		return sl
	}
	sl.adv = advs[0]
	// curr: phi [start state 0, adv result]
	phi, _ := sl.adv.Call.Args[0].(*ssa.Phi)
	okPhi := phi != nil
	if okPhi {
		sawInit, sawNext := false, false
		for _, e := range phi.Edges {
			switch {
			case isConstInt(e, 0):
				sawInit = true
			case e == ssa.Value(sl.adv):
				sawNext = true
			case e == ssa.Value(phi):
				// a path round the loop that keeps the state (none in a scanner that consumes a rune per iteration)
			default:
				okPhi = false
			}
		}
		okPhi = okPhi && sawInit && sawNext
	}
	if phi == nil {
		c.Undecided(rule, "scan loop: the state fed to the transition function is loop-carried from start state 0", sl.adv.Pos(), "the first argument of the transition function is not a loop-carried variable")
		return sl
	}
	if !c.Check(rule, "scan loop: the state fed to the transition function is loop-carried from start state 0", sl.adv.Pos(), okPhi,
		"the state fed to the transition function is not {0 at the start, the previous result afterwards}") {
		return sl
	}
	sl.curr = phi
	// r: rune result of Next()
	var nextCall ssa.CallInstruction
	if ex, ok := sl.adv.Call.Args[1].(*ssa.Extract); ok && ex.Index == 0 {
		if call, ok := ex.Tuple.(*ssa.Call); ok && methodNameOf(call) == "Next" {
			nextCall = call
		}
	}
	if !c.Check(rule, "scan loop: the symbol fed to the transition function is the rune just read", sl.adv.Pos(), nextCall != nil, "the second argument is not the rune result of Next()") {
		return sl
	}
	sl.nextCall = nextCall
	for _, r := range *nextCall.(*ssa.Call).Referrers() {
		if ex, ok := r.(*ssa.Extract); ok && ex.Index == 1 {
			sl.nextErr = ex
		}
	}
	c.Check(rule, "scan loop: the read error is tested before the rune is used", sl.adv.Pos(), sl.nextErr != nil && controlledNil(sl.adv.Block(), sl.nextErr, false),
		"the transition function runs on a path where Next()'s error was not tested to be nil")

	if len(sl.sites) == 0 {
		// another division of labour: the scan function only runs the automaton and hands back the state it stopped in, and
		// its caller evaluates that state. Each return of a state without an error is then where the evaluation happens.
		var g *ssa.Function
		var e *ssa.Call
		if fn.Signature.Results().Len() >= 1 && isInt(fn.Signature.Results().At(0).Type()) {
			for _, cand := range allFuncsOfPkg(fn.Pkg) {
				allCalls(cand, func(call ssa.CallInstruction) {
					cv, ok := call.(*ssa.Call)
					if !ok {
						return
					}
					if f := calleeFunc(call); f == nil || types.Object(f) != evalObj {
						return
					}
					arg := cv.Call.Args[len(cv.Call.Args)-1]
					if ex, ok := arg.(*ssa.Extract); ok && ex.Index == 0 {
						if src, ok := ex.Tuple.(*ssa.Call); ok && src.Call.StaticCallee() == fn {
							g, e = cand, cv
						}
					}
					if src, ok := arg.(*ssa.Call); ok && src.Call.StaticCallee() == fn {
						g, e = cand, cv
					}
				})
			}
		}
		if g != nil {
			for _, b := range fn.Blocks {
				ret, ok := b.Instrs[len(b.Instrs)-1].(*ssa.Return)
				if !ok || len(ret.Results) == 0 {
					continue
				}
				if len(ret.Results) >= 2 && !isNilConst(ret.Results[len(ret.Results)-1]) {
					continue // an error is handed back: nothing is evaluated
				}
				st := &evalSite{call: e, state: ret.Results[0], outFn: g, evalCall: e}
				sl.sites = append(sl.sites, st)
				siteOf[ret] = st
			}
		}
	}
	if len(sl.sites) == 0 {
		c.Undecided(rule, "scan loop: the evaluation method is called", pos, "no call of the evaluation method (directly, through a wrapper, or by the caller on the state handed back) was found for the scan function")
		return sl
	}
	c.Pass(rule, "scan loop: the evaluation method is called", pos, "")

	// ---- paths through one iteration ----
	header := phi.Block()
	start := nextCall.(*ssa.Call).Block()
	var paths []*scanPath
	var walk func(b *ssa.BasicBlock, from int, p scanPath, depth int)
	walk = func(b *ssa.BasicBlock, from int, p scanPath, depth int) {
		if depth > 40 || len(paths) > 400 {
			p.end = "other"
			paths = append(paths, &p)
			return
		}
		p.lastBlk = b
		for i := from; i < len(b.Instrs); i++ {
			in := b.Instrs[i]
			if ci, ok := in.(ssa.CallInstruction); ok {
				if methodNameOf(ci) == "Retract" {
					p.retracts++
				}
				if methodNameOf(ci) == "Skip" {
					p.skips++
				}
				if st, ok := siteOf[in]; ok {
					p.site, p.end, p.endPos = st, "eval", in.Pos()
					q := p
					paths = append(paths, &q)
					return
				}
			}
			switch t := in.(type) {
			case *ssa.Return:
				if st, ok := siteOf[t]; ok {
					p.site, p.end, p.endPos = st, "eval", t.Pos()
					q := p
					paths = append(paths, &q)
					return
				}
				p.end, p.endPos = "return", t.Pos()
				q := p
				paths = append(paths, &q)
				return
			case *ssa.Jump:
				if b.Succs[0] == header || b.Succs[0] == start {
					p.end = "loop"
					q := p
					paths = append(paths, &q)
					return
				}
				p.lastPrev = b
				walk(b.Succs[0], 0, p, depth+1)
				return
			case *ssa.If:
				// a condition written with || or && arrives as a phi of the operands: on this path the operand is the edge of the
				// block we came from; a negation flips the polarity
				rcond, neg := t.Cond, false
				for i := 0; i < 6; i++ {
					if ph, ok := rcond.(*ssa.Phi); ok && ph.Block() == b && p.lastPrev != nil {
						found := false
						for pi, pb := range b.Preds {
							if pb == p.lastPrev {
								rcond = ph.Edges[pi]
								found = true
							}
						}
						if found {
							continue
						}
					}
					if u, ok := rcond.(*ssa.UnOp); ok && u.Op == token.NOT {
						rcond, neg = u.X, !neg
						continue
					}
					break
				}
				for k, succ := range b.Succs {
					q := p
					q.lastPrev = b
					pol := (k == 0) != neg
					cond := rcond
					if kc, ok := cond.(*ssa.Const); ok && kc.Value != nil && kc.Value.Kind() == constant.Bool {
						if constant.BoolVal(kc.Value) != pol {
							continue // this operand already decided the condition the other way
						}
					}
					if sl.nextErr != nil {
						if nn, ok := isNilCheck(cond, sl.nextErr); ok {
							if nn == pol {
								q.hasErr = true
							} else {
								q.errNil = true
							}
						}
					}
					if n, eq, ok := eqConst(cond, sl.adv); ok && n == errorState {
						if eq == pol {
							q.dead = true
						} else {
							q.alive = true
						}
					}
					if n, eq, ok := eqConst(cond, sl.curr); ok && n == 0 {
						if eq != pol {
							q.pending = true
						} else {
							q.atStart = true
						}
					}
					if call, ok := cond.(*ssa.Call); ok && pol && staticCalleeName(call) == "errors.Is" {
						if g, ok := rootGlobal(call.Call.Args[1]); ok && g == "io.EOF" {
							q.eofTest = true
						}
					}
					if bo, ok := cond.(*ssa.BinOp); ok && ((bo.Op == token.EQL && pol) || (bo.Op == token.NEQ && !pol)) {
						if g, ok := rootGlobal(bo.Y); ok && g == "io.EOF" {
							q.eofTest = true
						}
					}
					if succ == header || succ == start {
						q.end = "loop"
						qq := q
						paths = append(paths, &qq)
						continue
					}
					walk(succ, 0, q, depth+1)
				}
				return
			}
		}
	}
	walk(start, instrIndex(nextCall.(ssa.Instruction))+1, scanPath{}, 0)
	c.Extra("scan_loop_paths", len(paths))
	sl.pathsDone = true

	nDeadEval := 0
	for _, p := range paths {
		switch {
		case p.end == "eval" && p.dead:
			nDeadEval++
			p.site.context = "dead"
			c.Check(rule, "scan loop: evaluation on dead path: the state evaluated is the one before the failing step", p.endPos, p.site.state == ssa.Value(sl.curr),
				"the evaluation does not receive the loop-carried current state")
			c.Check(rule, "scan loop: evaluation on dead path: exactly one Retract precedes the evaluation", p.endPos, p.retracts == 1,
				fmt.Sprintf("%d Retract calls precede the evaluation on the dead-transition path (the rune that did not belong to the token must be given back exactly once)", p.retracts))
		case p.end == "eval" && p.hasErr:
			p.site.context = "eof"
			sl.eofPending = true
			sl.eofPaths = append(sl.eofPaths, p)
			c.Check(rule, "scan loop: evaluation on eof path: the state evaluated is the one before the failing step", p.endPos, p.site.state == ssa.Value(sl.curr),
				"the evaluation does not receive the loop-carried current state")
			c.Check(rule, "scan loop: evaluation on eof path: nothing is retracted (no rune was read)", p.endPos, p.retracts == 0,
				"a Retract precedes the evaluation although Next() failed: a rune of the pending lexeme would be given back")
		case p.end == "eval":
			p.site.context = "other"
			c.Fail(rule, "scan loop: evaluation happens only on a dead transition or at end of input", p.endPos,
				fmt.Sprintf("an evaluation is reached on a path that is guarded neither by next == %d nor by the read error", errorState))
		case p.hasErr && p.pending && p.eofTest && p.end == "return":
			// end of input, a lexeme pending, and the function returns without asking the automaton what the pending state is
			c.Fail(rule, "scan loop: a lexeme pending at the end of the input is evaluated on every path", p.endPos,
				"on a path where the read failed with io.EOF and the loop-carried state is not the start state, the scan function returns without evaluating that state: whether the pending lexeme is a token is decided by something else than the automaton's accepting states (or the lexeme is dropped)",
				"a specification whose last lexeme, without a final newline, is in a state the extra condition covers, e.g. a // comment at the very end of the file")
		case p.dead && p.end != "eval" && p.atStart && p.skips == 1 && p.retracts == 0:
			// a rune that no token starts with is consumed and dropped in the start state (blank discard; the property that
			// allows it decides which runes): nothing is pending, so there is nothing to evaluate
			sl.discards = true
		case p.dead && p.end != "eval":
			c.Fail(rule, "scan loop: a dead transition ends the lexeme (the state before it is evaluated)", p.endPos,
				"a path on which the transition function reported a dead transition "+map[string]string{"loop": "continues with the next rune", "return": "returns", "other": "was not followed to its end"}[p.end]+" without evaluating the state")
		case p.retracts > 0 && !p.dead:
			c.Fail(rule, "scan loop: Retract only on a dead transition", p.endPos, "a Retract on a path that is not guarded by the dead-transition test")
		case p.alive && p.end == "return" && !p.hasErr:
			c.Fail(rule, "scan loop: a live transition continues with the next rune", p.endPos, "the scan function returns although the transition function found a next state")
		}
	}
	c.Check(rule, "scan loop: an evaluation site on the dead-transition path", pos, nDeadEval >= 1, fmt.Sprintf("%d paths guarded by next == %d reach an evaluation", nDeadEval, errorState))

	// outcomes: decided where the evaluated token's terminal is compared; that may be the scan function itself, a wrapper
	// around the evaluation, or a caller to which the token is returned
	done := map[*ssa.Function]bool{}
	for _, st := range sl.sites {
		if done[st.outFn] {
			continue
		}
		done[st.outFn] = true
		hfn, hval := followToken(st.outFn, ssa.Value(st.evalCall), 0)
		if hfn == nil {
			c.Undecided(rule, "scan loop: where the evaluated token's terminal decides the outcome", st.call.Pos(), "the token is neither classified where it is evaluated nor returned to a caller that classifies it")
			continue
		}
		sl.outFn, sl.outVal = hfn, hval
		if hfn.Signature.Results().Len() == 3 {
			sl.flagged = true
			checkSkipDriver(c, rule, sl, flaggedRoot(hfn))
		}
		classifyAfterEval(c, rule, sl, hfn, hval)
	}
	sl.ok = !sl.classUndecided && sl.outFn != nil
	return sl
}

// followToken: the function in which the terminal of the token value v (a call of the evaluation method, or the first result
// of a call that returns it) is compared with constants. If fn itself does not compare it but returns it, the callers of fn
// in the same package are followed.
func followToken(fn *ssa.Function, v ssa.Value, depth int) (*ssa.Function, ssa.Value) {
	if depth > 3 {
		return nil, nil
	}
	if comparesTerminal(fn, v) {
		return fn, v
	}
	// returned as result #0?
	returned := false
	for _, b := range fn.Blocks {
		ret, ok := b.Instrs[len(b.Instrs)-1].(*ssa.Return)
		if !ok || len(ret.Results) == 0 {
			continue
		}
		for _, r := range rootsOf(fn, retOperand(ret, 0), func(x ssa.Value) bool { return x == v }) {
			if r == v {
				returned = true
			}
		}
	}
	if !returned {
		return nil, nil
	}
	for _, g := range allFuncsOfPkgDeep(fn.Pkg) {
		if g == fn {
			continue
		}
		var found *ssa.Function
		var fv ssa.Value
		allCalls(g, func(call ssa.CallInstruction) {
			cv, ok := call.(*ssa.Call)
			if !ok || cv.Call.StaticCallee() != fn || found != nil {
				return
			}
			var tok ssa.Value = cv
			if fn.Signature.Results().Len() > 1 {
				tok = nil
				for _, r := range *cv.Referrers() {
					if ex, ok := r.(*ssa.Extract); ok && ex.Index == 0 {
						tok = ex
					}
				}
			}
			if tok == nil {
				return
			}
			if hf, hv := followToken(g, tok, depth+1); hf != nil {
				found, fv = hf, hv
			}
		})
		if found != nil {
			return found, fv
		}
	}
	return nil, nil
}

// comparesTerminal: fn contains a comparison of the Terminal field of token value v with a constant.
func comparesTerminal(fn *ssa.Function, v ssa.Value) bool {
	found := false
	for _, b := range fn.Blocks {
		for _, in := range b.Instrs {
			bo, ok := in.(*ssa.BinOp)
			if !ok || (bo.Op != token.EQL && bo.Op != token.NEQ) {
				continue
			}
			for _, side := range []ssa.Value{bo.X, bo.Y} {
				if isTerminalOf(fn, side, v) {
					found = true
				}
			}
		}
	}
	return found
}

// isTerminalOf: x is the Terminal field of the token value v (directly, or through the local the token was stored in).
func isTerminalOf(fn *ssa.Function, x ssa.Value, v ssa.Value) bool {
	for _, r := range rootsOf(fn, x, nil) {
		if fa, ok := r.(*ssa.FieldAddr); ok && fieldName(fa) == "Terminal" {
			if a, ok := fa.X.(*ssa.Alloc); ok {
				for _, ref := range *a.Referrers() {
					if s2, ok := ref.(*ssa.Store); ok && s2.Addr == ssa.Value(a) && s2.Val == v {
						return true
					}
				}
			}
		}
		if f, ok := r.(*ssa.Field); ok && f.X == v {
			if st, ok := f.X.Type().Underlying().(*types.Struct); ok && st.Field(f.Field).Name() == "Terminal" {
				return true
			}
		}
	}
	return false
}

// classifyAfterEval walks the comparison chain on the evaluated token's Terminal in fn, where eval is the token value.
func classifyAfterEval(c *Ctx, rule string, sl *scanLoop, fn *ssa.Function, eval ssa.Value) {
	evalIn, _ := eval.(ssa.Instruction)
	if evalIn == nil {
		c.Undecided(rule, "scan loop: outcome classification", fn.Pos(), "the token value is not an instruction")
		return
	}
	// the call that produced the token in fn (the evaluation itself, or the call of the function that returned it)
	var srcCall *ssa.Call
	switch x := eval.(type) {
	case *ssa.Call:
		srcCall = x
	case *ssa.Extract:
		srcCall, _ = x.Tuple.(*ssa.Call)
	}
	isTerm := func(v ssa.Value) bool { return isTerminalOf(fn, v, eval) }
	kinds := map[string]string{} // terminal const -> kind
	defKinds := map[string]bool{}
	var walk func(b *ssa.BasicBlock, eq string, neq map[string]bool, depth int)
	loopsBack := func(b *ssa.BasicBlock) bool {
		// following unconditional jumps leads back to the block that calls for the next token
		cur := b
		for i := 0; i < 12; i++ {
			if len(cur.Succs) != 1 {
				return false
			}
			cur = cur.Succs[0]
			if srcCall != nil && cur == srcCall.Block() {
				return true
			}
			if fn == sl.fn && sl.curr != nil && cur == sl.curr.Block() {
				return true
			}
		}
		return false
	}
	classifyRet := func(b *ssa.BasicBlock) string {
		last := b.Instrs[len(b.Instrs)-1]
		switch v := last.(type) {
		case *ssa.Return:
			if len(v.Results) == 3 {
				// flagged protocol: (token, isToken, error); the driver calls again when !isToken && error == nil
				if !isNilConst(v.Results[2]) {
					return "error"
				}
				k, isK := v.Results[1].(*ssa.Const)
				if !isK || k.Value == nil || k.Value.Kind() != constant.Bool {
					return "other"
				}
				if constant.BoolVal(k.Value) {
					for _, r := range rootsOf(fn, v.Results[0], func(x ssa.Value) bool { return x == eval }) {
						if r == eval {
							return "token"
						}
					}
					return "other"
				}
				if sl.driverOK {
					return "skip"
				}
				return "other"
			}
			if len(v.Results) != 2 {
				return "other"
			}
			if isNilConst(v.Results[1]) {
				for _, r := range rootsOf(fn, v.Results[0], func(x ssa.Value) bool { return x == eval }) {
					if r == eval {
						return "token"
					}
				}
				return "other"
			}
			if ex, ok := v.Results[1].(*ssa.Extract); ok {
				if call, ok := ex.Tuple.(*ssa.Call); ok && (call.Call.StaticCallee() == sl.fn || call.Call.StaticCallee() == fn) {
					return "skip"
				}
			}
			return "error"
		case *ssa.Jump:
			// back to the loop header with the state reset to 0 (the scan function skips by itself)
			t := b.Succs[0]
			if fn == sl.fn && sl.curr != nil && t == sl.curr.Block() {
				for i, p := range t.Preds {
					if p == b && isConstInt(sl.curr.Edges[i], 0) {
						return "skip"
					}
				}
			}
			if loopsBack(b) {
				return "skip"
			}
		}
		return "other"
	}
	record := func(eq, k string) {
		if eq != "" {
			if old, ok := kinds[eq]; ok && old != k {
				kinds[eq] = "mixed"
			} else {
				kinds[eq] = k
			}
		} else {
			defKinds[k] = true
		}
	}
	walk = func(b *ssa.BasicBlock, eq string, neq map[string]bool, depth int) {
		if depth > 64 {
			defKinds["other"] = true
			return
		}
		if depth > 0 && srcCall != nil && b == srcCall.Block() {
			// control returns to the call that fetches the next token: this one was skipped
			record(eq, "skip")
			return
		}
		last := b.Instrs[len(b.Instrs)-1]
		if ifi, ok := last.(*ssa.If); ok {
			if bo, ok := ifi.Cond.(*ssa.BinOp); ok && (bo.Op == token.EQL || bo.Op == token.NEQ) {
				var k *ssa.Const
				var other ssa.Value
				if kk, ok := bo.Y.(*ssa.Const); ok {
					k, other = kk, bo.X
				} else if kk, ok := bo.X.(*ssa.Const); ok {
					k, other = kk, bo.Y
				}
				if k != nil && k.Value != nil && isTerm(other) {
					val := constStringOf(k)
					ti, fi := 0, 1
					if bo.Op == token.NEQ {
						ti, fi = 1, 0
					}
					if eq == "" && !neq[val] {
						walk(b.Succs[ti], val, neq, depth+1)
					} else if eq == val {
						walk(b.Succs[ti], eq, neq, depth+1)
						return
					}
					if eq != val {
						n2 := map[string]bool{}
						for x := range neq {
							n2[x] = true
						}
						n2[val] = true
						walk(b.Succs[fi], eq, n2, depth+1)
					}
					return
				}
				// a test of the error that came with the token: the classification applies on the path without an error
				if srcCall != nil {
					for _, r := range *srcCall.Referrers() {
						if ex, ok := r.(*ssa.Extract); ok && ex.Index != 0 && isErr(ex.Type()) {
							if nn, ok := isNilCheck(ifi.Cond, ex); ok {
								nilSucc := 1
								if !nn {
									nilSucc = 0
								}
								walk(b.Succs[nilSucc], eq, neq, depth+1)
								return
							}
						}
					}
				}
			}
			defKinds["other"] = true
			return
		}
		if _, ok := last.(*ssa.Jump); ok && !loopsBack(b) && !(fn == sl.fn && sl.curr != nil && b.Succs[0] == sl.curr.Block()) {
			walk(b.Succs[0], eq, neq, depth+1)
			return
		}
		k := classifyRet(b)
		if eq != "" {
			if old, ok := kinds[eq]; ok && old != k {
				kinds[eq] = "mixed"
			} else {
				kinds[eq] = k
			}
		} else {
			defKinds[k] = true
		}
	}
	// start after the instruction that produced the token: the rest of its block decides
	walk(evalIn.Block(), "", map[string]bool{}, 0)
	undecided := false
	for t, k := range kinds {
		switch k {
		case "error":
			sl.errTerms = append(sl.errTerms, t)
		case "skip":
			sl.skipTerms = append(sl.skipTerms, t)
		case "token":
		default:
			undecided = true
			c.Undecided(rule, "scan loop: outcome for terminal "+t, evalIn.Pos(), "after evaluation, terminal "+t+" leads to an outcome the analysis cannot classify ("+k+")")
		}
	}
	sort.Strings(sl.errTerms)
	sort.Strings(sl.skipTerms)
	var dk []string
	for k := range defKinds {
		dk = append(dk, k)
	}
	sort.Strings(dk)
	if len(dk) == 1 {
		sl.defaultKind = dk[0]
	} else {
		sl.defaultKind = "mixed"
	}
	switch {
	case sl.defaultKind == "token":
		c.Pass(rule, "scan loop: every other terminal is returned as the token with a nil error", evalIn.Pos(), "")
	case len(dk) == 1 && (dk[0] == "error" || dk[0] == "skip"):
		c.Fail(rule, "scan loop: every other terminal is returned as the token with a nil error", evalIn.Pos(), fmt.Sprintf("the default outcome after evaluation is %v", dk))
	default:
		undecided = true
		c.Undecided(rule, "scan loop: every other terminal is returned as the token with a nil error", evalIn.Pos(), fmt.Sprintf("the default outcome after evaluation is %v", dk))
	}
	sl.classUndecided = undecided
}

func constStringOf(k *ssa.Const) string {
	if k.Value == nil {
		return ""
	}
	if k.Value.Kind() == constant.String {
		return constant.StringVal(k.Value)
	}
	return k.Value.ExactString()
}


// checkSkipDriver: a scan function that returns (token, isToken, error) leaves skipping to its caller. The caller must call it
// in a loop, return the token and the error exactly when isToken || error != nil, and otherwise call it again.
func checkSkipDriver(c *Ctx, rule string, sl *scanLoop, fn *ssa.Function) {
	var drivers []*ssa.Function
	var calls []*ssa.Call
	for _, m := range fn.Pkg.Members {
		_ = m
	}
	for _, cand := range allFuncsOfPkg(fn.Pkg) {
		if cand == fn {
			continue
		}
		allCalls(cand, func(call ssa.CallInstruction) {
			if cv, ok := call.(*ssa.Call); ok && cv.Call.StaticCallee() == fn {
				drivers = append(drivers, cand)
				calls = append(calls, cv)
			}
		})
	}
	if len(drivers) != 1 {
		c.Undecided(rule, "scan loop: the flagged scan function has exactly one caller (the token loop)", fn.Pos(), fmt.Sprintf("%d call sites of the scan function", len(drivers)))
		return
	}
	d, call := drivers[0], calls[0]
	sl.driver = d
	var tok, flag, errv ssa.Value
	for _, r := range *call.Referrers() {
		if ex, ok := r.(*ssa.Extract); ok {
			switch ex.Index {
			case 0:
				tok = ex
			case 1:
				flag = ex
			case 2:
				errv = ex
			}
		}
	}
	// the call is inside a loop
	inLoop := reach(call.Block(), nil)[call.Block()]
	// every return forwards (tok, err) and every edge into a return block is taken when isToken or when err != nil
	okRets, nRet, why := true, 0, ""
	for _, b := range d.Blocks {
		ret, isRet := b.Instrs[len(b.Instrs)-1].(*ssa.Return)
		if !isRet {
			continue
		}
		nRet++
		if len(ret.Results) != 2 || retOperand(ret, 0) != tok || retOperand(ret, 1) != errv {
			okRets, why = false, "a return does not forward the scan function's token and error"
			continue
		}
		for _, p := range b.Preds {
			ifi, isIf := p.Instrs[len(p.Instrs)-1].(*ssa.If)
			if !isIf {
				okRets, why = false, "a return is reached unconditionally"
				continue
			}
			onTrue := p.Succs[0] == b
			good := false
			if ifi.Cond == flag && onTrue {
				good = true
			}
			if nn, isN := isNilCheck(ifi.Cond, errv); isN && nn == onTrue {
				good = true
			}
			if !good {
				okRets, why = false, "a return is taken under a condition other than isToken / err != nil"
			}
		}
	}
	// the remaining path (not a token, no error) goes back to the call
	sl.driverOK = c.Check(rule, "scan loop: the token loop calls the scan function again exactly when it yielded no token and no error", call.Pos(),
		tok != nil && flag != nil && errv != nil && inLoop && okRets && nRet >= 1,
		fmt.Sprintf("in %s: in loop=%v, returns=%d %s", shortFn(d), inLoop, nRet, why))
}

func allFuncsOfPkg(p *ssa.Package) []*ssa.Function {
	var out []*ssa.Function
	for _, m := range p.Members {
		switch x := m.(type) {
		case *ssa.Function:
			out = append(out, x)
		case *ssa.Type:
			for _, T := range []types.Type{x.Type(), types.NewPointer(x.Type())} {
				ms := p.Prog.MethodSets.MethodSet(T)
				for i := 0; i < ms.Len(); i++ {
					if f := p.Prog.MethodValue(ms.At(i)); f != nil && f.Pkg == p {
						out = append(out, f)
					}
				}
			}
		}
	}
	seen := map[*ssa.Function]bool{}
	var uniq []*ssa.Function
	for _, f := range out {
		if !seen[f] {
			seen[f] = true
			uniq = append(uniq, f)
		}
	}
	sort.Slice(uniq, func(i, j int) bool { return uniq[i].String() < uniq[j].String() })
	return uniq
}

// flaggedRoot: the outermost function that hands the (token, isToken, error) triple of fn on unchanged: a wrapper's callers
// that return its three results as they are belong to the same flagged chain; the function above them is the token loop.
func flaggedRoot(fn *ssa.Function) *ssa.Function {
	cur := fn
	for depth := 0; depth < 4; depth++ {
		var up *ssa.Function
		okAll := true
		n := 0
		for _, g := range allFuncsOfPkgDeep(cur.Pkg) {
			if g == cur {
				continue
			}
			allCalls(g, func(call ssa.CallInstruction) {
				cv, ok := call.(*ssa.Call)
				if !ok || cv.Call.StaticCallee() != cur {
					return
				}
				n++
				if g.Signature.Results().Len() != 3 {
					okAll = false
					return
				}
				// every extract of the call is returned in place
				passes := 0
				for _, r := range *cv.Referrers() {
					if ex, ok := r.(*ssa.Extract); ok {
						for _, rr := range *ex.Referrers() {
							if ret, ok := rr.(*ssa.Return); ok && len(ret.Results) == 3 && ret.Results[ex.Index] == ssa.Value(ex) {
								passes++
							}
						}
					}
				}
				if passes < 3 {
					okAll = false
					return
				}
				if up != nil && up != g {
					okAll = false
				}
				up = g
			})
		}
		if n == 0 || !okAll || up == nil {
			return cur
		}
		cur = up
	}
	return cur
}
