package main

// Extraction of a coded scanner (advanceDFA / evalDFA / NextToken) as data, shared by C05, C13, C19, C20.

import (
	"fmt"
	"go/ast"
	"go/constant"
	"go/token"
	"go/types"
	"sort"

	"golang.org/x/tools/go/packages"
	"golang.org/x/tools/go/ssa"
)

type lexAbs struct {
	kind   string // text | slice | trim | const | other
	a, b   int    // slice [a : len-b]
	cutset string
	fn     string // Trim / TrimLeft / TrimRight / TrimPrefix / TrimSuffix
	cval   string
	src    string
}

type evalLeaf struct {
	states   []int
	infinite bool // default leaf
	terminal string
	termOK   bool
	lexeme   lexAbs
	consumes []string // Skip / Lexeme calls on the path, in order
	posFrom  string   // which consume call the Pos field derives from ("" unknown)
	pos      token.Pos
}

type scanner struct {
	pkg        *packages.Package
	advFn      *ast.FuncDecl
	evalFn     *ast.FuncDecl
	nextFn     *ast.FuncDecl
	m          *mooreT // transitions; labels are terminal names ("" = not accepting / error token)
	errorState int64
	leaves     []evalLeaf
	stateLeaf  map[int]*evalLeaf
	defLeaf    *evalLeaf
	transPos   map[[2]int]token.Pos
	nStates    int
}

// extractAdvance flattens func(state int, r rune) int into a transition relation.
func extractAdvance(c *Ctx, rule string, p *packages.Package, fd *ast.FuncDecl) (*mooreT, int64, map[[2]int]token.Pos, bool) {
	info := p.TypesInfo
	ps := funcParams(info, fd)
	if len(ps) != 2 {
		c.Lost(rule, "transition function parameters")
		return nil, 0, nil, false
	}
	leaves, epos, err := flattenFunc(info, fd, ps)
	if err != nil {
		c.Undecided(rule, "transition function "+fd.Name.Name, epos, err.Error())
		return nil, 0, nil, false
	}
	m := &mooreT{}
	m.grow(0)
	tpos := map[[2]int]token.Pos{}
	var errState int64
	haveErr := false
	okAll := true
	for _, lf := range leaves {
		if len(lf.ret.Results) != 1 || len(lf.stmts) != 0 {
			c.Undecided(rule, "transition leaf", lf.ret.Pos(), "unexpected shape")
			return nil, 0, nil, false
		}
		n, ok := constInt(info, lf.ret.Results[0])
		if !ok {
			c.Undecided(rule, "transition leaf", lf.ret.Pos(), "non-constant next state")
			return nil, 0, nil, false
		}
		sd, rd := lf.cons[ps[0]], lf.cons[ps[1]]
		if n < 0 {
			if haveErr && errState != n {
				c.Undecided(rule, "transition leaf", lf.ret.Pos(), "two different negative states")
				return nil, 0, nil, false
			}
			errState, haveErr = n, true
			continue
		}
		if sd.infinite() {
			okAll = false
			c.Fail(rule, fmt.Sprintf("default transition to state %d", n), lf.ret.Pos(), "the transition function returns a live state for an unbounded set of source states")
			continue
		}
		var rs rset
		for _, x := range rd.ints {
			lo, hi := x.lo, x.hi
			if hi < 0 || lo > maxRune {
				continue
			}
			if lo < 0 {
				lo = 0
			}
			if hi > maxRune {
				hi = maxRune
			}
			rs = append(rs, iv{rune(lo), rune(hi)})
		}
		rs = norm(rs)
		if rs.empty() {
			continue
		}
		for _, s := range sd.intValues() {
			if s < 0 {
				continue
			}
			m.grow(s)
			m.grow(int(n))
			m.trans[s][int(n)] = union(m.trans[s][int(n)], rs)
			if _, ok := tpos[[2]int{s, int(n)}]; !ok {
				tpos[[2]int{s, int(n)}] = lf.ret.Pos()
			}
		}
	}
	if !haveErr {
		c.Fail(rule, "transition function has a dead (error) state", fd.Pos(), "no negative error state is ever returned: the scanner can never stop")
		return nil, 0, nil, false
	}
	// determinism: the flattening yields a function by construction (first match wins), so target sets are disjoint.
	return m, errState, tpos, okAll
}

// extractEval flattens the accepting-state evaluation method.
func extractEval(c *Ctx, rule string, p *packages.Package, fd *ast.FuncDecl) ([]evalLeaf, bool) {
	info := p.TypesInfo
	ps := funcParams(info, fd)
	if len(ps) != 1 {
		c.Lost(rule, "evaluation function parameter")
		return nil, false
	}
	leaves, epos, err := flattenFunc(info, fd, ps)
	if err != nil {
		c.Undecided(rule, "evaluation function "+fd.Name.Name, epos, err.Error())
		return nil, false
	}
	var out []evalLeaf
	for _, lf := range leaves {
		el := evalLeaf{pos: lf.ret.Pos()}
		sd := lf.cons[ps[0]]
		if sd.infinite() {
			el.infinite = true
		} else {
			el.states = sd.intValues()
		}
		// abstract straight-line evaluation
		strv := map[types.Object]lexAbs{}
		posv := map[types.Object]string{}
		consumeKind := func(e ast.Expr) string {
			call, ok := ast.Unparen(e).(*ast.CallExpr)
			if !ok {
				return ""
			}
			sel, ok := call.Fun.(*ast.SelectorExpr)
			if !ok {
				return ""
			}
			fn, _ := info.Uses[sel.Sel].(*types.Func)
			if fn == nil {
				return ""
			}
			sig := fn.Type().(*types.Signature)
			if sig.Recv() == nil || sig.Params().Len() != 0 {
				return ""
			}
			isPos := func(t types.Type) bool { _, n := namedTypeName(t); return n == "Position" }
			switch {
			case sig.Results().Len() == 2 && isString(sig.Results().At(0).Type()) && isPos(sig.Results().At(1).Type()):
				return "Lexeme"
			case sig.Results().Len() == 1 && isPos(sig.Results().At(0).Type()):
				return "Skip"
			}
			return ""
		}
		var evalStr func(e ast.Expr) lexAbs
		evalStr = func(e ast.Expr) lexAbs {
			e = ast.Unparen(e)
			if s, ok := constStr(info, e); ok {
				return lexAbs{kind: "const", cval: s}
			}
			switch v := e.(type) {
			case *ast.Ident:
				if a, ok := strv[info.Uses[v]]; ok {
					return a
				}
			case *ast.SliceExpr:
				base := evalStr(v.X)
				if base.kind == "text" && v.Max == nil {
					a, b := 0, 0
					okA, okB := true, true
					if v.Low != nil {
						n, ok := constInt(info, v.Low)
						a, okA = int(n), ok
					}
					if v.High != nil {
						// len(x) - k
						okB = false
						if be, ok := ast.Unparen(v.High).(*ast.BinaryExpr); ok && be.Op == token.SUB {
							if lc, ok := ast.Unparen(be.X).(*ast.CallExpr); ok && len(lc.Args) == 1 {
								if id, ok := lc.Fun.(*ast.Ident); ok && id.Name == "len" && info.Uses[id] == types.Universe.Lookup("len") && evalStr(lc.Args[0]).kind == "text" {
									if n, ok := constInt(info, be.Y); ok {
										b, okB = int(n), true
									}
								}
							}
						}
					}
					if okA && okB {
						return lexAbs{kind: "slice", a: a, b: b}
					}
				}
			case *ast.CallExpr:
				if fn, ok := objOf(info, v.Fun).(*types.Func); ok && fn.Pkg() != nil && fn.Pkg().Path() == "strings" && len(v.Args) == 2 {
					base := evalStr(v.Args[0])
					cs, okc := constStr(info, v.Args[1])
					if base.kind == "text" && okc {
						switch fn.Name() {
						case "Trim", "TrimLeft", "TrimRight", "TrimPrefix", "TrimSuffix":
							return lexAbs{kind: "trim", fn: fn.Name(), cutset: cs}
						}
					}
				}
			}
			return lexAbs{kind: "other", src: types.ExprString(e)}
		}
		bad := false
		for _, st := range lf.stmts {
			as, ok := st.(*ast.AssignStmt)
			if !ok {
				bad = true
				continue
			}
			if len(as.Rhs) == 1 && consumeKind(as.Rhs[0]) != "" {
				k := consumeKind(as.Rhs[0])
				el.consumes = append(el.consumes, k)
				tag := fmt.Sprintf("%s#%d", k, len(el.consumes))
				lhsObj := func(e ast.Expr) types.Object {
					id, ok := e.(*ast.Ident)
					if !ok {
						return nil
					}
					if o := info.Defs[id]; o != nil {
						return o
					}
					return info.Uses[id]
				}
				if k == "Lexeme" && len(as.Lhs) == 2 {
					if o := lhsObj(as.Lhs[0]); o != nil {
						strv[o] = lexAbs{kind: "text"}
					}
					if o := lhsObj(as.Lhs[1]); o != nil {
						posv[o] = tag
					}
				} else if k == "Skip" && len(as.Lhs) == 1 {
					if o := lhsObj(as.Lhs[0]); o != nil {
						posv[o] = tag
					}
				}
				continue
			}
			if len(as.Lhs) == 1 && len(as.Rhs) == 1 {
				if id, ok := as.Lhs[0].(*ast.Ident); ok {
					o := info.Defs[id]
					if o == nil {
						o = info.Uses[id]
					}
					if o != nil && isString(o.Type()) {
						strv[o] = evalStr(as.Rhs[0])
						continue
					}
				}
			}
			bad = true
		}
		// also count consume calls hidden inside the return expression
		ast.Inspect(lf.ret, func(n ast.Node) bool {
			if e, ok := n.(ast.Expr); ok {
				if k := consumeKind(e); k != "" {
					el.consumes = append(el.consumes, k)
					bad = true // value plumbing through an inline call is not tracked
				}
			}
			return true
		})
		if len(lf.ret.Results) != 1 {
			c.Undecided(rule, "evaluation leaf", lf.ret.Pos(), "return arity")
			return nil, false
		}
		cl, ok := ast.Unparen(lf.ret.Results[0]).(*ast.CompositeLit)
		if !ok {
			c.Undecided(rule, "evaluation leaf", lf.ret.Pos(), "result is not a token literal")
			return nil, false
		}
		fs, err := compositeFields(cl)
		if err != nil {
			c.Undecided(rule, "evaluation leaf", lf.ret.Pos(), err.Error())
			return nil, false
		}
		if t := fs["Terminal"]; t != nil {
			el.terminal, el.termOK = constStr(info, t)
		}
		if l := fs["Lexeme"]; l != nil {
			el.lexeme = evalStr(l)
		} else {
			el.lexeme = lexAbs{kind: "const", cval: ""}
		}
		if pe := fs["Pos"]; pe != nil {
			if id, ok := ast.Unparen(pe).(*ast.Ident); ok {
				el.posFrom = posv[info.Uses[id]]
			}
		}
		if bad && el.lexeme.kind != "other" {
			// unknown statements on the path: be conservative about the lexeme
			el.lexeme = lexAbs{kind: "other", src: "path contains statements the analysis does not model"}
		}
		out = append(out, el)
	}
	return out, true
}

func isString(t types.Type) bool {
	b, ok := t.Underlying().(*types.Basic)
	return ok && b.Info()&types.IsString != 0
}

// findScanner resolves the three anchors of a coded scanner in package p by signature and call relation.
func findScanner(c *Ctx, rule string, p *packages.Package) *scanner {
	s := &scanner{pkg: p}
	adv := findFuncBySig(p, []func(types.Type) bool{isInt, isRune}, []func(types.Type) bool{isInt})
	if len(adv) != 1 {
		c.Lost(rule, fmt.Sprintf("transition function func(int, rune) int in %s (found %d)", p.PkgPath, len(adv)))
		return nil
	}
	s.advFn = adv[0]
	advObj := p.TypesInfo.Defs[s.advFn.Name]
	// NextToken: the method that calls the transition function
	var evalObj types.Object
	AllFuncDecls(p, func(fd *ast.FuncDecl) {
		if fd.Body == nil || fd.Recv == nil {
			return
		}
		calls := false
		ast.Inspect(fd.Body, func(n ast.Node) bool {
			if call, ok := n.(*ast.CallExpr); ok && objOf(p.TypesInfo, call.Fun) == advObj {
				calls = true
			}
			return true
		})
		if calls {
			if s.nextFn != nil {
				s.nextFn = nil
				return
			}
			s.nextFn = fd
		}
	})
	if s.nextFn == nil {
		c.Lost(rule, "the unique method calling the transition function (NextToken)")
		return nil
	}
	// evalDFA: a method func(int) Token called from NextToken
	ast.Inspect(s.nextFn.Body, func(n ast.Node) bool {
		call, ok := n.(*ast.CallExpr)
		if !ok {
			return true
		}
		fn, _ := objOf(p.TypesInfo, call.Fun).(*types.Func)
		if fn == nil || fn.Pkg() != p.Types {
			return true
		}
		sig := fn.Type().(*types.Signature)
		if sig.Params().Len() == 1 && isInt(sig.Params().At(0).Type()) && sig.Results().Len() == 1 {
			if _, n := namedTypeName(sig.Results().At(0).Type()); n == "Token" {
				evalObj = fn
			}
		}
		return true
	})
	AllFuncDecls(p, func(fd *ast.FuncDecl) {
		if evalObj != nil && p.TypesInfo.Defs[fd.Name] == evalObj {
			s.evalFn = fd
		}
	})
	if s.evalFn == nil {
		c.Lost(rule, "the accepting-state evaluation method func(int) Token called from NextToken")
		return nil
	}
	c.Analysed(funcKey(p, s.advFn))
	c.Analysed(funcKey(p, s.evalFn))
	c.Analysed(funcKey(p, s.nextFn))
	m, es, tpos, ok := extractAdvance(c, rule, p, s.advFn)
	if m == nil {
		return nil
	}
	_ = ok
	s.m, s.errorState, s.transPos = m, es, tpos
	leaves, ok := extractEval(c, rule, p, s.evalFn)
	if !ok {
		return nil
	}
	s.leaves = leaves
	s.stateLeaf = map[int]*evalLeaf{}
	for i := range s.leaves {
		l := &s.leaves[i]
		if l.infinite {
			s.defLeaf = l
			continue
		}
		for _, st := range l.states {
			if st >= 0 {
				s.m.grow(st)
				s.stateLeaf[st] = l
			}
		}
	}
	s.nStates = len(s.m.trans)
	return s
}

// ---------- the scan loop on SSA ----------

type scanLoop struct {
	fn        *ssa.Function
	adv       *ssa.Call
	eval      *ssa.Call
	curr      *ssa.Phi
	nextCall  ssa.CallInstruction
	nextErr   ssa.Value
	retract   []ssa.CallInstruction
	errTerms  []string
	skipTerms []string
	defaultKind string // what happens for every other terminal: token | error | skip | mixed
	ok        bool
}

func analyseScanLoop(c *Ctx, rule string, fn *ssa.Function, advObj, evalObj types.Object, errorState int64) *scanLoop {
	sl := &scanLoop{fn: fn}
	pos := fn.Pos()
	var advs, evals []*ssa.Call
	allCalls(fn, func(call ssa.CallInstruction) {
		cv, ok := call.(*ssa.Call)
		if !ok {
			return
		}
		f := calleeFunc(call)
		if f != nil && types.Object(f) == advObj {
			advs = append(advs, cv)
		}
		if f != nil && types.Object(f) == evalObj {
			evals = append(evals, cv)
		}
		switch methodNameOf(call) {
		case "Retract":
			sl.retract = append(sl.retract, call)
		}
	})
	if !c.Check(rule, "scan loop: one transition call", pos, len(advs) == 1, fmt.Sprintf("%d calls of the transition function in the scan loop", len(advs))) {
		return sl
	}
	sl.adv = advs[0]
	// curr: phi [start state 0, adv result]
	phi, _ := sl.adv.Call.Args[0].(*ssa.Phi)
	okPhi := phi != nil
	if okPhi {
		sawInit, sawNext := false, false
		for _, e := range phi.Edges {
			switch {
			case isConstInt(e, 0):
				sawInit = true
			case e == ssa.Value(sl.adv):
				sawNext = true
			default:
				okPhi = false
			}
		}
		okPhi = okPhi && sawInit && sawNext
	}
	if !c.Check(rule, "scan loop: the state fed to the transition function is loop-carried from start state 0", sl.adv.Pos(), okPhi,
		"the first argument of the transition function is not phi[0, previous result]") {
		return sl
	}
	sl.curr = phi
	// r: rune result of Next()
	var nextCall ssa.CallInstruction
	if ex, ok := sl.adv.Call.Args[1].(*ssa.Extract); ok && ex.Index == 0 {
		if call, ok := ex.Tuple.(*ssa.Call); ok && methodNameOf(call) == "Next" {
			nextCall = call
		}
	}
	if !c.Check(rule, "scan loop: the symbol fed to the transition function is the rune just read", sl.adv.Pos(), nextCall != nil, "the second argument is not the rune result of Next()") {
		return sl
	}
	sl.nextCall = nextCall
	for _, r := range *nextCall.(*ssa.Call).Referrers() {
		if ex, ok := r.(*ssa.Extract); ok && ex.Index == 1 {
			sl.nextErr = ex
		}
	}
	c.Check(rule, "scan loop: the read error is tested before the rune is used", sl.adv.Pos(), sl.nextErr != nil && controlledNil(sl.adv.Block(), sl.nextErr, false),
		"the transition function runs on a path where Next()'s error was not tested to be nil")
	// dead test
	if !c.Check(rule, "scan loop: one evaluation call", pos, len(evals) == 1, fmt.Sprintf("%d calls of the evaluation method", len(evals))) {
		return sl
	}
	sl.eval = evals[0]
	evalArg := sl.eval.Call.Args[len(sl.eval.Call.Args)-1]
	c.Check(rule, "scan loop: evaluation only on a dead transition", sl.eval.Pos(), controlledByEq(sl.eval.Block(), sl.adv, errorState),
		fmt.Sprintf("the evaluation is not guarded by next == %d (the transition function's dead state)", errorState))
	c.Check(rule, "scan loop: the state evaluated is the one before the failing transition", sl.eval.Pos(), evalArg == ssa.Value(sl.curr),
		"the evaluation method does not receive the loop-carried current state")
	// retract exactly once before evaluation
	okR := len(sl.retract) == 1
	if okR {
		r := sl.retract[0]
		okR = controlledByEq(r.Block(), sl.adv, errorState) &&
			((r.Block() == sl.eval.Block() && instrIndex(r.(ssa.Instruction)) < instrIndex(sl.eval)) || r.Block().Dominates(sl.eval.Block()))
	}
	c.Check(rule, "scan loop: exactly one Retract, on the dead transition, before the evaluation", sl.eval.Pos(), okR,
		fmt.Sprintf("%d Retract calls, or not dominated by the dead-transition test, or after the evaluation", len(sl.retract)))

	// classification of terminals after evaluation
	classifyAfterEval(c, rule, sl)
	sl.ok = true
	return sl
}

// classifyAfterEval walks the comparison chain on the evaluated token's Terminal.
func classifyAfterEval(c *Ctx, rule string, sl *scanLoop) {
	fn := sl.fn
	isTerm := func(v ssa.Value) bool {
		for _, r := range rootsOf(fn, v, nil) {
			if fa, ok := r.(*ssa.FieldAddr); ok && fieldName(fa) == "Terminal" {
				for _, rr := range rootsOf(fn, fa.X, func(v ssa.Value) bool { return v == ssa.Value(sl.eval) }) {
					if rr == ssa.Value(sl.eval) {
						return true
					}
				}
				// local token variable holding the eval result
				if a, ok := fa.X.(*ssa.Alloc); ok {
					for _, ref := range *a.Referrers() {
						if st, ok := ref.(*ssa.Store); ok && st.Addr == a && st.Val == ssa.Value(sl.eval) {
							return true
						}
					}
				}
			}
			if f, ok := r.(*ssa.Field); ok && f.X == ssa.Value(sl.eval) {
				return true
			}
		}
		return false
	}
	type res struct {
		kind string
	}
	kinds := map[string]string{} // terminal const -> kind
	defKinds := map[string]bool{}
	var walk func(b *ssa.BasicBlock, eq string, neq map[string]bool, depth int)
	classifyRet := func(b *ssa.BasicBlock) string {
		last := b.Instrs[len(b.Instrs)-1]
		switch v := last.(type) {
		case *ssa.Return:
			if len(v.Results) != 2 {
				return "other"
			}
			if isNilConst(v.Results[1]) {
				// token result must derive from the eval call
				for _, r := range rootsOf(fn, v.Results[0], func(x ssa.Value) bool { return x == ssa.Value(sl.eval) }) {
					if r == ssa.Value(sl.eval) {
						return "token"
					}
				}
				return "other"
			}
			if ex, ok := v.Results[1].(*ssa.Extract); ok {
				if call, ok := ex.Tuple.(*ssa.Call); ok && call.Call.StaticCallee() == fn {
					return "skip"
				}
			}
			return "error"
		case *ssa.Jump:
			// back to the loop header with the state reset to 0
			t := b.Succs[0]
			if t == sl.curr.Block() {
				for i, p := range t.Preds {
					if p == b && isConstInt(sl.curr.Edges[i], 0) {
						return "skip"
					}
				}
			}
		}
		return "other"
	}
	walk = func(b *ssa.BasicBlock, eq string, neq map[string]bool, depth int) {
		if depth > 64 {
			defKinds["other"] = true
			return
		}
		last := b.Instrs[len(b.Instrs)-1]
		if ifi, ok := last.(*ssa.If); ok {
			if bo, ok := ifi.Cond.(*ssa.BinOp); ok && (bo.Op == token.EQL || bo.Op == token.NEQ) {
				var k *ssa.Const
				var other ssa.Value
				if kk, ok := bo.Y.(*ssa.Const); ok {
					k, other = kk, bo.X
				} else if kk, ok := bo.X.(*ssa.Const); ok {
					k, other = kk, bo.Y
				}
				if k != nil && k.Value != nil && isTerm(other) {
					val := constStringOf(k)
					ti, fi := 0, 1
					if bo.Op == token.NEQ {
						ti, fi = 1, 0
					}
					if eq == "" && !neq[val] {
						walk(b.Succs[ti], val, neq, depth+1)
					} else if eq == val {
						walk(b.Succs[ti], eq, neq, depth+1)
						return
					}
					if eq != val {
						n2 := map[string]bool{}
						for x := range neq {
							n2[x] = true
						}
						n2[val] = true
						walk(b.Succs[fi], eq, n2, depth+1)
					}
					return
				}
			}
			defKinds["other"] = true
			return
		}
		if _, ok := last.(*ssa.Jump); ok && b.Succs[0] != sl.curr.Block() {
			walk(b.Succs[0], eq, neq, depth+1)
			return
		}
		k := classifyRet(b)
		if eq != "" {
			if old, ok := kinds[eq]; ok && old != k {
				kinds[eq] = "mixed"
			} else {
				kinds[eq] = k
			}
		} else {
			defKinds[k] = true
		}
	}
	walk(sl.eval.Block(), "", map[string]bool{}, 0)
	for t, k := range kinds {
		switch k {
		case "error":
			sl.errTerms = append(sl.errTerms, t)
		case "skip":
			sl.skipTerms = append(sl.skipTerms, t)
		case "token":
		default:
			c.Fail(rule, "scan loop: outcome for terminal "+t, sl.eval.Pos(), "after evaluation, terminal "+t+" leads to an outcome the analysis cannot classify ("+k+")")
		}
	}
	sort.Strings(sl.errTerms)
	sort.Strings(sl.skipTerms)
	var dk []string
	for k := range defKinds {
		dk = append(dk, k)
	}
	sort.Strings(dk)
	if len(dk) == 1 {
		sl.defaultKind = dk[0]
	} else {
		sl.defaultKind = "mixed"
	}
	c.Check(rule, "scan loop: every other terminal is returned as the token with a nil error", sl.eval.Pos(), sl.defaultKind == "token",
		fmt.Sprintf("the default outcome after evaluation is %v", dk))
}

func constStringOf(k *ssa.Const) string {
	if k.Value == nil {
		return ""
	}
	if k.Value.Kind() == constant.String {
		return constant.StringVal(k.Value)
	}
	return k.Value.ExactString()
}
