package main

import (
	"fmt"
	"go/ast"
	"go/token"
	"go/types"
	"sort"
	"strings"

	"golang.org/x/tools/go/packages"
	"golang.org/x/tools/go/ssa"
)

func init() {
	register(&property{id: "C19", run: runC19, meta: propMeta{
		level: "other",
		explanation: "Decided on the skeleton packages obtained by instantiating the templates (see C08): the emitted scan loop obeys the same protocol as the built-in one (state loop-carried from 0, rune from Next, evaluation only on a dead transition after exactly one Retract or at end of input with a pending lexeme and no Retract, evaluation of the state before the failing step); the skipped terminals are exactly WS, EOL, COMMENT and on a dead transition in the start state the four documented blank characters are discarded; the emitted UTF-8 decoding tables and masks equal those of unicode/utf8; every byte read in Next has its error returned first, a buffer half is filled by a fill-or-end read, the end of the input is found by position (not by a sentinel byte value), the forward pointer wraps on every path, the end-of-input latch is only set past the last byte and is undone by Retract, every path of Next keeps the size/column bookkeeping Retract undoes, and every load of a buffer half is guarded by reader state other than the cursor (so re-arrival at a boundary after Retract does not load the next chunk over the one just loaded). " +
			"Everything that needs the emitted program to run (longest match on inputs, exact lexemes and positions, that the buffer outlasts the longest retraction) is out of reach.",
		trusted: []string{"the skeleton is what the generator emits (C08 obligations)", "unicode/utf8 tables of the toolchain"},
		assumptions: []string{"witness instantiation 'simple' is representative of the template's fixed code: holes only affect the two table functions"},
	}})
}

func runC19(c *Ctx) {
	c.Rule("R19.1", 10, "the emitted scan loop obeys the advance / retract / evaluate protocol, including a pending lexeme at end of input")
	c.Rule("R19.2", 4, "skip set is WS, EOL, COMMENT; unmatched blanks are discarded")
	c.Rule("R19.3", 4, "emitted UTF-8 tables and masks equal unicode/utf8's")
	c.Rule("R19.4", 4, "reader: errors first, end-of-input latch set only past the last byte and undone by Retract")

	ts := loadTemplates(c, "R19.1")
	if ts == nil {
		return
	}
	c.Rule("R19.5", 1, "every field the templates read is modelled by the witnesses, or covered by witnesses in which it is set (= R8.7)")
	unmodelledFields(c, "R19.5", ts)
	set := buildSkeletons(c, "R19.1", ts, true)
	defer set.cleanup()
	if set == nil {
		return
	}
	var sk *skeleton
	for _, s := range set.sk {
		if s.w.name == "simple" {
			sk = s
		}
	}
	if sk == nil || sk.pkg == nil || len(sk.pkg.Errors) > 0 {
		msg := "no skeleton"
		if sk != nil && sk.pkg != nil && len(sk.pkg.Errors) > 0 {
			msg = sk.pkg.Errors[0].Msg
		}
		c.Fail("R19.1", "the emitted lexer for the simple witness compiles (prerequisite; see C08)", token.NoPos, "blocked: the emitted package does not compile: "+msg)
		return
	}
	p := sk.pkg
	before := len(c.Obs)
	s := findScanner(c, "R19.1", p)
	if s == nil {
		return
	}
	sp := set.spkgs[p.PkgPath]
	if sp == nil {
		c.Lost("R19.1", "SSA of the emitted package")
		return
	}
	fo, _ := p.TypesInfo.Defs[s.nextFn.Name].(*types.Func)
	fn := set.prog.FuncValue(fo)
	if fn == nil {
		c.Lost("R19.1", "SSA of the emitted NextToken")
		return
	}
	sl := analyseScanLoop(c, "R19.1", fn, p.TypesInfo.Defs[s.advFn.Name], p.TypesInfo.Defs[s.evalFn.Name], s.errorState)
	if sl.pathsDone {
		checkPendingAtEOF(c, "R19.1", sl, "emitted lexer")
	}
	// positions inside the scratch module are meaningless: drop them, keep keys stable
	for i := before; i < len(c.Obs); i++ {
		c.Obs[i].Pos = "internal/generate/golang/templates/lexer.go.tmpl"
		c.Obs[i].Key = "emitted lexer: " + strings.TrimPrefix(c.Obs[i].Key, "scan loop: ")
	}
	if !sl.ok {
		c.Undecided("R19.2", "which terminals the emitted lexer skips", token.NoPos, "the treatment of the evaluated token was not understood")
		return
	}
	// R19.2 skip set
	want := []string{"COMMENT", "EOL", "WS"}
	got := append([]string{}, sl.skipTerms...)
	sort.Strings(got)
	c.Check("R19.2", "the emitted lexer skips exactly the terminals WS, EOL and COMMENT", token.NoPos, fmt.Sprint(got) == fmt.Sprint(want), fmt.Sprintf("skipped terminals: %v", got))
	c.Check("R19.2", "the emitted lexer turns ERR into an error", token.NoPos, fmt.Sprint(sl.errTerms) == "[ERR]", fmt.Sprintf("error terminals: %v", sl.errTerms))
	checkBlankDiscard(c, p, s, sl)
	// the token loop is a loop: no call cycle among the functions of the emitted package (a lexer that calls itself for
	// every skipped lexeme needs a stack as deep as the longest run of blanks and comments in the input)
	{
		fns := allFuncsOfPkgDeep(sp)
		in := map[*ssa.Function]bool{}
		for _, f := range fns {
			in[f] = true
		}
		color := map[*ssa.Function]int{}
		cycle := ""
		var dfs func(f *ssa.Function, path []string) bool
		dfs = func(f *ssa.Function, path []string) bool {
			color[f] = 1
			found := false
			allCalls(f, func(call ssa.CallInstruction) {
				g := call.Common().StaticCallee()
				if g == nil || !in[g] || found {
					return
				}
				if color[g] == 1 {
					cycle = strings.Join(append(append([]string{}, path...), f.Name(), g.Name()), " → ")
					found = true
					return
				}
				if color[g] == 0 && dfs(g, append(path, f.Name())) {
					found = true
				}
			})
			color[f] = 2
			return found
		}
		rec := false
		for _, f := range fns {
			if color[f] == 0 && dfs(f, nil) {
				rec = true
				break
			}
		}
		c.Check("R19.1", "emitted lexer: no function of the emitted package calls itself, directly or through others", token.NoPos, !rec && len(fns) >= 20,
			fmt.Sprintf("call cycle %s (%d functions examined): the depth of the stack grows with the number of consecutive skipped lexemes and a long run of blanks or comments ends in a fatal stack overflow", cycle, len(fns)),
			"an input with a few million consecutive blanks")
	}

	checkUTF8Tables(c, p)
	checkReaderDiscipline(c, p)
	checkColumnBookkeeping(c, p, set)
}

// checkBlankDiscard: on a dead transition in the start state the documented blanks are skipped and scanning restarts.
func checkBlankDiscard(c *Ctx, p *packages.Package, s *scanner, sl *scanLoop) {
	info := p.TypesInfo
	fd := s.nextFn
	found := false
	var blanks []rune
	startOnly, skips, restarts := false, false, false
	ast.Inspect(fd.Body, func(n ast.Node) bool {
		ifs, ok := n.(*ast.IfStmt)
		if !ok {
			return true
		}
		var rs []rune
		zeroState := false
		ast.Inspect(ifs.Cond, func(m ast.Node) bool {
			b, ok := m.(*ast.BinaryExpr)
			if !ok || b.Op != token.EQL {
				return true
			}
			if v, ok := constInt(info, b.Y); ok {
				if t := info.TypeOf(b.X); t != nil && isRune(t) {
					rs = append(rs, rune(v))
				} else if v == 0 {
					zeroState = true
				}
			}
			return true
		})
		if len(rs) < 2 {
			return true
		}
		found = true
		blanks = rs
		startOnly = zeroState
		ast.Inspect(ifs.Body, func(m ast.Node) bool {
			switch x := m.(type) {
			case *ast.CallExpr:
				if sel, ok := x.Fun.(*ast.SelectorExpr); ok {
					if sel.Sel.Name == "Skip" {
						skips = true
					}
					if sel.Sel.Name == fd.Name.Name {
						restarts = true
					}
				}
			case *ast.BranchStmt:
				if x.Tok == token.CONTINUE {
					restarts = true
				}
			case *ast.ReturnStmt:
				// the flagged protocol: (zero token, false, nil) makes the token loop call the scan function again
				if len(x.Results) == 3 && sl != nil && sl.flagged && sl.driverOK && isNilExpr(info, x.Results[2]) {
					if tv, ok := info.Types[x.Results[1]]; ok && tv.Value != nil && tv.Value.String() == "false" {
						restarts = true
					}
				}
			}
			return true
		})
		return true
	})
	if !c.Check("R19.2", "unmatched blanks are discarded: the scan loop has a blank test on the dead-transition path", token.NoPos, found,
		"the documentation promises that spaces, tabs and line terminators no token matches are discarded, but the emitted scan loop has no such branch: they are lexical errors", "a grammar without a WS token, input \"a b\"") {
		return
	}
	sort.Slice(blanks, func(i, j int) bool { return blanks[i] < blanks[j] })
	c.Check("R19.2", "the discarded characters are space, tab, newline and carriage return", token.NoPos, string(blanks) == "\t\n\r ", fmt.Sprintf("characters tested: %q", string(blanks)))
	c.Check("R19.2", "blanks are discarded only in the start state (never inside a token)", token.NoPos, startOnly, "the blank test is not restricted to state 0")
	c.Check("R19.2", "a discarded blank is consumed and scanning restarts", token.NoPos, skips && restarts, fmt.Sprintf("consumes=%v restarts=%v", skips, restarts))
}

// checkUTF8Tables: R19.3
func checkUTF8Tables(c *Ctx, p *packages.Package) {
	up := c.All["unicode/utf8"]
	if up == nil || len(up.Syntax) == 0 {
		c.Lost("R19.3", "source of unicode/utf8")
		return
	}
	evalArray := func(pk *packages.Package, name string) ([]int64, bool) {
		init, _ := PkgVarInit(pk, name)
		cl, ok := init.(*ast.CompositeLit)
		if !ok {
			return nil, false
		}
		var out []int64
		for _, el := range cl.Elts {
			e := el
			if kv, ok := el.(*ast.KeyValueExpr); ok {
				e = kv.Value
			}
			if sub, ok := e.(*ast.CompositeLit); ok {
				for _, x := range sub.Elts {
					if kv, ok := x.(*ast.KeyValueExpr); ok {
						x = kv.Value
					}
					v, ok := constInt(pk.TypesInfo, x)
					if !ok {
						return nil, false
					}
					out = append(out, v)
				}
				continue
			}
			v, ok := constInt(pk.TypesInfo, e)
			if !ok {
				return nil, false
			}
			out = append(out, v)
		}
		return out, true
	}
	for _, name := range []string{"first", "acceptRanges"} {
		a, ok1 := evalArray(p, name)
		b, ok2 := evalArray(up, name)
		if !ok1 || !ok2 {
			c.Undecided("R19.3", "table "+name, token.NoPos, fmt.Sprintf("cannot evaluate (emitted=%v, stdlib=%v)", ok1, ok2))
			continue
		}
		same := len(a) == len(b)
		diff := ""
		for i := 0; same && i < len(a); i++ {
			if a[i] != b[i] {
				same = false
				diff = fmt.Sprintf("entry %d is %#x, unicode/utf8 has %#x", i, a[i], b[i])
			}
		}
		c.Check("R19.3", fmt.Sprintf("emitted table %s equals unicode/utf8's (%d entries)", name, len(b)), token.NoPos, same, "the UTF-8 decoding table differs: "+diff+fmt.Sprintf(" (lengths %d/%d)", len(a), len(b)), "a multi-byte character whose lead byte indexes that entry")
	}
	// constants by name
	for _, name := range []string{"maskx", "mask2", "mask3", "mask4", "locb", "hicb", "xx", "as", "s1", "s2", "s3", "s4", "s5", "s6", "s7"} {
		ke, ok1 := p.Types.Scope().Lookup(name).(*types.Const)
		ku, ok2 := up.Types.Scope().Lookup(name).(*types.Const)
		if !ok1 || !ok2 {
			continue
		}
		c.Check("R19.3", "emitted constant "+name+" equals unicode/utf8's", token.NoPos, ke.Val().ExactString() == ku.Val().ExactString(), fmt.Sprintf("%s vs %s", ke.Val(), ku.Val()))
	}
	checkUTF8Composition(c, p)
}

// checkUTF8Composition: every rune the emitted reader composes from n bytes is  (b0 & (0xFF >> (n+1))) << 6(n-1) | ... |
// (b(n-1) & 0x3F), the definition of UTF-8: the terms of each returned `rune(b & mask) << shift | ...` expression are evaluated
// (constants through go/types) and compared with that schema. The tables can be right and the decoder still wrong when it
// applies the mask of another length to the lead byte.
func checkUTF8Composition(c *Ctx, p *packages.Package) {
	info := p.TypesInfo
	n := 0
	AllFuncDecls(p, func(fd *ast.FuncDecl) {
		if fd.Body == nil {
			return
		}
		ast.Inspect(fd.Body, func(nd ast.Node) bool {
			ret, ok := nd.(*ast.ReturnStmt)
			if !ok || len(ret.Results) == 0 {
				return true
			}
			// flatten  t0 | t1 | ... ; each term  rune(b & MASK) << SHIFT  (shift optional)
			var terms []ast.Expr
			var flat func(e ast.Expr)
			flat = func(e ast.Expr) {
				if b, ok := ast.Unparen(e).(*ast.BinaryExpr); ok && b.Op == token.OR {
					flat(b.X)
					flat(b.Y)
					return
				}
				terms = append(terms, ast.Unparen(e))
			}
			flat(ret.Results[0])
			if len(terms) < 2 || len(terms) > 4 {
				return true
			}
			type term struct {
				mask, shift int64
			}
			var ts []term
			for _, t := range terms {
				var shift int64
				if b, ok := t.(*ast.BinaryExpr); ok && b.Op == token.SHL {
					v, ok := constInt(info, b.Y)
					if !ok {
						return true
					}
					shift = v
					t = ast.Unparen(b.X)
				}
				call, ok := t.(*ast.CallExpr)
				if !ok || len(call.Args) != 1 {
					return true
				}
				if tv, ok := info.Types[call.Fun]; !ok || !tv.IsType() {
					return true
				}
				and, ok := ast.Unparen(call.Args[0]).(*ast.BinaryExpr)
				if !ok || and.Op != token.AND {
					return true
				}
				m, ok := constInt(info, and.Y)
				if !ok {
					m, ok = constInt(info, and.X)
				}
				if !ok {
					return true
				}
				ts = append(ts, term{m, shift})
			}
			n++
			k := int64(len(ts))
			bad := ""
			for i, t := range ts {
				wantShift := 6 * (k - 1 - int64(i))
				wantMask := int64(0x3F)
				if i == 0 {
					wantMask = 0xFF >> (k + 1)
				}
				if t.mask != wantMask || t.shift != wantShift {
					bad = fmt.Sprintf("byte %d of a %d-byte sequence is taken as (b & %#x) << %d, UTF-8 says (b & %#x) << %d", i, k, t.mask, t.shift, wantMask, wantShift)
					break
				}
			}
			c.Check("R19.3", fmt.Sprintf("emitted decoder composes a %d-byte sequence as UTF-8 defines it", k), token.NoPos, bad == "", bad+": the code point handed to the automaton is another character",
				"a three-byte character from U+8000 up (e.g. U+D55C) in the input")
			return true
		})
	})
	if n < 3 {
		// the accumulating form: r := rune(b0 & T[size]); for each continuation byte r = r<<6 | rune(b & 0x3F), with a table T of
		// lead masks indexed by the length of the sequence
		stepOK, stepSeen, tableOK, tableSeen := false, false, false, false
		AllFuncDecls(p, func(fd *ast.FuncDecl) {
			if fd.Body == nil {
				return
			}
			ast.Inspect(fd.Body, func(nd ast.Node) bool {
				as, ok := nd.(*ast.AssignStmt)
				if !ok || len(as.Lhs) != 1 || len(as.Rhs) != 1 {
					return true
				}
				lid, ok := as.Lhs[0].(*ast.Ident)
				if !ok {
					return true
				}
				if or, ok := ast.Unparen(as.Rhs[0]).(*ast.BinaryExpr); ok && or.Op == token.OR {
					shl, ok1 := ast.Unparen(or.X).(*ast.BinaryExpr)
					conv, ok2 := ast.Unparen(or.Y).(*ast.CallExpr)
					if ok1 && ok2 && shl.Op == token.SHL && len(conv.Args) == 1 {
						if sid, ok := ast.Unparen(shl.X).(*ast.Ident); ok && info.ObjectOf(sid) == info.ObjectOf(lid) {
							stepSeen = true
							sv, okS := constInt(info, shl.Y)
							and, okA := ast.Unparen(conv.Args[0]).(*ast.BinaryExpr)
							if okS && okA && and.Op == token.AND {
								mv, okM := constInt(info, and.Y)
								if !okM {
									mv, okM = constInt(info, and.X)
								}
								stepOK = okM && sv == 6 && mv == 0x3F
							}
						}
					}
				}
				// r := rune(b0 & T[size])
				if conv, ok := ast.Unparen(as.Rhs[0]).(*ast.CallExpr); ok && len(conv.Args) == 1 {
					if and, ok := ast.Unparen(conv.Args[0]).(*ast.BinaryExpr); ok && and.Op == token.AND {
						for _, side := range []ast.Expr{and.X, and.Y} {
							ix, ok := ast.Unparen(side).(*ast.IndexExpr)
							if !ok {
								continue
							}
							tid, ok := ast.Unparen(ix.X).(*ast.Ident)
							if !ok {
								continue
							}
							init, _ := PkgVarInit(p, tid.Name)
							cl, ok := init.(*ast.CompositeLit)
							if !ok {
								continue
							}
							tableSeen = true
							vals := map[int64]int64{}
							next := int64(0)
							good := true
							for _, el := range cl.Elts {
								e := el
								if kv, ok := el.(*ast.KeyValueExpr); ok {
									k, ok := constInt(info, kv.Key)
									if !ok {
										good = false
										break
									}
									next = k
									e = kv.Value
								}
								v, ok := constInt(info, e)
								if !ok {
									good = false
									break
								}
								vals[next] = v
								next++
							}
							tableOK = good
							for nlen := int64(2); nlen <= 4 && tableOK; nlen++ {
								if vals[nlen] != 0xFF>>(nlen+1) {
									tableOK = false
								}
							}
						}
					}
				}
				return true
			})
		})
		switch {
		case stepSeen && tableSeen:
			c.Check("R19.3", "emitted decoder composes multi-byte sequences as UTF-8 defines it (accumulating form)", token.NoPos, stepOK && tableOK,
				fmt.Sprintf("the decoder accumulates r = r<<6 | b&0x3F from a lead-mask table indexed by the length: step as defined=%v, table entries 0xFF>>(n+1) for n=2..4=%v", stepOK, tableOK),
				"a multi-byte character whose length selects the wrong lead mask")
		default:
			c.Undecided("R19.3", "emitted decoder composes multi-byte sequences as UTF-8 defines it", token.NoPos, fmt.Sprintf("only %d composed-rune returns of the form rune(b&mask)<<shift | ... were found", n))
		}
	}
}

// checkReaderDiscipline: R19.4 on the emitted input reader.
func checkReaderDiscipline(c *Ctx, p *packages.Package) {
	info := p.TypesInfo
	// the reader type: the struct with methods Next, Retract, Lexeme, Skip
	var recv string
	AllFuncDecls(p, func(fd *ast.FuncDecl) {
		if fd.Recv != nil && fd.Name.Name == "Retract" {
			recv = recvName(fd.Recv.List[0].Type)
		}
	})
	if recv == "" {
		c.Lost("R19.4", "the emitted reader type")
		return
	}
	// byte-level next: method returning (byte, error)
	var nextB *ast.FuncDecl
	AllFuncDecls(p, func(fd *ast.FuncDecl) {
		if fd.Recv == nil || recvName(fd.Recv.List[0].Type) != recv || fd.Body == nil {
			return
		}
		fo := info.Defs[fd.Name].(*types.Func)
		sig := fo.Type().(*types.Signature)
		if sig.Params().Len() == 0 && sig.Results().Len() == 2 && isErr(sig.Results().At(1).Type()) {
			if b, ok := sig.Results().At(0).Type().Underlying().(*types.Basic); ok && b.Kind() == types.Uint8 {
				nextB = fd
			}
		}
	})
	if nextB == nil {
		c.Lost("R19.4", "the byte-level next method")
		return
	}
	// roles by use: the cursor is the field next() increments with ++; the buffer is the []byte field it indexes
	fwdName, bufName := "", ""
	ast.Inspect(nextB.Body, func(n ast.Node) bool {
		switch x := n.(type) {
		case *ast.IncDecStmt:
			if sel, ok := x.X.(*ast.SelectorExpr); ok && x.Tok == token.INC && fwdName == "" {
				fwdName = sel.Sel.Name
			}
		case *ast.IndexExpr:
			if sel, ok := x.X.(*ast.SelectorExpr); ok && bufName == "" {
				if t, ok := info.TypeOf(x.X).Underlying().(*types.Slice); ok {
					if b, ok := t.Elem().Underlying().(*types.Basic); ok && b.Kind() == types.Uint8 {
						bufName = sel.Sel.Name
					}
				}
			}
		}
		return true
	})
	if fwdName == "" || bufName == "" {
		c.Lost("R19.4", "the cursor and the buffer of the byte-level next method")
		return
	}
	// (a) sticky error first
	first, ok := nextB.Body.List[0].(*ast.IfStmt)
	sticky := false
	latch := ""
	if ok {
		if b, ok := ast.Unparen(first.Cond).(*ast.BinaryExpr); ok && b.Op == token.NEQ && isNilExpr(info, b.Y) {
			if sel, ok := ast.Unparen(b.X).(*ast.SelectorExpr); ok {
				latch = sel.Sel.Name
				for _, st := range first.Body.List {
					if r, ok := st.(*ast.ReturnStmt); ok && len(r.Results) == 2 {
						if rs, ok := ast.Unparen(r.Results[1]).(*ast.SelectorExpr); ok && rs.Sel.Name == latch {
							sticky = true
						}
					}
				}
			}
		}
	}
	c.Check("R19.4", "reader: a latched error is returned before anything is read", token.NoPos, sticky, "next() does not start with `if i.err != nil { return 0, i.err }`")
	// (b) where io.EOF is latched: the guard (an if condition, or a case of a switch) must not read a data byte, and in a chain
	// that first tests the half boundaries it is not one of the boundary branches
	eofFound, eofOK, eofUndecided := false, false, false
	eofByValue := ""
	isEOFAssign := func(n ast.Node) bool {
		found := false
		ast.Inspect(n, func(m ast.Node) bool {
			if as, ok := m.(*ast.AssignStmt); ok && len(as.Rhs) == 1 {
				if o := objOf(info, as.Rhs[0]); o != nil && o.Pkg() != nil && o.Pkg().Path() == "io" && o.Name() == "EOF" {
					found = true
				}
			}
			return true
		})
		return found
	}
	readsByte := func(e ast.Expr) bool {
		reads := false
		ast.Inspect(e, func(m ast.Node) bool {
			if ix, ok := m.(*ast.IndexExpr); ok {
				if t, ok := info.TypeOf(ix.X).Underlying().(*types.Slice); ok {
					if b, ok := t.Elem().Underlying().(*types.Basic); ok && b.Kind() == types.Uint8 {
						reads = true
					}
				}
			}
			return true
		})
		return reads
	}
	// a test of the cursor against another field of the reader (the recorded end), wherever it stands
	condOnCursorAndField := func(e ast.Expr) bool {
		hasFwd, hasOther := false, false
		ast.Inspect(e, func(m ast.Node) bool {
			if b, ok := m.(*ast.BinaryExpr); ok && (b.Op == token.EQL || b.Op == token.GEQ) {
				l, lok := ast.Unparen(b.X).(*ast.SelectorExpr)
				r, rok := ast.Unparen(b.Y).(*ast.SelectorExpr)
				if lok && rok {
					for _, pr := range [][2]*ast.SelectorExpr{{l, r}, {r, l}} {
						if pr[0].Sel.Name == fwdName && pr[1].Sel.Name != fwdName && pr[1].Sel.Name != bufName {
							if v, isVar := info.Uses[pr[1].Sel].(*types.Var); isVar && v.IsField() {
								hasFwd, hasOther = true, true
							}
						}
					}
				}
			}
			return true
		})
		return hasFwd && hasOther
	}
	ast.Inspect(nextB.Body, func(n ast.Node) bool {
		switch x := n.(type) {
		case *ast.IfStmt:
			depth := 0
			for cur := x; cur != nil; depth++ {
				if isEOFAssign(cur.Body) {
					eofFound = true
					if readsByte(cur.Cond) {
						eofByValue = types.ExprString(cur.Cond)
					}
					if depth >= 2 || condOnCursorAndField(cur.Cond) {
						eofOK = true
					}
				}
				next, _ := cur.Else.(*ast.IfStmt)
				cur = next
			}
			return false
		case *ast.SwitchStmt:
			for k, cc := range x.Body.List {
				cl := cc.(*ast.CaseClause)
				hasEOF := false
				for _, st := range cl.Body {
					if isEOFAssign(st) {
						hasEOF = true
					}
				}
				if !hasEOF {
					continue
				}
				eofFound = true
				for _, e := range cl.List {
					if readsByte(e) {
						eofByValue = types.ExprString(e)
					}
				}
				if x.Tag != nil && readsByte(x.Tag) {
					eofByValue = types.ExprString(x.Tag)
				}
				if k >= 2 {
					eofOK = true
				}
				for _, e := range cl.List {
					if condOnCursorAndField(e) {
						eofOK = true
					}
					// switch i.forward { ... case i.end: }
					if x.Tag != nil {
						if condOnCursorAndField(&ast.BinaryExpr{X: x.Tag, Op: token.EQL, Y: e}) {
							eofOK = true
						}
					}
				}
			}
			return false
		}
		return true
	})
	if !eofFound {
		eofUndecided = true
		c.Undecided("R19.4", "reader: end of input is latched only in the branch that excludes the half boundaries", token.NoPos, "no assignment of io.EOF under a test was found in the byte-level next method")
	} else {
		c.Check("R19.4", "reader: end of input is latched only in the branch that excludes the half boundaries", token.NoPos, eofOK, "io.EOF is assigned in one of the first two branches of the boundary test chain")
	}
	if !eofUndecided {
		c.Check("R19.4", "reader: the end of the input is found by position, not by the value of a byte of the input", token.NoPos, eofByValue == "",
			fmt.Sprintf("io.EOF is latched under `%s`, a comparison of a buffer byte with a sentinel value: an input that contains that byte (0x00 is valid UTF-8) ends there silently and the rest is never lexed", eofByValue),
			"1+2\\x00+3")
	}
	// (b2) a buffer half is loaded once: the loads are guarded by state other than the forward pointer, which Retract moves back
	loaders := map[string]bool{}
	type readSite struct {
		fn    string
		pos   token.Pos
		fills bool
	}
	var readSites []readSite
	AllFuncDecls(p, func(fd *ast.FuncDecl) {
		if fd.Recv == nil || recvName(fd.Recv.List[0].Type) != recv || fd.Body == nil {
			return
		}
		// a loader reads the source: src.Read(..) directly, or io.ReadFull / io.ReadAtLeast on it
		inLoop := 0
		var walk func(n ast.Node) bool
		walk = func(n ast.Node) bool {
			switch x := n.(type) {
			case *ast.ForStmt:
				inLoop++
				ast.Inspect(x.Body, walk)
				inLoop--
				return false
			case *ast.CallExpr:
				if sel, ok := x.Fun.(*ast.SelectorExpr); ok {
					if fo, ok := info.Uses[sel.Sel].(*types.Func); ok {
						full := fo.Pkg() != nil && fo.Pkg().Path() == "io" && (fo.Name() == "ReadFull" || fo.Name() == "ReadAtLeast")
						direct := fo.Name() == "Read" && fo.Type().(*types.Signature).Recv() != nil
						if full || direct {
							loaders[fd.Name.Name] = true
							readSites = append(readSites, readSite{fd.Name.Name, x.Pos(), full || inLoop > 0})
						}
					}
				}
			}
			return true
		}
		ast.Inspect(fd.Body, walk)
	})
	// a method that does nothing but hand on to a loader (`return i.fill(0)`: the call is a top-level statement and no `if`
	// precedes it) loads just as the loader does
	for changed := true; changed; {
		changed = false
		AllFuncDecls(p, func(fd *ast.FuncDecl) {
			if fd.Recv == nil || recvName(fd.Recv.List[0].Type) != recv || fd.Body == nil || loaders[fd.Name.Name] || fd == nextB {
				return
			}
			for _, st := range fd.Body.List {
				if _, isIf := st.(*ast.IfStmt); isIf {
					return
				}
				var e ast.Expr
				switch x := st.(type) {
				case *ast.ReturnStmt:
					if len(x.Results) == 1 {
						e = x.Results[0]
					}
				case *ast.ExprStmt:
					e = x.X
				case *ast.AssignStmt:
					if len(x.Rhs) == 1 {
						e = x.Rhs[0]
					}
				}
				if call, ok := e.(*ast.CallExpr); ok {
					if sel, ok := call.Fun.(*ast.SelectorExpr); ok && loaders[sel.Sel.Name] {
						if fo, ok := info.Uses[sel.Sel].(*types.Func); ok && fo.Pkg() == p.Types {
							loaders[fd.Name.Name] = true
							changed = true
							return
						}
					}
				}
			}
		})
	}
	// a short read is not the end of the input: the count that places the end marker comes from a fill-or-end read
	for _, rs := range readSites {
		c.Check("R19.4", "reader: "+rs.fn+" fills its half or meets the end of the source (io.ReadFull / io.ReadAtLeast, or Read in a loop)", token.NoPos, rs.fills,
			"the half is loaded by a single Read and the end marker is put after the bytes it returned: an io.Reader may return fewer bytes than asked for without being at the end (pipe, terminal, socket), and may return the last bytes together with io.EOF; the rest of the input is dropped silently",
			"any input delivered through testing/iotest.OneByteReader")
	}
	if len(readSites) < 1 {
		c.Lost("R19.4", "the reads of the source in the emitted reader")
	}
	// every call of a loader, in next() or in a method of the reader that next() calls: guarded by a condition on a reader field
	// other than the cursor / buffer / latch (an enclosing if, or an earlier `if <cond> { return }` in the same function), and that
	// field is reassigned in the function once the load is done
	nLoads, guardedLoads := 0, 0
	reachFns := []*ast.FuncDecl{nextB}
	seenFns := map[*ast.FuncDecl]bool{nextB: true}
	for i := 0; i < len(reachFns) && i < 8; i++ {
		ast.Inspect(reachFns[i].Body, func(n ast.Node) bool {
			if call, ok := n.(*ast.CallExpr); ok {
				if fo, ok := objOf(info, call.Fun).(*types.Func); ok && fo.Pkg() == p.Types && !loaders[fo.Name()] {
					if hd := declOfFunc(p, fo); hd != nil && hd.Body != nil && hd.Recv != nil && recvName(hd.Recv.List[0].Type) == recv && !seenFns[hd] {
						seenFns[hd] = true
						reachFns = append(reachFns, hd)
					}
				}
			}
			return true
		})
	}
	fieldIn := func(e ast.Expr) string {
		name := ""
		ast.Inspect(e, func(m ast.Node) bool {
			if s2, ok := m.(*ast.SelectorExpr); ok && s2.Sel.Name != fwdName && s2.Sel.Name != bufName && s2.Sel.Name != latch {
				if v, isVar := info.Uses[s2.Sel].(*types.Var); isVar && v.IsField() {
					name = s2.Sel.Name
				}
			}
			return true
		})
		return name
	}
	for _, fdl := range reachFns {
		var stack []ast.Node
		ast.Inspect(fdl.Body, func(n ast.Node) bool {
			if n == nil {
				stack = stack[:len(stack)-1]
				return true
			}
			stack = append(stack, n)
			call, ok := n.(*ast.CallExpr)
			if !ok {
				return true
			}
			sel, ok := call.Fun.(*ast.SelectorExpr)
			if !ok || !loaders[sel.Sel.Name] {
				return true
			}
			nLoads++
			var guardFields []string
			for _, anc := range stack {
				if ifs, ok := anc.(*ast.IfStmt); ok && ifs.Body.Pos() <= call.Pos() && call.End() <= ifs.Body.End() {
					if f := fieldIn(ifs.Cond); f != "" {
						guardFields = append(guardFields, f)
					}
				}
			}
			for _, st := range fdl.Body.List {
				if st.End() > call.Pos() {
					break
				}
				if ifs, ok := st.(*ast.IfStmt); ok && ifs.Else == nil && len(ifs.Body.List) >= 1 {
					if _, isRet := ifs.Body.List[len(ifs.Body.List)-1].(*ast.ReturnStmt); isRet {
						if f := fieldIn(ifs.Cond); f != "" {
							guardFields = append(guardFields, f)
						}
					}
				}
			}
			for _, gf := range guardFields {
				reassigned := false
				bodies := []*ast.BlockStmt{fdl.Body}
				// ... or in the loader that is called there (a loader that itself moves on to the other half)
				AllFuncDecls(p, func(ld *ast.FuncDecl) {
					if ld.Recv != nil && ld.Body != nil && recvName(ld.Recv.List[0].Type) == recv && ld.Name.Name == sel.Sel.Name {
						bodies = append(bodies, ld.Body)
					}
				})
				for _, body := range bodies {
					ast.Inspect(body, func(m ast.Node) bool {
						if as, ok := m.(*ast.AssignStmt); ok && len(as.Lhs) == 1 {
							if s2, ok := as.Lhs[0].(*ast.SelectorExpr); ok && s2.Sel.Name == gf {
								reassigned = true
							}
						}
						return true
					})
				}
				if reassigned {
					guardedLoads++
					break
				}
			}
			return true
		})
	}
	if nLoads == 0 {
		c.Undecided("R19.4", "reader: a buffer half is loaded once (each load is guarded by state that a retraction does not undo)", token.NoPos, "no call of a function that reads the source was found from next()")
	} else {
		c.Check("R19.4", "reader: a buffer half is loaded once (each load is guarded by state that a retraction does not undo)", token.NoPos, guardedLoads == nLoads,
		fmt.Sprintf("%d of %d loads in next() are guarded only by the position of the forward pointer: when forward arrives at a half boundary again after Retract, the next chunk overwrites the half that was just loaded and a buffer-half of input disappears", nLoads-guardedLoads, nLoads),
		"an input longer than the buffer half with a token that begins on the last byte of a half")
	}
	// (b2') the state that guards a load moves on only when the load succeeded: Retract clears the latched error, so a load
	// that failed (end of the source) is asked for again when the byte before it is read a second time, and must then fail
	// again; if the guard has moved on, the end of the input is never latched again and stale buffer contents are lexed
	{
		isNilTest := func(e ast.Expr, op token.Token) bool {
			found := false
			ast.Inspect(e, func(m ast.Node) bool {
				if b, ok := m.(*ast.BinaryExpr); ok && b.Op == op && isNilExpr(info, b.Y) {
					if t := info.TypeOf(b.X); t != nil && isErr(t) {
						found = true
					}
				}
				return true
			})
			return found
		}
		nAdv, condAdv := 0, 0
		var badPos token.Pos
		for _, fdl := range reachFns {
			// loads and their guard fields in this function
			var loadPos []token.Pos
			ast.Inspect(fdl.Body, func(n ast.Node) bool {
				if call, ok := n.(*ast.CallExpr); ok {
					if sel, ok := call.Fun.(*ast.SelectorExpr); ok && loaders[sel.Sel.Name] {
						loadPos = append(loadPos, call.Pos())
					}
				}
				return true
			})
			if len(loadPos) == 0 {
				continue
			}
			// guard fields: fields tested by an if that encloses a load (or by an early return before it)
			guards := map[string]bool{}
			var stack []ast.Node
			ast.Inspect(fdl.Body, func(n ast.Node) bool {
				if n == nil {
					stack = stack[:len(stack)-1]
					return true
				}
				stack = append(stack, n)
				if call, ok := n.(*ast.CallExpr); ok {
					if sel, ok := call.Fun.(*ast.SelectorExpr); ok && loaders[sel.Sel.Name] {
						for _, anc := range stack {
							if ifs, ok := anc.(*ast.IfStmt); ok && ifs.Body.Pos() <= call.Pos() && call.End() <= ifs.Body.End() {
								if f := fieldIn(ifs.Cond); f != "" {
									guards[f] = true
								}
							}
						}
					}
				}
				return true
			})
			for _, st := range fdl.Body.List {
				if ifs, ok := st.(*ast.IfStmt); ok && ifs.Else == nil && len(ifs.Body.List) >= 1 && st.End() < loadPos[0] {
					if _, isRet := ifs.Body.List[len(ifs.Body.List)-1].(*ast.ReturnStmt); isRet {
						if f := fieldIn(ifs.Cond); f != "" {
							guards[f] = true
						}
					}
				}
			}
			// every assignment to a guard field after a load
			stack = nil
			ast.Inspect(fdl.Body, func(n ast.Node) bool {
				if n == nil {
					stack = stack[:len(stack)-1]
					return true
				}
				stack = append(stack, n)
				as, ok := n.(*ast.AssignStmt)
				if !ok || len(as.Lhs) != 1 {
					return true
				}
				sel, ok := as.Lhs[0].(*ast.SelectorExpr)
				if !ok || !guards[sel.Sel.Name] {
					return true
				}
				after := false
				for _, lp := range loadPos {
					if lp < as.Pos() {
						after = true
					}
				}
				if !after {
					return true
				}
				nAdv++
				ok2 := false
				for k, anc := range stack {
					if ifs, isIf := anc.(*ast.IfStmt); isIf && ifs.Body.Pos() <= as.Pos() && as.End() <= ifs.Body.End() && isNilTest(ifs.Cond, token.EQL) {
						ok2 = true
					}
					// an earlier `if err != nil { return }` in an enclosing block
					if blk, isBlk := anc.(*ast.BlockStmt); isBlk && k+1 < len(stack) {
						for _, st := range blk.List {
							if st.End() > as.Pos() {
								break
							}
							afterLoad := false
							for _, lp := range loadPos {
								if lp < as.Pos() && (lp < st.Pos() || (st.Pos() <= lp && lp < st.End())) {
									afterLoad = true
								}
							}
							if ifs, isIf := st.(*ast.IfStmt); isIf && afterLoad && isNilTest(ifs.Cond, token.NEQ) && len(ifs.Body.List) >= 1 {
								if _, isRet := ifs.Body.List[len(ifs.Body.List)-1].(*ast.ReturnStmt); isRet {
									ok2 = true
								}
							}
						}
					}
				}
				if ok2 {
					condAdv++
				} else {
					badPos = as.Pos()
				}
				return true
			})
		}
		key := "reader: the state guarding a load moves on only when the load succeeded"
		switch {
		case nAdv == 0:
			c.Undecided("R19.4", key, token.NoPos, "no assignment to the state that guards the loads was found after a load")
		case condAdv == nAdv:
			c.Pass("R19.4", key, token.NoPos, "")
		default:
			_ = badPos
			c.Fail("R19.4", key, token.NoPos, fmt.Sprintf("%d of %d updates of the load guard are made whether or not the load succeeded: a load that meets the end of the source latches io.EOF; when the byte before it was a look-ahead, Retract clears the latch, the byte is read again, the load is not asked for again, io.EOF is never latched again and the lexer goes on into stale buffer contents", nAdv-condAdv, nAdv), "an input whose length is a multiple of the buffer half and whose last character is a retracted look-ahead (e.g. a final newline after a token)")
		}
	}
	// (b2'') an empty load ends the input: a fill-or-end read that returns no byte at all reports io.EOF. A loader either hands
	// that on as its error (then next() latches it), or it records the end by position, which is then the very position forward
	// has when the load was asked for: in that case the position test must follow the load on the same path.
	{
		endFields := map[string]bool{}
		type loaderFacts struct {
			fd        *ast.FuncDecl
			tolerates int // 1 yes, 0 no, -1 unknown
		}
		var facts []loaderFacts
		AllFuncDecls(p, func(fd *ast.FuncDecl) {
			if fd.Recv == nil || recvName(fd.Recv.List[0].Type) != recv || fd.Body == nil || !loaders[fd.Name.Name] {
				return
			}
			var errObj types.Object
			ast.Inspect(fd.Body, func(n ast.Node) bool {
				as, ok := n.(*ast.AssignStmt)
				if !ok || len(as.Rhs) != 1 {
					return true
				}
				call, ok := ast.Unparen(as.Rhs[0]).(*ast.CallExpr)
				if !ok {
					return true
				}
				if fo, ok := objOf(info, call.Fun).(*types.Func); ok && fo.Pkg() != nil && fo.Pkg().Path() == "io" && (fo.Name() == "ReadFull" || fo.Name() == "ReadAtLeast") && len(as.Lhs) == 2 {
					if id, ok := as.Lhs[1].(*ast.Ident); ok {
						if o := info.Defs[id]; o != nil {
							errObj = o
						} else {
							errObj = info.Uses[id]
						}
					}
				}
				return true
			})
			// fields assigned in a loader (other than buffer and latch): where the end of the input is recorded
			ast.Inspect(fd.Body, func(n ast.Node) bool {
				if as, ok := n.(*ast.AssignStmt); ok {
					for _, l := range as.Lhs {
						if sel, ok := l.(*ast.SelectorExpr); ok && sel.Sel.Name != bufName && sel.Sel.Name != latch && sel.Sel.Name != fwdName {
							if v, isVar := info.Uses[sel.Sel].(*types.Var); isVar && v.IsField() {
								endFields[sel.Sel.Name] = true
							}
						}
					}
				}
				return true
			})
			if errObj == nil {
				return
			}
			isErrVar := func(e ast.Expr) bool {
				id, ok := ast.Unparen(e).(*ast.Ident)
				return ok && info.Uses[id] == errObj
			}
			ioName := func(e ast.Expr) string {
				if o := objOf(info, ast.Unparen(e)); o != nil && o.Pkg() != nil && o.Pkg().Path() == "io" {
					return o.Name()
				}
				return ""
			}
			// the value of a condition when err is io.EOF: 1, 0, -1 (unknown)
			var eval func(e ast.Expr) int
			eval = func(e ast.Expr) int {
				switch x := ast.Unparen(e).(type) {
				case *ast.UnaryExpr:
					if x.Op == token.NOT {
						if v := eval(x.X); v >= 0 {
							return 1 - v
						}
					}
				case *ast.BinaryExpr:
					switch x.Op {
					case token.LAND:
						a, b := eval(x.X), eval(x.Y)
						if a == 0 || b == 0 {
							return 0
						}
						if a == 1 && b == 1 {
							return 1
						}
					case token.LOR:
						a, b := eval(x.X), eval(x.Y)
						if a == 1 || b == 1 {
							return 1
						}
						if a == 0 && b == 0 {
							return 0
						}
					case token.EQL, token.NEQ:
						other := x.Y
						if !isErrVar(x.X) {
							if !isErrVar(x.Y) {
								return -1
							}
							other = x.X
						}
						eq := -1
						switch {
						case isNilExpr(info, other):
							eq = 0
						case ioName(other) == "EOF":
							eq = 1
						case ioName(other) != "":
							eq = 0
						}
						if eq < 0 {
							return -1
						}
						if x.Op == token.NEQ {
							return 1 - eq
						}
						return eq
					}
				case *ast.CallExpr:
					if fo, ok := objOf(info, x.Fun).(*types.Func); ok && fo.Pkg() != nil && fo.Pkg().Path() == "errors" && fo.Name() == "Is" && len(x.Args) == 2 && isErrVar(x.Args[0]) {
						switch ioName(x.Args[1]) {
						case "EOF":
							return 1
						case "":
							return -1
						default:
							return 0
						}
					}
				}
				return -1
			}
			returnsErr := func(list []ast.Stmt) bool {
				for _, st := range list {
					if r, ok := st.(*ast.ReturnStmt); ok {
						for _, e := range r.Results {
							found := false
							ast.Inspect(e, func(m ast.Node) bool {
								if id, ok := m.(*ast.Ident); ok && info.Uses[id] == errObj {
									found = true
								}
								return true
							})
							if found {
								return true
							}
						}
					}
				}
				return false
			}
			tol := 1
			sawGuard := false
			ast.Inspect(fd.Body, func(n ast.Node) bool {
				switch x := n.(type) {
				case *ast.IfStmt:
					if returnsErr(x.Body.List) {
						sawGuard = true
						switch eval(x.Cond) {
						case 1:
							tol = 0
						case -1:
							if tol == 1 {
								tol = -1
							}
						}
					}
				case *ast.SwitchStmt:
					if x.Tag != nil && isErrVar(x.Tag) {
						var deflt, match *ast.CaseClause
						for _, cc := range x.Body.List {
							cl := cc.(*ast.CaseClause)
							if cl.List == nil {
								deflt = cl
							}
							for _, v := range cl.List {
								if ioName(v) == "EOF" {
									match = cl
								}
							}
						}
						if match == nil {
							match = deflt
						}
						if match != nil {
							sawGuard = true
							if returnsErr(match.Body) {
								tol = 0
							}
						}
					}
				}
				return true
			})
			if !sawGuard {
				tol = -1
			}
			facts = append(facts, loaderFacts{fd, tol})
		})
		for _, lf := range facts {
			key := "reader: a load that returns no byte ends the input (" + lf.fd.Name.Name + ")"
			switch lf.tolerates {
			case 0:
				c.Pass("R19.4", key, token.NoPos, "io.EOF of the fill-or-end read is returned as the loader's error, which next() latches")
			case -1:
				c.Undecided("R19.4", key, token.NoPos, "how the loader treats io.EOF of its read could not be read off its conditions")
			case 1:
				// the end is recorded by position: every call on next()'s path must be followed by the position test
				nCalls, covered := 0, 0
				for _, fdl := range reachFns {
					var stack []ast.Node
					ast.Inspect(fdl.Body, func(n ast.Node) bool {
						if n == nil {
							stack = stack[:len(stack)-1]
							return true
						}
						stack = append(stack, n)
						call, ok := n.(*ast.CallExpr)
						if !ok {
							return true
						}
						sel, ok := call.Fun.(*ast.SelectorExpr)
						if !ok || sel.Sel.Name != lf.fd.Name.Name {
							return true
						}
						nCalls++
						anc := append([]ast.Node{}, stack...)
						found := false
						ast.Inspect(fdl.Body, func(m ast.Node) bool {
							ifs, ok := m.(*ast.IfStmt)
							if !ok || ifs.Pos() < call.End() {
								return true
							}
							hasFwd, hasEnd := false, false
							ast.Inspect(ifs.Cond, func(k ast.Node) bool {
								if s2, ok := k.(*ast.SelectorExpr); ok {
									if s2.Sel.Name == fwdName {
										hasFwd = true
									}
									if endFields[s2.Sel.Name] {
										hasEnd = true
									}
								}
								return true
							})
							if !hasFwd || !hasEnd {
								return true
							}
							// not in the else part of an if whose body holds the call
							for _, a := range anc {
								if ai, ok := a.(*ast.IfStmt); ok && ai.Else != nil && ai.Body.Pos() <= call.Pos() && call.End() <= ai.Body.End() &&
									ai.Else.Pos() <= ifs.Pos() && ifs.End() <= ai.Else.End() {
									return true
								}
							}
							found = true
							return true
						})
						if found {
							covered++
						}
						return true
					})
				}
				if nCalls == 0 {
					c.Undecided("R19.4", key, token.NoPos, "the loader records an empty load as the end by position, and no call of it was found on next()'s path")
				} else {
					c.Check("R19.4", key, token.NoPos, covered == nCalls,
						fmt.Sprintf("%s takes io.EOF of its read for a short read and records the end by position; that position is where forward stands when the load is asked for, and after %d of %d calls on next()'s path forward is not compared with it: the end of an input that stops exactly at a half boundary is never latched, and stale buffer contents are lexed", lf.fd.Name.Name, nCalls-covered, nCalls),
						"an input whose length is an exact multiple of the buffer half (4096, 8192, ...)")
				}
			}
		}
		if len(facts) == 0 {
			c.Undecided("R19.4", "reader: a load that returns no byte ends the input", token.NoPos, "no loader built on io.ReadFull / io.ReadAtLeast was found")
		}
	}
	// (b3) ring invariant: when forward arrives at len(buff) it is set back to 0 on every path (Lexeme and Retract walk the ring modulo len(buff))
	wrapFound, wrapOK := false, false
	ast.Inspect(nextB.Body, func(n ast.Node) bool {
		ifs, ok := n.(*ast.IfStmt)
		if !ok {
			return true
		}
		b, ok := ast.Unparen(ifs.Cond).(*ast.BinaryExpr)
		if !ok || b.Op != token.EQL {
			return true
		}
		l, r := types.ExprString(b.X), types.ExprString(b.Y)
		isWrap := func(x, y string) bool { return strings.HasSuffix(x, "."+fwdName) && strings.HasPrefix(y, "len(") && strings.HasSuffix(y, "."+bufName+")") }
		if !isWrap(l, r) && !isWrap(r, l) {
			return true
		}
		wrapFound = true
		wrapOK = assignsOnAllPaths(ifs.Body.List, func(as *ast.AssignStmt) bool {
			if len(as.Lhs) != 1 || len(as.Rhs) != 1 {
				return false
			}
			sel, ok := as.Lhs[0].(*ast.SelectorExpr)
			if !ok || sel.Sel.Name != fwdName {
				return false
			}
			tv, ok := info.Types[as.Rhs[0]]
			return ok && tv.Value != nil && tv.Value.ExactString() == "0"
		})
		return true
	})
	if !wrapFound {
		c.Lost("R19.4", "the branch of next() taken when forward arrives at the end of the buffer")
	} else {
		c.Check("R19.4", "reader: forward wraps to 0 on every path on which it arrives at the end of the buffer", token.NoPos, wrapOK,
			"on some path of the `forward == len(buff)` branch forward is not set back to 0 (e.g. when loading reports the end of the input): forward stays outside the ring, Lexeme's walk of lexemeBegin modulo len(buff) never meets it and does not terminate",
			"an input whose length is exactly the size of the buffer (2 halves)")
	}
	// (c) Next: every byte read has its error returned immediately
	var nextR *ast.FuncDecl
	AllFuncDecls(p, func(fd *ast.FuncDecl) {
		if fd.Recv != nil && recvName(fd.Recv.List[0].Type) == recv && fd.Name.Name == "Next" {
			nextR = fd
		}
	})
	if nextR != nil {
		reads, checked := 0, 0
		// every statement list of the method (the reads may sit in a loop over the continuation bytes)
		var lists [][]ast.Stmt
		ast.Inspect(nextR.Body, func(n ast.Node) bool {
			switch x := n.(type) {
			case *ast.BlockStmt:
				lists = append(lists, x.List)
			case *ast.CaseClause:
				lists = append(lists, x.Body)
			}
			return true
		})
		for _, list := range lists {
			for i, st := range list {
				as, ok := st.(*ast.AssignStmt)
				if !ok || len(as.Rhs) != 1 || len(as.Lhs) != 2 {
					continue
				}
				call, ok := ast.Unparen(as.Rhs[0]).(*ast.CallExpr)
				if !ok {
					continue
				}
				if sel, ok := call.Fun.(*ast.SelectorExpr); !ok || sel.Sel.Name != nextB.Name.Name {
					continue
				}
				reads++
				if i+1 < len(list) {
					if ifs, ok := list[i+1].(*ast.IfStmt); ok {
						if b, ok := ast.Unparen(ifs.Cond).(*ast.BinaryExpr); ok && b.Op == token.NEQ && isNilExpr(info, b.Y) {
							for _, s2 := range ifs.Body.List {
								if r, ok := s2.(*ast.ReturnStmt); ok && len(r.Results) == 2 && types.ExprString(r.Results[1]) == types.ExprString(b.X) {
									checked++
								}
							}
						}
					}
				}
			}
		}
		switch {
		case reads == 0:
			c.Undecided("R19.4", "reader: every byte read by Next has its error returned immediately", token.NoPos, "no `b, err := next()` statement was found in Next")
		default:
			c.Check("R19.4", "reader: every byte read by Next has its error returned immediately", token.NoPos, reads == checked, fmt.Sprintf("%d byte reads, %d followed by an immediate error return", reads, checked))
		}
	} else {
		c.Lost("R19.4", "the rune-level Next method")
	}
	// (d) Retract undoes the end-of-input latch
	var retract *ast.FuncDecl
	AllFuncDecls(p, func(fd *ast.FuncDecl) {
		if fd.Recv != nil && recvName(fd.Recv.List[0].Type) == recv && fd.Name.Name == "Retract" {
			retract = fd
		}
	})
	undone := false
	if retract != nil && latch != "" {
		ast.Inspect(retract.Body, func(n ast.Node) bool {
			if as, ok := n.(*ast.AssignStmt); ok && len(as.Lhs) == 1 && len(as.Rhs) == 1 {
				if sel, ok := ast.Unparen(as.Lhs[0]).(*ast.SelectorExpr); ok && sel.Sel.Name == latch && isNilExpr(info, as.Rhs[0]) {
					undone = true
				}
			}
			return true
		})
	}
	// (d') Retract moves the cursor back relative to where it stands, modulo the ring: forward = forward - size (+ len(buff) when
	// that is negative). An assignment that does not mention the old cursor is only right where the cursor is known to be 0.
	if retract != nil {
		var stack []ast.Node
		nAssign, badPos := 0, ""
		ast.Inspect(retract.Body, func(n ast.Node) bool {
			if n == nil {
				stack = stack[:len(stack)-1]
				return true
			}
			stack = append(stack, n)
			var lhs, rhs ast.Expr
			switch x := n.(type) {
			case *ast.AssignStmt:
				if len(x.Lhs) == 1 && len(x.Rhs) == 1 {
					lhs, rhs = x.Lhs[0], x.Rhs[0]
					if x.Tok != token.ASSIGN {
						rhs = nil // i.forward -= size: relative by construction
					}
				}
			}
			sel, ok := lhs.(*ast.SelectorExpr)
			if !ok || sel.Sel.Name != fwdName {
				return true
			}
			nAssign++
			if rhs == nil {
				return true
			}
			mentions := false
			ast.Inspect(rhs, func(m ast.Node) bool {
				if s2, ok := m.(*ast.SelectorExpr); ok && s2.Sel.Name == fwdName {
					mentions = true
				}
				return true
			})
			if mentions {
				return true
			}
			// allowed under `forward == 0`
			atZero := false
			for _, anc := range stack {
				ifs, ok := anc.(*ast.IfStmt)
				if !ok || !(ifs.Body.Pos() <= n.Pos() && n.End() <= ifs.Body.End()) {
					continue
				}
				if b, ok := ast.Unparen(ifs.Cond).(*ast.BinaryExpr); ok && b.Op == token.EQL {
					l, r := types.ExprString(b.X), types.ExprString(b.Y)
					if (strings.HasSuffix(l, "."+fwdName) && r == "0") || (strings.HasSuffix(r, "."+fwdName) && l == "0") {
						atZero = true
					}
				}
			}
			if !atZero {
				badPos = types.ExprString(lhs) + " = " + types.ExprString(rhs)
			}
			return true
		})
		if nAssign == 0 {
			c.Undecided("R19.4", "reader: Retract moves the cursor back relative to its position (modulo the ring)", token.NoPos, "no assignment to the cursor in Retract")
		} else {
			c.Check("R19.4", "reader: Retract moves the cursor back relative to its position (modulo the ring)", token.NoPos, badPos == "",
				"Retract sets the cursor with `"+badPos+"`, a value that does not depend on where the cursor stands: right only when the cursor is exactly 0; a multi-byte character that straddles the end of the buffer leaves the cursor at 1, 2 or 3, and the retraction lands before the character's first byte",
				"a multi-byte look-ahead character whose bytes straddle the end of the buffer (input offset 8190 or 8191 with the default size)")
		}
	}
	c.Check("R19.4", "reader: Retract undoes the end-of-input latch set when the last byte was handed out", token.NoPos, undone,
		"next() latches io.EOF as soon as it has returned the last byte; Retract moves forward back but leaves the latch set, so the retracted last character is never read again: a one-character final token is lost",
		"input \"a+b\" for tokens ID and \"+\": the final b is retracted after + and then lost")
}


// checkColumnBookkeeping: on every successful path of the emitted Next exactly one rune size is recorded, and the column is
// either incremented once or, for a line terminator, saved *unmodified* (so that Retract restores it) and reset to 1.
func checkColumnBookkeeping(c *Ctx, p *packages.Package, set *skeletonSet) {
	var fd *ast.FuncDecl
	AllFuncDecls(p, func(f *ast.FuncDecl) {
		if f.Recv != nil && f.Name.Name == "Next" && f.Body != nil {
			if fo, ok := p.TypesInfo.Defs[f.Name].(*types.Func); ok {
				sig := fo.Type().(*types.Signature)
				if sig.Results().Len() == 2 && isRune(sig.Results().At(0).Type()) {
					fd = f
				}
			}
		}
	})
	if fd == nil || set.prog == nil {
		c.Lost("R19.4", "SSA of the emitted Next")
		return
	}
	fn := set.prog.FuncValue(p.TypesInfo.Defs[fd.Name].(*types.Func))
	if fn == nil {
		c.Lost("R19.4", "SSA of the emitted Next")
		return
	}
	type event struct{ kind, detail string }
	fieldOfAddr := func(v ssa.Value) string {
		if fa, ok := v.(*ssa.FieldAddr); ok {
			return fieldName(fa)
		}
		return ""
	}
	// roles by use, not by name: the column is the field of the receiver that Next resets to the constant 1; the stack that
	// receives the column is the line stack, the other stack pushed in Next is the rune-size stack
	colName, lineStack, sizeStack := "", "", ""
	for _, b := range fn.Blocks {
		for _, in := range b.Instrs {
			if st, ok := in.(*ssa.Store); ok && isConstInt(st.Val, 1) {
				if f := fieldOfAddr(st.Addr); f != "" {
					colName = f
				}
			}
		}
	}
	for _, b := range fn.Blocks {
		for _, in := range b.Instrs {
			ci, ok := in.(ssa.CallInstruction)
			if !ok || methodNameOf(ci) != "Push" {
				continue
			}
			target := ""
			if u, ok := recvOf(ci).(*ssa.UnOp); ok {
				target = fieldOfAddr(u.X)
			}
			args := ci.Common().Args
			if u, ok := args[len(args)-1].(*ssa.UnOp); ok && colName != "" && fieldOfAddr(u.X) == colName {
				lineStack = target
			}
		}
	}
	for _, b := range fn.Blocks {
		for _, in := range b.Instrs {
			ci, ok := in.(ssa.CallInstruction)
			if !ok || methodNameOf(ci) != "Push" {
				continue
			}
			if u, ok := recvOf(ci).(*ssa.UnOp); ok {
				if t := fieldOfAddr(u.X); t != "" && t != lineStack {
					sizeStack = t
				}
			}
		}
	}
	if colName == "" || sizeStack == "" {
		c.Lost("R19.4", "the column field and the rune-size stack of the emitted Next")
		return
	}
	eventsOf := func(b *ssa.BasicBlock) []event {
		var out []event
		for _, in := range b.Instrs {
			switch x := in.(type) {
			case *ssa.Store:
				if f := fieldOfAddr(x.Addr); f == colName {
					d := "other"
					if k, ok := x.Val.(*ssa.Const); ok && isConstInt(k, 1) {
						d = "reset"
					} else if bo, ok := x.Val.(*ssa.BinOp); ok && bo.Op == token.ADD && isConstInt(bo.Y, 1) {
						if u, ok := bo.X.(*ssa.UnOp); ok && fieldOfAddr(u.X) == colName {
							d = "inc"
						}
					}
					out = append(out, event{"col", d})
				}
			case ssa.CallInstruction:
				if methodNameOf(x) == "Push" {
					recv := recvOf(x)
					target := ""
					if u, ok := recv.(*ssa.UnOp); ok {
						target = fieldOfAddr(u.X)
					}
					args := x.Common().Args
					arg := args[len(args)-1]
					switch target {
					case sizeStack:
						out = append(out, event{"size", ""})
					default:
						// any other stack pushed in Next saves something for a line terminator: it must be the current column
						d := "other"
						if u, ok := arg.(*ssa.UnOp); ok && fieldOfAddr(u.X) == colName {
							d = "column"
						}
						out = append(out, event{"save", d})
					}
				}
			}
		}
		return out
	}
	nPaths, bad := 0, ""
	var walk func(b *ssa.BasicBlock, evs []event, depth int)
	walk = func(b *ssa.BasicBlock, evs []event, depth int) {
		if depth > 200 || bad != "" {
			return
		}
		evs = append(append([]event(nil), evs...), eventsOf(b)...)
		if ret, ok := b.Instrs[len(b.Instrs)-1].(*ssa.Return); ok {
			if !isNilConst(retOperand(ret, 1)) {
				return
			}
			nPaths++
			sizes, cols := 0, []string{}
			saveAt, firstColAt := -1, -1
			for i, e := range evs {
				switch e.kind {
				case "size":
					sizes++
				case "col":
					cols = append(cols, e.detail)
					if firstColAt < 0 {
						firstColAt = i
					}
				case "save":
					if e.detail != "column" {
						bad = "a value other than the current column is saved for a line terminator"
					}
					saveAt = i
				}
			}
			if sizes != 1 {
				bad = fmt.Sprintf("a successful path records %d rune sizes (Retract and the offset need exactly one)", sizes)
			}
			if saveAt >= 0 {
				if firstColAt >= 0 && firstColAt < saveAt {
					bad = "the column is modified before it is saved for the line terminator: Retract restores a column that is off by one"
				}
				if len(cols) != 1 || cols[0] != "reset" {
					if bad == "" {
						bad = fmt.Sprintf("after saving the column for a line terminator the column updates are %v (expected one reset to 1)", cols)
					}
				}
			} else if len(cols) != 1 || cols[0] != "inc" {
				bad = fmt.Sprintf("a successful path updates the column %v (expected exactly one increment)", cols)
			}
			return
		}
		for _, s := range b.Succs {
			walk(s, evs, depth+1)
		}
	}
	walk(fn.Blocks[0], nil, 0)
	c.Check("R19.4", "reader: every successful path of Next records one rune size and keeps the column bookkeeping that Retract undoes", token.NoPos, bad == "" && nPaths >= 4,
		fmt.Sprintf("%s (%d successful paths examined)", bad, nPaths), "a line terminator that is itself a token, read as look-ahead and retracted: \"ab\\n12\"")
}

// assignsOnAllPaths: every path through the statement list executes an assignment accepted by is (no loops, returns fail the path).
func assignsOnAllPaths(list []ast.Stmt, is func(*ast.AssignStmt) bool) bool {
	for _, st := range list {
		switch x := st.(type) {
		case *ast.AssignStmt:
			if is(x) {
				return true
			}
		case *ast.ReturnStmt:
			return false
		case *ast.IfStmt:
			if x.Else != nil {
				var els []ast.Stmt
				switch e := x.Else.(type) {
				case *ast.BlockStmt:
					els = e.List
				case *ast.IfStmt:
					els = []ast.Stmt{e}
				}
				if assignsOnAllPaths(x.Body.List, is) && assignsOnAllPaths(els, is) {
					return true
				}
			}
			if containsReturn(x) {
				return false
			}
		case *ast.BlockStmt:
			if assignsOnAllPaths(x.List, is) {
				return true
			}
		}
	}
	return false
}

func containsReturn(n ast.Node) bool {
	found := false
	ast.Inspect(n, func(m ast.Node) bool {
		if _, ok := m.(*ast.ReturnStmt); ok {
			found = true
		}
		return !found
	})
	return found
}
