package main

// E10: shape inference for the parser-combinator DSL of internal/regex/parser and the mapper functions
// attached to it. A shape is the set of dynamic forms a comb.Result.Val can take:
// a Go type, comb.Empty, a fixed-length comb.List (CONCAT) or a non-empty homogeneous comb.List (REP1).
// Decides the unchecked type assertions and list indexing of the mappers (C14) and is reused for sibling
// agreement (C09/C10).

import (
	"fmt"
	"go/ast"
	"go/token"
	"go/types"
	"sort"
	"strings"

	"golang.org/x/tools/go/packages"
)

type salt struct {
	kind  string // type | iface | empty | list | rep
	typ   types.Type
	elems []shape
	elem  *shape
}

type shape struct{ alts []salt }

func (a salt) key() string {
	switch a.kind {
	case "type":
		return "T:" + types.TypeString(a.typ, nil)
	case "iface":
		return "I:" + types.TypeString(a.typ, nil)
	case "empty":
		return "ε"
	case "list":
		var p []string
		for _, e := range a.elems {
			p = append(p, e.key())
		}
		return "[" + strings.Join(p, ",") + "]"
	case "rep":
		return "{" + a.elem.key() + "}+"
	}
	return "?"
}

func (s shape) key() string {
	var p []string
	for _, a := range s.alts {
		p = append(p, a.key())
	}
	sort.Strings(p)
	return strings.Join(p, "|")
}

func (s shape) union(t shape) shape {
	seen := map[string]bool{}
	var out shape
	for _, a := range append(append([]salt{}, s.alts...), t.alts...) {
		if k := a.key(); !seen[k] {
			seen[k] = true
			out.alts = append(out.alts, a)
		}
	}
	return out
}

func typeShape(t types.Type) shape {
	if _, ok := t.Underlying().(*types.Interface); ok {
		return shape{[]salt{{kind: "iface", typ: t}}}
	}
	return shape{[]salt{{kind: "type", typ: t}}}
}

type combEnv struct {
	c        *Ctx
	rule     string
	pp       *packages.Package // internal/regex/parser
	mp       *packages.Package // nfa or ast
	mappers  *types.Named      // concrete mappers type in mp
	fields   map[string]shape
	methods  map[string]shape
	record   bool
	covered  map[token.Pos]bool
	changed  bool
	mapperIn map[string]shape // accumulated input shapes per mapper function (for reporting)
	recvName string
}

// checkCombinatorShapes runs the inference for one mapper package and returns the positions of the
// assertions / index expressions it decided.
func checkCombinatorShapes(c *Ctx, rule, mapperPkg string) map[token.Pos]bool {
	pp := c.Pkg("internal/regex/parser")
	mp := c.Pkg(mapperPkg)
	if pp == nil || mp == nil {
		c.Lost(rule, "packages internal/regex/parser and "+mapperPkg)
		return nil
	}
	env := &combEnv{c: c, rule: rule, pp: pp, mp: mp, fields: map[string]shape{}, methods: map[string]shape{}, covered: map[token.Pos]bool{}, mapperIn: map[string]shape{}}
	// the concrete type implementing parser.Mappers in mp
	iface, _ := pp.Types.Scope().Lookup("Mappers").Type().Underlying().(*types.Interface)
	if iface == nil {
		c.Lost(rule, "interface parser.Mappers")
		return nil
	}
	for _, n := range mp.Types.Scope().Names() {
		if tn, ok := mp.Types.Scope().Lookup(n).(*types.TypeName); ok {
			if named, ok := tn.Type().(*types.Named); ok && types.Implements(types.NewPointer(named), iface) {
				env.mappers = named
			}
		}
	}
	if env.mappers == nil {
		c.Lost(rule, "the type implementing parser.Mappers in "+mapperPkg)
		return nil
	}
	newFn := FuncDecl(pp, "", "New")
	if newFn == nil {
		c.Lost(rule, "parser.New")
		return nil
	}
	c.Analysed(funcKey(pp, newFn))
	// recursive parser methods of *Parser with the comb.Parser signature
	var methods []*ast.FuncDecl
	AllFuncDecls(pp, func(fd *ast.FuncDecl) {
		if fd.Recv == nil || fd.Body == nil || recvName(fd.Recv.List[0].Type) != "Parser" {
			return
		}
		fn := pp.TypesInfo.Defs[fd.Name].(*types.Func)
		sig := fn.Type().(*types.Signature)
		if sig.Params().Len() == 1 && sig.Results().Len() == 2 {
			if _, n := namedTypeName(sig.Params().At(0).Type()); n == "Input" {
				methods = append(methods, fd)
			}
		}
	})
	// the statements that define the combinators: New's own, and those of the methods it calls to define a group of them
	var initStmts []ast.Stmt
	for _, st := range newFn.Body.List {
		initStmts = append(initStmts, st)
		if es, ok := st.(*ast.ExprStmt); ok {
			if call, ok := es.X.(*ast.CallExpr); ok {
				if fo, ok := objOf(pp.TypesInfo, call.Fun).(*types.Func); ok && fo.Pkg() == pp.Types {
					if hd := declOfFunc(pp, fo); hd != nil && hd.Body != nil && hd.Recv != nil {
						initStmts = append(initStmts, hd.Body.List...)
					}
				}
			}
		}
	}
	run := func() {
		env.changed = false
		for _, st := range initStmts {
			as, ok := st.(*ast.AssignStmt)
			if !ok || len(as.Lhs) != 1 || len(as.Rhs) != 1 {
				continue
			}
			sel, ok := as.Lhs[0].(*ast.SelectorExpr)
			if !ok {
				continue
			}
			if t := pp.TypesInfo.TypeOf(as.Rhs[0]); t == nil || !isCombParser(t) {
				continue
			}
			s, ok := env.evalParser(as.Rhs[0])
			if !ok {
				continue
			}
			if old := env.fields[sel.Sel.Name]; old.key() != s.union(old).key() {
				env.fields[sel.Sel.Name] = s.union(old)
				env.changed = true
			}
		}
		for _, fd := range methods {
			var ret *ast.ReturnStmt
			for _, st := range fd.Body.List {
				if r, ok := st.(*ast.ReturnStmt); ok {
					ret = r
				}
			}
			if ret == nil || len(ret.Results) != 1 {
				continue
			}
			call, ok := ast.Unparen(ret.Results[0]).(*ast.CallExpr)
			if !ok {
				continue
			}
			s, ok := env.evalParser(call.Fun) // <parser expr>(in)
			if !ok {
				continue
			}
			if old := env.methods[fd.Name.Name]; old.key() != s.union(old).key() {
				env.methods[fd.Name.Name] = s.union(old)
				env.changed = true
			}
		}
	}
	for i := 0; i < 12; i++ {
		run()
		if !env.changed {
			break
		}
	}
	if env.changed {
		c.Undecided(rule, "combinator shapes of "+mapperPkg, newFn.Pos(), "shape inference did not reach a fixpoint")
		return env.covered
	}
	env.record = true
	run()
	// the entry point's assertion on the final result
	top := env.fields["regex"]
	if parse := FuncDecl(mp, "", "Parse"); parse != nil {
		c.Analysed(funcKey(mp, parse))
		ast.Inspect(parse.Body, func(n ast.Node) bool {
			ta, ok := n.(*ast.TypeAssertExpr)
			if !ok || ta.Type == nil {
				return true
			}
			if sel, ok := ast.Unparen(ta.X).(*ast.SelectorExpr); ok && sel.Sel.Name == "Val" {
				env.assertShape(mp, ta, top, "result of the top-level regex parser")
			}
			return true
		})
	}
	shapes := map[string]string{}
	for k, v := range env.fields {
		shapes[k] = v.key()
	}
	for k, v := range env.methods {
		shapes[k+"()"] = v.key()
	}
	c.Extra("combinator_shapes_"+mapperPkg[strings.LastIndex(mapperPkg, "/")+1:], shapes)
	return env.covered
}

// shapeIncomplete: mapper packages (path relative to the module) for which some combinator expression was not understood
var shapeIncomplete = map[string]bool{}

func isCombParser(t types.Type) bool {
	p, n := namedTypeName(t)
	return p == depPath+"/parser/combinator" && n == "Parser"
}

// evalParser evaluates a parser-valued expression to the shape of the results it can produce.
func (env *combEnv) evalParser(e ast.Expr) (shape, bool) {
	info := env.pp.TypesInfo
	e = ast.Unparen(e)
	switch v := e.(type) {
	case *ast.SelectorExpr:
		// p.field or p.method
		if _, isRecv := ast.Unparen(v.X).(*ast.Ident); isRecv {
			if o, ok := info.Uses[v.Sel].(*types.Var); ok && o.IsField() {
				return env.fields[v.Sel.Name], true
			}
			if _, ok := info.Uses[v.Sel].(*types.Func); ok {
				return env.methods[v.Sel.Name], true
			}
		}
	case *ast.CallExpr:
		// conversion comb.Parser(x)
		if tv, ok := info.Types[v.Fun]; ok && tv.IsType() && len(v.Args) == 1 {
			return env.evalParser(v.Args[0])
		}
		if sel, ok := v.Fun.(*ast.SelectorExpr); ok {
			fn, _ := info.Uses[sel.Sel].(*types.Func)
			if fn != nil && fn.Pkg() != nil && fn.Pkg().Path() == depPath+"/parser/combinator" {
				sig := fn.Type().(*types.Signature)
				if sig.Recv() == nil {
					switch fn.Name() {
					case "ExpectRune", "ExpectRuneIn", "ExpectRuneInRange":
						return typeShape(types.Typ[types.Rune]), true
					case "ExpectString":
						return typeShape(types.Typ[types.String]), true
					case "ExpectRunes":
						return typeShape(types.NewSlice(types.Typ[types.Rune])), true
					}
					return shape{}, false
				}
				base, ok := env.evalParser(sel.X)
				if !ok {
					return shape{}, false
				}
				switch fn.Name() {
				case "CONCAT":
					elems := []shape{base}
					for _, a := range v.Args {
						s, ok := env.evalParser(a)
						if !ok {
							return shape{}, false
						}
						elems = append(elems, s)
					}
					// an operand that cannot succeed yet (fixpoint in progress) makes the list impossible
					for _, el := range elems {
						if len(el.alts) == 0 {
							return shape{}, true
						}
					}
					return shape{[]salt{{kind: "list", elems: elems}}}, true
				case "ALT":
					out := base
					for _, a := range v.Args {
						s, ok := env.evalParser(a)
						if !ok {
							return shape{}, false
						}
						out = out.union(s)
					}
					return out, true
				case "OPT":
					return base.union(shape{[]salt{{kind: "empty"}}}), true
				case "REP1":
					if len(base.alts) == 0 {
						return shape{}, true
					}
					b := base
					return shape{[]salt{{kind: "rep", elem: &b}}}, true
				case "REP":
					if len(base.alts) == 0 {
						return shape{[]salt{{kind: "empty"}}}, true
					}
					b := base
					return shape{[]salt{{kind: "rep", elem: &b}, {kind: "empty"}}}, true
				case "Bind":
					// only comb.ExcludeRunes is used: it passes the result through
					if call, ok := ast.Unparen(v.Args[0]).(*ast.CallExpr); ok {
						if f2, ok := objOf(info, call.Fun).(*types.Func); ok && f2.Name() == "ExcludeRunes" {
							return base, true
						}
					}
					return shape{}, false
				case "Map":
					return env.applyMapper(v.Args[0], base)
				}
			}
		}
	}
	if env.record {
		env.c.Undecided(env.rule, "parser expression "+types.ExprString(e), e.Pos(), "combinator expression not understood")
		for k, v := range map[string]*packages.Package{"": env.mp} {
			_ = k
			if v != nil {
				shapeIncomplete[strings.TrimPrefix(v.PkgPath, modPath+"/")] = true
			}
		}
	}
	return shape{}, false
}

// applyMapper resolves the mapper function and abstractly evaluates it on the input shape.
func (env *combEnv) applyMapper(f ast.Expr, in shape) (shape, bool) {
	info := env.pp.TypesInfo
	var fd *ast.FuncDecl
	var pkg *packages.Package
	switch v := ast.Unparen(f).(type) {
	case *ast.Ident:
		if fn, ok := info.Uses[v].(*types.Func); ok {
			pkg = env.pp
			fd = FuncDecl(env.pp, "", fn.Name())
		}
	case *ast.SelectorExpr:
		// p.m.ToX: interface method -> concrete method in the mapper package
		pkg = env.mp
		fd = FuncDecl(env.mp, env.mappers.Obj().Name(), v.Sel.Name)
	}
	if fd == nil {
		if env.record {
			env.c.Undecided(env.rule, "mapper "+types.ExprString(f), f.Pos(), "mapper function not found")
		}
		return shape{}, false
	}
	if len(in.alts) == 0 {
		return shape{}, true
	}
	return env.evalMapper(pkg, fd, in), true
}

type mvars struct {
	res  map[types.Object]shape // comb.Result variables -> shape of .Val
	list map[types.Object]shape // comb.List variables -> list/rep alternatives
}

func elemAt(s shape, k int) (shape, bool) {
	var out shape
	ok := true
	for _, a := range s.alts {
		switch a.kind {
		case "list":
			if k < len(a.elems) {
				out = out.union(a.elems[k])
			} else {
				ok = false
			}
		case "rep":
			if k == 0 {
				out = out.union(*a.elem)
			} else {
				ok = false
			}
		default:
			ok = false
		}
	}
	return out, ok
}

func allElems(s shape, from int) shape {
	var out shape
	for _, a := range s.alts {
		switch a.kind {
		case "list":
			for i := from; i < len(a.elems); i++ {
				out = out.union(a.elems[i])
			}
		case "rep":
			out = out.union(*a.elem)
		}
	}
	return out
}

func (env *combEnv) assertShape(p *packages.Package, ta *ast.TypeAssertExpr, s shape, what string) {
	T := p.TypesInfo.TypeOf(ta.Type)
	env.covered[ta.Pos()] = true
	if !env.record {
		return
	}
	var bad []string
	for _, a := range s.alts {
		ok := false
		switch a.kind {
		case "type":
			if _, isIface := T.Underlying().(*types.Interface); isIface {
				ok = types.Implements(a.typ, T.Underlying().(*types.Interface))
			} else {
				ok = types.Identical(a.typ, T)
			}
		case "iface":
			// a value of interface static type: holds if that interface is (or implies) the asserted one; nil-ness is R14.4's concern
			if ti, isIface := T.Underlying().(*types.Interface); isIface {
				ok = types.Identical(a.typ, T) || types.Implements(a.typ, ti)
			}
		case "list", "rep":
			_, n := namedTypeName(T)
			ok = n == "List"
		case "empty":
			_, n := namedTypeName(T)
			ok = n == "Empty"
		}
		if !ok {
			bad = append(bad, a.key())
		}
	}
	key := fmt.Sprintf("%s: %s.(%s)", posFunc(p, ta.Pos()), types.ExprString(ta.X), types.TypeString(T, types.RelativeTo(p.Types)))
	if len(s.alts) == 0 {
		env.c.Undecided(env.rule, key, ta.Pos(), "no shape reaches this assertion ("+what+")")
		return
	}
	env.c.Check(env.rule, key, ta.Pos(), len(bad) == 0,
		fmt.Sprintf("%s can have the form %v, which is not %s: the unchecked assertion panics", what, bad, types.TypeString(T, types.RelativeTo(p.Types))), strings.Join(bad, " "))
}

func posFunc(p *packages.Package, pos token.Pos) string {
	name := "?"
	AllFuncDecls(p, func(fd *ast.FuncDecl) {
		if fd.Pos() <= pos && pos <= fd.End() {
			name = funcKey(p, fd)
		}
	})
	return name
}

// evalMapper abstractly evaluates one mapper on an input shape and returns the shape of its successful results.
func (env *combEnv) evalMapper(p *packages.Package, fd *ast.FuncDecl, in shape) shape {
	info := p.TypesInfo
	env.c.Analysed(funcKey(p, fd))
	k := funcKey(p, fd)
	env.mapperIn[k] = env.mapperIn[k].union(in)
	if fd.Type.Params == nil || len(fd.Type.Params.List) == 0 || len(fd.Type.Params.List[0].Names) == 0 {
		return shape{}
	}
	param := info.Defs[fd.Type.Params.List[0].Names[0]]
	vs := &mvars{res: map[types.Object]shape{param: in}, list: map[types.Object]shape{}}
	var out shape
	commaOK := map[*ast.TypeAssertExpr]bool{}
	ast.Inspect(fd.Body, func(n ast.Node) bool {
		switch s := n.(type) {
		case *ast.AssignStmt:
			if len(s.Lhs) == 2 && len(s.Rhs) == 1 {
				if ta, ok := ast.Unparen(s.Rhs[0]).(*ast.TypeAssertExpr); ok {
					commaOK[ta] = true
				}
			}
		case *ast.ValueSpec:
			if len(s.Names) == 2 && len(s.Values) == 1 {
				if ta, ok := ast.Unparen(s.Values[0]).(*ast.TypeAssertExpr); ok {
					commaOK[ta] = true
				}
			}
		case *ast.TypeSwitchStmt:
			ast.Inspect(s.Assign, func(m ast.Node) bool {
				if ta, ok := m.(*ast.TypeAssertExpr); ok {
					commaOK[ta] = true
				}
				return true
			})
		}
		return true
	})
	// shape of a comb.Result-valued expression
	var resShape func(e ast.Expr) (shape, bool)
	resShape = func(e ast.Expr) (shape, bool) {
		e = ast.Unparen(e)
		switch v := e.(type) {
		case *ast.Ident:
			s, ok := vs.res[info.Uses[v]]
			return s, ok
		case *ast.IndexExpr:
			if id, ok := ast.Unparen(v.X).(*ast.Ident); ok {
				if ls, ok := vs.list[info.Uses[id]]; ok {
					if kk, ok := constInt(info, v.Index); ok {
						el, okk := elemAt(ls, int(kk))
						env.covered[v.Pos()] = true
						if env.record {
							env.c.Check(env.rule, fmt.Sprintf("%s: %s within the list", k, types.ExprString(v)), v.Pos(), okk,
								fmt.Sprintf("the list can have the form %s: index %d is out of range", ls.key(), kk))
						}
						return el, true
					}
					return allElems(ls, 0), true
				}
			}
		}
		return shape{}, false
	}
	// shape of the .Val of a Result expression
	valShape := func(e ast.Expr) (shape, bool) {
		sel, ok := ast.Unparen(e).(*ast.SelectorExpr)
		if !ok || sel.Sel.Name != "Val" {
			return shape{}, false
		}
		return resShape(sel.X)
	}
	var listShape func(e ast.Expr) (shape, bool)
	listShape = func(e ast.Expr) (shape, bool) {
		e = ast.Unparen(e)
		switch v := e.(type) {
		case *ast.Ident:
			s, ok := vs.list[info.Uses[v]]
			return s, ok
		case *ast.TypeAssertExpr:
			if s, ok := valShape(v.X); ok {
				return s, true
			}
		case *ast.SliceExpr:
			base, ok := listShape(v.X)
			if !ok {
				return shape{}, false
			}
			from := 0
			if v.Low != nil {
				if kk, ok := constInt(info, v.Low); ok {
					from = int(kk)
				}
			}
			env.covered[v.Pos()] = true
			okLen := true
			// l[a:b] with a constant b: in range when every form of the list has at least b elements
			hi, hiKnown := -1, v.High == nil
			if v.High != nil {
				if kk, ok := constInt(info, v.High); ok && int(kk) >= from {
					hi, hiKnown = int(kk), true
				}
			}
			for _, a := range base.alts {
				switch a.kind {
				case "list":
					if from > len(a.elems) || (hi >= 0 && hi > len(a.elems)) {
						okLen = false
					}
				case "rep":
					if from > 1 || (hi >= 0 && hi > 1) {
						okLen = false
					}
				default:
					okLen = false
				}
			}
			if env.record {
				env.c.Check(env.rule, fmt.Sprintf("%s: %s within the list", k, types.ExprString(v)), v.Pos(), okLen && hiKnown,
					fmt.Sprintf("the list can have the form %s: the slice bounds can be out of range", base.key()))
			}
			rest := allElems(base, from)
			return shape{[]salt{{kind: "rep", elem: &rest}}}, true
		}
		return shape{}, false
	}
	assign := func(lhs []ast.Expr, rhs ast.Expr) {
		objOfLhs := func(e ast.Expr) types.Object {
			id, ok := e.(*ast.Ident)
			if !ok || id.Name == "_" {
				return nil
			}
			if o := info.Defs[id]; o != nil {
				return o
			}
			return info.Uses[id]
		}
		rhs = ast.Unparen(rhs)
		// X.Get(K)
		if call, ok := rhs.(*ast.CallExpr); ok {
			if sel, ok := call.Fun.(*ast.SelectorExpr); ok && sel.Sel.Name == "Get" && len(call.Args) == 1 {
				if base, ok := resShape(sel.X); ok {
					if kk, ok := constInt(info, call.Args[0]); ok {
						el, okk := elemAt(base, int(kk))
						if !okk {
							// Get returns the zero Result (Val == nil) when the value is not a list or too short
							el = el.union(shape{[]salt{{kind: "type", typ: types.Typ[types.UntypedNil]}}})
						}
						if o := objOfLhs(lhs[0]); o != nil {
							vs.res[o] = el
						}
						return
					}
				}
			}
		}
		if ta, ok := rhs.(*ast.TypeAssertExpr); ok && ta.Type != nil {
			if s, ok := valShape(ta.X); ok {
				_, tn := namedTypeName(info.TypeOf(ta.Type))
				if tn == "List" {
					var ls shape
					for _, a := range s.alts {
						if a.kind == "list" || a.kind == "rep" {
							ls.alts = append(ls.alts, a)
						}
					}
					if o := objOfLhs(lhs[0]); o != nil {
						vs.list[o] = ls
					}
				}
			}
			return
		}
		if s, ok := resShape(rhs); ok {
			if o := objOfLhs(lhs[0]); o != nil {
				vs.res[o] = s
			}
		}
	}
	matches := func(a salt, T types.Type) bool {
		_, tn := namedTypeName(T)
		switch a.kind {
		case "list", "rep":
			return tn == "List"
		case "empty":
			return tn == "Empty"
		case "type":
			if ti, ok := T.Underlying().(*types.Interface); ok {
				return types.Implements(a.typ, ti)
			}
			return types.Identical(a.typ, T)
		case "iface":
			return true // unknown dynamic type: may match
		}
		return false
	}
	// resultVarOf: X in X.Val
	resultVarOf := func(e ast.Expr) types.Object {
		sel, ok := ast.Unparen(e).(*ast.SelectorExpr)
		if !ok || sel.Sel.Name != "Val" {
			return nil
		}
		id, ok := ast.Unparen(sel.X).(*ast.Ident)
		if !ok {
			return nil
		}
		return info.Uses[id]
	}
	checkExprs := func(n ast.Node) {
		ast.Inspect(n, func(m ast.Node) bool {
			switch x := m.(type) {
			case *ast.FuncLit:
				return false
			case *ast.BlockStmt:
				return false // nested blocks are walked with their own (possibly narrowed) environment
			case *ast.IndexExpr:
				resShape(x) // records the bound check when x indexes a tracked list
			case *ast.SliceExpr:
				listShape(x)
			case *ast.TypeAssertExpr:
				if x.Type == nil {
					return true
				}
				s, ok := valShape(x.X)
				if !ok {
					return true
				}
				if commaOK[x] {
					env.covered[x.Pos()] = true
					return true
				}
				env.assertShape(p, x, s, "the value asserted")
			case *ast.ReturnStmt:
				if len(x.Results) != 2 {
					return true
				}
				if tv, ok := info.Types[x.Results[1]]; ok && tv.Value != nil && tv.Value.String() == "false" {
					return true
				}
				r0 := ast.Unparen(x.Results[0])
				if s, ok := resShape(r0); ok {
					out = out.union(s)
					return true
				}
				if cl, ok := r0.(*ast.CompositeLit); ok {
					fs, _ := compositeFields(cl)
					if v := fs["Val"]; v != nil {
						if s, ok := valShape(v); ok {
							out = out.union(s)
						} else if t := info.TypeOf(v); t != nil {
							out = out.union(typeShape(t))
						}
					} else {
						out = out.union(shape{[]salt{{kind: "type", typ: types.Typ[types.UntypedNil]}}})
					}
				}
			}
			return true
		})
	}
	var walk func(stmts []ast.Stmt)
	withNarrow := func(obj types.Object, T types.Type, positive bool, body func()) {
		if obj == nil {
			body()
			return
		}
		old, had := vs.res[obj]
		if had {
			var ns shape
			for _, a := range old.alts {
				if matches(a, T) == positive || (a.kind == "iface" && !positive) {
					ns.alts = append(ns.alts, a)
				}
			}
			vs.res[obj] = ns
		}
		body()
		if had {
			vs.res[obj] = old
		}
	}
	walk = func(stmts []ast.Stmt) {
		for si, st := range stmts {
			_ = si
			switch s := st.(type) {
			case *ast.AssignStmt:
				checkExprs(s)
				if len(s.Rhs) == 1 {
					assign(s.Lhs, s.Rhs[0])
				} else if len(s.Rhs) == len(s.Lhs) {
					for i := range s.Rhs {
						assign(s.Lhs[i:i+1], s.Rhs[i])
					}
				}
			case *ast.DeclStmt:
				checkExprs(s)
				if gd, ok := s.Decl.(*ast.GenDecl); ok {
					for _, sp := range gd.Specs {
						if vsp, ok := sp.(*ast.ValueSpec); ok && len(vsp.Values) == 1 && len(vsp.Names) >= 1 {
							lhs := make([]ast.Expr, len(vsp.Names))
							for i, n := range vsp.Names {
								lhs[i] = n
							}
							assign(lhs, vsp.Values[0])
						}
					}
				}
			case *ast.IfStmt:
				var nobj types.Object
				var nT types.Type
				negated := false
				if init, ok := s.Init.(*ast.AssignStmt); ok && len(init.Lhs) == 2 && len(init.Rhs) == 1 {
					if ta, ok := ast.Unparen(init.Rhs[0]).(*ast.TypeAssertExpr); ok && ta.Type != nil {
						if okid, ok := init.Lhs[1].(*ast.Ident); ok {
							if cid, ok := ast.Unparen(s.Cond).(*ast.Ident); ok && info.Uses[cid] == info.Defs[okid] {
								nobj, nT = resultVarOf(ta.X), info.TypeOf(ta.Type)
							}
							// if _, ok := x.(T); !ok { return ... }: the body runs for the other forms, what follows for T
							if u, ok := ast.Unparen(s.Cond).(*ast.UnaryExpr); ok && u.Op == token.NOT {
								if cid, ok := ast.Unparen(u.X).(*ast.Ident); ok && info.Uses[cid] == info.Defs[okid] {
									nobj, nT = resultVarOf(ta.X), info.TypeOf(ta.Type)
									negated = true
								}
							}
						}
					}
				}
				if s.Init != nil {
					walk([]ast.Stmt{s.Init})
				}
				checkExprs(s.Cond)
				if negated {
					withNarrow(nobj, nT, false, func() { walk(s.Body.List) })
					if s.Else != nil {
						withNarrow(nobj, nT, true, func() { walk([]ast.Stmt{s.Else}) })
					}
					// a body that always leaves the function narrows everything after the statement
					if s.Else == nil && len(s.Body.List) > 0 {
						if _, isRet := s.Body.List[len(s.Body.List)-1].(*ast.ReturnStmt); isRet {
							rest := stmts[si+1:]
							withNarrow(nobj, nT, true, func() { walk(rest) })
							return
						}
					}
					break
				}
				withNarrow(nobj, nT, true, func() { walk(s.Body.List) })
				if s.Else != nil {
					withNarrow(nobj, nT, false, func() { walk([]ast.Stmt{s.Else}) })
				}
			case *ast.BlockStmt:
				walk(s.List)
			case *ast.RangeStmt:
				checkExprs(s.X)
				if ls, ok := listShape(s.X); ok && s.Value != nil {
					if id, ok := s.Value.(*ast.Ident); ok {
						if o := info.Defs[id]; o != nil {
							vs.res[o] = allElems(ls, 0)
						}
					}
				}
				walk(s.Body.List)
			case *ast.ForStmt:
				if s.Init != nil {
					walk([]ast.Stmt{s.Init})
				}
				if s.Cond != nil {
					checkExprs(s.Cond)
				}
				walk(s.Body.List)
				if s.Post != nil {
					walk([]ast.Stmt{s.Post})
				}
			case *ast.SwitchStmt:
				if s.Init != nil {
					walk([]ast.Stmt{s.Init})
				}
				if s.Tag != nil {
					checkExprs(s.Tag)
				}
				for _, cc := range s.Body.List {
					cl := cc.(*ast.CaseClause)
					for _, e := range cl.List {
						checkExprs(e)
					}
					walk(cl.Body)
				}
			case *ast.TypeSwitchStmt:
				for _, cc := range s.Body.List {
					walk(cc.(*ast.CaseClause).Body)
				}
			default:
				checkExprs(st)
			}
		}
	}
	walk(fd.Body.List)
	return out
}
