package main

import (
	"fmt"
	"go/token"
	"go/types"
	"sort"
	"strings"

	"golang.org/x/tools/go/ssa"
)

// Where does a number come from? (R14.8)
//
// A loop that runs as often as a number says is bounded by the input's length only if that number is: a constant, a
// length, or something cut down to one of those (min(x, K), or an assignment under `if x > K`). A number that was written
// in the input (it arrives as a dynamic value and is recovered with a type assertion: x.(int), x.(rune), or a field of an
// asserted struct) can be astronomically larger than the input is long: a{999999999} has 12 characters.
//
// origin flags, joined over everything that can flow into the value:
const (
	oBounded = 1 << iota // constant, len/cap, clamped
	oInput               // a number written in the input
	oUnknown             // flow not followed
)

type numOrigins struct {
	c       *Ctx
	callers map[*ssa.Function][]ssa.CallInstruction
	memo    map[ssa.Value]int
	busy    map[ssa.Value]bool
	why     map[ssa.Value]string
}

func newNumOrigins(c *Ctx) *numOrigins {
	no := &numOrigins{c: c, callers: map[*ssa.Function][]ssa.CallInstruction{}, memo: map[ssa.Value]int{}, busy: map[ssa.Value]bool{}, why: map[ssa.Value]string{}}
	for path, sp := range c.SSAPk {
		if sp == nil || !strings.HasPrefix(path, modPath) {
			continue
		}
		for _, g := range allFuncsOfPkgDeep(sp) {
			allCalls(g, func(call ssa.CallInstruction) {
				if f := call.Common().StaticCallee(); f != nil {
					no.callers[f] = append(no.callers[f], call)
				}
			})
		}
	}
	return no
}

func isIntegerT(t types.Type) bool {
	b, ok := t.Underlying().(*types.Basic)
	return ok && b.Info()&types.IsInteger != 0
}

// of: origin of a scalar or of anything stored in an aggregate (array, struct, slice, pointer to one of them).
func (no *numOrigins) of(v ssa.Value, depth int) int {
	if v == nil {
		return oUnknown
	}
	if r, ok := no.memo[v]; ok {
		return r
	}
	if no.busy[v] || depth > 12 {
		return 0 // a cycle adds nothing of its own
	}
	no.busy[v] = true
	r := no.compute(v, depth)
	delete(no.busy, v)
	no.memo[v] = r
	return r
}

func (no *numOrigins) compute(v ssa.Value, depth int) int {
	switch x := v.(type) {
	case *ssa.Const:
		return oBounded
	case *ssa.Global:
		return oBounded // the module's tables are not input
	case *ssa.Convert:
		return no.of(x.X, depth+1)
	case *ssa.ChangeType:
		return no.of(x.X, depth+1)
	case *ssa.MakeInterface:
		return no.of(x.X, depth+1)
	case *ssa.ChangeInterface:
		return no.of(x.X, depth+1)
	case *ssa.TypeAssert:
		// the dynamic values the combinators hand to the mappers carry what was read from the pattern
		return oInput
	case *ssa.Extract:
		if ta, ok := x.Tuple.(*ssa.TypeAssert); ok && x.Index == 0 {
			_ = ta
			return oInput
		}
		if _, ok := x.Tuple.(*ssa.Next); ok {
			return no.of(x.Tuple.(*ssa.Next).Iter, depth+1)
		}
		return oUnknown
	case *ssa.Range:
		return no.of(x.X, depth+1)
	case *ssa.Call:
		if b, ok := x.Call.Value.(*ssa.Builtin); ok {
			switch b.Name() {
			case "len", "cap":
				return oBounded
			case "min":
				all := 0
				for _, a := range x.Call.Args {
					o := no.of(a, depth+1)
					if o == oBounded {
						return oBounded
					}
					all |= o
				}
				return all
			case "max":
				all := 0
				for _, a := range x.Call.Args {
					all |= no.of(a, depth+1)
				}
				return all
			case "append":
				all := 0
				for _, a := range x.Call.Args {
					all |= no.of(a, depth+1)
				}
				return all
			}
		}
		return oUnknown
	case *ssa.BinOp:
		switch x.Op {
		case token.ADD, token.SUB, token.MUL, token.QUO, token.REM, token.SHL, token.SHR, token.AND, token.OR, token.XOR, token.AND_NOT:
			return no.of(x.X, depth+1) | no.of(x.Y, depth+1)
		}
		return oBounded // a comparison
	case *ssa.UnOp:
		if x.Op == token.MUL {
			return no.ofAddr(x.X, depth+1)
		}
		return no.of(x.X, depth+1)
	case *ssa.Phi:
		all := 0
		for i, e := range x.Edges {
			if no.edgeClamped(x, i, e) {
				all |= oBounded
				continue
			}
			all |= no.of(e, depth+1)
		}
		return all
	case *ssa.Field:
		return no.of(x.X, depth+1)
	case *ssa.Index:
		return no.of(x.X, depth+1)
	case *ssa.Lookup:
		return no.of(x.X, depth+1)
	case *ssa.Slice:
		return no.of(x.X, depth+1)
	case *ssa.Alloc:
		return no.ofAddr(x, depth+1)
	case *ssa.FieldAddr, *ssa.IndexAddr:
		return no.ofAddr(x, depth+1)
	case *ssa.MakeSlice, *ssa.MakeMap:
		return no.storesInto(v, depth+1)
	case *ssa.Parameter:
		f := x.Parent()
		pi := -1
		for i, p := range f.Params {
			if p == x {
				pi = i
			}
		}
		cs := no.callers[f]
		if pi == 0 && f.Signature.Recv() != nil && len(cs) == 0 {
			// a method called through an interface only: the receiver is whatever was boxed with this type anywhere in the module
			all, found := 0, false
			for path, sp := range no.c.SSAPk {
				if sp == nil || !strings.HasPrefix(path, modPath) {
					continue
				}
				for _, g := range allFuncsOfPkgDeep(sp) {
					for _, b := range g.Blocks {
						for _, in := range b.Instrs {
							if mi, ok := in.(*ssa.MakeInterface); ok && types.Identical(mi.X.Type(), x.Type()) {
								found = true
								all |= no.of(mi.X, depth+1)
							}
						}
					}
				}
			}
			if found {
				return all
			}
			return oUnknown
		}
		if pi < 0 || len(cs) == 0 {
			return oUnknown
		}
		all := 0
		for _, call := range cs {
			args := call.Common().Args
			if pi >= len(args) {
				all |= oUnknown
				continue
			}
			all |= no.of(args[pi], depth+1)
		}
		return all
	case *ssa.FreeVar:
		return oUnknown
	}
	return oUnknown
}

// ofAddr: what can be read through this address.
func (no *numOrigins) ofAddr(a ssa.Value, depth int) int {
	switch x := a.(type) {
	case *ssa.Alloc:
		return no.storesInto(x, depth)
	case *ssa.FieldAddr:
		// a field of a struct: whatever is stored into that field of the same base, else the base's origin
		base := x.X
		all, found := 0, false
		if refs := base.Referrers(); refs != nil {
			for _, r := range *refs {
				if fa, ok := r.(*ssa.FieldAddr); ok && fa.Field == x.Field && fa.Referrers() != nil {
					for _, r2 := range *fa.Referrers() {
						if st, ok := r2.(*ssa.Store); ok && st.Addr == ssa.Value(fa) {
							found = true
							all |= no.of(st.Val, depth+1)
						}
					}
				}
			}
		}
		if _, isAlloc := base.(*ssa.Alloc); isAlloc && found {
			return all
		}
		return all | no.of(base, depth+1)
	case *ssa.IndexAddr:
		return no.of(x.X, depth+1)
	case *ssa.Global:
		return oBounded
	}
	return no.of(a, depth+1)
}

// storesInto: everything stored into the object (directly, or into an element or field address derived from it).
func (no *numOrigins) storesInto(obj ssa.Value, depth int) int {
	all, found := 0, false
	var visit func(a ssa.Value, d int)
	visit = func(a ssa.Value, d int) {
		if d > 4 || a.Referrers() == nil {
			return
		}
		for _, r := range *a.Referrers() {
			switch u := r.(type) {
			case *ssa.Store:
				if u.Addr == a {
					found = true
					all |= no.of(u.Val, depth+1)
				}
			case *ssa.IndexAddr:
				if u.X == a {
					visit(u, d+1)
				}
			case *ssa.FieldAddr:
				if u.X == a {
					visit(u, d+1)
				}
			case *ssa.Slice:
				if u.X == a {
					visit(u, d+1)
				}
			}
		}
	}
	visit(obj, 0)
	if !found {
		return oUnknown
	}
	return all
}

// edgeClamped: the value arrives at the phi on an edge on which a comparison has bounded it from above by something bounded
// (the untaken side of `if x > K { x = K }`).
func (no *numOrigins) edgeClamped(phi *ssa.Phi, i int, e ssa.Value) bool {
	pred := phi.Block().Preds[i]
	conds := controlConds(pred)
	if ifi, ok := pred.Instrs[len(pred.Instrs)-1].(*ssa.If); ok {
		conds = append(conds, cond{ifi.Cond, pred.Succs[0] == phi.Block()})
	}
	for _, cd := range conds {
		bo, ok := cd.v.(*ssa.BinOp)
		if !ok {
			continue
		}
		var other ssa.Value
		var upper bool // e is bounded from above when the condition has this polarity
		switch {
		case bo.X == e && (bo.Op == token.LSS || bo.Op == token.LEQ):
			other, upper = bo.Y, true
		case bo.X == e && (bo.Op == token.GTR || bo.Op == token.GEQ):
			other, upper = bo.Y, false
		case bo.Y == e && (bo.Op == token.GTR || bo.Op == token.GEQ):
			other, upper = bo.X, true
		case bo.Y == e && (bo.Op == token.LSS || bo.Op == token.LEQ):
			other, upper = bo.X, false
		default:
			continue
		}
		if upper == cd.pol && no.of(other, 0) == oBounded {
			return true
		}
	}
	return false
}

// checkLoopBounds (R14.8): every counting loop of reachable module code whose bound is a number written in the input.
func checkLoopBounds(c *Ctx, rule string, scope []*ssa.Function) {
	no := newNumOrigins(c)
	type finding struct {
		key, detail string
		pos         token.Pos
		flags       int
	}
	var fs []finding
	nLoops := 0
	for _, f := range scope {
		for _, b := range f.Blocks {
			ifi, ok := b.Instrs[len(b.Instrs)-1].(*ssa.If)
			if !ok {
				continue
			}
			bo, ok := ifi.Cond.(*ssa.BinOp)
			if !ok {
				continue
			}
			switch bo.Op {
			case token.LSS, token.LEQ, token.GTR, token.GEQ:
			default:
				continue
			}
			// a counter: a phi of this block (or a load of a local) that is advanced by a constant on the way back here
			counter := func(v ssa.Value) bool {
				ph, ok := v.(*ssa.Phi)
				if !ok || ph.Block() != b {
					return false
				}
				for _, e := range ph.Edges {
					if add, ok := e.(*ssa.BinOp); ok && (add.Op == token.ADD || add.Op == token.SUB) {
						if add.X == ssa.Value(ph) {
							if _, isK := add.Y.(*ssa.Const); isK {
								return true
							}
						}
					}
				}
				return false
			}
			var bound ssa.Value
			switch {
			case counter(bo.X) && isIntegerT(bo.X.Type()):
				bound = bo.Y
			case counter(bo.Y) && isIntegerT(bo.Y.Type()):
				bound = bo.X
			default:
				continue
			}
			nLoops++
			o := no.of(bound, 0)
			desc := describeVal(bound)
			if len(desc) > 1 && desc[0] == 't' && strings.Trim(desc[1:], "0123456789") == "" {
				desc = "a computed value"
			}
			key := fmt.Sprintf("%s: loop bounded by %s", shortFn(f), desc)
			fs = append(fs, finding{key, "", ifi.Pos(), o})
			if !ifi.Pos().IsValid() {
				fs[len(fs)-1].pos = bo.Pos()
			}
		}
	}
	sort.Slice(fs, func(i, j int) bool { return fs[i].key < fs[j].key })
	seen := map[string]bool{}
	// several loops of one function with the same description: the worst outcome speaks for the key
	worst := map[string]int{}
	for _, x := range fs {
		worst[x.key] |= x.flags
	}
	for _, x := range fs {
		if seen[x.key] {
			continue
		}
		seen[x.key] = true
		x.flags = worst[x.key]
		switch {
		case x.flags&oInput != 0:
			c.Fail(rule, x.key, x.pos, "the number of iterations is a number written in the input (it reaches the loop from a type assertion on a parsed value without being cut down to a constant or a length): a few characters of input make the loop run, and allocate, billions of times, and the process is killed for lack of memory instead of returning an error",
				"a pattern with a huge count or character code, e.g. a{999999999} or [a-\\x7FFFFFFF]")
		case x.flags&oUnknown != 0:
			c.Undecided(rule, x.key, x.pos, "where the bound comes from was not followed to its end")
		default:
			c.Pass(rule, x.key, x.pos, "")
		}
	}
	c.Extra("counting_loops_examined", nLoops)
}

// checkDigitAccumulation: a number is read digit by digit as acc = acc*10 + d over a list of digits whose length the
// pattern decides. Without a test of the accumulator inside the loop the value wraps around silently: a count of twenty
// digits becomes some other count, or a negative one, and the pattern is accepted with a meaning nobody wrote.
func checkDigitAccumulation(c *Ctx, rule string, pkgPath string) {
	sp := c.SSAPk[modPath+"/"+pkgPath]
	if sp == nil {
		c.Lost(rule, "SSA of "+pkgPath)
		return
	}
	n := 0
	for _, f := range allFuncsOfPkgDeep(sp) {
		for _, b := range f.Blocks {
			for _, in := range b.Instrs {
				ph, ok := in.(*ssa.Phi)
				if !ok || !isIntegerT(ph.Type()) {
					continue
				}
				decimal := false
				for _, e := range ph.Edges {
					add, ok := e.(*ssa.BinOp)
					if !ok || add.Op != token.ADD {
						continue
					}
					for _, o := range []ssa.Value{add.X, add.Y} {
						if mul, ok := o.(*ssa.BinOp); ok && mul.Op == token.MUL {
							k, isK := mul.Y.(*ssa.Const)
							if mul.X == ssa.Value(ph) && isK && k.Value != nil && k.Int64() == 10 {
								decimal = true
							}
							k, isK = mul.X.(*ssa.Const)
							if mul.Y == ssa.Value(ph) && isK && k.Value != nil && k.Int64() == 10 {
								decimal = true
							}
						}
					}
				}
				if !decimal {
					continue
				}
				n++
				guarded := false
				for _, r := range *ph.Referrers() {
					if bo, ok := r.(*ssa.BinOp); ok {
						switch bo.Op {
						case token.LSS, token.LEQ, token.GTR, token.GEQ:
							guarded = true
						}
					}
				}
				c.Check(rule, shortFn(f)+": a decimal number is accumulated under an overflow test", ph.Pos(), guarded,
					"acc = acc*10 + digit runs over as many digits as the pattern has, and nothing compares the accumulator with a limit: a count that does not fit into an int wraps around (a{18446744073709551615} is accepted as a{-1})",
					"a{18446744073709551615}")
			}
		}
	}
	if n == 0 {
		c.Undecided(rule, "a decimal number is accumulated under an overflow test", token.NoPos, "no accumulation of the form acc*10 + digit was found in "+pkgPath)
	}
}
