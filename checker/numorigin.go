package main

import (
	"fmt"
	"os"
	"go/token"
	"go/types"
	"sort"
	"strings"

	"golang.org/x/tools/go/ssa"
)

// Where does a number come from? (R14.8)
//
// A loop that runs as often as a number says is bounded by the input's length only if that number is: a constant, a
// length, or something cut down to one of those (min(x, K), or an assignment under `if x > K`). A number that was written
// in the input (it arrives as a dynamic value and is recovered with a type assertion: x.(int), x.(rune), or a field of an
// asserted struct) can be astronomically larger than the input is long: a{999999999} has 12 characters.
//
// origin flags, joined over everything that can flow into the value:
const (
	oBounded = 1 << iota // constant, len/cap, clamped
	oInput               // a number written in the input
	oUnknown             // flow not followed
	oRel                 // bounded from above by another number that is itself not bounded (an order between two inputs)
)

type numKey struct {
	v   ssa.Value
	sel int
}

type numOrigins struct {
	c       *Ctx
	callers map[*ssa.Function][]ssa.CallInstruction
	memo    map[numKey]int
	sel     int // when >= 0: only this element of an array of scalars is of interest
	busy    map[ssa.Value]bool
	why     map[ssa.Value]string
	cuts    int
	// bookkeeping for the relational case: the phi edges found bounded only by another number, and every phi visited
	relEdges []relEdge
	lastOther ssa.Value
	inputs    map[string]bool // asserted types of the input numbers met
	phis     map[*ssa.Phi]bool
}

type relEdge struct {
	blk   *ssa.BasicBlock
	k     int
	other ssa.Value
}

func newNumOrigins(c *Ctx) *numOrigins {
	no := &numOrigins{c: c, callers: map[*ssa.Function][]ssa.CallInstruction{}, memo: map[numKey]int{}, sel: -1, phis: map[*ssa.Phi]bool{}, busy: map[ssa.Value]bool{}, why: map[ssa.Value]string{}}
	for path, sp := range c.SSAPk {
		if sp == nil || !strings.HasPrefix(path, modPath) {
			continue
		}
		for _, g := range allFuncsOfPkgDeep(sp) {
			allCalls(g, func(call ssa.CallInstruction) {
				if f := call.Common().StaticCallee(); f != nil {
					no.callers[f] = append(no.callers[f], call)
				}
			})
		}
	}
	return no
}

func isIntegerT(t types.Type) bool {
	b, ok := t.Underlying().(*types.Basic)
	return ok && b.Info()&types.IsInteger != 0
}

// of: origin of a scalar or of anything stored in an aggregate (array, struct, slice, pointer to one of them).
func (no *numOrigins) of(v ssa.Value, depth int) int {
	if v == nil {
		return oUnknown
	}
	if r, ok := no.memo[numKey{v, no.sel}]; ok {
		return r
	}
	if no.busy[v] {
		no.cuts++
		return 0 // a cycle adds nothing of its own
	}
	if depth > 40 {
		no.cuts++
		return oUnknown
	}
	no.busy[v] = true
	before := no.cuts
	r := no.compute(v, depth)
	delete(no.busy, v)
	if no.cuts == before {
		no.memo[numKey{v, no.sel}] = r // a result computed below a cut is partial: it is not remembered
	}
	return r
}

func (no *numOrigins) compute(v ssa.Value, depth int) int {
	switch x := v.(type) {
	case *ssa.Const:
		return oBounded
	case *ssa.Global:
		return oBounded // the module's tables are not input
	case *ssa.Convert:
		return no.of(x.X, depth+1)
	case *ssa.ChangeType:
		return no.of(x.X, depth+1)
	case *ssa.MakeInterface:
		return no.of(x.X, depth+1)
	case *ssa.ChangeInterface:
		return no.of(x.X, depth+1)
	case *ssa.TypeAssert:
		// the dynamic values the combinators hand to the mappers carry what was read from the pattern
		no.noteInput(x.AssertedType)
		return oInput
	case *ssa.Extract:
		if ta, ok := x.Tuple.(*ssa.TypeAssert); ok && x.Index == 0 {
			no.noteInput(ta.AssertedType)
			return oInput
		}
		if _, ok := x.Tuple.(*ssa.Next); ok {
			return no.of(x.Tuple.(*ssa.Next).Iter, depth+1)
		}
		return oUnknown
	case *ssa.Range:
		return no.of(x.X, depth+1)
	case *ssa.Call:
		if b, ok := x.Call.Value.(*ssa.Builtin); ok {
			switch b.Name() {
			case "len", "cap":
				return oBounded
			case "min":
				all := 0
				for _, a := range x.Call.Args {
					o := no.of(a, depth+1)
					if o == oBounded {
						return oBounded
					}
					all |= o
				}
				return all
			case "max":
				all := 0
				for _, a := range x.Call.Args {
					all |= no.of(a, depth+1)
				}
				return all
			case "append":
				all := 0
				for _, a := range x.Call.Args {
					all |= no.of(a, depth+1)
				}
				return all
			}
		}
		// a function of the module: what it returns (a value returned under a comparison that bounds it from above is bounded)
		if g := x.Call.StaticCallee(); g != nil && len(g.Blocks) > 0 && strings.HasPrefix(fnPkgPath(g), modPath) && g.Signature.Results().Len() == 1 {
			all, found := 0, false
			for _, b := range g.Blocks {
				ret, ok := b.Instrs[len(b.Instrs)-1].(*ssa.Return)
				if !ok || len(ret.Results) != 1 {
					continue
				}
				found = true
				if no.boundedAt(b, ret.Results[0]) {
					all |= oBounded
					continue
				}
				all |= no.of(ret.Results[0], depth+1)
			}
			if found {
				return all
			}
		}
		return oUnknown
	case *ssa.BinOp:
		switch x.Op {
		case token.ADD, token.SUB, token.MUL, token.QUO, token.REM, token.SHL, token.SHR, token.AND, token.OR, token.XOR, token.AND_NOT:
			return no.of(x.X, depth+1) | no.of(x.Y, depth+1)
		}
		return oBounded // a comparison
	case *ssa.UnOp:
		if x.Op == token.MUL {
			return no.ofAddr(x.X, depth+1)
		}
		return no.of(x.X, depth+1)
	case *ssa.Phi:
		all := 0
		no.phis[x] = true
		for i, e := range x.Edges {
			switch no.edgeClamped(x, i, e) {
			case oBounded:
				all |= oBounded
				continue
			case oRel:
				if no.of(e, depth+1)&oInput != 0 {
					all |= oRel
					no.relEdges = append(no.relEdges, relEdge{x.Block(), i, no.lastOther})
					continue
				}
			}
			all |= no.of(e, depth+1)
		}
		return all
	case *ssa.Field:
		return no.of(x.X, depth+1)
	case *ssa.Index:
		return no.of(x.X, depth+1)
	case *ssa.Lookup:
		return no.of(x.X, depth+1)
	case *ssa.Slice:
		return no.of(x.X, depth+1)
	case *ssa.Alloc:
		return no.ofAddr(x, depth+1)
	case *ssa.FieldAddr, *ssa.IndexAddr:
		return no.ofAddr(x, depth+1)
	case *ssa.MakeSlice, *ssa.MakeMap:
		return no.storesInto(v, depth+1)
	case *ssa.Parameter:
		f := x.Parent()
		pi := -1
		for i, p := range f.Params {
			if p == x {
				pi = i
			}
		}
		cs := no.callers[f]
		if pi == 0 && f.Signature.Recv() != nil && len(cs) == 0 {
			// a method called through an interface only: the receiver is whatever was boxed with this type anywhere in the module
			all, found := 0, false
			for path, sp := range no.c.SSAPk {
				if sp == nil || !strings.HasPrefix(path, modPath) {
					continue
				}
				for _, g := range allFuncsOfPkgDeep(sp) {
					for _, b := range g.Blocks {
						for _, in := range b.Instrs {
							if mi, ok := in.(*ssa.MakeInterface); ok && types.Identical(mi.X.Type(), x.Type()) {
								found = true
								all |= no.of(mi.X, depth+1)
							}
						}
					}
				}
			}
			if found {
				return all
			}
			return oUnknown
		}
		if pi < 0 || len(cs) == 0 {
			return oUnknown
		}
		all := 0
		for _, call := range cs {
			args := call.Common().Args
			if pi >= len(args) {
				all |= oUnknown
				continue
			}
			all |= no.of(args[pi], depth+1)
		}
		return all
	case *ssa.FreeVar:
		return oUnknown
	}
	return oUnknown
}

// ofAddr: what can be read through this address.
func (no *numOrigins) ofAddr(a ssa.Value, depth int) int {
	switch x := a.(type) {
	case *ssa.Alloc:
		return no.storesInto(x, depth)
	case *ssa.FieldAddr:
		// a field of a struct: whatever is stored into that field of the same base, else the base's origin
		base := x.X
		all, found := 0, false
		if refs := base.Referrers(); refs != nil {
			for _, r := range *refs {
				if fa, ok := r.(*ssa.FieldAddr); ok && fa.Field == x.Field && fa.Referrers() != nil {
					for _, r2 := range *fa.Referrers() {
						if st, ok := r2.(*ssa.Store); ok && st.Addr == ssa.Value(fa) {
							found = true
							all |= no.of(st.Val, depth+1)
						}
					}
				}
			}
		}
		if _, isAlloc := base.(*ssa.Alloc); isAlloc && found {
			return all
		}
		return all | no.of(base, depth+1)
	case *ssa.IndexAddr:
		return no.of(x.X, depth+1)
	case *ssa.Global:
		return oBounded
	}
	return no.of(a, depth+1)
}

// storesInto: everything stored into the object (directly, or into an element or field address derived from it).
func (no *numOrigins) storesInto(obj ssa.Value, depth int) int {
	all, found, pureBounded := 0, false, false
	var visit func(a ssa.Value, d int)
	visit = func(a ssa.Value, d int) {
		if d > 4 || a.Referrers() == nil {
			return
		}
		for _, r := range *a.Referrers() {
			switch u := r.(type) {
			case *ssa.Store:
				if u.Addr == a {
					found = true
					o := no.of(u.Val, depth+1)
					if o == oBounded {
						pureBounded = true
					}
					all |= o
				}
			case *ssa.IndexAddr:
				if u.X == a {
					if no.sel >= 0 && scalarArray(a.Type()) {
						if k, ok := u.Index.(*ssa.Const); ok && k.Value != nil && int(k.Int64()) != no.sel {
							continue // another element of the array
						}
					}
					visit(u, d+1)
				}
			case *ssa.FieldAddr:
				if u.X == a {
					visit(u, d+1)
				}
			case *ssa.Slice:
				if u.X == a {
					visit(u, d+1)
				}
			}
		}
	}
	visit(obj, 0)
	if !found {
		return oUnknown
	}
	if all&oInput != 0 && pureBounded {
		// a variable that holds a number from the input at one time and a bounded one at another: it may be cut down in
		// place (x[i] = min(x[i], K)); the order of the stores is not followed here
		return (all &^ oInput) | oUnknown
	}
	return all
}

// boundedAt: at block b, a dominating comparison bounds v (seen through conversions) from above by something bounded.
func (no *numOrigins) boundedAt(b *ssa.BasicBlock, v ssa.Value) bool {
	return no.upperBounded(controlConds(b), v)
}

func (no *numOrigins) upperBounded(conds []cond, e ssa.Value) bool {
	base := stripConv(e)
	for _, cd := range conds {
		bo, ok := cd.v.(*ssa.BinOp)
		if !ok {
			continue
		}
		var other ssa.Value
		var upper bool
		x, y := stripConv(bo.X), stripConv(bo.Y)
		switch {
		case x == base && (bo.Op == token.LSS || bo.Op == token.LEQ):
			other, upper = bo.Y, true
		case x == base && (bo.Op == token.GTR || bo.Op == token.GEQ):
			other, upper = bo.Y, false
		case y == base && (bo.Op == token.GTR || bo.Op == token.GEQ):
			other, upper = bo.X, true
		case y == base && (bo.Op == token.LSS || bo.Op == token.LEQ):
			other, upper = bo.X, false
		default:
			continue
		}
		if upper == cd.pol && no.of(other, 0) == oBounded {
			return true
		}
	}
	return false
}

// upperRelated: a comparison on the way bounds e from above by some other number (whatever that is).
func (no *numOrigins) upperRelated(conds []cond, e ssa.Value) bool {
	base := stripConv(e)
	for _, cd := range conds {
		bo, ok := cd.v.(*ssa.BinOp)
		if !ok {
			continue
		}
		x, y := stripConv(bo.X), stripConv(bo.Y)
		var upper bool
		switch {
		case x == base && (bo.Op == token.LSS || bo.Op == token.LEQ):
			upper = true
		case x == base && (bo.Op == token.GTR || bo.Op == token.GEQ):
			upper = false
		case y == base && (bo.Op == token.GTR || bo.Op == token.GEQ):
			upper = true
		case y == base && (bo.Op == token.LSS || bo.Op == token.LEQ):
			upper = false
		default:
			continue
		}
		if upper == cd.pol {
			if x == base {
				no.lastOther = y
			} else {
				no.lastOther = x
			}
			return true
		}
	}
	return false
}

// edgeClamped: the value arrives at the phi on an edge on which a comparison has bounded it from above by something bounded
// (the untaken side of `if x > K { x = K }`).
func (no *numOrigins) edgeClamped(phi *ssa.Phi, i int, e ssa.Value) int {
	pred := phi.Block().Preds[i]
	conds := controlConds(pred)
	if ifi, ok := pred.Instrs[len(pred.Instrs)-1].(*ssa.If); ok {
		conds = append(conds, cond{ifi.Cond, pred.Succs[0] == phi.Block()})
	}
	if no.upperBounded(conds, e) {
		return oBounded
	}
	if no.upperRelated(conds, e) {
		return oRel
	}
	return 0
}

// checkLoopBounds (R14.8): every counting loop of reachable module code whose bound is a number written in the input.
func checkLoopBounds(c *Ctx, rule string, scope []*ssa.Function) {
	no := newNumOrigins(c)
	type finding struct {
		key, detail string
		pos         token.Pos
		flags       int
	}
	var fs []finding
	nLoops := 0
	lastDesc := map[string][]string{}
	for _, f := range scope {
		for _, b := range f.Blocks {
			ifi, ok := b.Instrs[len(b.Instrs)-1].(*ssa.If)
			if !ok {
				continue
			}
			bo, ok := ifi.Cond.(*ssa.BinOp)
			if !ok {
				continue
			}
			switch bo.Op {
			case token.LSS, token.LEQ, token.GTR, token.GEQ:
			default:
				continue
			}
			// a counter: a phi of this block (or a load of a local) that is advanced by a constant on the way back here
			counter := func(v ssa.Value) bool {
				ph, ok := v.(*ssa.Phi)
				if !ok || ph.Block() != b {
					return false
				}
				for _, e := range ph.Edges {
					if add, ok := e.(*ssa.BinOp); ok && (add.Op == token.ADD || add.Op == token.SUB) {
						if add.X == ssa.Value(ph) {
							if _, isK := add.Y.(*ssa.Const); isK {
								return true
							}
						}
					}
				}
				return false
			}
			var bound ssa.Value
			var ctr *ssa.Phi
			switch {
			case counter(bo.X) && isIntegerT(bo.X.Type()):
				bound = bo.Y
				ctr = bo.X.(*ssa.Phi)
			case counter(bo.Y) && isIntegerT(bo.Y.Type()):
				bound = bo.X
				ctr = bo.Y.(*ssa.Phi)
			default:
				continue
			}
			// a loop that counts down to a constant runs as often as its start value says
			if _, isK := bound.(*ssa.Const); isK {
				down := false
				var start ssa.Value
				for _, e := range ctr.Edges {
					if step, ok := e.(*ssa.BinOp); ok && step.X == ssa.Value(ctr) {
						if k, ok := step.Y.(*ssa.Const); ok && k.Value != nil && ((step.Op == token.SUB && k.Int64() > 0) || (step.Op == token.ADD && k.Int64() < 0)) {
							down = true
						}
						continue
					}
					start = e
				}
				if down && start != nil {
					bound = start
				}
			}
			nLoops++
			// g[1] of an array of numbers: only what is stored at that index matters (a pair [lo, hi] keeps its two ends apart)
			no.sel = -1
			if u, ok := bound.(*ssa.UnOp); ok && u.Op == token.MUL {
				if ia, ok := u.X.(*ssa.IndexAddr); ok && scalarArray(ia.X.Type()) {
					if k, ok := ia.Index.(*ssa.Const); ok && k.Value != nil {
						no.sel = int(k.Int64())
					}
				}
			}
			no.memo, no.relEdges, no.phis, no.inputs = map[numKey]int{}, nil, map[*ssa.Phi]bool{}, nil
			o := no.of(bound, 0)
			no.sel = -1
			if o&oRel != 0 && o&oInput == 0 {
				// the bound is, on some path, only known to be below another number. If that other number is where the loop starts
				// on that very path (the partner phi of the same block takes it on the same edge), the range is empty there.
				rel := no.relEdges
				no.memo, no.relEdges, no.phis = map[numKey]int{}, nil, map[*ssa.Phi]bool{}
				for _, e := range ctr.Edges {
					if add, ok := e.(*ssa.BinOp); ok && add.X == ssa.Value(ctr) {
						continue
					}
					if u, ok := e.(*ssa.UnOp); ok && u.Op == token.MUL {
						if ia, ok := u.X.(*ssa.IndexAddr); ok && scalarArray(ia.X.Type()) {
							if k, ok := ia.Index.(*ssa.Const); ok && k.Value != nil {
								no.sel = int(k.Int64())
							}
						}
					}
					no.of(e, 0)
					no.sel = -1
				}
				paired := len(rel) > 0
				for _, re := range rel {
					ok := false
					for ph := range no.phis {
						if ph.Block() == re.blk && re.k < len(ph.Edges) && stripConv(ph.Edges[re.k]) == re.other {
							ok = true
						}
					}
					if !ok {
						paired = false
					}
				}
				if paired {
					o &^= oRel
				}
			}
			if os.Getenv("EMCHECK_DEBUG") != "" {
				fmt.Fprintf(os.Stderr, "R14.8 %s bound=%s (%T) flags=%d\n", shortFn(f), bound.Name(), bound, o)
				if u, ok := bound.(*ssa.UnOp); ok {
					fmt.Fprintf(os.Stderr, "   addr %s (%T)\n", u.X.Name(), u.X)
				}
			}
			desc := describeVal(bound)
			if len(desc) > 1 && desc[0] == 't' && strings.Trim(desc[1:], "0123456789") == "" {
				desc = "a computed value"
			}
			key := fmt.Sprintf("%s: loop bounded by %s", shortFn(f), desc)
			if o&oInput != 0 {
				// a finding is named after what it is, not after where the loop happens to sit: the package and the kind of number
				var kinds []string
				for k := range no.inputs {
					kinds = append(kinds, k)
				}
				sort.Strings(kinds)
				pk := strings.TrimPrefix(fnPkgPath(f), modPath+"/")
				key = fmt.Sprintf("%s: a loop runs as often as a number (%s) written in the input says", pk, strings.Join(kinds, ", "))
				desc = shortFn(f) + ", bound " + desc
			}
			lastDesc[key] = append(lastDesc[key], desc)
			fs = append(fs, finding{key, "", ifi.Pos(), o})
			if !ifi.Pos().IsValid() {
				fs[len(fs)-1].pos = bo.Pos()
			}
		}
	}
	sort.Slice(fs, func(i, j int) bool { return fs[i].key < fs[j].key })
	seen := map[string]bool{}
	// several loops of one function with the same description: the worst outcome speaks for the key
	worst := map[string]int{}
	for _, x := range fs {
		worst[x.key] |= x.flags
	}
	for _, x := range fs {
		if seen[x.key] {
			continue
		}
		seen[x.key] = true
		x.flags = worst[x.key]
		switch {
		case x.flags&oInput != 0:
			c.Fail(rule, x.key, x.pos, "in "+strings.Join(lastDesc[x.key], "; ")+": the number of iterations is a number written in the input (it reaches the loop from a type assertion on a parsed value without being cut down to a constant or a length): a few characters of input make the loop run, and allocate, billions of times, and the process is killed for lack of memory instead of returning an error",
				"a pattern with a huge count or character code, e.g. a{999999999} or [a-\\x7FFFFFFF]")
		case x.flags&oUnknown != 0:
			c.Undecided(rule, x.key, x.pos, "where the bound comes from was not followed to its end")
		case x.flags&oRel != 0:
			c.Undecided(rule, x.key, x.pos, "on one path the bound is a number from the input that is known only to be smaller than another such number (an empty range when the loop starts from that other number): the number of iterations depends on the order of the two, which is not followed")
		default:
			c.Pass(rule, x.key, x.pos, "")
		}
	}
	c.Extra("counting_loops_examined", nLoops)
}

// checkDigitAccumulation: a number is read digit by digit as acc = acc*10 + d over a list of digits whose length the
// pattern decides. Without a test of the accumulator inside the loop the value wraps around silently: a count of twenty
// digits becomes some other count, or a negative one, and the pattern is accepted with a meaning nobody wrote.
func checkDigitAccumulation(c *Ctx, rule string, pkgPath string) {
	sp := c.SSAPk[modPath+"/"+pkgPath]
	if sp == nil {
		c.Lost(rule, "SSA of "+pkgPath)
		return
	}
	n := 0
	for _, f := range allFuncsOfPkgDeep(sp) {
		for _, b := range f.Blocks {
			for _, in := range b.Instrs {
				ph, ok := in.(*ssa.Phi)
				if !ok || !isIntegerT(ph.Type()) {
					continue
				}
				decimal := false
				for _, e := range ph.Edges {
					add, ok := e.(*ssa.BinOp)
					if !ok || add.Op != token.ADD {
						continue
					}
					for _, o := range []ssa.Value{add.X, add.Y} {
						if mul, ok := o.(*ssa.BinOp); ok && mul.Op == token.MUL {
							k, isK := mul.Y.(*ssa.Const)
							if mul.X == ssa.Value(ph) && isK && k.Value != nil && k.Int64() == 10 {
								decimal = true
							}
							k, isK = mul.X.(*ssa.Const)
							if mul.Y == ssa.Value(ph) && isK && k.Value != nil && k.Int64() == 10 {
								decimal = true
							}
						}
					}
				}
				if !decimal {
					continue
				}
				n++
				guarded := false
				for _, r := range *ph.Referrers() {
					if bo, ok := r.(*ssa.BinOp); ok {
						switch bo.Op {
						case token.LSS, token.LEQ, token.GTR, token.GEQ:
							guarded = true
						}
					}
				}
				c.Check(rule, shortFn(f)+": a decimal number is accumulated under an overflow test", ph.Pos(), guarded,
					"acc = acc*10 + digit runs over as many digits as the pattern has, and nothing compares the accumulator with a limit: a count that does not fit into an int wraps around (a{18446744073709551615} is accepted as a{-1})",
					"a{18446744073709551615}")
			}
		}
	}
	// the same number read by the library: the digits of the pattern grammar are decimal digits, so the base is the constant 10
	// (base 0 reads a leading zero as octal and 0x as hexadecimal: a{010,9} would be a{8,9}); strconv.Atoi is base 10
	for _, f := range allFuncsOfPkgDeep(sp) {
		for _, b := range f.Blocks {
			for _, in := range b.Instrs {
				call, ok := in.(*ssa.Call)
				if !ok {
					continue
				}
				name := staticCalleeName(call)
				switch name {
				case "strconv.Atoi":
					n++
					c.Pass(rule, shortFn(f)+": a count is read as a decimal number", call.Pos(), "strconv.Atoi")
				case "strconv.ParseInt", "strconv.ParseUint":
					n++
					if len(call.Call.Args) >= 2 {
						k, isK := call.Call.Args[1].(*ssa.Const)
						if isK && k.Value != nil {
							c.Check(rule, shortFn(f)+": a count is read as a decimal number", call.Pos(), k.Int64() == 10,
								fmt.Sprintf("%s is called with base %d: the pattern grammar's numbers are sequences of decimal digits, and with this base a leading zero (or 0x, 0b) changes the value, so that the comparison of minimum and maximum is made on other numbers than the ones written", name, k.Int64()),
								"a{010,9}: accepted as a{8,9}; a{08}: rejected")
						} else {
							c.Undecided(rule, shortFn(f)+": a count is read as a decimal number", call.Pos(), "the base of "+name+" is not a constant")
						}
					}
				}
			}
		}
	}
	if n == 0 {
		c.Undecided(rule, "a decimal number is accumulated under an overflow test", token.NoPos, "no accumulation of the form acc*10 + digit was found in "+pkgPath)
	}
}


// scalarArray: t is (a pointer to) an array whose elements are numbers.
func scalarArray(t types.Type) bool {
	if p, ok := t.Underlying().(*types.Pointer); ok {
		t = p.Elem()
	}
	arr, ok := t.Underlying().(*types.Array)
	return ok && isIntegerT(arr.Elem())
}


func (no *numOrigins) noteInput(t types.Type) {
	if no.inputs == nil {
		no.inputs = map[string]bool{}
	}
	for {
		if p, ok := t.(*types.Pointer); ok {
			t = p.Elem()
			continue
		}
		break
	}
	name := types.TypeString(t, func(*types.Package) string { return "" })
	if strings.HasPrefix(name, "tuple[") || strings.Contains(name, "tuple") {
		name = "int" // the repetition range travels as a pair of counts
	}
	if name == "int32" {
		name = "rune"
	}
	no.inputs[name] = true
}
