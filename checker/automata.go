package main

// E3: checker-side rune sets, regex -> NFA -> DFA over a rune-interval alphabet, Moore-machine
// equivalence by product exploration. Independent of emerge's and moorara/algo's automata code.

import (
	"fmt"
	"sort"
	"strconv"
	"strings"
)

const maxRune = 0x10FFFF

type iv struct{ lo, hi rune }
type rset []iv

func norm(s rset) rset {
	s = append(rset(nil), s...)
	sort.Slice(s, func(i, j int) bool { return s[i].lo < s[j].lo })
	var out rset
	for _, x := range s {
		if x.hi < x.lo {
			continue
		}
		if n := len(out); n > 0 && x.lo <= out[n-1].hi+1 {
			if x.hi > out[n-1].hi {
				out[n-1].hi = x.hi
			}
		} else {
			out = append(out, x)
		}
	}
	return out
}

func (s rset) has(r rune) bool {
	for _, x := range s {
		if x.lo <= r && r <= x.hi {
			return true
		}
	}
	return false
}

func (s rset) empty() bool { return len(s) == 0 }

func (s rset) count() int {
	n := 0
	for _, x := range s {
		n += int(x.hi-x.lo) + 1
	}
	return n
}

func union(a, b rset) rset { return norm(append(append(rset(nil), a...), b...)) }

func minus(a, b rset) rset {
	b = norm(b)
	var out rset
	for _, x := range norm(a) {
		lo := x.lo
		for _, y := range b {
			if y.hi < lo || y.lo > x.hi {
				continue
			}
			if y.lo > lo {
				out = append(out, iv{lo, y.lo - 1})
			}
			lo = y.hi + 1
			if lo > x.hi {
				break
			}
		}
		if lo <= x.hi {
			out = append(out, iv{lo, x.hi})
		}
	}
	return norm(out)
}

func intersect(a, b rset) rset { return minus(a, minus(a, b)) }

func (s rset) equal(t rset) bool {
	s, t = norm(s), norm(t)
	if len(s) != len(t) {
		return false
	}
	for i := range s {
		if s[i] != t[i] {
			return false
		}
	}
	return true
}

func showRune(r rune) string {
	if r >= 0x21 && r <= 0x7E {
		return strconv.QuoteRune(r)
	}
	return fmt.Sprintf("U+%04X", r)
}

func (s rset) String() string {
	var parts []string
	for _, x := range s {
		if x.lo == x.hi {
			parts = append(parts, showRune(x.lo))
		} else {
			parts = append(parts, showRune(x.lo)+"-"+showRune(x.hi))
		}
	}
	return "{" + strings.Join(parts, ",") + "}"
}

func runesToSet(rs []rune) rset {
	var s rset
	for _, r := range rs {
		s = append(s, iv{r, r})
	}
	return norm(s)
}

// ---------- tiny regex syntax (sufficient for the documented token table) ----------

type rnode struct {
	kind string // set cat alt star plus opt eps
	set  rset
	kids []*rnode
}

type rparser struct {
	s        []rune
	i        int
	universe rset // complement universe for negated groups
	err      error
}

func (p *rparser) peek() rune {
	if p.i < len(p.s) {
		return p.s[p.i]
	}
	return -1
}

func (p *rparser) fail(f string, a ...any) {
	if p.err == nil {
		p.err = fmt.Errorf(f, a...)
	}
}

func (p *rparser) alt() *rnode {
	n := p.cat()
	for p.peek() == '|' {
		p.i++
		n = &rnode{kind: "alt", kids: []*rnode{n, p.cat()}}
	}
	return n
}

func (p *rparser) cat() *rnode {
	n := &rnode{kind: "eps"}
	for p.peek() != -1 && p.peek() != '|' && p.peek() != ')' && p.err == nil {
		a := p.atom()
	quant:
		for {
			switch p.peek() {
			case '*':
				p.i++
				if p.peek() == '?' { // lazy modifier does not change the language
					p.i++
				}
				a = &rnode{kind: "star", kids: []*rnode{a}}
			case '+':
				p.i++
				a = &rnode{kind: "plus", kids: []*rnode{a}}
			case '?':
				p.i++
				a = &rnode{kind: "opt", kids: []*rnode{a}}
			default:
				break quant
			}
		}
		n = &rnode{kind: "cat", kids: []*rnode{n, a}}
	}
	return n
}

func (p *rparser) char() rune {
	if p.i >= len(p.s) {
		p.fail("unexpected end")
		return 0
	}
	c := p.s[p.i]
	p.i++
	if c != '\\' {
		return c
	}
	if p.i >= len(p.s) {
		p.fail("dangling backslash")
		return 0
	}
	c = p.s[p.i]
	p.i++
	switch c {
	case 'x':
		if p.i+2 > len(p.s) {
			p.fail("bad \\x")
			return 0
		}
		v, err := strconv.ParseInt(string(p.s[p.i:p.i+2]), 16, 32)
		if err != nil {
			p.fail("bad \\x: %v", err)
		}
		p.i += 2
		return rune(v)
	case 't':
		return '\t'
	case 'n':
		return '\n'
	case 'r':
		return '\r'
	}
	return c
}

func (p *rparser) atom() *rnode {
	switch p.peek() {
	case '(':
		p.i++
		n := p.alt()
		if p.peek() != ')' {
			p.fail("missing )")
		}
		p.i++
		return n
	case '[':
		p.i++
		neg := false
		if p.peek() == '^' {
			neg = true
			p.i++
		}
		var s rset
		for p.peek() != ']' && p.err == nil {
			if p.peek() == -1 {
				p.fail("missing ]")
				break
			}
			lo := p.char()
			hi := lo
			if p.peek() == '-' && p.i+1 < len(p.s) && p.s[p.i+1] != ']' {
				p.i++
				hi = p.char()
			}
			s = append(s, iv{lo, hi})
		}
		p.i++
		s = norm(s)
		if neg {
			s = minus(p.universe, s)
		}
		return &rnode{kind: "set", set: s}
	case '.':
		p.i++
		return &rnode{kind: "set", set: p.universe}
	}
	c := p.char()
	return &rnode{kind: "set", set: rset{{c, c}}}
}

func parseRegex(re string, universe rset) (*rnode, error) {
	p := &rparser{s: []rune(re), universe: universe}
	n := p.alt()
	if p.err == nil && p.i != len(p.s) {
		p.fail("leftover at %d in %q", p.i, re)
	}
	return n, p.err
}

// ---------- NFA / DFA ----------

type nfaT struct {
	eps   [][]int
	trans []map[int]rset
}

func (n *nfaT) add() int {
	n.eps = append(n.eps, nil)
	n.trans = append(n.trans, map[int]rset{})
	return len(n.eps) - 1
}

func (n *nfaT) build(x *rnode) (int, int) {
	s, f := n.add(), n.add()
	switch x.kind {
	case "eps":
		n.eps[s] = append(n.eps[s], f)
	case "set":
		n.trans[s][f] = x.set
	case "cat":
		a, b := n.build(x.kids[0])
		c, d := n.build(x.kids[1])
		n.eps[s] = append(n.eps[s], a)
		n.eps[b] = append(n.eps[b], c)
		n.eps[d] = append(n.eps[d], f)
	case "alt":
		a, b := n.build(x.kids[0])
		c, d := n.build(x.kids[1])
		n.eps[s] = append(n.eps[s], a, c)
		n.eps[b] = append(n.eps[b], f)
		n.eps[d] = append(n.eps[d], f)
	case "star", "plus", "opt":
		a, b := n.build(x.kids[0])
		n.eps[s] = append(n.eps[s], a)
		n.eps[b] = append(n.eps[b], f)
		if x.kind != "opt" {
			n.eps[b] = append(n.eps[b], a)
		}
		if x.kind != "plus" {
			n.eps[s] = append(n.eps[s], f)
		}
	}
	return s, f
}

// mooreT is a deterministic Moore machine: a label per state ("" = not accepting).
type mooreT struct {
	trans []map[int]rset // state -> target -> set
	label []string
}

func (d *mooreT) grow(n int) {
	for len(d.trans) <= n {
		d.trans = append(d.trans, map[int]rset{})
		d.label = append(d.label, "")
	}
}

func (d *mooreT) step(s int, r rune) int {
	if s < 0 || s >= len(d.trans) {
		return -1
	}
	for t, set := range d.trans[s] {
		if set.has(r) {
			return t
		}
	}
	return -1
}

type tokdef struct {
	label string
	re    string
}

type nodeDef struct {
	label string
	node  *rnode
}

// buildMoore builds the priority union (earlier definition wins) of the token definitions.
func buildMoore(spec []tokdef, universe rset) (*mooreT, error) {
	var defs []nodeDef
	for _, t := range spec {
		x, err := parseRegex(t.re, universe)
		if err != nil {
			return nil, fmt.Errorf("%s: %v", t.label, err)
		}
		defs = append(defs, nodeDef{t.label, x})
	}
	return buildMooreNodes(defs), nil
}

func buildMooreNodes(spec []nodeDef) *mooreT {
	n := &nfaT{}
	start := n.add()
	finals := map[int]int{}
	for i, t := range spec {
		s, f := n.build(t.node)
		n.eps[start] = append(n.eps[start], s)
		finals[f] = i
	}
	bs := map[rune]bool{}
	for _, m := range n.trans {
		for _, s := range m {
			for _, x := range s {
				bs[x.lo] = true
				if x.hi < maxRune {
					bs[x.hi+1] = true
				}
			}
		}
	}
	var bounds []rune
	for b := range bs {
		bounds = append(bounds, b)
	}
	sort.Slice(bounds, func(i, j int) bool { return bounds[i] < bounds[j] })
	closure := func(set map[int]bool) {
		var st []int
		for s := range set {
			st = append(st, s)
		}
		for len(st) > 0 {
			s := st[len(st)-1]
			st = st[:len(st)-1]
			for _, t := range n.eps[s] {
				if !set[t] {
					set[t] = true
					st = append(st, t)
				}
			}
		}
	}
	key := func(set map[int]bool) string {
		var k []int
		for s := range set {
			k = append(k, s)
		}
		sort.Ints(k)
		return fmt.Sprint(k)
	}
	d := &mooreT{}
	idx := map[string]int{}
	var sets []map[int]bool
	s0 := map[int]bool{start: true}
	closure(s0)
	idx[key(s0)] = 0
	sets = append(sets, s0)
	d.grow(0)
	for i := 0; i < len(sets); i++ {
		for b := 0; b < len(bounds); b++ {
			lo := bounds[b]
			var hi rune = maxRune
			if b+1 < len(bounds) {
				hi = bounds[b+1] - 1
			}
			nx := map[int]bool{}
			for s := range sets[i] {
				for t, set := range n.trans[s] {
					if set.has(lo) {
						nx[t] = true
					}
				}
			}
			if len(nx) == 0 {
				continue
			}
			closure(nx)
			k := key(nx)
			j, ok := idx[k]
			if !ok {
				j = len(sets)
				idx[k] = j
				sets = append(sets, nx)
				d.grow(j)
			}
			d.trans[i][j] = norm(append(d.trans[i][j], iv{lo, hi}))
		}
	}
	for i, set := range sets {
		best := -1
		for s := range set {
			if k, ok := finals[s]; ok && (best == -1 || k < best) {
				best = k
			}
		}
		if best >= 0 {
			d.label[i] = spec[best].label
		}
	}
	return d
}

// partition returns representative runes of the coarsest common refinement of both machines' edge sets.
func partitionReps(ms ...*mooreT) []rune {
	bset := map[rune]bool{0: true}
	for _, d := range ms {
		for _, m := range d.trans {
			for _, s := range m {
				for _, x := range s {
					bset[x.lo] = true
					if x.hi < maxRune {
						bset[x.hi+1] = true
					}
				}
			}
		}
	}
	var reps []rune
	for r := range bset {
		reps = append(reps, r)
	}
	sort.Slice(reps, func(i, j int) bool { return reps[i] < reps[j] })
	return reps
}

type mooreMismatch struct {
	kind   string // label | liveness
	word   string
	on     rune
	refSt  int
	codeSt int
	ref    string
	code   string
}

// compareMoore explores the product from (0,0). For each code state only the breadth-first earliest
// mismatch is kept (mismatches cascade), the rest are counted.
func compareMoore(ref, code *mooreT) (mism []mooreMismatch, productStates, pairs, folded int) {
	reps := partitionReps(ref, code)
	type pair struct{ a, b int }
	seen := map[pair]string{{0, 0}: ""}
	queue := []pair{{0, 0}}
	reported := map[string]bool{}
	for len(queue) > 0 {
		p := queue[0]
		queue = queue[1:]
		w := seen[p]
		if ref.label[p.a] != code.label[p.b] {
			k := fmt.Sprintf("label/%d", p.b)
			if !reported[k] {
				reported[k] = true
				mism = append(mism, mooreMismatch{kind: "label", word: w, refSt: p.a, codeSt: p.b, ref: ref.label[p.a], code: code.label[p.b]})
			} else {
				folded++
			}
		}
		for _, r := range reps {
			pairs++
			a, b := ref.step(p.a, r), code.step(p.b, r)
			if (a < 0) != (b < 0) {
				k := fmt.Sprintf("live/%d/%d", p.b, r)
				if !reported[k] {
					reported[k] = true
					mism = append(mism, mooreMismatch{kind: "liveness", word: w, on: r, refSt: a, codeSt: p.b, ref: fmt.Sprint(a >= 0), code: fmt.Sprint(b >= 0)})
				} else {
					folded++
				}
				continue
			}
			if a < 0 {
				continue
			}
			q := pair{a, b}
			if _, ok := seen[q]; !ok {
				seen[q] = w + string(r)
				queue = append(queue, q)
			}
		}
	}
	return mism, len(seen), pairs, folded
}

// shortestTo returns, for every state reachable from 0, one shortest string reaching it.
func (d *mooreT) shortestTo() map[int]string {
	out := map[int]string{0: ""}
	queue := []int{0}
	for len(queue) > 0 {
		s := queue[0]
		queue = queue[1:]
		var ts []int
		for t := range d.trans[s] {
			ts = append(ts, t)
		}
		sort.Ints(ts)
		for _, t := range ts {
			if _, ok := out[t]; !ok && !d.trans[s][t].empty() {
				out[t] = out[s] + string(d.trans[s][t][0].lo)
				queue = append(queue, t)
			}
		}
	}
	return out
}

// stringsReaching says whether exactly one string reaches state t from 0 (and returns it).
func (d *mooreT) uniqueStringTo(t int) (string, bool) {
	// count paths with multiplicity of runes; a cycle on the way or a set with >1 rune means "many".
	// BFS over states that can reach t.
	canReach := map[int]bool{t: true}
	for ch := true; ch; {
		ch = false
		for s := range d.trans {
			if canReach[s] {
				continue
			}
			for u := range d.trans[s] {
				if canReach[u] && !d.trans[s][u].empty() {
					canReach[s] = true
					ch = true
				}
			}
		}
	}
	if !canReach[0] {
		return "", false
	}
	// walk from 0 while exactly one live edge with one rune leads on within canReach
	s, w := 0, ""
	visited := map[int]bool{}
	for {
		if visited[s] {
			return "", false
		}
		visited[s] = true
		var nexts []int
		for u, set := range d.trans[s] {
			if canReach[u] && !set.empty() {
				nexts = append(nexts, u)
			}
		}
		if s == t {
			if len(nexts) == 0 {
				return w, true
			}
			return "", false // t reachable again by a longer string
		}
		if len(nexts) != 1 || d.trans[s][nexts[0]].count() != 1 {
			return "", false
		}
		w += string(d.trans[s][nexts[0]][0].lo)
		s = nexts[0]
	}
}
