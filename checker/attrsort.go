package main

// E5: sort / arity / nil analysis of switch-on-production-index evaluators against the production list.

import (
	"fmt"
	"go/ast"
	"go/token"
	"go/types"
	"sort"

	"golang.org/x/tools/go/packages"
)

const nilSort = "<nil>"

type sortSet map[string]types.Type // key = type string (nilSort for nil); value nil for nilSort

func (s sortSet) keys() []string {
	var k []string
	for x := range s {
		k = append(k, x)
	}
	sort.Strings(k)
	return k
}

type evalCase struct {
	index  int
	clause *ast.CaseClause
	prod   gprod
}

type evaluator struct {
	pkg      *packages.Package
	fd       *ast.FuncDecl   // enclosing function (Parse)
	lit      *ast.FuncLit    // the evaluation closure
	call     *ast.CallExpr   // the ParseAndEvaluate call
	idxParam *types.Var
	rhsParam *types.Var
	cases    map[int]*evalCase
	dupCases []int
	extra    []int // case constants beyond the production list
	sorts    map[string]sortSet // symbol name (non-terminals) -> sort
	g        *ebnfGrammar
	resAssert *ast.TypeAssertExpr // final res.Val.(T)
}

// findEvaluator locates, in package p, the function calling (*Parser).ParseAndEvaluate with a closure literal.
func findEvaluator(c *Ctx, rule string, p *packages.Package, g *ebnfGrammar) *evaluator {
	if p == nil {
		c.Lost(rule, "evaluator package")
		return nil
	}
	info := p.TypesInfo
	var ev *evaluator
	AllFuncDecls(p, func(fd *ast.FuncDecl) {
		if fd.Body == nil {
			return
		}
		ast.Inspect(fd.Body, func(n ast.Node) bool {
			call, ok := n.(*ast.CallExpr)
			if !ok || len(call.Args) != 1 {
				return true
			}
			lit, ok := call.Args[0].(*ast.FuncLit)
			if !ok {
				return true
			}
			fn, _ := objOf(info, call.Fun).(*types.Func)
			if fn == nil || fn.Pkg() == nil || fn.Pkg().Path() != g.pkg.PkgPath {
				return true
			}
			sig := fn.Type().(*types.Signature)
			if sig.Params().Len() != 1 {
				return true
			}
			if _, n := namedTypeName(sig.Params().At(0).Type()); n != "EvaluateFunc" {
				return true
			}
			ev = &evaluator{pkg: p, fd: fd, lit: lit, call: call, g: g, cases: map[int]*evalCase{}, sorts: map[string]sortSet{}}
			return true
		})
	})
	if ev == nil {
		c.Lost(rule, "the evaluation closure passed to ParseAndEvaluate in "+p.PkgPath)
		return nil
	}
	c.Analysed(funcKey(p, ev.fd) + "$eval")
	ps := ev.lit.Type.Params.List
	var names []*ast.Ident
	for _, f := range ps {
		names = append(names, f.Names...)
	}
	if len(names) != 2 {
		c.Lost(rule, "evaluation closure parameters (i, rhs)")
		return nil
	}
	ev.idxParam, _ = info.Defs[names[0]].(*types.Var)
	ev.rhsParam, _ = info.Defs[names[1]].(*types.Var)
	// the switch on the index
	var sw *ast.SwitchStmt
	for _, s := range ev.lit.Body.List {
		if x, ok := s.(*ast.SwitchStmt); ok && x.Tag != nil {
			if id, ok := ast.Unparen(x.Tag).(*ast.Ident); ok && info.Uses[id] == types.Object(ev.idxParam) {
				sw = x
			}
		}
	}
	if sw == nil {
		c.Undecided(rule, "evaluator shape in "+p.PkgPath, ev.lit.Pos(), "the closure is not a switch on the production index")
		return nil
	}
	for _, cc := range sw.Body.List {
		cl := cc.(*ast.CaseClause)
		for _, e := range cl.List {
			n, ok := constInt(info, e)
			if !ok {
				c.Undecided(rule, "evaluator case in "+p.PkgPath, e.Pos(), "non-constant case")
				return nil
			}
			if int(n) < 0 || int(n) >= len(g.prods) {
				ev.extra = append(ev.extra, int(n))
				continue
			}
			if _, dup := ev.cases[int(n)]; dup {
				ev.dupCases = append(ev.dupCases, int(n))
			}
			ev.cases[int(n)] = &evalCase{index: int(n), clause: cl, prod: g.prods[n]}
		}
	}
	// final assertion on the result
	ast.Inspect(ev.fd.Body, func(n ast.Node) bool {
		if n == ast.Node(ev.lit) {
			return false
		}
		if ta, ok := n.(*ast.TypeAssertExpr); ok && ta.Type != nil {
			if sel, ok := ast.Unparen(ta.X).(*ast.SelectorExpr); ok && sel.Sel.Name == "Val" {
				ev.resAssert = ta
			}
		}
		return true
	})
	ev.computeSorts()
	return ev
}

// rhsIndex recognises rhs[k] and returns k.
func (ev *evaluator) rhsIndex(e ast.Expr) (int, bool) {
	ix, ok := ast.Unparen(e).(*ast.IndexExpr)
	if !ok {
		return 0, false
	}
	id, ok := ast.Unparen(ix.X).(*ast.Ident)
	if !ok || ev.pkg.TypesInfo.Uses[id] != types.Object(ev.rhsParam) {
		return 0, false
	}
	n, ok := constInt(ev.pkg.TypesInfo, ix.Index)
	return int(n), ok
}

// rhsVal recognises rhs[k].Val.
func (ev *evaluator) rhsVal(e ast.Expr) (int, bool) {
	sel, ok := ast.Unparen(e).(*ast.SelectorExpr)
	if !ok || sel.Sel.Name != "Val" {
		return 0, false
	}
	return ev.rhsIndex(sel.X)
}

func (ev *evaluator) symSort(s gsym) sortSet {
	if s.term {
		return sortSet{"string": types.Typ[types.String]}
	}
	if ss, ok := ev.sorts[s.name]; ok {
		return ss
	}
	return sortSet{}
}

// returnsOf collects the value expressions returned by a case body (not descending into closures).
func returnsOf(body []ast.Stmt) []*ast.ReturnStmt {
	var out []*ast.ReturnStmt
	for _, s := range body {
		ast.Inspect(s, func(n ast.Node) bool {
			if _, ok := n.(*ast.FuncLit); ok {
				return false
			}
			if r, ok := n.(*ast.ReturnStmt); ok {
				out = append(out, r)
			}
			return true
		})
	}
	return out
}

func (ev *evaluator) computeSorts() {
	info := ev.pkg.TypesInfo
	for ch := true; ch; {
		ch = false
		for _, cs := range ev.cases {
			head := cs.prod.head
			if ev.sorts[head] == nil {
				ev.sorts[head] = sortSet{}
			}
			add := func(k string, t types.Type) {
				if _, ok := ev.sorts[head][k]; !ok {
					ev.sorts[head][k] = t
					ch = true
				}
			}
			for _, r := range returnsOf(cs.clause.Body) {
				if len(r.Results) != 2 {
					continue
				}
				// a return with a non-nil error contributes no value (the parse aborts)
				if !isNilExpr(info, r.Results[1]) {
					continue
				}
				x := r.Results[0]
				if k, ok := ev.rhsVal(x); ok {
					if k < len(cs.prod.body) {
						for key, t := range ev.symSort(cs.prod.body[k]) {
							add(key, t)
						}
					}
					continue
				}
				if isNilExpr(info, x) {
					add(nilSort, nil)
					continue
				}
				t := info.TypeOf(x)
				if t == nil {
					continue
				}
				if _, isIface := t.Underlying().(*types.Interface); isIface {
					// a value of interface static type: may be nil and of any implementing type
					add("iface:"+types.TypeString(t, nil), t)
					continue
				}
				add(types.TypeString(t, nil), t)
			}
		}
	}
}

// assertionHolds: does x.(T) succeed for a value of sort member m?
func assertionHolds(m string, mt types.Type, T types.Type) bool {
	if m == nilSort || mt == nil {
		return false
	}
	if len(m) > 6 && m[:6] == "iface:" {
		return false // possibly nil, unknown dynamic type
	}
	if _, isIface := T.Underlying().(*types.Interface); isIface {
		return types.Implements(mt, T.Underlying().(*types.Interface))
	}
	return types.Identical(mt, T)
}

// checkEvaluator generates the sort/arity/exhaustiveness obligations.
func (ev *evaluator) check(c *Ctx, sortRule, arityRule, exhaustRule string) {
	info := ev.pkg.TypesInfo
	pk := trimMod(ev.pkg.PkgPath)
	// exhaustiveness
	for i := range ev.g.prods {
		_, ok := ev.cases[i]
		c.Check(exhaustRule, fmt.Sprintf("%s evaluator has a case for production %d (%s)", pk, i, ev.g.prods[i]), ev.lit.Pos(), ok,
			"no case for this production: the evaluator returns its 'invalid production index' error for a valid specification")
	}
	for _, d := range ev.dupCases {
		c.Fail(exhaustRule, fmt.Sprintf("%s evaluator: production %d has one case", pk, d), ev.lit.Pos(), "duplicate case")
	}
	for _, x := range ev.extra {
		c.Fail(exhaustRule, fmt.Sprintf("%s evaluator: case %d is a production index", pk, x), ev.lit.Pos(), "case constant beyond the production list")
	}
	var idxs []int
	for i := range ev.cases {
		idxs = append(idxs, i)
	}
	sort.Ints(idxs)
	for _, i := range idxs {
		cs := ev.cases[i]
		key := fmt.Sprintf("%s case %d (%s)", pk, i, cs.prod)
		// arity of every rhs[k]
		var stack []ast.Node
		for _, st := range cs.clause.Body {
			ast.Inspect(st, func(n ast.Node) bool {
				if n == nil {
					stack = stack[:len(stack)-1]
					return true
				}
				stack = append(stack, n)
				// a clause shared by several productions tells them apart by the length of the body (`if len(rhs) > 1 {…}`):
				// a branch that the length of THIS production's body rules out is not run for it
				if ev.deadForBody(stack, len(cs.prod.body)) {
					return true
				}
				if e, ok := n.(ast.Expr); ok {
					if k, ok := ev.rhsIndex(e); ok {
						c.Check(arityRule, fmt.Sprintf("%s: rhs[%d] within the body", key, k), e.Pos(), k >= 0 && k < len(cs.prod.body),
							fmt.Sprintf("rhs[%d] but the production has %d body symbols: index out of range at run time", k, len(cs.prod.body)))
					}
				}
				ta, ok := n.(*ast.TypeAssertExpr)
				if !ok || ta.Type == nil {
					return true
				}
				k, ok := ev.rhsVal(ta.X)
				if !ok || k >= len(cs.prod.body) {
					return true
				}
				// comma-ok form?
				commaOK := false
				if len(stack) >= 2 {
					switch par := stack[len(stack)-2].(type) {
					case *ast.AssignStmt:
						if len(par.Lhs) == 2 && len(par.Rhs) == 1 && par.Rhs[0] == ast.Expr(ta) {
							commaOK = true
						}
					case *ast.ValueSpec:
						if len(par.Names) == 2 && len(par.Values) == 1 {
							commaOK = true
						}
					}
				}
				if commaOK {
					return true
				}
				T := info.TypeOf(ta.Type)
				ss := ev.symSort(cs.prod.body[k])
				// nil guard among the ancestors: if rhs[k].Val != nil { ... }
				guarded := false
				for j := len(stack) - 2; j >= 0; j-- {
					ifs, ok := stack[j].(*ast.IfStmt)
					if !ok {
						continue
					}
					inBody := j+1 < len(stack) && stack[j+1] == ast.Node(ifs.Body)
					if b, ok := ast.Unparen(ifs.Cond).(*ast.BinaryExpr); ok && b.Op == token.NEQ && inBody {
						if kk, ok := ev.rhsVal(b.X); ok && kk == k && isNilExpr(info, b.Y) {
							guarded = true
						}
					}
				}
				var bad []string
				for m, mt := range ss {
					if m == nilSort && guarded {
						continue
					}
					if !assertionHolds(m, mt, T) {
						bad = append(bad, m)
					}
				}
				sort.Strings(bad)
				wit := ""
				if len(bad) > 0 {
					wit = "a derivation in which " + cs.prod.body[k].String() + " evaluates to " + bad[0]
				}
				c.Check(sortRule, fmt.Sprintf("%s: rhs[%d].Val.(%s)", key, k, types.TypeString(T, types.RelativeTo(ev.pkg.Types))), ta.Pos(), len(bad) == 0 && len(ss) > 0,
					fmt.Sprintf("the value of %s can be %v but is asserted to be %s without a check: the evaluator panics", cs.prod.body[k], bad, types.TypeString(T, types.RelativeTo(ev.pkg.Types))), wit)
				return true
			})
		}
	}
	// final assertion
	if ev.resAssert != nil {
		T := info.TypeOf(ev.resAssert.Type)
		ss := ev.sorts[ev.g.start]
		var bad []string
		for m, mt := range ss {
			if !assertionHolds(m, mt, T) {
				bad = append(bad, m)
			}
		}
		c.Check(sortRule, fmt.Sprintf("%s: result.Val.(%s)", pk, types.TypeString(T, types.RelativeTo(ev.pkg.Types))), ev.resAssert.Pos(), len(bad) == 0 && len(ss) > 0,
			fmt.Sprintf("the start symbol can evaluate to %v", bad))
	}
}

func trimMod(p string) string {
	if len(p) > len(modPath) {
		return p[len(modPath)+1:]
	}
	return p
}


// deadForBody: some enclosing `if` compares len(rhs) with a constant and, for a body of n symbols, the branch the innermost
// node sits in is not taken.
func (ev *evaluator) deadForBody(stack []ast.Node, n int) bool {
	info := ev.pkg.TypesInfo
	for j := 0; j+1 < len(stack); j++ {
		ifs, ok := stack[j].(*ast.IfStmt)
		if !ok {
			continue
		}
		b, ok := ast.Unparen(ifs.Cond).(*ast.BinaryExpr)
		if !ok {
			continue
		}
		call, ok := ast.Unparen(b.X).(*ast.CallExpr)
		if !ok || len(call.Args) != 1 {
			continue
		}
		fid, ok := call.Fun.(*ast.Ident)
		if !ok || fid.Name != "len" {
			continue
		}
		aid, ok := ast.Unparen(call.Args[0]).(*ast.Ident)
		if !ok || info.Uses[aid] != types.Object(ev.rhsParam) {
			continue
		}
		k, ok := constInt(info, b.Y)
		if !ok {
			continue
		}
		var holds bool
		switch b.Op {
		case token.EQL:
			holds = int64(n) == k
		case token.NEQ:
			holds = int64(n) != k
		case token.LSS:
			holds = int64(n) < k
		case token.LEQ:
			holds = int64(n) <= k
		case token.GTR:
			holds = int64(n) > k
		case token.GEQ:
			holds = int64(n) >= k
		default:
			continue
		}
		next := stack[j+1]
		if next == ast.Node(ifs.Body) && !holds {
			return true
		}
		if ifs.Else != nil && next == ast.Node(ifs.Else) && holds {
			return true
		}
	}
	return false
}
