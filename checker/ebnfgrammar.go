package main

// Shared extraction of the built-in EBNF grammar, its precedences and its ACTION/GOTO tables
// from internal/ebnf/parser (used by C04, C11, C12, C14, C18, C20).

import (
	"fmt"
	"go/ast"
	"go/token"
	"go/types"
	"sort"

	"golang.org/x/tools/go/packages"
)

type ebnfGrammar struct {
	pkg          *packages.Package
	prods        []gprod
	prodsVar     *types.Var
	terminals    []string
	nonTerminals []string
	levels       []glevel
	start        string
	startPos     token.Pos
	endmarker    string

	actionFn, gotoFn *ast.FuncDecl
	action           map[int]map[string]laction
	actionPos        map[int]map[string]token.Pos
	gotoT            map[int]map[string]int
	gotoPos          map[int]map[string]token.Pos
	errLeaves        int
}

// pkgVars returns package-level variables with their initialisers.
func pkgVars(p *packages.Package, f func(v *types.Var, init ast.Expr, spec *ast.ValueSpec)) {
	for _, file := range p.Syntax {
		for _, d := range file.Decls {
			gd, ok := d.(*ast.GenDecl)
			if !ok || gd.Tok != token.VAR {
				continue
			}
			for _, s := range gd.Specs {
				vs := s.(*ast.ValueSpec)
				for i, n := range vs.Names {
					v, _ := p.TypesInfo.Defs[n].(*types.Var)
					if v == nil {
						continue
					}
					var init ast.Expr
					if i < len(vs.Values) {
						init = vs.Values[i]
					}
					f(v, init, vs)
				}
			}
		}
	}
}

func typeIs(t types.Type, pkgSuffix, name string) bool {
	p, n := namedTypeName(t)
	return p == depPath+"/"+pkgSuffix && n == name
}

func sliceElem(t types.Type) types.Type {
	if s, ok := t.Underlying().(*types.Slice); ok {
		return s.Elem()
	}
	return nil
}

// extractGrammarVars evaluates the grammar variables of a package (the parser package or its generator).
func extractGrammarVars(p *packages.Package) (*ebnfGrammar, error) {
	g := &ebnfGrammar{pkg: p}
	info := p.TypesInfo
	var err error
	found := map[string]int{}
	pkgVars(p, func(v *types.Var, init ast.Expr, _ *ast.ValueSpec) {
		if init == nil || err != nil {
			return
		}
		t := v.Type()
		switch {
		case sliceElem(t) != nil && func() bool {
			e := sliceElem(t)
			pt, ok := e.(*types.Pointer)
			return ok && typeIs(pt.Elem(), "grammar", "Production")
		}():
			found["productions"]++
			g.prodsVar = v
			g.prods, err = evalProductions(info, init)
		case sliceElem(t) != nil && typeIs(sliceElem(t), "grammar", "Terminal"):
			found["terminals"]++
			g.terminals, err = evalStringList(info, init)
		case sliceElem(t) != nil && typeIs(sliceElem(t), "grammar", "NonTerminal"):
			found["nonTerminals"]++
			g.nonTerminals, err = evalStringList(info, init)
		case typeIs(t, "parser/lr", "PrecedenceLevels"):
			found["precedences"]++
			g.levels, err = evalPrecedences(info, init)
		case func() bool {
			pt, ok := t.(*types.Pointer)
			return ok && typeIs(pt.Elem(), "grammar", "CFG")
		}():
			call, ok := ast.Unparen(init).(*ast.CallExpr)
			if ok && isDepObj(objOf(info, call.Fun), "grammar", "NewCFG") && len(call.Args) == 4 {
				if s, ok := constStr(info, call.Args[3]); ok {
					found["start"]++
					g.start, g.startPos = s, call.Args[3].Pos()
				}
			}
		}
	})
	if err != nil {
		return nil, err
	}
	for _, k := range []string{"productions", "terminals", "nonTerminals", "precedences", "start"} {
		if found[k] != 1 {
			return nil, fmt.Errorf("expected exactly one package-level %s in %s, found %d", k, p.PkgPath, found[k])
		}
	}
	// the endmarker constant of the dependency
	if gp := p.Imports[depPath+"/grammar"]; gp != nil {
		if c, ok := gp.Types.Scope().Lookup("Endmarker").(*types.Const); ok {
			g.endmarker = constStringVal(c)
		}
	}
	return g, nil
}

func constStringVal(c *types.Const) string {
	s := c.Val().ExactString()
	if len(s) >= 2 && s[0] == '"' {
		var out string
		fmt.Sscanf(s, "%q", &out)
		return out
	}
	return s
}

func sigMatches(fn *types.Func, params []func(types.Type) bool, results []func(types.Type) bool) bool {
	sig := fn.Type().(*types.Signature)
	if sig.Recv() != nil || sig.Params().Len() != len(params) || sig.Results().Len() != len(results) {
		return false
	}
	for i, f := range params {
		if !f(sig.Params().At(i).Type()) {
			return false
		}
	}
	for i, f := range results {
		if !f(sig.Results().At(i).Type()) {
			return false
		}
	}
	return true
}

func isInt(t types.Type) bool {
	b, ok := t.Underlying().(*types.Basic)
	return ok && b.Kind() == types.Int
}
func isRune(t types.Type) bool {
	b, ok := t.Underlying().(*types.Basic)
	return ok && b.Kind() == types.Int32
}
func isErr(t types.Type) bool { return types.Identical(t, types.Universe.Lookup("error").Type()) }

func depType(pkgSuffix, name string) func(types.Type) bool {
	return func(t types.Type) bool { return typeIs(t, pkgSuffix, name) }
}

// findFuncBySig finds the unique top-level function of p with the given signature shape.
func findFuncBySig(p *packages.Package, params, results []func(types.Type) bool) []*ast.FuncDecl {
	var out []*ast.FuncDecl
	AllFuncDecls(p, func(fd *ast.FuncDecl) {
		if fd.Recv != nil || fd.Body == nil {
			return
		}
		fn, _ := p.TypesInfo.Defs[fd.Name].(*types.Func)
		if fn != nil && sigMatches(fn, params, results) {
			out = append(out, fd)
		}
	})
	return out
}

// extractEBNF loads grammar variables and flattens ACTION/GOTO of internal/ebnf/parser.
func extractEBNF(c *Ctx, rule string) *ebnfGrammar {
	p := c.Pkg("internal/ebnf/parser")
	if p == nil {
		c.Lost(rule, "package internal/ebnf/parser")
		return nil
	}
	g, err := extractGrammarVars(p)
	if err != nil {
		c.Undecided(rule, "grammar-vars", token.NoPos, err.Error())
		return nil
	}
	af := findFuncBySig(p, []func(types.Type) bool{isInt, depType("grammar", "Terminal")},
		[]func(types.Type) bool{depType("parser/lr", "ActionType"), isInt, isErr})
	gf := findFuncBySig(p, []func(types.Type) bool{isInt, depType("grammar", "NonTerminal")}, []func(types.Type) bool{isInt})
	if len(af) != 1 || len(gf) != 1 {
		c.Lost(rule, fmt.Sprintf("ACTION/GOTO lookup functions by signature (found %d/%d)", len(af), len(gf)))
		return nil
	}
	g.actionFn, g.gotoFn = af[0], gf[0]
	c.Analysed(funcKey(p, g.actionFn))
	c.Analysed(funcKey(p, g.gotoFn))
	info := p.TypesInfo

	g.action = map[int]map[string]laction{}
	g.actionPos = map[int]map[string]token.Pos{}
	ps := funcParams(info, g.actionFn)
	leaves, epos, err := flattenFunc(info, g.actionFn, ps)
	if err != nil {
		c.Undecided(rule, "ACTION", epos, err.Error())
		return nil
	}
	for _, lf := range leaves {
		if len(lf.ret.Results) != 3 {
			c.Undecided(rule, "ACTION-return", lf.ret.Pos(), "return arity")
			return nil
		}
		to := objOf(info, lf.ret.Results[0])
		if to == nil || to.Pkg() == nil || to.Pkg().Path() != depPath+"/parser/lr" {
			c.Undecided(rule, "ACTION-return", lf.ret.Pos(), "action type is not an lr constant: "+types.ExprString(lf.ret.Results[0]))
			return nil
		}
		errNil := isNilExpr(info, lf.ret.Results[2])
		if len(lf.stmts) != 0 {
			c.Undecided(rule, "ACTION-leaf", lf.ret.Pos(), "statements other than switch/return on a path")
			return nil
		}
		sd, ad := lf.cons[ps[0]], lf.cons[ps[1]]
		if to.Name() == "ERROR" {
			g.errLeaves++
			c.Check("R4.2", "ACTION error leaf carries a non-nil error", lf.ret.Pos(), !errNil,
				"an lr.ERROR entry returns a nil error: the driver would treat it as an action")
			continue
		}
		// an action leaf must be a finite set of (state, terminal) pairs
		if ad.co || sd.infinite() {
			c.Fail("R4.2", fmt.Sprintf("default action %s", to.Name()), lf.ret.Pos(),
				fmt.Sprintf("ACTION returns %s for an unbounded set of (state, terminal) pairs (a default action): error detection is no longer at the first offending token", to.Name()))
			continue
		}
		c.Check("R4.2", "ACTION action leaf returns a nil error", lf.ret.Pos(), errNil, "a non-error action returns a non-nil error and is discarded by the driver")
		param, ok := constInt(info, lf.ret.Results[1])
		if !ok {
			c.Undecided(rule, "ACTION-param", lf.ret.Pos(), "non-constant action parameter")
			return nil
		}
		for _, s := range sd.intValues() {
			for a := range ad.strs {
				if g.action[s] == nil {
					g.action[s] = map[string]laction{}
					g.actionPos[s] = map[string]token.Pos{}
				}
				g.action[s][a] = laction{to.Name(), int(param)}
				g.actionPos[s][a] = lf.ret.Pos()
			}
		}
	}

	g.gotoT = map[int]map[string]int{}
	g.gotoPos = map[int]map[string]token.Pos{}
	ps = funcParams(info, g.gotoFn)
	leaves, epos, err = flattenFunc(info, g.gotoFn, ps)
	if err != nil {
		c.Undecided(rule, "GOTO", epos, err.Error())
		return nil
	}
	for _, lf := range leaves {
		if len(lf.ret.Results) != 1 || len(lf.stmts) != 0 {
			c.Undecided(rule, "GOTO-leaf", lf.ret.Pos(), "unexpected leaf shape")
			return nil
		}
		n, ok := constInt(info, lf.ret.Results[0])
		if !ok {
			c.Undecided(rule, "GOTO-return", lf.ret.Pos(), "non-constant goto target")
			return nil
		}
		sd, ad := lf.cons[ps[0]], lf.cons[ps[1]]
		if ad.co || sd.infinite() {
			g.errLeaves++
			c.Check("R4.2", "GOTO default leaf is the error entry", lf.ret.Pos(), n < 0,
				fmt.Sprintf("GOTO returns state %d for an unbounded set of (state, non-terminal) pairs", n))
			continue
		}
		for _, s := range sd.intValues() {
			for a := range ad.strs {
				if g.gotoT[s] == nil {
					g.gotoT[s] = map[string]int{}
					g.gotoPos[s] = map[string]token.Pos{}
				}
				g.gotoT[s][a] = int(n)
				g.gotoPos[s][a] = lf.ret.Pos()
			}
		}
	}
	return g
}

func isNilExpr(info *types.Info, e ast.Expr) bool {
	tv, ok := info.Types[e]
	return ok && tv.IsNil()
}

func (d dset) infinite() bool {
	if d.isStr {
		return d.co
	}
	n := int64(0)
	for _, x := range d.ints {
		if x.hi-x.lo < 0 || x.hi-x.lo > 1<<20 {
			return true
		}
		n += x.hi - x.lo + 1
	}
	return n > 1<<20
}

func (d dset) intValues() []int {
	var out []int
	for _, x := range d.ints {
		for v := x.lo; v <= x.hi; v++ {
			out = append(out, int(v))
		}
	}
	sort.Ints(out)
	return out
}
