package main

// E6: small SSA helpers: derives-from slices, control conditions, reachability, error flow.

import (
	"go/constant"
	"go/token"
	"go/types"

	"golang.org/x/tools/go/ssa"
)

// roots walks backwards from v through value-preserving / projecting instructions and returns the
// root values reached. Traversed: Extract, load of FieldAddr/IndexAddr/Alloc (through their stores for
// local allocs), Convert, ChangeType, ChangeInterface, MakeInterface, TypeAssert, Phi, Slice, UnOp(*).
// stopAt lets the caller stop at interesting nodes.
type slicer struct {
	fn       *ssa.Function
	stopAt   func(v ssa.Value) bool
	seen     map[ssa.Value]bool
	Roots    []ssa.Value
	maxSteps int
}

func newSlicer(fn *ssa.Function, stopAt func(ssa.Value) bool) *slicer {
	return &slicer{fn: fn, stopAt: stopAt, seen: map[ssa.Value]bool{}}
}

func (s *slicer) walk(v ssa.Value) {
	if v == nil || s.seen[v] {
		return
	}
	s.seen[v] = true
	if s.stopAt != nil && s.stopAt(v) {
		s.Roots = append(s.Roots, v)
		return
	}
	switch x := v.(type) {
	case *ssa.Extract:
		s.walk(x.Tuple)
	case *ssa.Convert:
		s.walk(x.X)
	case *ssa.ChangeType:
		s.walk(x.X)
	case *ssa.ChangeInterface:
		s.walk(x.X)
	case *ssa.MakeInterface:
		s.walk(x.X)
	case *ssa.TypeAssert:
		s.walk(x.X)
	case *ssa.Slice:
		s.walk(x.X)
	case *ssa.Phi:
		for _, e := range x.Edges {
			s.walk(e)
		}
	case *ssa.UnOp:
		if x.Op == token.MUL {
			// load: follow the address; for local allocs follow the stores
			s.walkAddr(x.X)
		} else {
			s.Roots = append(s.Roots, v)
		}
	default:
		s.Roots = append(s.Roots, v)
	}
}

func (s *slicer) walkAddr(a ssa.Value) {
	switch x := a.(type) {
	case *ssa.Alloc:
		stored := false
		for _, r := range *x.Referrers() {
			if st, ok := r.(*ssa.Store); ok && st.Addr == x {
				stored = true
				s.walk(st.Val)
			}
		}
		if !stored {
			s.Roots = append(s.Roots, x)
		}
	default:
		// FieldAddr / IndexAddr / Global: report the address expression as a root
		if s.stopAt != nil && s.stopAt(a) {
			s.Roots = append(s.Roots, a)
			return
		}
		s.Roots = append(s.Roots, a)
	}
}

func rootsOf(fn *ssa.Function, v ssa.Value, stopAt func(ssa.Value) bool) []ssa.Value {
	s := newSlicer(fn, stopAt)
	s.walk(v)
	return s.Roots
}

// cond is one controlling condition: value must be true (or false) for the block to execute.
type cond struct {
	v   ssa.Value
	pol bool
}

// controlConds returns the branch conditions whose outcome is implied at the start of block b
// (edge-dominance along the dominator tree).
func controlConds(b *ssa.BasicBlock) []cond {
	var out []cond
	for d := b.Idom(); d != nil; d = d.Idom() {
		ifi, ok := d.Instrs[len(d.Instrs)-1].(*ssa.If)
		if !ok {
			continue
		}
		t, f := d.Succs[0], d.Succs[1]
		if t == f {
			continue
		}
		dt := len(t.Preds) == 1 && (t == b || t.Dominates(b))
		df := len(f.Preds) == 1 && (f == b || f.Dominates(b))
		if dt && !df {
			out = append(out, cond{ifi.Cond, true})
		} else if df && !dt {
			out = append(out, cond{ifi.Cond, false})
		}
	}
	return out
}

// eqConst reports whether c is `x == K` / `x != K` with x == v and K an integer constant; returns K and whether
// a true outcome means equality.
func eqConst(c ssa.Value, v ssa.Value) (int64, bool, bool) {
	b, ok := c.(*ssa.BinOp)
	if !ok || (b.Op != token.EQL && b.Op != token.NEQ) {
		return 0, false, false
	}
	x, y := b.X, b.Y
	if k, ok := y.(*ssa.Const); ok && x == v && k.Value != nil {
		if n, ok := constant.Int64Val(constant.ToInt(k.Value)); ok {
			return n, b.Op == token.EQL, true
		}
	}
	if k, ok := x.(*ssa.Const); ok && y == v && k.Value != nil {
		if n, ok := constant.Int64Val(constant.ToInt(k.Value)); ok {
			return n, b.Op == token.EQL, true
		}
	}
	return 0, false, false
}

// controlledByEq: block b executes only when v == k.
func controlledByEq(b *ssa.BasicBlock, v ssa.Value, k int64) bool {
	for _, c := range controlConds(b) {
		if n, eq, ok := eqConst(c.v, v); ok && n == k && eq == c.pol {
			return true
		}
	}
	return false
}

// isNilCheck reports whether c is `v != nil` (pol true => non-nil) or `v == nil`.
func isNilCheck(c ssa.Value, v ssa.Value) (nonNilWhenTrue bool, ok bool) {
	b, isb := c.(*ssa.BinOp)
	if !isb || (b.Op != token.EQL && b.Op != token.NEQ) {
		return false, false
	}
	isNil := func(x ssa.Value) bool {
		k, ok := x.(*ssa.Const)
		return ok && k.IsNil()
	}
	if (b.X == v && isNil(b.Y)) || (b.Y == v && isNil(b.X)) {
		return b.Op == token.NEQ, true
	}
	// v parked in a local cell (a named result, a captured variable) and tested through a load of that cell
	holds := func(x ssa.Value) bool {
		u, ok := x.(*ssa.UnOp)
		if !ok || u.Op != token.MUL {
			return false
		}
		a, ok := u.X.(*ssa.Alloc)
		if !ok {
			return false
		}
		vals, entry := reachingStores(u, a)
		return !entry && len(vals) == 1 && vals[0] == v
	}
	if (isNil(b.Y) && holds(b.X)) || (isNil(b.X) && holds(b.Y)) {
		return b.Op == token.NEQ, true
	}
	return false, false
}

// controlledNonNil: block b executes only when v != nil (want=true) or only when v == nil (want=false).
func controlledNil(b *ssa.BasicBlock, v ssa.Value, wantNonNil bool) bool {
	for _, c := range controlConds(b) {
		if nn, ok := isNilCheck(c.v, v); ok {
			if (nn == c.pol) == wantNonNil {
				return true
			}
		}
	}
	return false
}

func calleeFunc(c ssa.CallInstruction) *types.Func {
	com := c.Common()
	if com.IsInvoke() {
		return com.Method
	}
	if f := com.StaticCallee(); f != nil {
		if o, ok := f.Object().(*types.Func); ok {
			return o
		}
		// instantiated generic
		if f.Origin() != nil {
			if o, ok := f.Origin().Object().(*types.Func); ok {
				return o
			}
		}
	}
	return nil
}

func allCalls(fn *ssa.Function, f func(call ssa.CallInstruction)) {
	for _, b := range fn.Blocks {
		for _, in := range b.Instrs {
			if c, ok := in.(ssa.CallInstruction); ok {
				f(c)
			}
		}
	}
}

// reach returns the set of blocks reachable from b (following successors) without entering `avoid`.
func reach(from *ssa.BasicBlock, avoid map[*ssa.BasicBlock]bool) map[*ssa.BasicBlock]bool {
	seen := map[*ssa.BasicBlock]bool{}
	var st []*ssa.BasicBlock
	for _, s := range from.Succs {
		st = append(st, s)
	}
	for len(st) > 0 {
		b := st[len(st)-1]
		st = st[:len(st)-1]
		if seen[b] || avoid[b] {
			continue
		}
		seen[b] = true
		st = append(st, b.Succs...)
	}
	return seen
}

func instrIndex(in ssa.Instruction) int {
	for i, x := range in.Block().Instrs {
		if x == in {
			return i
		}
	}
	return -1
}

// isConstInt reports v is the integer constant k.
func isConstInt(v ssa.Value, k int64) bool {
	c, ok := v.(*ssa.Const)
	if !ok || c.Value == nil {
		return false
	}
	n, ok := constant.Int64Val(constant.ToInt(c.Value))
	return ok && n == k
}

func isNilConst(v ssa.Value) bool {
	c, ok := v.(*ssa.Const)
	return ok && c.IsNil()
}

// retOperand returns the i-th returned value, seeing through the defer spill idiom
// (*slot = v; rundefers; t = *slot; return t).
func retOperand(ret *ssa.Return, i int) ssa.Value {
	v := ret.Results[i]
	u, ok := v.(*ssa.UnOp)
	if !ok || u.Op != token.MUL {
		return v
	}
	a, ok := u.X.(*ssa.Alloc)
	if !ok {
		return v
	}
	b := ret.Block()
	var last ssa.Value
	for _, in := range b.Instrs {
		if in == ssa.Instruction(u) {
			break
		}
		if st, ok := in.(*ssa.Store); ok && st.Addr == a {
			last = st.Val
		}
	}
	if last != nil {
		return last
	}
	return v
}

func retLast(ret *ssa.Return) ssa.Value {
	if len(ret.Results) == 0 {
		return nil
	}
	return retOperand(ret, len(ret.Results)-1)
}
