package main

import (
	"fmt"
	"os"
	"go/ast"
	"go/constant"
	"go/token"
	"go/types"

	"golang.org/x/tools/go/packages"
	"golang.org/x/tools/go/ssa"
)

// checkEscapeResolver: the function that resolves backslash escapes in a string literal (found by role: a func(string) string
// of the package that compares a byte or rune of its argument with '\\') must take the character after a backslash
// literally: on the path where the backslash test succeeds, a character is written before the backslash test is evaluated
// again. If the path returns to the test first, the character after the backslash is examined as if it could start an
// escape itself, and `\\n` resolves to `n` instead of backslash-n: two different literals get the same value.
func checkEscapeResolver(c *Ctx, rule string, p *packages.Package) {
	info := p.TypesInfo
	var cands []*ast.FuncDecl
	AllFuncDecls(p, func(fd *ast.FuncDecl) {
		if fd.Body == nil || fd.Recv != nil {
			return
		}
		fo, _ := info.Defs[fd.Name].(*types.Func)
		if fo == nil {
			return
		}
		sig := fo.Type().(*types.Signature)
		if sig.Params().Len() != 1 || sig.Results().Len() != 1 || !isString(sig.Params().At(0).Type()) || !isString(sig.Results().At(0).Type()) {
			return
		}
		has := false
		ast.Inspect(fd.Body, func(n ast.Node) bool {
			if be, ok := n.(*ast.BinaryExpr); ok && (be.Op == token.EQL || be.Op == token.NEQ) {
				for _, e := range []ast.Expr{be.X, be.Y} {
					if tv, ok := info.Types[e]; ok && tv.Value != nil && tv.Value.Kind() == constant.Int {
						if v, ok := constant.Int64Val(tv.Value); ok && v == '\\' {
							has = true
						}
					}
				}
			}
			return true
		})
		if has {
			cands = append(cands, fd)
		}
	})
	key := "escape resolver: the character after a backslash is written without being examined"
	if len(cands) == 0 {
		c.Undecided(rule, key, p.Types.Scope().Pos(), "no func(string) string that compares a character of its argument with a backslash was found (escapes may be resolved in another way)")
		return
	}
	for _, fd := range cands {
		fn := c.SSAFunc(p, fd)
		if fn == nil || len(fn.Blocks) == 0 {
			c.Undecided(rule, key, fd.Pos(), "no SSA body")
			continue
		}
		c.Analysed(p.Types.Path() + "." + fd.Name.Name)
		isBackslashTest := func(v ssa.Value) (bool, bool) { // (is test, true means backslash)
			bo, ok := v.(*ssa.BinOp)
			if !ok || (bo.Op != token.EQL && bo.Op != token.NEQ) {
				return false, false
			}
			for _, o := range []ssa.Value{bo.X, bo.Y} {
				if k, ok := o.(*ssa.Const); ok && k.Value != nil && k.Value.Kind() == constant.Int {
					if n, ok := constant.Int64Val(k.Value); ok && n == '\\' {
						return true, bo.Op == token.EQL
					}
				}
			}
			return false, false
		}
		isLenCmp := func(v ssa.Value) bool {
			bo, ok := v.(*ssa.BinOp)
			if !ok {
				return false
			}
			for _, o := range []ssa.Value{bo.X, bo.Y} {
				if call, ok := o.(*ssa.Call); ok {
					if b, ok := call.Call.Value.(*ssa.Builtin); ok && b.Name() == "len" {
						return true
					}
				}
			}
			return false
		}
		writes := func(b *ssa.BasicBlock) bool {
			for _, in := range b.Instrs {
				switch x := in.(type) {
				case *ssa.Call:
					if b, ok := x.Call.Value.(*ssa.Builtin); ok && b.Name() == "append" {
						return true
					}
					switch x.Call.Value.Name() {
					case "WriteByte", "WriteRune", "WriteString", "Write":
						return true
					}
					if x.Call.Method != nil {
						switch x.Call.Method.Name() {
						case "WriteByte", "WriteRune", "WriteString", "Write":
							return true
						}
					}
				case *ssa.BinOp:
					if x.Op == token.ADD && isString(x.Type()) {
						return true
					}
				}
			}
			return false
		}
		var testBlock *ssa.BasicBlock
		var escSucc *ssa.BasicBlock
		for _, b := range fn.Blocks {
			if ifi, ok := b.Instrs[len(b.Instrs)-1].(*ssa.If); ok {
				if is, pol := isBackslashTest(ifi.Cond); is {
					testBlock = b
					if pol {
						escSucc = b.Succs[0]
					} else {
						escSucc = b.Succs[1]
					}
				}
			}
		}
		if testBlock == nil {
			c.Undecided(rule, key, fd.Pos(), "the backslash comparison does not decide a branch")
			continue
		}
		// a further `i+1 < len(s)` conjunct belongs to the escape test
		if ifi, ok := escSucc.Instrs[len(escSucc.Instrs)-1].(*ssa.If); ok && isLenCmp(ifi.Cond) && !writes(escSucc) && len(escSucc.Instrs) <= 4 {
			escSucc = escSucc.Succs[0]
		}
		// search from the escape successor: fail = reaches the test block again before any write
		type st struct {
			b      *ssa.BasicBlock
			opaque bool
		}
		seen := map[*ssa.BasicBlock]bool{}
		reTest, reTestOpaque, lostChar := false, false, false
		stack := []st{{escSucc, false}}
		for len(stack) > 0 {
			cur := stack[len(stack)-1]
			stack = stack[:len(stack)-1]
			if seen[cur.b] {
				continue
			}
			seen[cur.b] = true
			if writes(cur.b) {
				continue
			}
			if cur.b == testBlock {
				if cur.opaque {
					reTestOpaque = true
				} else {
					reTest = true
				}
				continue
			}
			last := cur.b.Instrs[len(cur.b.Instrs)-1]
			if _, ok := last.(*ssa.Return); ok {
				lostChar = true
				continue
			}
			op := cur.opaque
			if ifi, ok := last.(*ssa.If); ok && !isLenCmp(ifi.Cond) {
				op = true
			}
			for _, s := range cur.b.Succs {
				stack = append(stack, st{s, op})
			}
		}
		// the flag form: a backslash sets a loop-carried flag, and the next round, seeing the flag, writes the character
		// without examining it. The flag must be cleared where it is consumed: a flag that is only ever set resolves the first
		// escape of a literal and leaves all later ones as they are.
		if !reTest && (reTestOpaque || lostChar) {
			flagVerdict := 0 // 1 pass, -1 fail
			for _, b := range fn.Blocks {
				for _, in := range b.Instrs {
					ph, ok := in.(*ssa.Phi)
					if !ok {
						continue
					}
					if bt, ok := ph.Type().Underlying().(*types.Basic); !ok || bt.Kind() != types.Bool {
						continue
					}
					// is it a loop-carried flag (some edge depends on itself) that the escape path sets?
					setOnEscape, selfCarried := false, false
					cleared, clearedWhereConsumed := false, false
					seenV := map[ssa.Value]bool{}
					var visit func(v ssa.Value, from *ssa.BasicBlock, depth int)
					visit = func(v ssa.Value, from *ssa.BasicBlock, depth int) {
						if depth > 6 {
							return
						}
						if k, ok := v.(*ssa.Const); ok && k.Value != nil {
							if constant.BoolVal(k.Value) {
								if from == escSucc || escSucc.Dominates(from) || reach(escSucc, map[*ssa.BasicBlock]bool{testBlock: true, b: true})[from] {
									setOnEscape = true
								}
							} else if from != nil && b.Dominates(from) && from != b {
								cleared = true
								for _, cd := range controlConds(from) {
									if cd.v == ssa.Value(ph) && cd.pol {
										clearedWhereConsumed = true
									}
								}
								if from.Idom() != nil {
									// the clearing block itself may be the consuming block's only successor
									for _, cd := range controlConds(from) {
										if cd.v == ssa.Value(ph) && cd.pol {
											clearedWhereConsumed = true
										}
									}
								}
							}
							return
						}
						if v == ssa.Value(ph) {
							selfCarried = true
							return
						}
						if seenV[v] {
							return
						}
						seenV[v] = true
						if p2, ok := v.(*ssa.Phi); ok {
							for i, e := range p2.Edges {
								visit(e, p2.Block().Preds[i], depth+1)
							}
						}
					}
					for i, e := range ph.Edges {
						visit(e, b.Preds[i], 0)
					}
					if os.Getenv("EMCHECK_DEBUG") != "" {
						fmt.Fprintf(os.Stderr, "flag %s: set=%v self=%v cleared=%v consumed=%v escSucc=%d\n", ph.Name(), setOnEscape, selfCarried, cleared, clearedWhereConsumed, escSucc.Index)
					}
					if !setOnEscape || !selfCarried {
						continue
					}
					// the flag must be tested somewhere
					tested := false
					for _, r := range *ph.Referrers() {
						if _, ok := r.(*ssa.If); ok {
							tested = true
						}
					}
					if !tested {
						continue
					}
					switch {
					case !cleared:
						flagVerdict = -1
					case clearedWhereConsumed && flagVerdict == 0:
						flagVerdict = 1
					}
				}
			}
			switch flagVerdict {
			case -1:
				c.Fail(rule, key, fd.Pos(), "a backslash sets a flag that tells the next round to copy the character as it is, and nothing ever clears the flag: after the first escape of a literal every following character, backslashes included, is copied verbatim, so a literal with two escapes keeps the second backslash",
					`the literals "\"\"" and "\"a\""`)
				continue
			case 1:
				c.Pass(rule, key, fd.Pos(), "flag form: set by a backslash, cleared where the flagged character is written")
				continue
			}
		}
		switch {
		case reTest:
			c.Fail(rule, key, fd.Pos(), "after a backslash the loop comes back to the backslash test before anything is written: the escaped character is itself taken for the start of an escape, so `\\\\n` resolves to `n` instead of backslash-n and different literals collapse to one value")
		case reTestOpaque || lostChar:
			c.Undecided(rule, key, fd.Pos(), "the path after a backslash passes a condition that was not recognised before it writes a character")
		default:
			c.Pass(rule, key, fd.Pos(), "")
		}
	}
}
