package main

import (
	"fmt"
	"go/ast"
	"go/token"
	"go/types"

	"golang.org/x/tools/go/ssa"
)

func init() {
	register(&property{id: "C13", run: runC13, meta: propMeta{
		level: "other",
		explanation: "Structural necessary conditions of layout independence in the built-in scanner and its driver: a lexeme pending when the input ends is evaluated (not dropped) and only when one is pending; only end-of-input is turned into the end marker, every other read error is returned; the terminals the scan loop skips are exactly layout (disjoint from the grammar's terminals, and every other accepting label is a grammar terminal), so blanks, newlines and comments never reach the parser; optional semicolons are grammar (C04); the text reaches the reader unmodified; the reader is the module's in-memory reader, whose text is fixed at construction and never re-filled (no buffer boundary exists), whose cursors keep begin <= forward <= len(text) and whose positions are computed by walking the runes of each lexeme (R13.4/R13.5). " +
			"If lexer.New used the dependency's two-buffer reader instead, R13.5 requires a half larger than the text on every path.",
		trusted: []string{"unicode/utf8's DecodeRune / DecodeLastRune contracts", "exact scanner tables (C05) and parser tables (C04)"},
		assumptions: []string{"positions are computed by the module's in-memory reader (decided under R13.4)"},
	}})
}

func runC13(c *Ctx) {
	c.Rule("R13.1", 2, "a lexeme pending at end of input is evaluated before the end of input is reported")
	c.Rule("R13.2", 2, "only end-of-input becomes the end marker; other read errors are returned")
	c.Rule("R13.3", 3, "the skipped terminals are exactly the layout terminals")
	c.Rule("R13.4", 2, "file name and unmodified text are handed to the reader")
	c.Rule("R13.5", 1, "no buffer boundary inside the text: the reader holds the whole text (in memory, never re-filled; or a half larger than the text)")

	lp := c.Pkg("internal/ebnf/lexer")
	if lp == nil {
		c.Lost("R13.1", "package internal/ebnf/lexer")
		return
	}
	c.mute = map[string]bool{"R5.4": true, "R4.2": true}
	s := findScanner(c, "R13.1", lp)
	if s == nil {
		return
	}
	fn := c.SSAFunc(lp, s.nextFn)
	sl := analyseScanLoop(c, "R5.4", fn, lp.TypesInfo.Defs[s.advFn.Name], lp.TypesInfo.Defs[s.evalFn.Name], s.errorState)
	if sl.pathsDone {
		checkPendingAtEOF(c, "R13.1", sl, "internal/ebnf/lexer")
	} else {
		c.Undecided("R13.1", "scan loop: the paths through one iteration", s.nextFn.Pos(), "the scan loop was not understood")
	}
	if !sl.ok {
		c.Undecided("R13.3", "scan loop: which terminals are skipped", s.nextFn.Pos(), "the treatment of the evaluated token was not understood")
		return
	}

	// R13.3
	g := extractEBNF(c, "R13.3")
	if g != nil {
		gt := map[string]bool{}
		for _, t := range g.terminals {
			gt[t] = true
		}
		skip := map[string]bool{}
		for _, t := range sl.skipTerms {
			skip[t] = true
			c.Check("R13.3", "skipped terminal "+t+" is not a terminal of the grammar", s.nextFn.Pos(), !gt[t], "the scan loop drops a token the parser needs: the token sequence depends on it")
		}
		errs := map[string]bool{}
		for _, t := range sl.errTerms {
			errs[t] = true
		}
		labels := map[string]bool{}
		for _, lf := range s.leaves {
			if lf.termOK {
				labels[lf.terminal] = true
			}
		}
		for t := range labels {
			if skip[t] || errs[t] {
				continue
			}
			c.Check("R13.3", "returned terminal "+t+" is a terminal of the grammar", s.evalFn.Pos(), gt[t], "the scanner returns a terminal the parsing table does not know: layout (or an unknown kind) reaches the parser")
		}
		for t := range gt {
			c.Check("R13.3", "grammar terminal "+t+" is produced by the scanner", s.evalFn.Pos(), labels[t] && !skip[t] && !errs[t], "no accepting state yields this terminal")
		}
		c.Check("R13.3", "some layout is skipped", s.nextFn.Pos(), len(sl.skipTerms) >= 1, "the scan loop skips nothing")
	}

	// R13.2 nextToken
	pp := c.Pkg("internal/ebnf/parser")
	if pp != nil {
		checkEndMarker(c, pp, g)
	}

	// R13.4 / R13.5: what the reader is given, and that it has no buffer boundary inside the text
	if ri := findReader(c, "R13.4"); ri != nil {
		info := lp.TypesInfo
		newFn, call := ri.newFn, ri.ctorAST
		p0 := info.Defs[newFn.Type.Params.List[0].Names[0]]
		p1 := info.Defs[newFn.Type.Params.List[1].Names[0]]
		c.Check("R13.4", "the file name is passed through to the reader", call.Pos(), objOf(info, call.Args[0]) == p0, "lexer.New does not pass its own filename to the reader")
		c.Check("R13.4", "the reader's source derives from the src parameter", call.Pos(), derivesFromObj(info, newFn, call.Args[1], p1), "the reader is not fed (a function of) the src parameter")
		checkSourceUnmodified(c, "R13.4", ri)
		switch ri.kind {
		case "dep":
			checkHalfHoldsText(c, ri)
		case "mem":
			// an in-memory reader: the whole text is one slice that is never re-filled, so there is no boundary to cross;
			// the cursor invariant makes Retract stop at the beginning of the lexeme and every slice of the text in bounds
			checkMemReader(c, "R13.5", ri)
			checkMemReaderPositions(c, "R13.4", ri)
		}
	}
}

// checkPendingAtEOF: R13.1 on an analysed scan loop.
func checkPendingAtEOF(c *Ctx, rule string, sl *scanLoop, where string) {
	pos := sl.fn.Pos()
	if sl.nextCall != nil {
		pos = sl.nextCall.Pos()
	}
	if !c.Check(rule, where+": the loop-carried state is consulted on the end-of-input path", pos, sl.eofPending,
		"when Next() fails the scan function returns without looking at the current state: if the input ends inside (or right after) a lexeme, that last token is lost unless a separator follows it",
		"a file whose last byte is the last character of a token (no final newline)") {
		return
	}
	for _, p := range sl.eofPaths {
		c.Check(rule, where+": evaluation at end of input only when a lexeme is pending (state != 0)", p.endPos, p.pending,
			"the start state is evaluated at end of input: every input would end with a lexical error instead of end-of-input")
		c.Check(rule, where+": only end-of-input triggers the pending evaluation", p.endPos, p.eofTest, "a read error other than io.EOF is swallowed by evaluating the pending state")
	}
}


var _ = fmt.Sprint

func rootGlobal(v ssa.Value) (string, bool) {
	for {
		switch x := v.(type) {
		case *ssa.UnOp:
			v = x.X
			continue
		case *ssa.MakeInterface:
			v = x.X
			continue
		case *ssa.ChangeInterface:
			v = x.X
			continue
		case *ssa.Global:
			return x.Pkg.Pkg.Path() + "." + x.Name(), true
		}
		return "", false
	}
}

// checkEndMarker: the wrapper around the lexer's NextToken substitutes the end marker only for io.EOF.
func checkEndMarker(c *Ctx, pp interface{}, g *ebnfGrammar) {
	p := c.Pkg("internal/ebnf/parser")
	var fd *ast.FuncDecl
	AllFuncDecls(p, func(f *ast.FuncDecl) {
		if f.Recv == nil || f.Body == nil {
			return
		}
		fo, _ := p.TypesInfo.Defs[f.Name].(*types.Func)
		if fo == nil {
			return
		}
		sig := fo.Type().(*types.Signature)
		if sig.Params().Len() == 0 && sig.Results().Len() == 2 && typeIs(sig.Results().At(0).Type(), "lexer", "Token") && isErr(sig.Results().At(1).Type()) {
			fd = f
		}
	})
	if fd == nil {
		c.Lost("R13.2", "the parser's next-token wrapper")
		return
	}
	fn := c.SSAFunc(p, fd)
	c.Analysed(funcKey(p, fd))
	// the lexer call
	var lex *ssa.Call
	allCalls(fn, func(call ssa.CallInstruction) {
		if cv, ok := call.(*ssa.Call); ok && methodNameOf(call) == "NextToken" {
			lex = cv
		}
	})
	if lex == nil {
		c.Lost("R13.2", "call of Lexer.NextToken in the wrapper")
		return
	}
	var lerr ssa.Value
	for _, r := range *lex.Referrers() {
		if ex, ok := r.(*ssa.Extract); ok && ex.Index == 1 {
			lerr = ex
		}
	}
	n := 0
	for _, b := range fn.Blocks {
		ret, ok := b.Instrs[len(b.Instrs)-1].(*ssa.Return)
		if !ok {
			continue
		}
		if !isNilConst(retOperand(ret, 1)) {
			// error return: must be the lexer's error itself
			c.Check("R13.2", "other read errors are returned unchanged", ret.Pos(), retOperand(ret, 1) == lerr, "the wrapper returns an error that is not the lexer's")
			continue
		}
		// success return: either no error, or io.EOF
		if lerr != nil && controlledNil(b, lerr, true) {
			n++
			isEOF := false
			for _, cd := range controlConds(b) {
				if call, ok := cd.v.(*ssa.Call); ok && cd.pol && staticCalleeName(call) == "errors.Is" {
					if gl, ok := rootGlobal(call.Call.Args[1]); ok && gl == "io.EOF" && call.Call.Args[0] == lerr {
						isEOF = true
					}
				}
				if bo, ok := cd.v.(*ssa.BinOp); ok && bo.Op == token.EQL && cd.pol && bo.X == lerr {
					if gl, ok := rootGlobal(bo.Y); ok && gl == "io.EOF" {
						isEOF = true
					}
				}
			}
			c.Check("R13.2", "the end marker is substituted only for io.EOF", ret.Pos(), isEOF, "an error other than end-of-input is turned into the end marker: a failing read looks like a short file")
			// the token returned carries the end marker
			endOK := false
			for _, bb := range fn.Blocks {
				for _, in := range bb.Instrs {
					if st, ok := in.(*ssa.Store); ok {
						if fa, ok := st.Addr.(*ssa.FieldAddr); ok && fieldName(fa) == "Terminal" {
							if k, ok := st.Val.(*ssa.Const); ok && g != nil && constStringOf(k) == g.endmarker {
								endOK = true
							}
						}
					}
				}
			}
			c.Check("R13.2", "the substituted terminal is the grammar's end marker", ret.Pos(), endOK, "the terminal stored on end-of-input is not grammar.Endmarker")
		}
	}
	c.Check("R13.2", "end of input yields the end marker", fd.Pos(), n >= 1, "no success return on the error path: end of input is never turned into the end marker")
}


// derivesFromObj: expression e mentions obj directly or through local variables assigned (transitively) from it.
func derivesFromObj(info *types.Info, fd *ast.FuncDecl, e ast.Expr, obj types.Object) bool {
	tainted := map[types.Object]bool{obj: true}
	mentions := func(n ast.Node) bool {
		found := false
		ast.Inspect(n, func(m ast.Node) bool {
			if id, ok := m.(*ast.Ident); ok && tainted[info.Uses[id]] {
				found = true
			}
			return true
		})
		return found
	}
	for changed := true; changed; {
		changed = false
		ast.Inspect(fd.Body, func(n ast.Node) bool {
			as, ok := n.(*ast.AssignStmt)
			if !ok {
				return true
			}
			any := false
			for _, r := range as.Rhs {
				if mentions(r) {
					any = true
				}
			}
			if any {
				for _, l := range as.Lhs {
					if id, ok := l.(*ast.Ident); ok {
						o := info.Defs[id]
						if o == nil {
							o = info.Uses[id]
						}
						if o != nil && !tainted[o] {
							tainted[o] = true
							changed = true
						}
					}
				}
			}
			return true
		})
	}
	return mentions(e)
}

// sourceUnmodified: in the scanner's constructor the bytes handed to the reader are the caller's source with at most a
// constant suffix appended: the flow from the src parameter to the reader goes through prefix-preserving steps only
// (io.ReadAll, append of constants, wrapping readers, conversions). Any other call on the way may move or drop characters,
// so lexemes and positions would no longer refer to the file.
func sourceUnmodified(c *Ctx, fn *ssa.Function, readerArg ssa.Value) (bool, string) {
	allowedCalls := map[string]bool{
		"io.ReadAll": true, "io/ioutil.ReadAll": true, "bytes.NewReader": true, "bytes.NewBuffer": true, "bytes.NewBufferString": true,
		"strings.NewReader": true, "bufio.NewReader": true, "bufio.NewReaderSize": true, "io.MultiReader": true, "io.NopCloser": true,
	}
	seen := map[ssa.Value]bool{}
	reachedParam := false
	problem := ""
	var walk func(v ssa.Value)
	walk = func(v ssa.Value) {
		if v == nil || seen[v] || problem != "" {
			return
		}
		seen[v] = true
		switch x := v.(type) {
		case *ssa.Parameter:
			reachedParam = true
		case *ssa.Const:
		case *ssa.MakeInterface:
			walk(x.X)
		case *ssa.ChangeInterface:
			walk(x.X)
		case *ssa.ChangeType:
			walk(x.X)
		case *ssa.Convert:
			walk(x.X)
		case *ssa.Extract:
			walk(x.Tuple)
		case *ssa.Phi:
			for _, e := range x.Edges {
				walk(e)
			}
		case *ssa.Slice:
			if x.Low != nil || x.High != nil {
				// re-slicing drops characters unless it is the varargs idiom over a fresh array
				if _, isAlloc := x.X.(*ssa.Alloc); !isAlloc {
					problem = "the text is re-sliced (" + x.String() + ")"
					return
				}
			}
			walk(x.X)
		case *ssa.Alloc:
			for _, r := range *x.Referrers() {
				switch in := r.(type) {
				case *ssa.Store:
					walk(in.Val)
				case *ssa.IndexAddr:
					for _, rr := range *in.Referrers() {
						if st, ok := rr.(*ssa.Store); ok {
							walk(st.Val)
						}
					}
				}
			}
		case *ssa.Call:
			if b, ok := x.Call.Value.(*ssa.Builtin); ok {
				if b.Name() == "append" {
					walk(x.Call.Args[0])
					// appended values must be constants (a terminator), never a function of the text
					for _, a := range x.Call.Args[1:] {
						if sl, ok := a.(*ssa.Slice); ok {
							if al, ok := sl.X.(*ssa.Alloc); ok {
								for _, r := range *al.Referrers() {
									if ia, ok := r.(*ssa.IndexAddr); ok {
										for _, rr := range *ia.Referrers() {
											if st, ok := rr.(*ssa.Store); ok {
												if _, isConst := st.Val.(*ssa.Const); !isConst {
													problem = "a computed value is appended to the text"
												}
											}
										}
									}
								}
								continue
							}
						}
						if _, isConst := a.(*ssa.Const); !isConst {
							problem = "a computed value is appended to the text"
						}
					}
					return
				}
				problem = "builtin " + b.Name() + " applied to the text"
				return
			}
			n := staticCalleeName(x)
			if !allowedCalls[n] {
				if n == "" {
					n = "a dynamic call"
				}
				problem = "the text passes through " + n + ", which is not a prefix-preserving step"
				return
			}
			for i, a := range x.Call.Args {
				if n == "io.MultiReader" && i > 0 {
					continue
				}
				walk(a)
			}
		default:
			problem = "the text flows through " + v.String()
		}
	}
	walk(readerArg)
	if problem != "" {
		return false, problem
	}
	if !reachedParam {
		return false, "the reader's source does not derive from the caller's reader"
	}
	return true, ""
}


// checkSourceUnmodified applies sourceUnmodified to the text argument of the reader constructor in the scanner's constructor.
func checkSourceUnmodified(c *Ctx, rule string, ri *readerInfo) {
	ok, why := sourceUnmodified(c, ri.newSSA, ri.ctor.Call.Args[1])
	c.Check(rule, "the text handed to the reader is the caller's text with at most a constant suffix", ri.ctor.Pos(), ok,
		why+": characters can be dropped, added in front or rewritten before scanning, so lexemes, offsets, lines and columns no longer refer to the file",
		"a specification that begins with blank lines or indentation")
}

// checkHalfHoldsText (R13.5): the dependency's two-buffer reader reloads a half whenever forward arrives at a half boundary,
// also on re-arrival after Retract, so layout independence needs that a boundary is never reached: on every path the half
// size given to the reader exceeds the length of the text it is given.
func checkHalfHoldsText(c *Ctx, ri *readerInfo) {
	call := ri.ctor
	// the text: the byte slice wrapped by the reader argument
	var text ssa.Value
	var find func(v ssa.Value, d int)
	find = func(v ssa.Value, d int) {
		if d > 6 || text != nil {
			return
		}
		switch x := v.(type) {
		case *ssa.MakeInterface:
			find(x.X, d+1)
		case *ssa.Call:
			if n := staticCalleeName(x); n == "bytes.NewReader" || n == "bytes.NewBuffer" {
				text = x.Call.Args[0]
			}
		}
	}
	find(call.Call.Args[1], 0)
	size := call.Call.Args[2]
	exceeds := func(v ssa.Value, blockConds []cond) bool {
		// v == len(text) + k with k >= 1
		if bo, ok := v.(*ssa.BinOp); ok && bo.Op == token.ADD && text != nil && lenOf(bo.X, text) {
			if k, ok := bo.Y.(*ssa.Const); ok && k.Value != nil && k.Int64() >= 1 {
				return true
			}
		}
		// v == K constant, on a path where len(text) < K
		if k, ok := v.(*ssa.Const); ok && k.Value != nil && text != nil {
			for _, cd := range blockConds {
				bo, ok := cd.v.(*ssa.BinOp)
				if !ok || !lenOf(bo.X, text) {
					continue
				}
				kk, ok := bo.Y.(*ssa.Const)
				if !ok || kk.Value == nil {
					continue
				}
				lt := (bo.Op == token.LSS && cd.pol && kk.Int64() <= k.Int64()) || (bo.Op == token.GEQ && !cd.pol && kk.Int64() <= k.Int64()) ||
					(bo.Op == token.LEQ && cd.pol && kk.Int64() < k.Int64()) || (bo.Op == token.GTR && !cd.pol && kk.Int64() < k.Int64())
				if lt {
					return true
				}
			}
		}
		return false
	}
	ok := false
	why := "the half size is " + describeVal(size)
	if text == nil {
		why = "the reader is not given an in-memory text whose length is known (a streamed source can be longer than any fixed half)"
	} else if phi, isPhi := size.(*ssa.Phi); isPhi {
		ok = true
		for i, e := range phi.Edges {
			if !exceeds(e, condsOnEdge(phi.Block().Preds[i], phi.Block())) {
				ok = false
				why = "on one path the half size " + describeVal(e) + " does not exceed the length of the text"
			}
		}
	} else {
		ok = exceeds(size, controlConds(call.Block()))
	}
	c.Check("R13.5", "the reader's half is larger than the whole text, so no buffer-half boundary is ever reached", call.Pos(), ok,
		why+": the dependency's reader reloads a half when forward arrives at a boundary again after Retract, so a token that begins on the last byte of a half makes 4096 bytes of the specification disappear",
		"a specification longer than 4096 bytes with a token starting at offset 4095")
}
