package main

// Shift/reduce driver conformance of (*Parser).Parse on SSA (R4.5, reused by C18 and C20).

import (
	"fmt"
	"go/ast"
	"go/constant"
	"go/token"
	"go/types"
	"strings"

	"golang.org/x/tools/go/packages"
	"golang.org/x/tools/go/ssa"
)

type driverFacts struct {
	ok                    bool
	p                     *packages.Package
	fd                    *ast.FuncDecl
	fn                    *ssa.Function
	ac                    *ssa.Call // the ACTION call
	typ                   ssa.Value
	param                 ssa.Value
	err                   ssa.Value
	stack                 ssa.Value
	tok                   *ssa.Alloc // the current token variable
	kShift                int64
	kReduce               int64
	kAccept               int64
	shiftPush, reducePush ssa.CallInstruction
	gotoCall              *ssa.Call
	tokenCB, prodCB       []ssa.CallInstruction
	nextTokCalls          []*ssa.Call
	popLoop               map[*ssa.BasicBlock]bool
	probes                []*ssa.Call // ACTION lookups for a terminal written in the driver itself
}

func lrConst(p *packages.Package, name string) (int64, bool) {
	lp := p.Imports[depPath+"/parser/lr"]
	if lp == nil {
		return 0, false
	}
	c, ok := lp.Types.Scope().Lookup(name).(*types.Const)
	if !ok {
		return 0, false
	}
	return constant.Int64Val(constant.ToInt(c.Val()))
}

// findDriver locates the method of internal/ebnf/parser that calls the ACTION lookup function.
func findDriver(c *Ctx, g *ebnfGrammar, rule string) *driverFacts {
	d := &driverFacts{p: g.pkg}
	actObj, _ := g.pkg.TypesInfo.Defs[g.actionFn.Name].(*types.Func)
	gotoObj, _ := g.pkg.TypesInfo.Defs[g.gotoFn.Name].(*types.Func)
	var cands []*ast.FuncDecl
	AllFuncDecls(g.pkg, func(fd *ast.FuncDecl) {
		if fd.Body == nil {
			return
		}
		found := false
		ast.Inspect(fd.Body, func(n ast.Node) bool {
			if call, ok := n.(*ast.CallExpr); ok && objOf(g.pkg.TypesInfo, call.Fun) == actObj {
				found = true
			}
			return true
		})
		if found {
			cands = append(cands, fd)
		}
	})
	if len(cands) != 1 {
		c.Lost(rule, fmt.Sprintf("the unique function calling the ACTION lookup (found %d)", len(cands)))
		return nil
	}
	d.fd = cands[0]
	d.fn = c.SSAFunc(g.pkg, d.fd)
	if d.fn == nil {
		c.Lost(rule, "SSA of the driver")
		return nil
	}
	c.Analysed(funcKey(g.pkg, d.fd))
	var ok1, ok2, ok3 bool
	d.kShift, ok1 = lrConst(g.pkg, "SHIFT")
	d.kReduce, ok2 = lrConst(g.pkg, "REDUCE")
	d.kAccept, ok3 = lrConst(g.pkg, "ACCEPT")
	if !ok1 || !ok2 || !ok3 {
		c.Lost(rule, "lr action constants")
		return nil
	}
	var acs []*ssa.Call
	allCalls(d.fn, func(call ssa.CallInstruction) {
		f := calleeFunc(call)
		if cv, ok := call.(*ssa.Call); ok {
			if f == actObj {
				acs = append(acs, cv)
			}
			if f == gotoObj {
				if d.gotoCall != nil {
					d.gotoCall = nil
					ok1 = false
				} else {
					d.gotoCall = cv
				}
			}
		}
	})
	if len(acs) > 1 {
		// several lookups: the driver's own is the one whose terminal is not a constant; a lookup for a terminal written in
		// the driver itself asks the table about a token that is not the look-ahead (a probe), and what the driver does with
		// the answer is judged by the rules on the look-ahead token below
		var own []*ssa.Call
		for _, a := range acs {
			if len(a.Call.Args) >= 2 {
				if _, isConst := a.Call.Args[1].(*ssa.Const); isConst {
					d.probes = append(d.probes, a)
					continue
				}
			}
			own = append(own, a)
		}
		acs = own
	}
	if len(acs) != 1 || d.gotoCall == nil {
		c.Lost(rule, "exactly one ACTION call and one GOTO call in the driver")
		return nil
	}
	d.ac = acs[0]
	for _, r := range *d.ac.Referrers() {
		if e, ok := r.(*ssa.Extract); ok {
			switch e.Index {
			case 0:
				d.typ = e
			case 1:
				d.param = e
			case 2:
				d.err = e
			}
		}
	}
	if d.typ == nil || d.param == nil || d.err == nil {
		c.Fail(rule, "all three results of ACTION are used", d.ac.Pos(), "the driver ignores one of ACTION's results (type, parameter or error)")
		return nil
	}
	d.ok = true
	return d
}

func methodNameOf(call ssa.CallInstruction) string {
	com := call.Common()
	if com.IsInvoke() {
		return com.Method.Name()
	}
	if f := com.StaticCallee(); f != nil {
		return f.Name()
	}
	return ""
}

func recvOf(call ssa.CallInstruction) ssa.Value {
	com := call.Common()
	if com.IsInvoke() {
		return com.Value
	}
	if len(com.Args) > 0 && com.Signature().Recv() != nil {
		return com.Args[0]
	}
	return nil
}

func checkDriver(c *Ctx, g *ebnfGrammar, rule string) *driverFacts {
	d := findDriver(c, g, rule)
	if d == nil {
		return nil
	}
	fn := d.fn
	pos := d.ac.Pos()

	// (1) state argument: top of the state stack
	var peek ssa.CallInstruction
	for _, r := range rootsOf(fn, d.ac.Call.Args[0], func(v ssa.Value) bool { _, ok := v.(*ssa.Call); return ok }) {
		if call, ok := r.(*ssa.Call); ok && methodNameOf(call) == "Peek" {
			peek = call
		}
	}
	if peek == nil {
		// a stack of the module's own (a slice with helper methods) instead of the dependency's: the protocol rules below read
		// Push/Pop/Peek of the dependency's stack and decide nothing about another container
		own := false
		for _, r := range rootsOf(fn, d.ac.Call.Args[0], func(v ssa.Value) bool { _, ok := v.(*ssa.Call); return ok }) {
			switch x := r.(type) {
			case *ssa.Call:
				if cf := x.Call.StaticCallee(); cf != nil && strings.HasPrefix(fnPkgPath(cf), modPath) {
					own = true
				}
			case *ssa.IndexAddr, *ssa.Index:
				own = true
			}
		}
		if own {
			c.Undecided(rule, "ACTION is consulted with the state on top of the stack", pos, "the state comes from a container of the module's own, not from Peek() on the dependency's stack: the driver protocol is not read off this shape")
			d.ok = false
			return d
		}
		c.Fail(rule, "ACTION is consulted with the state on top of the stack", pos, "the first argument of ACTION does not derive from Peek() on the state stack")
		return d
	}
	c.Pass(rule, "ACTION is consulted with the state on top of the stack", pos, "")
	d.stack = recvOf(peek)
	c.Check(rule, "the state consulted is read in the same iteration as the ACTION call", pos, peek.Block() == d.ac.Block() || peek.Block().Dominates(d.ac.Block()) && !inLoopBetween(peek.Block(), d.ac.Block()),
		"Peek() is not re-evaluated for each ACTION lookup")

	// (2) lookahead argument: Terminal field of the token variable, only ever assigned from nextToken
	var tokAlloc *ssa.Alloc
	var viaField string
	for _, r := range rootsOf(fn, d.ac.Call.Args[1], nil) {
		if fa, ok := r.(*ssa.FieldAddr); ok {
			if a, ok := fa.X.(*ssa.Alloc); ok {
				tokAlloc = a
				viaField = fieldName(fa)
			}
		}
	}
	if !c.Check(rule, "lookahead is the Terminal of the current token", pos, tokAlloc != nil && viaField == "Terminal",
		"the second argument of ACTION is not the Terminal field of the current token variable") {
		return d
	}
	d.tok = tokAlloc
	// a token variable that is captured by a closure (an `advance()` helper that reads the next token into it) is written where
	// this function's instructions do not show it: the protocol rules below count stores and reads in the driver itself
	for _, r := range *tokAlloc.Referrers() {
		if _, isMC := r.(*ssa.MakeClosure); isMC {
			c.Undecided(rule, "the current token is only ever assigned from the lexer", pos, "the look-ahead token variable is captured by a closure that assigns it: the driver protocol is not read off this shape")
			d.ok = false
			return d
		}
	}
	storesOK := true
	nStores := 0
	for _, r := range *tokAlloc.Referrers() {
		st, ok := r.(*ssa.Store)
		if !ok || st.Addr != tokAlloc {
			continue
		}
		nStores++
		from := false
		for _, root := range rootsOf(fn, st.Val, func(v ssa.Value) bool { _, ok := v.(*ssa.Call); return ok }) {
			if call, ok := root.(*ssa.Call); ok && isNextTokenCall(call) {
				from = true
				d.nextTokCalls = append(d.nextTokCalls, call)
			}
		}
		if !from {
			storesOK = false
		}
	}
	c.Check(rule, "the current token is only ever assigned from the lexer", pos, storesOK && nStores >= 2, fmt.Sprintf("%d stores to the token variable, not all from the lexer's next-token call", nStores))
	// field stores into the token variable (e.g. token.Terminal = x) are not allowed either
	fieldStore := false
	for _, r := range *tokAlloc.Referrers() {
		if fa, ok := r.(*ssa.FieldAddr); ok {
			for _, rr := range *fa.Referrers() {
				if st, ok := rr.(*ssa.Store); ok && st.Addr == fa {
					fieldStore = true
				}
			}
		}
	}
	c.Check(rule, "no field of the current token is overwritten by the driver", pos, !fieldStore, "the driver stores into a field of the look-ahead token")

	// (3) pushes
	var initPush []ssa.CallInstruction
	pushOK := true
	allCalls(fn, func(call ssa.CallInstruction) {
		if methodNameOf(call) != "Push" || recvOf(call) != d.stack {
			return
		}
		args := call.Common().Args
		arg := args[len(args)-1]
		switch {
		case arg == d.param:
			if d.shiftPush != nil {
				pushOK = false
			}
			d.shiftPush = call
		case arg == ssa.Value(d.gotoCall):
			if d.reducePush != nil {
				pushOK = false
			}
			d.reducePush = call
		default:
			if _, ok := arg.(*ssa.Const); ok {
				initPush = append(initPush, call)
			} else {
				pushOK = false
				c.Fail(rule, "every push on the state stack is ACTION's shift target, GOTO's result or the start state", call.Pos(), "a value of another origin is pushed on the state stack")
			}
		}
	})
	c.Check(rule, "exactly one shift push and one goto push", pos, pushOK && d.shiftPush != nil && d.reducePush != nil, "the driver does not push ACTION's parameter on SHIFT and GOTO's result on REDUCE exactly once each")
	if d.shiftPush == nil || d.reducePush == nil {
		return d
	}
	c.Check(rule, "SHIFT pushes ACTION's parameter, only under action == SHIFT", d.shiftPush.Pos(), controlledByEq(d.shiftPush.Block(), d.typ, d.kShift), "the push of the shift target is not guarded by action == lr.SHIFT")
	c.Check(rule, "REDUCE pushes GOTO's result, only under action == REDUCE", d.reducePush.Pos(), controlledByEq(d.reducePush.Block(), d.typ, d.kReduce), "the push of the goto target is not guarded by action == lr.REDUCE")
	initOK := len(initPush) == 1 && isConstInt(initPush[0].Common().Args[len(initPush[0].Common().Args)-1], 0) && initPush[0].Block() == fn.Blocks[0]
	c.Check(rule, "the stack starts with the start state (the state the table comparison is anchored at)", pos, initOK, "the initial push is not the constant start state 0 in the entry block")

	// (4) pops: only in the reduce region, in a counted loop of len(productions[param].Body) iterations
	var pops []ssa.CallInstruction
	allCalls(fn, func(call ssa.CallInstruction) {
		if methodNameOf(call) == "Pop" && recvOf(call) == d.stack {
			pops = append(pops, call)
		}
	})
	if c.Check(rule, "exactly one pop site", pos, len(pops) == 1, fmt.Sprintf("%d pop sites on the state stack", len(pops))) {
		pop := pops[0]
		c.Check(rule, "pops happen only under action == REDUCE", pop.Pos(), controlledByEq(pop.Block(), d.typ, d.kReduce), "a pop is not guarded by action == lr.REDUCE")
		n, why := countedLoopBound(pop)
		okN := false
		if n != nil {
			okN = isLenOfProdField(fn, n, g, d.param, "Body")
		}
		if why == "" && !okN {
			why = "the loop bound is not len(productions[param].Body)"
		}
		c.Check(rule, "the number of pops is len(productions[param].Body)", pop.Pos(), n != nil && okN, why)
		// Peek for GOTO happens after the loop
		avoid := map[*ssa.BasicBlock]bool{d.ac.Block(): true}
		loop := map[*ssa.BasicBlock]bool{}
		for b := range reach(pop.Block(), avoid) {
			if reach(b, avoid)[pop.Block()] {
				loop[b] = true
			}
		}
		d.popLoop = loop
		var gpeek ssa.CallInstruction
		for _, r := range rootsOf(fn, d.gotoCall.Call.Args[0], func(v ssa.Value) bool { _, ok := v.(*ssa.Call); return ok }) {
			if call, ok := r.(*ssa.Call); ok && methodNameOf(call) == "Peek" && recvOf(call) == d.stack {
				gpeek = call
			}
		}
		after := gpeek != nil && !loop[gpeek.Block()] && gpeek.Block() != pop.Block() && reach(pop.Block(), avoid)[gpeek.Block()] && !reach(gpeek.Block(), avoid)[pop.Block()]
		c.Check(rule, "GOTO is consulted with the state uncovered after the pops", d.gotoCall.Pos(), after, "GOTO's state argument is not Peek() evaluated after the pop loop")
	}
	// GOTO's non-terminal is the head of the production
	headOK := false
	for _, r := range rootsOf(fn, d.gotoCall.Call.Args[1], nil) {
		if fa, ok := r.(*ssa.FieldAddr); ok && fieldName(fa) == "Head" && isProdIndex(fn, fa.X, g, d.param) {
			headOK = true
		}
	}
	c.Check(rule, "GOTO is consulted with productions[param].Head", d.gotoCall.Pos(), headOK, "GOTO's non-terminal argument is not the head of the production being reduced")

	// (5) ACCEPT returns nil; error entries return a non-nil error; nothing is decided before the error test
	accRet, accOK := 0, true
	errRet, errOK := 0, true
	for _, b := range fn.Blocks {
		ret, ok := b.Instrs[len(b.Instrs)-1].(*ssa.Return)
		if !ok {
			continue
		}
		if controlledByEq(b, d.typ, d.kAccept) {
			accRet++
			if !isNilConst(retOperand(ret, 0)) {
				accOK = false
			}
		}
		if controlledNil(b, d.err, true) && !controlledByEq(b, d.typ, d.kShift) && !controlledByEq(b, d.typ, d.kReduce) {
			errRet++
			if isNilConst(retOperand(ret, 0)) {
				errOK = false
			}
		}
	}
	c.Check(rule, "ACCEPT returns nil", pos, accRet >= 1 && accOK, "no return guarded by action == lr.ACCEPT, or it returns a non-nil error")
	c.Check(rule, "an ACTION error returns a non-nil error", pos, errRet >= 1 && errOK, "the error branch of the ACTION lookup does not return an error")
	guarded := true
	for _, v := range []ssa.Value{d.typ, d.param} {
		for _, r := range *v.Referrers() {
			if r.Block() == d.ac.Block() {
				guarded = false
			} else if !controlledNil(r.Block(), d.err, false) {
				guarded = false
			}
		}
	}
	c.Check(rule, "action and parameter are used only after the error test", pos, guarded, "ACTION's action/parameter are used on a path where its error was not tested to be nil")

	// (6) input consumption: SHIFT reads the next token, REDUCE does not
	shiftReads, reduceReads := false, false
	for _, call := range d.nextTokCalls {
		if controlledByEq(call.Block(), d.typ, d.kShift) {
			shiftReads = true
		}
		if controlledByEq(call.Block(), d.typ, d.kReduce) || controlledByEq(call.Block(), d.typ, d.kAccept) {
			reduceReads = true
		}
	}
	// (7) the driver rejects only where the table, the lexer or a callback does: a return of a non-nil error is reached only
	// on an edge where an error that came back from a call is non-nil, or where the action is none of SHIFT / REDUCE / ACCEPT.
	// A rejection of the driver's own making (a stack limit, a token count) turns sentences of the grammar away.
	errT := types.Universe.Lookup("error").Type()
	for _, b := range fn.Blocks {
		ret, isRet := b.Instrs[len(b.Instrs)-1].(*ssa.Return)
		if !isRet || len(ret.Results) == 0 {
			continue
		}
		rv := retOperand(ret, len(ret.Results)-1)
		if isNilConst(rv) {
			continue
		}
		fromCallee, otherCond := false, 0
		conds := controlConds(b)
		for _, cd := range conds {
			bo, isB := cd.v.(*ssa.BinOp)
			if !isB {
				otherCond++
				continue
			}
			if _, _, isEq := eqConst(cd.v, d.typ); isEq {
				continue
			}
			var ev ssa.Value
			switch {
			case isNilConst(bo.Y) && types.Identical(bo.X.Type(), errT):
				ev = bo.X
			case isNilConst(bo.X) && types.Identical(bo.Y.Type(), errT):
				ev = bo.Y
			}
			if ev == nil || (bo.Op != token.EQL && bo.Op != token.NEQ) {
				otherCond++
				continue
			}
			if (bo.Op == token.NEQ) != cd.pol {
				continue // the error is nil here
			}
			for _, r := range rootsOf(fn, ev, func(v ssa.Value) bool { _, ok := v.(*ssa.Call); return ok }) {
				switch r.(type) {
				case *ssa.Call, *ssa.Extract:
					fromCallee = true
				}
			}
		}
		noAction := !controlledByEq(b, d.typ, d.kShift) && !controlledByEq(b, d.typ, d.kReduce) && !controlledByEq(b, d.typ, d.kAccept)
		excluded := 0
		for _, cd := range conds {
			if n, eq, isEq := eqConst(cd.v, d.typ); isEq && eq != cd.pol && (n == d.kShift || n == d.kReduce || n == d.kAccept) {
				excluded++
			}
		}
		key := "the driver rejects only where the table, the lexer or a callback reports an error"
		switch {
		case fromCallee:
			c.Pass(rule, key, ret.Pos(), "return under a non-nil error that came back from a call")
		case noAction && excluded >= 3 && d.ac.Block().Dominates(b):
			c.Pass(rule, key, ret.Pos(), "return where the action is none of SHIFT, REDUCE, ACCEPT")
		case !noAction && otherCond > 0:
			c.Fail(rule, key, ret.Pos(), "a non-nil error is returned while carrying out a SHIFT, REDUCE or ACCEPT, under a condition of the driver's own (no error from ACTION, the lexer or a callback is non-nil there): a sentence of the documented grammar that meets the condition is rejected",
				"a specification long or deep enough to meet the driver's condition, e.g. an alternation of many operands or deeply nested groups")
		case !noAction:
			c.Fail(rule, key, ret.Pos(), "a non-nil error is returned unconditionally while carrying out a SHIFT, REDUCE or ACCEPT")
		default:
			c.Undecided(rule, key, ret.Pos(), "a non-nil error is returned under conditions the rule does not recognise as an error from ACTION, the lexer or a callback")
		}
	}
	c.Check(rule, "SHIFT advances the input by one token", pos, shiftReads, "no next-token read under action == lr.SHIFT")
	c.Check(rule, "REDUCE/ACCEPT do not advance the input", pos, !reduceReads, "a next-token read under action == lr.REDUCE or lr.ACCEPT")
	return d
}

func fieldName(fa *ssa.FieldAddr) string {
	t := fa.X.Type().Underlying().(*types.Pointer).Elem().Underlying().(*types.Struct)
	return t.Field(fa.Field).Name()
}

func inLoopBetween(a, b *ssa.BasicBlock) bool { return false }

func isNextTokenCall(call *ssa.Call) bool {
	f := calleeFunc(call)
	if f == nil {
		return false
	}
	sig := f.Type().(*types.Signature)
	if sig.Results().Len() != 2 || !typeIs(sig.Results().At(0).Type(), "lexer", "Token") || !isErr(sig.Results().At(1).Type()) {
		return false
	}
	return sig.Params().Len() == 0
}

// countedLoopBound recognises the two counted-loop shapes around a call executed once per iteration and
// returns the bound value n such that the body runs exactly n times (for n >= 0).
func countedLoopBound(call ssa.CallInstruction) (ssa.Value, string) {
	b := call.Block()
	// rotated form (for range n): guard `0 < n` before; body: phi [0, i+1]; i+1 < n -> body
	for _, in := range b.Instrs {
		phi, ok := in.(*ssa.Phi)
		if !ok {
			continue
		}
		var inc *ssa.BinOp
		initZero := false
		for i, e := range phi.Edges {
			if isConstInt(e, 0) && b.Preds[i] != b {
				initZero = true
			}
			if bo, ok := e.(*ssa.BinOp); ok && bo.Op == token.ADD && bo.X == phi && isConstInt(bo.Y, 1) {
				inc = bo
			}
		}
		if !initZero || inc == nil {
			continue
		}
		ifi, ok := b.Instrs[len(b.Instrs)-1].(*ssa.If)
		if !ok {
			continue
		}
		cmp, ok := ifi.Cond.(*ssa.BinOp)
		if ok && cmp.Op == token.LSS && cmp.X == inc && b.Succs[0] == b {
			// guard before the loop
			for _, p := range b.Preds {
				if p == b {
					continue
				}
				pif, ok := p.Instrs[len(p.Instrs)-1].(*ssa.If)
				if !ok {
					return nil, "rotated counted loop without a guard"
				}
				g, ok := pif.Cond.(*ssa.BinOp)
				if !ok || g.Op != token.LSS || !isConstInt(g.X, 0) || g.Y != cmp.Y || p.Succs[0] != b {
					return nil, "rotated counted loop whose guard is not 0 < n"
				}
			}
			return cmp.Y, ""
		}
	}
	// header form: header: phi [0, i+1]; if i < n goto body else done; body contains call; latch i+1
	for _, h := range b.Preds {
		_ = h
	}
	hdr := b
	if len(b.Preds) == 1 {
		hdr = b.Preds[0]
	}
	if ifi, ok := hdr.Instrs[len(hdr.Instrs)-1].(*ssa.If); ok && hdr != b {
		if cmp, ok := ifi.Cond.(*ssa.BinOp); ok && cmp.Op == token.LSS && hdr.Succs[0] == b {
			if phi, ok := cmp.X.(*ssa.Phi); ok && phi.Block() == hdr {
				initZero, incOK := false, false
				for _, e := range phi.Edges {
					if isConstInt(e, 0) {
						initZero = true
					}
					if bo, ok := e.(*ssa.BinOp); ok && bo.Op == token.ADD && bo.X == phi && isConstInt(bo.Y, 1) {
						incOK = true
					}
				}
				if initZero && incOK && reach(b, nil)[hdr] {
					return cmp.Y, ""
				}
			}
		}
	}
	// range over a slice (for k := range s): header: phi [-1, phi+1]; inc = phi+1; if inc < len(s) goto body else done
	if ifi, ok := hdr.Instrs[len(hdr.Instrs)-1].(*ssa.If); ok && hdr != b {
		if cmp, ok := ifi.Cond.(*ssa.BinOp); ok && cmp.Op == token.LSS && hdr.Succs[0] == b {
			if inc, ok := cmp.X.(*ssa.BinOp); ok && inc.Op == token.ADD && isConstInt(inc.Y, 1) {
				if phi, ok := inc.X.(*ssa.Phi); ok && phi.Block() == hdr {
					initMinus, back := false, false
					for _, e := range phi.Edges {
						if isConstInt(e, -1) {
							initMinus = true
						}
						if e == ssa.Value(inc) {
							back = true
						}
					}
					if initMinus && back && reach(b, nil)[hdr] {
						return cmp.Y, ""
					}
				}
			}
		}
	}
	return nil, "the pop is not inside a recognised counted loop (for range n / for i := 0; i < n; i++ / for i := range s)"
}

// isProdIndex: v is productions[idx] loaded (a *grammar.Production value) for the grammar's production list.
func isProdIndex(fn *ssa.Function, v ssa.Value, g *ebnfGrammar, idx ssa.Value) bool {
	for _, r := range rootsOf(fn, v, nil) {
		ia, ok := r.(*ssa.IndexAddr)
		if !ok || ia.Index != idx {
			continue
		}
		for _, rr := range rootsOf(fn, ia.X, nil) {
			if gl, ok := rr.(*ssa.Global); ok && gl.Object() == types.Object(g.prodsVar) {
				return true
			}
		}
	}
	return false
}

// isLenOfProdField: n == len(productions[idx].<field>)
func isLenOfProdField(fn *ssa.Function, n ssa.Value, g *ebnfGrammar, idx ssa.Value, field string) bool {
	call, ok := n.(*ssa.Call)
	if !ok {
		return false
	}
	if b, ok := call.Call.Value.(*ssa.Builtin); !ok || b.Name() != "len" {
		return false
	}
	for _, r := range rootsOf(fn, call.Call.Args[0], nil) {
		if fa, ok := r.(*ssa.FieldAddr); ok && fieldName(fa) == field && isProdIndex(fn, fa.X, g, idx) {
			return true
		}
	}
	return false
}
