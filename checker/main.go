// emcheck: repository-specific static analysis deciding structural clauses of properties C01..C20
// of gardenbed/emerge from /repo's current source (go/packages + go/types + go/cfg + go/ssa).
package main

import (
	"encoding/json"
	"flag"
	"fmt"
	"os"
	"runtime/debug"
	"sort"
	"time"
)

type property struct {
	id   string
	run  func(c *Ctx)
	ssa  bool
	meta propMeta
}

var registry = map[string]*property{}

func register(p *property) { registry[p.id] = p }

func main() {
	prop := flag.String("property", "", "property id (C01..C20)")
	tier := flag.String("tier", "quick", "quick|thorough")
	repo := flag.String("repo", "/repo", "repository to analyse (scratch copies for self-tests)")
	verif := flag.String("verif", "/verif", "verif directory (evidence, known findings)")
	replay := flag.String("replay", "", "replay file: re-decide the property of that obligation and show only it")
	list := flag.Bool("list", false, "list properties")
	flag.Parse()

	if *list {
		var ids []string
		for id := range registry {
			ids = append(ids, id)
		}
		sort.Strings(ids)
		for _, id := range ids {
			fmt.Println(id)
		}
		return
	}
	if t := os.Getenv("VERIF_TIER"); t != "" && !isFlagSet("tier") {
		*tier = t
	}
	if r := os.Getenv("EMCHECK_REPO"); r != "" && !isFlagSet("repo") {
		*repo = r
	}
	var focus *Ob
	if *replay != "" {
		b, err := os.ReadFile(*replay)
		if err != nil {
			fmt.Fprintln(os.Stderr, err)
			os.Exit(2)
		}
		var r struct {
			Property   string `json:"property"`
			Tier       string `json:"tier"`
			Obligation Ob     `json:"obligation"`
		}
		if err := json.Unmarshal(b, &r); err != nil {
			fmt.Fprintln(os.Stderr, err)
			os.Exit(2)
		}
		*prop, *tier, focus = r.Property, r.Tier, &r.Obligation
	}
	p := registry[*prop]
	if p == nil {
		fmt.Fprintf(os.Stderr, "unknown property %q\n", *prop)
		os.Exit(2)
	}
	os.Exit(runProperty(p, *tier, *repo, *verif, focus))
}

func isFlagSet(name string) bool {
	set := false
	flag.Visit(func(f *flag.Flag) {
		if f.Name == name {
			set = true
		}
	})
	return set
}

func runProperty(p *property, tier, repo, verif string, focus *Ob) (code int) {
	start := time.Now()
	c, err := load(repo, true)
	if err != nil {
		// a failed load is a failed check, never a silent pass
		c = &Ctx{Repo: repo, floors: map[string]int{}, ruleDoc: map[string]string{}, analysedF: map[string]bool{}, analysedP: map[string]bool{}, extra: map[string]any{}}
		c.Prop, c.Tier, c.Verif = p.id, tier, verif
		c.Check("R0.load", "load", 0, false, "cannot load/type-check the repository: "+err.Error())
		return c.finish(p.meta, start)
	}
	c.Prop, c.Tier, c.Verif = p.id, tier, verif
	func() {
		defer func() {
			if r := recover(); r != nil {
				c.Check("R0.panic", "checker-panic", 0, false, fmt.Sprintf("analysis panicked (undecided fails): %v\n%s", r, debug.Stack()))
			}
		}()
		p.run(c)
	}()
	if focus != nil {
		for _, o := range c.Obs {
			if o.Rule == focus.Rule && o.Key == focus.Key {
				b, _ := json.MarshalIndent(o, "", " ")
				fmt.Println(string(b))
				if !o.OK {
					fmt.Printf("VIOLATION property=%s replay=(replayed)\n", p.id)
					return 1
				}
				return 0
			}
		}
		fmt.Println("obligation no longer generated on this tree:", focus.Rule, focus.Key)
		return 0
	}
	return c.finish(p.meta, start)
}
