package main

import (
	"fmt"
	"go/ast"
	"go/token"
	"go/types"
	"sort"
	"strings"

	"golang.org/x/tools/go/packages"
)

func init() {
	register(&property{id: "C08", run: runC08, meta: propMeta{
		level: "other",
		explanation: "The templates are analysed as programs: each is instantiated (standard text/template, checker-side stand-ins built from the format strings extracted from formatInts/formatRunes) on five witness automata chosen for the property's hard cases (characters needing escapes, non-identifier terminal names, a definition owning no state, empty automaton), written to a scratch module with no requirements and type-checked; the emitted transition function and accepting table are then flattened from the skeleton's syntax tree and compared extensionally with the witness automaton (same next state for every (state, character), same terminal for every accepting state, nothing else). " +
			"The data assembly feeding the templates is decided on the generator's AST: every automaton transition contributes its symbol exactly once to the group (its state, its next state), groups are copied field for field, FinalStates[i] is built from definition i's terminal, and every template is rendered exactly once. Decides validity and extensional identity for the witness family and the structural obligations of the data assembly; arbitrary specifications are covered through those two together, not by running the generator.",
		trusted:     []string{"text/template and fmt of the standard library", "dfa.Transitions() of the dependency yields each transition once", "red-black tables iterate every entry"},
		assumptions: []string{"the stand-in list formatters reproduce formatInts/formatRunes: per-element format and separator are extracted from their source, the truncation of the trailing separator is checked"},
	}})
}

func runC08(c *Ctx) {
	c.Rule("R8.1", 12, "every instantiated template is valid Go using only the standard library")
	c.Rule("R8.2", 2, "characters and terminal names that need escaping do not break the emitted code")
	c.Rule("R8.3", 2, "empty lists do not break the emitted code")
	c.Rule("R8.4", 12, "the emitted transition function is extensionally the automaton; symbols are grouped faithfully")
	c.Rule("R8.5", 8, "the emitted accepting table is extensionally the terminal map")
	c.Rule("R8.6", 6, "every template is rendered exactly once")
	c.Rule("R8.7", 1, "every field the templates read is modelled by the witnesses, or covered by witnesses in which it is set")

	ts := loadTemplates(c, "R8.1")
	if ts == nil {
		return
	}
	for name, lf := range ts.funcs {
		c.Check("R8.1", "list formatter "+name+" removes exactly its trailing separator", lf.pos, lf.truncates,
			fmt.Sprintf("element format %q, separator %q, but the truncation does not remove len(separator) bytes: the list ends in a stray separator or loses characters", lf.elemFmt, lf.sep))
		c.Sample("formatter %s: element %q separator %q", name, lf.elemFmt, lf.sep)
	}
	unmodelledFields(c, "R8.7", ts)
	set := buildSkeletons(c, "R8.1", ts, false)
	defer set.cleanup()
	if set == nil {
		return
	}
	ruleFor := map[string]string{"simple": "R8.1", "runes": "R8.2", "names": "R8.2", "emptystates": "R8.3", "empty": "R8.3"}
	for _, sk := range set.sk {
		func() {
			rule := ruleFor[sk.w.name]
			if sk.w.extraField != "" {
				rule = "R8.7"
			}
			obsBefore := len(c.Obs)
			// A disagreement that shows only when an unmodelled field is set on the witness with unusual characters is not a verdict:
			// the generator may set the field only where that is right (a flag for automata over ASCII), and nothing here models
			// the code that sets it. On the plain witness, which has no property a flag could be about, it is one.
			soften := func() {
				if sk.w.extraField == "" || strings.HasPrefix(sk.w.name, "simple_") {
					return
				}
				for i := obsBefore; i < len(c.Obs); i++ {
					if !c.Obs[i].OK && !c.Obs[i].Undecided {
						c.Obs[i].Undecided = true
						c.Obs[i].Key = "undecided:" + c.Obs[i].Key
						c.Obs[i].Detail = "with the unmodelled field ." + sk.w.extraField + " set: " + c.Obs[i].Detail + " (whether the generator sets the field for such an automaton is not modelled)"
					}
				}
			}
			defer soften()
			if sk.pkg == nil {
				c.Fail(rule, "witness "+sk.w.name+": the emitted package loads", token.NoPos, "no package was produced for the witness ("+sk.w.why+")")
				return
			}
			var errs []string
			for _, e := range sk.pkg.Errors {
				msg := e.Msg
				if i := strings.Index(e.Pos, sk.w.name+"/"); i >= 0 {
					msg = e.Pos[i+len(sk.w.name)+1:] + ": " + msg
				}
				errs = append(errs, msg)
			}
			wit := witnessText(sk.w)
			c.Check(rule, "witness "+sk.w.name+": the emitted package is valid Go ("+sk.w.why+")", token.NoPos, len(errs) == 0,
				fmt.Sprintf("the package emitted for this automaton does not compile: %s", strings.Join(firstFew(errs, 4), "; ")), wit)
			// imports: standard library only
			for _, f := range sk.pkg.Syntax {
				for _, im := range f.Imports {
					path := strings.Trim(im.Path.Value, "\"")
					c.Check("R8.1", fmt.Sprintf("witness %s: %s imports only the standard library (%s)", sk.w.name, baseName(c, sk.pkg, f), path), token.NoPos, isStdlib(path),
						"the emitted code imports a package outside the standard library")
				}
			}
			if len(errs) > 0 || sk.pkg.IllTyped {
				return
			}
			compareSkeleton(c, sk)
		}()
	}

	checkGrouping(c, ts.gp)
	checkFinalAssembly(c, ts.gp)
	checkTemplatePartition(c, ts)
}

func baseName(c *Ctx, p *packages.Package, f *ast.File) string {
	n := p.Fset.Position(f.Pos()).Filename
	return n[strings.LastIndex(n, "/")+1:]
}

func witnessText(w *witness) string {
	var parts []string
	for _, t := range w.trans {
		for _, e := range t.Trans {
			parts = append(parts, fmt.Sprintf("%d -%q-> %d", t.From, string(e.Symbols), e.Next))
		}
	}
	for _, f := range w.finals {
		parts = append(parts, fmt.Sprintf("%q owns %v", f.Terminal, f.States))
	}
	return strings.Join(parts, "; ")
}

// compareSkeleton flattens the emitted advanceDFA/evalDFA and compares with the witness automaton.
func compareSkeleton(c *Ctx, sk *skeleton) {
	p := sk.pkg
	before := len(c.Obs)
	s := findScanner(c, "R8.4", p)
	// anchors resolved inside a scratch package: re-key obligations so that they are stable
	for i := before; i < len(c.Obs); i++ {
		c.Obs[i].Key = "witness " + sk.w.name + ": " + c.Obs[i].Key
		c.Obs[i].Pos = ""
	}
	if s == nil {
		return
	}
	// expected transition function
	want := map[int]map[rune]int{}
	for _, t := range sk.w.trans {
		for _, e := range t.Trans {
			for _, r := range e.Symbols {
				if want[t.From] == nil {
					want[t.From] = map[rune]int{}
				}
				want[t.From][r] = e.Next
			}
		}
	}
	okT := true
	why := ""
	for from, m := range want {
		for r, next := range m {
			if got := s.m.step(from, r); got != next {
				okT = false
				why = fmt.Sprintf("emitted advanceDFA(%d, %s) = %d, automaton says %d", from, showRune(r), got, next)
			}
		}
	}
	for from := range s.m.trans {
		for to, set := range s.m.trans[from] {
			for _, x := range set {
				for r := x.lo; r <= x.hi && r-x.lo < 1<<16; r++ {
					if want[from] == nil || want[from][r] != to {
						okT = false
						why = fmt.Sprintf("emitted advanceDFA(%d, %s) = %d, but the automaton has no such transition", from, showRune(r), to)
					} else if n, ok := want[from][r]; !ok || n != to {
						okT = false
					}
				}
			}
		}
	}
	c.Check("R8.4", "witness "+sk.w.name+": emitted transition function equals the automaton on every (state, character)", token.NoPos, okT && s.errorState < 0, why, witnessText(sk.w))
	// accepting table
	wantF := map[int]string{}
	for _, f := range sk.w.finals {
		for _, st := range f.States {
			wantF[st] = f.Terminal
		}
	}
	okF := true
	whyF := ""
	for st, name := range wantF {
		lf := s.stateLeaf[st]
		if lf == nil || !lf.termOK || lf.terminal != name {
			okF = false
			got := "nothing"
			if lf != nil {
				got = fmt.Sprintf("%q", lf.terminal)
			}
			whyF = fmt.Sprintf("state %d yields %s, the terminal map says %q", st, got, name)
		}
	}
	for st, lf := range s.stateLeaf {
		if _, ok := wantF[st]; !ok {
			okF = false
			whyF = fmt.Sprintf("state %d yields %q but owns no terminal", st, lf.terminal)
		}
	}
	errOK := s.defLeaf != nil && s.defLeaf.termOK && s.defLeaf.terminal == "ERR"
	c.Check("R8.5", "witness "+sk.w.name+": emitted accepting table equals the terminal map, every other state is an error", token.NoPos, okF && errOK, whyF, witnessText(sk.w))
}

// checkGrouping: R8.4 (ii) and (iii) on the generator.
func checkGrouping(c *Ctx, gp *packages.Package) {
	info := gp.TypesInfo
	// (ii) the function that ranges over dfa.Transitions()
	var grp *ast.FuncDecl
	var loop *ast.RangeStmt
	AllFuncDecls(gp, func(fd *ast.FuncDecl) {
		if fd.Body == nil {
			return
		}
		ast.Inspect(fd.Body, func(n ast.Node) bool {
			if rs, ok := n.(*ast.RangeStmt); ok {
				if call, ok := ast.Unparen(rs.X).(*ast.CallExpr); ok {
					if sel, ok := call.Fun.(*ast.SelectorExpr); ok && sel.Sel.Name == "Transitions" {
						grp, loop = fd, rs
					}
				}
			}
			return true
		})
	})
	if grp == nil {
		c.Lost("R8.4", "the loop over dfa.Transitions()")
		return
	}
	c.Analysed(funcKey(gp, grp))
	tr := info.Defs[loop.Key.(*ast.Ident)]
	// variables derived from tr.State / tr.Next / tr.Symbol
	origin := map[types.Object]string{}
	fieldOf := func(e ast.Expr) string {
		f := ""
		ast.Inspect(e, func(n ast.Node) bool {
			if sel, ok := n.(*ast.SelectorExpr); ok {
				if id, ok := sel.X.(*ast.Ident); ok && info.Uses[id] == tr {
					f = sel.Sel.Name
				}
			}
			if id, ok := n.(*ast.Ident); ok {
				if o, ok := origin[info.Uses[id]]; ok {
					f = o
				}
			}
			return true
		})
		return f
	}
	outerKey, innerKey, appended := "", "", ""
	nApp, unconditional := 0, true
	for _, st := range loop.Body.List {
		ast.Inspect(st, func(n ast.Node) bool {
			switch s := n.(type) {
			case *ast.AssignStmt:
				if len(s.Lhs) == len(s.Rhs) {
					for i := range s.Lhs {
						if id, ok := s.Lhs[i].(*ast.Ident); ok && id.Name != "_" {
							if f := fieldOf(s.Rhs[i]); f != "" {
								if o := info.Defs[id]; o != nil {
									origin[o] = f
								}
							}
						}
					}
				}
				if len(s.Rhs) == 1 {
					if call, ok := ast.Unparen(s.Rhs[0]).(*ast.CallExpr); ok {
						if id, ok := call.Fun.(*ast.Ident); ok && id.Name == "append" && len(call.Args) == 2 {
							nApp++
							appended = fieldOf(call.Args[1])
							if st != ast.Stmt(s) {
								unconditional = false
							}
						}
						if sel, ok := call.Fun.(*ast.SelectorExpr); ok && sel.Sel.Name == "Get" && len(call.Args) == 1 {
							k := fieldOf(call.Args[0])
							_, vt := namedTypeName(info.TypeOf(s.Lhs[0]))
							if vt == "SymbolTable" {
								outerKey = k
							} else {
								innerKey = k
							}
						}
					}
				}
			}
			return true
		})
	}
	// the inner Put must store the appended slice under the same inner key
	putOK := false
	ast.Inspect(loop.Body, func(n ast.Node) bool {
		if call, ok := n.(*ast.CallExpr); ok {
			if sel, ok := call.Fun.(*ast.SelectorExpr); ok && sel.Sel.Name == "Put" && len(call.Args) == 2 {
				if fieldOf(call.Args[0]) == "Next" {
					putOK = true
				}
			}
		}
		return true
	})
	c.Check("R8.4", "grouping: transitions are grouped by their source state", loop.Pos(), outerKey == "State", "the outer table is keyed by "+outerKey)
	c.Check("R8.4", "grouping: within a source state by their target state", loop.Pos(), innerKey == "Next" && putOK, "the inner table is keyed by "+innerKey)
	c.Check("R8.4", "grouping: each transition contributes its symbol exactly once, unconditionally", loop.Pos(), nApp == 1 && appended == "Symbol" && unconditional,
		fmt.Sprintf("%d appends per transition, appended value derives from %q, unconditional=%v", nApp, appended, unconditional))

	// (iii) generateLexer copies keys and values
	var gen *ast.FuncDecl
	AllFuncDecls(gp, func(fd *ast.FuncDecl) {
		if fd.Body == nil {
			return
		}
		ast.Inspect(fd.Body, func(n ast.Node) bool {
			if cl, ok := n.(*ast.CompositeLit); ok {
				if _, tn := namedTypeName(info.TypeOf(cl)); tn == "DFAStateTransition" {
					gen = fd
				}
			}
			return true
		})
	})
	if gen == nil {
		c.Lost("R8.4", "the function assembling DFAStateTransition values")
		return
	}
	c.Analysed(funcKey(gp, gen))
	var outer, inner *ast.RangeStmt
	ast.Inspect(gen.Body, func(n ast.Node) bool {
		rs, ok := n.(*ast.RangeStmt)
		if !ok {
			return true
		}
		if call, ok := ast.Unparen(rs.X).(*ast.CallExpr); ok {
			if sel, ok := call.Fun.(*ast.SelectorExpr); ok && sel.Sel.Name == "All" {
				if outer == nil {
					outer = rs
				} else if inner == nil && rs.Pos() > outer.Pos() && rs.End() <= outer.End() {
					inner = rs
				}
			}
		}
		return true
	})
	if outer == nil || inner == nil {
		c.Lost("R8.4", "the nested loops over the grouped transitions")
		return
	}
	ok1, ok2, ok3 := false, false, false
	okey := info.Defs[outer.Key.(*ast.Ident)]
	ikey := info.Defs[inner.Key.(*ast.Ident)]
	ival := info.Defs[inner.Value.(*ast.Ident)]
	ast.Inspect(outer.Body, func(n ast.Node) bool {
		cl, ok := n.(*ast.CompositeLit)
		if !ok {
			return true
		}
		_, tn := namedTypeName(info.TypeOf(cl))
		fs, _ := compositeFields(cl)
		switch tn {
		case "DFATransition":
			if id, ok := ast.Unparen(fs["From"]).(*ast.Ident); ok && info.Uses[id] == okey {
				ok1 = true
			}
		case "DFAStateTransition":
			if id, ok := ast.Unparen(fs["Next"]).(*ast.Ident); ok && info.Uses[id] == ikey {
				ok2 = true
			}
			if id, ok := ast.Unparen(fs["Symbols"]).(*ast.Ident); ok && info.Uses[id] == ival {
				ok3 = true
			}
		}
		return true
	})
	c.Check("R8.4", "assembly: From is the source-state key", outer.Pos(), ok1, "DFATransition.From is not the outer key")
	c.Check("R8.4", "assembly: Next is the target-state key", inner.Pos(), ok2, "DFAStateTransition.Next is not the inner key")
	c.Check("R8.4", "assembly: Symbols is the grouped symbol list", inner.Pos(), ok3, "DFAStateTransition.Symbols is not the inner value")
	// both appends are unconditional
	apps := 0
	for _, st := range append(append([]ast.Stmt{}, outer.Body.List...), inner.Body.List...) {
		if as, ok := st.(*ast.AssignStmt); ok && len(as.Rhs) == 1 {
			if call, ok := ast.Unparen(as.Rhs[0]).(*ast.CallExpr); ok {
				if id, ok := call.Fun.(*ast.Ident); ok && id.Name == "append" {
					apps++
				}
			}
		}
	}
	c.Check("R8.4", "assembly: every group and every source state is emitted", outer.Pos(), apps == 2, fmt.Sprintf("%d unconditional appends in the two loops", apps))
}

// checkFinalAssembly: R8.5 data assembly.
func checkFinalAssembly(c *Ctx, gp *packages.Package) {
	info := gp.TypesInfo
	var gen *ast.FuncDecl
	var lit *ast.CompositeLit
	AllFuncDecls(gp, func(fd *ast.FuncDecl) {
		if fd.Body == nil {
			return
		}
		ast.Inspect(fd.Body, func(n ast.Node) bool {
			if cl, ok := n.(*ast.CompositeLit); ok {
				if _, tn := namedTypeName(info.TypeOf(cl)); tn == "DFAFinalStates" {
					gen, lit = fd, cl
				}
			}
			return true
		})
	})
	if gen == nil {
		c.Lost("R8.5", "the assembly of DFAFinalStates")
		return
	}
	// enclosing range over Definitions
	var loop *ast.RangeStmt
	ast.Inspect(gen.Body, func(n ast.Node) bool {
		if rs, ok := n.(*ast.RangeStmt); ok && rs.Pos() < lit.Pos() && lit.End() <= rs.End() {
			loop = rs
		}
		return true
	})
	if loop == nil || !strings.HasSuffix(types.ExprString(loop.X), "Definitions") {
		c.Fail("R8.5", "assembly: one accepting-table entry per definition", gen.Pos(), "the DFAFinalStates literal is not built in a loop over the specification's Definitions")
		return
	}
	def := info.Defs[loop.Value.(*ast.Ident)]
	origin := map[types.Object]string{}
	ast.Inspect(loop.Body, func(n ast.Node) bool {
		as, ok := n.(*ast.AssignStmt)
		if !ok || len(as.Lhs) != 1 || len(as.Rhs) != 1 {
			return true
		}
		id, ok := as.Lhs[0].(*ast.Ident)
		if !ok {
			return true
		}
		r := ast.Unparen(as.Rhs[0])
		if sel, ok := r.(*ast.SelectorExpr); ok && sel.Sel.Name == "Terminal" {
			if x, ok := sel.X.(*ast.Ident); ok && info.Uses[x] == def {
				origin[info.Defs[id]] = "terminal"
			}
		}
		if ix, ok := r.(*ast.IndexExpr); ok {
			if k, ok := ast.Unparen(ix.Index).(*ast.Ident); ok && origin[info.Uses[k]] == "terminal" {
				origin[info.Defs[id]] = "states"
			}
		}
		return true
	})
	fs, _ := compositeFields(lit)
	tOK, sOK := false, false
	ast.Inspect(fs["Terminal"], func(n ast.Node) bool {
		if id, ok := n.(*ast.Ident); ok && origin[info.Uses[id]] == "terminal" {
			tOK = true
		}
		return true
	})
	ast.Inspect(fs["States"], func(n ast.Node) bool {
		if id, ok := n.(*ast.Ident); ok && origin[info.Uses[id]] == "states" {
			sOK = true
		}
		return true
	})
	c.Check("R8.5", "assembly: an entry names its definition's terminal", lit.Pos(), tOK, "DFAFinalStates.Terminal does not derive from def.Terminal")
	c.Check("R8.5", "assembly: an entry lists the states the terminal map gives that terminal", lit.Pos(), sOK, "DFAFinalStates.States does not derive from termMap[def.Terminal]")
	// stored at index i of a slice made with len(Definitions), or appended unconditionally
	stored := false
	ast.Inspect(loop.Body, func(n ast.Node) bool {
		if as, ok := n.(*ast.AssignStmt); ok && len(as.Lhs) == 1 {
			if ix, ok := as.Lhs[0].(*ast.IndexExpr); ok {
				if k, ok := ast.Unparen(ix.Index).(*ast.Ident); ok && loop.Key != nil && info.Uses[k] == info.Defs[loop.Key.(*ast.Ident)] {
					stored = true
				}
			}
		}
		return true
	})
	c.Check("R8.5", "assembly: one accepting-table entry per definition", loop.Pos(), stored, "the entry is not stored at the definition's index")
}

// checkTemplatePartition: R8.6
func checkTemplatePartition(c *Ctx, ts *tmplSet) {
	gp := ts.gp
	info := gp.TypesInfo
	if ts.rendFn == nil {
		c.Lost("R8.6", "the rendering function")
		return
	}
	rendObj := info.Defs[ts.rendFn.Name]
	// how often each template is named in the generator: as a string constant anywhere in its functions (a literal in a list
	// that is ranged over, an argument of a helper, ...). The way the names reach the rendering function does not matter.
	count := map[string]int{}
	AllFuncDecls(gp, func(fd *ast.FuncDecl) {
		if fd.Body == nil {
			return
		}
		ast.Inspect(fd.Body, func(n ast.Node) bool {
			if lit, ok := n.(*ast.BasicLit); ok && lit.Kind == token.STRING {
				if v, ok := constStr(info, lit); ok {
					if _, isTmpl := ts.files[v]; isTmpl {
						count[v]++
					}
				}
			}
			return true
		})
	})
	_ = rendObj
	if len(count) == 0 {
		c.Undecided("R8.6", "every template is rendered exactly once", ts.rendFn.Pos(), "the generator does not name its templates by string constants: which templates are rendered is not decided")
		return
	}
	var names []string
	for n := range ts.files {
		names = append(names, n)
	}
	sort.Strings(names)
	for _, n := range names {
		c.Check("R8.6", "template "+n+" is rendered exactly once", ts.rendFn.Pos(), count[n] == 1, fmt.Sprintf("rendered %d times: a file of the package is missing or written twice (the second O_EXCL open fails)", count[n]))
	}
	for n, k := range count {
		if _, ok := ts.files[n]; !ok {
			c.Fail("R8.6", "rendered file "+n+" has a template", ts.rendFn.Pos(), fmt.Sprintf("rendered %d times but no such template is embedded", k))
		}
	}
}
