package main

import (
	"fmt"
	"go/ast"
	"go/token"
	"go/types"
	"sort"
	"strings"

	"golang.org/x/tools/go/packages"
)

func init() {
	register(&property{id: "C11", run: runC11, meta: propMeta{
		level: "other",
		explanation: "Attribute-grammar type check of the typed-tree evaluator (ebnf ast.Parse) against the production list it is indexed by: the set of dynamic types (incl. nil) each non-terminal can evaluate to is computed to a fixpoint and every unchecked type assertion, every rhs[k] index and the final result assertion are decided against it; exhaustive case coverage for both evaluators; " +
			"operand order and operand use of the flattening actions; the generic tree builder pushes one leaf per token with the token's own fields and places popped children so that the first popped is the last child. Decides these structural conditions; print-and-reparse round trips are out of reach (no EBNF printer exists in the repository).",
		trusted: []string{"the driver calls the evaluator with exactly the body's values (C18 R18.3)", "exact LALR(1) tables (C04)"},
		assumptions: []string{"terminals carry their lexeme as a string value (ParseAndEvaluate's token closure, decided in C18)"},
	}})
}

func runC11(c *Ctx) {
	c.Rule("R11.1", 40, "attribute sorts: every unchecked assertion in ebnf ast.Parse holds for every value the body symbol can carry")
	c.Rule("R11.2", 8, "operand order and operand use in the typed-tree actions")
	c.Rule("R11.3", 3, "associativity constants match the directive keyword")
	c.Rule("R11.4", 6, "generic tree builder: leaf per token, children in body order")
	c.Rule("R11.5", 70, "both evaluators have exactly one case per production")
	c.Rule("R11.6", 1, "a value taken from the parse stack reaches the tree as it is or through an injective re-encoding")

	c.mute = map[string]bool{"R4.2": true}
	g := extractEBNF(c, "R11.5")
	if g == nil {
		return
	}
	ev := findEvaluator(c, "R11.1", c.Pkg("internal/ebnf/parser/ast"), g)
	if ev == nil {
		return
	}
	ev.check(c, "R11.1", "R11.1", "R11.5")
	if sp := findEvaluator(c, "R11.5", c.Pkg("internal/ebnf/parser/spec"), g); sp != nil {
		// only exhaustiveness is claimed here for the spec evaluator (its sorts belong to C14)
		for i := range g.prods {
			_, ok := sp.cases[i]
			c.Check("R11.5", fmt.Sprintf("internal/ebnf/parser/spec evaluator has a case for production %d (%s)", i, g.prods[i]), sp.lit.Pos(), ok, "no case for this production")
		}
		for _, x := range append(sp.extra, sp.dupCases...) {
			c.Fail("R11.5", fmt.Sprintf("internal/ebnf/parser/spec evaluator: case %d", x), sp.lit.Pos(), "duplicate case or case beyond the production list")
		}
	}
	sorts := map[string][]string{}
	for nt, s := range ev.sorts {
		sorts[nt] = s.keys()
	}
	c.Extra("ast_sorts", sorts)

	checkOperandOrder(c, ev)
	checkAssocConstants(c, ev, "R11.3")
	checkTreeBuilder(c, g)
	checkLeafFidelity(c, ev)
}

// checkLeafFidelity: R11.6. The tree has to reflect the source: what an action takes from rhs[k].Val (a lexeme, or a
// sub-tree) may be stored, returned, looked up, quoted (%q / strconv.Quote: injective) or mentioned in an error, but not passed
// through any other function: a function that is not injective (resolving escapes, trimming, case folding) makes two
// different sources yield the same tree.
func checkLeafFidelity(c *Ctx, ev *evaluator) {
	info := ev.pkg.TypesInfo
	var idxs []int
	for i := range ev.cases {
		idxs = append(idxs, i)
	}
	sort.Ints(idxs)
	nCalls := 0
	var bad []string
	var badPos token.Pos
	var injective func(call *ast.CallExpr, depth int) bool
	injective = func(call *ast.CallExpr, depth int) bool {
		fo, _ := objOf(info, call.Fun).(*types.Func)
		if fo == nil {
			// conversions T(x), builtins (append, len, make)
			return true
		}
		if fo.Pkg() == nil {
			return true
		}
		// a helper of the same package: what it does with its parameters is held to the same rule
		if fo.Pkg() == ev.pkg.Types && depth < 3 {
			if hd := declOfFunc(ev.pkg, fo); hd != nil && hd.Body != nil {
				params := map[types.Object]bool{}
				if hd.Type.Params != nil {
					for _, f := range hd.Type.Params.List {
						for _, n := range f.Names {
							params[info.Defs[n]] = true
						}
					}
				}
				okHelper := true
				ast.Inspect(hd.Body, func(n ast.Node) bool {
					inner, ok := n.(*ast.CallExpr)
					if !ok {
						return true
					}
					uses := false
					for _, a := range inner.Args {
						ast.Inspect(a, func(m ast.Node) bool {
							if id, ok := m.(*ast.Ident); ok && params[info.Uses[id]] {
								uses = true
							}
							return true
						})
					}
					if uses && !injective(inner, depth+1) {
						okHelper = false
					}
					return true
				})
				return okHelper
			}
		}
		switch fo.Pkg().Path() + "." + fo.Name() {
		case "strconv.Quote":
			return true
		case "fmt.Errorf", "errors.New":
			return true // a diagnostic, not part of the tree
		case "fmt.Sprintf":
			if len(call.Args) >= 1 {
				if f, ok := constStr(info, call.Args[0]); ok {
					// only %q / %s / %v / %d with literal text around them: injective in each argument for a fixed format with one verb
					return strings.Count(f, "%") == 1 && (strings.Contains(f, "%q") || strings.Contains(f, "%s") || strings.Contains(f, "%v") || strings.Contains(f, "%d"))
				}
			}
			return false
		}
		return false
	}
	for _, i := range idxs {
		cs := ev.cases[i]
		origins := ev.varOrigins(cs)
		for _, st := range cs.clause.Body {
			ast.Inspect(st, func(n ast.Node) bool {
				call, ok := n.(*ast.CallExpr)
				if !ok {
					return true
				}
				uses := false
				for _, a := range call.Args {
					if len(ev.rhsRefs(a, origins)) > 0 {
						uses = true
					}
				}
				if !uses {
					return true
				}
				nCalls++
				if !injective(call, 0) {
					bad = append(bad, fmt.Sprintf("production %d (%s): %s", i, cs.prod, types.ExprString(call)))
					if !badPos.IsValid() {
						badPos = call.Pos()
					}
				}
				return true
			})
		}
	}
	c.Check("R11.6", fmt.Sprintf("%s: values taken from the stack reach the tree unchanged or quoted", trimMod(ev.pkg.PkgPath)), badPos, len(bad) == 0 && nCalls >= 1,
		"a stack value is passed through a function that is not known to be injective, so the tree no longer determines the source text: "+strings.Join(bad, "; "),
		"QT = \"\\\"\"; start = QT;")
}

// varOrigins maps local variables of a case to the rhs index they were taken from.
func (ev *evaluator) varOrigins(cs *evalCase) map[types.Object]int {
	info := ev.pkg.TypesInfo
	out := map[types.Object]int{}
	for _, st := range cs.clause.Body {
		ast.Inspect(st, func(n ast.Node) bool {
			if rs, ok := n.(*ast.RangeStmt); ok {
				// the element variable of a loop over an operand-derived collection comes from that operand
				k := -1
				ast.Inspect(rs.X, func(m ast.Node) bool {
					if e, ok := m.(ast.Expr); ok {
						if kk, ok := ev.rhsIndex(e); ok {
							k = kk
						}
					}
					if id, ok := m.(*ast.Ident); ok {
						if kk, ok := out[info.Uses[id]]; ok {
							k = kk
						}
					}
					return true
				})
				if k >= 0 {
					if id, ok := rs.Value.(*ast.Ident); ok && id.Name != "_" {
						if o := info.Defs[id]; o != nil {
							out[o] = k
						}
					}
				}
				return true
			}
			as, ok := n.(*ast.AssignStmt)
			if !ok || len(as.Rhs) != 1 {
				return true
			}
			k := -1
			ast.Inspect(as.Rhs[0], func(m ast.Node) bool {
				if e, ok := m.(ast.Expr); ok {
					if kk, ok := ev.rhsIndex(e); ok {
						k = kk
					}
				}
				return true
			})
			if k < 0 {
				// derived from another tracked variable (rule := ...; rule.LHS)
				ast.Inspect(as.Rhs[0], func(m ast.Node) bool {
					if id, ok := m.(*ast.Ident); ok {
						if kk, ok := out[info.Uses[id]]; ok {
							k = kk
						}
					}
					return true
				})
			}
			if k < 0 {
				return true
			}
			for _, l := range as.Lhs {
				if id, ok := l.(*ast.Ident); ok && id.Name != "_" && id.Name != "ok" {
					if o := info.Defs[id]; o != nil {
						out[o] = k
					}
				}
			}
			return true
		})
	}
	return out
}

// rhsRefs returns the rhs indices an expression depends on (directly or through tracked variables).
func (ev *evaluator) rhsRefs(e ast.Node, origins map[types.Object]int) []int {
	info := ev.pkg.TypesInfo
	set := map[int]bool{}
	ast.Inspect(e, func(m ast.Node) bool {
		if x, ok := m.(ast.Expr); ok {
			if k, ok := ev.rhsIndex(x); ok {
				set[k] = true
			}
		}
		if id, ok := m.(*ast.Ident); ok {
			if k, ok := origins[info.Uses[id]]; ok {
				set[k] = true
			}
		}
		return true
	})
	var out []int
	for k := range set {
		out = append(out, k)
	}
	sort.Ints(out)
	return out
}

func checkOperandOrder(c *Ctx, ev *evaluator) {
	info := ev.pkg.TypesInfo
	var idxs []int
	for i := range ev.cases {
		idxs = append(idxs, i)
	}
	sort.Ints(idxs)
	for _, i := range idxs {
		cs := ev.cases[i]
		origins := ev.varOrigins(cs)
		key := fmt.Sprintf("case %d (%s)", i, cs.prod)
		// (a) every non-terminal operand that carries a value is used
		used := map[int]bool{}
		for _, st := range cs.clause.Body {
			for _, k := range ev.rhsRefs(st, origins) {
				used[k] = true
			}
		}
		for k, s := range cs.prod.body {
			if s.term {
				continue
			}
			ss := ev.symSort(s)
			onlyNil := len(ss) == 0
			if len(ss) == 1 {
				_, onlyNil = ss[nilSort]
			}
			if onlyNil {
				continue
			}
			c.Check("R11.2", fmt.Sprintf("%s: the value of operand %d (%s) is used", key, k, s), cs.clause.Pos(), used[k],
				"the action ignores a value-carrying operand: that part of the source is missing from the typed tree")
		}
		// (c) a value is passed through unchanged only where the production adds nothing to the tree
		punct := map[string]bool{"(": true, ")": true, "<": true, ">": true, ";": true}
		carriers, others := 0, true
		for _, sy := range cs.prod.body {
			if sy.term {
				if !punct[sy.name] {
					// a terminal that is an operator or carries a lexeme
					if _, isPunct := punct[sy.name]; !isPunct {
						others = false
					}
				}
				continue
			}
			ss := ev.symSort(sy)
			onlyNil := len(ss) == 0
			if len(ss) == 1 {
				_, onlyNil = ss[nilSort]
			}
			if !onlyNil {
				carriers++
			}
		}
		unit := (carriers == 1 && others) || len(cs.prod.body) == 1
		for _, r := range returnsOf(cs.clause.Body) {
			if len(r.Results) != 2 || !isNilExpr(info, r.Results[1]) {
				continue
			}
			x := ast.Unparen(r.Results[0])
			pass := false
			if _, ok := ev.rhsVal(x); ok {
				pass = true
			}
			if id, ok := x.(*ast.Ident); ok {
				if _, ok := origins[info.Uses[id]]; ok {
					// a variable that merely holds (an assertion of) an operand, not one it was appended to
					appended := false
					for _, st := range cs.clause.Body {
						ast.Inspect(st, func(n ast.Node) bool {
							if as, ok := n.(*ast.AssignStmt); ok && len(as.Lhs) == 1 && len(as.Rhs) == 1 {
								if lid, ok := as.Lhs[0].(*ast.Ident); ok && (info.Defs[lid] == info.Uses[id] || info.Uses[lid] == info.Uses[id]) {
									if call, ok := ast.Unparen(as.Rhs[0]).(*ast.CallExpr); ok {
										if f, ok := call.Fun.(*ast.Ident); ok && f.Name == "append" {
											appended = true
										}
									}
								}
							}
							return true
						})
					}
					pass = !appended
				}
			}
			if pass {
				c.Check("R11.2", fmt.Sprintf("%s: an operand is returned unchanged only by a unit or bracket production", key), r.Pos(), unit,
					"the action returns one of its operands as the node for a production that has an operator or several value-carrying symbols: what the production adds (e.g. the empty alternative of a trailing bar) is missing from the typed tree",
					"start = (a | b) | ;")
			}
		}
		// (b) appended operands appear in body order
		var seq []int
		var seqPos []token.Pos
		for _, st := range cs.clause.Body {
			ast.Inspect(st, func(n ast.Node) bool {
				call, ok := n.(*ast.CallExpr)
				if !ok {
					return true
				}
				if id, ok := call.Fun.(*ast.Ident); !ok || id.Name != "append" || info.Uses[id] != types.Universe.Lookup("append") {
					return true
				}
				for _, a := range call.Args[1:] {
					refs := ev.rhsRefs(a, origins)
					if len(refs) == 1 {
						seq = append(seq, refs[0])
						seqPos = append(seqPos, a.Pos())
					}
				}
				return true
			})
		}
		if len(seq) >= 2 {
			okOrder := true
			for j := 1; j < len(seq); j++ {
				if seq[j] < seq[j-1] {
					okOrder = false
				}
			}
			c.Check("R11.2", fmt.Sprintf("%s: operands are appended in body order", key), seqPos[0], okOrder,
				fmt.Sprintf("values are appended in the order of body positions %v: the typed tree has its operands swapped", seq))
		}
	}
}

// checkAssocConstants: directive -> KW handles uses the lr constant matching KW.
func checkAssocConstants(c *Ctx, ev *evaluator, rule string) {
	info := ev.pkg.TypesInfo
	want := map[string]string{"@left": "LEFT", "@right": "RIGHT", "@none": "NONE"}
	n := 0
	for i, cs := range ev.cases {
		if len(cs.prod.body) == 0 || !cs.prod.body[0].term {
			continue
		}
		w, ok := want[cs.prod.body[0].name]
		if !ok {
			continue
		}
		n++
		var got []string
		undecided := false
		for _, st := range cs.clause.Body {
			ast.Inspect(st, func(nd ast.Node) bool {
				kv, ok := nd.(*ast.KeyValueExpr)
				if !ok {
					return true
				}
				if id, ok := kv.Key.(*ast.Ident); ok && id.Name == "Associativity" {
					if call, isCall := ast.Unparen(kv.Value).(*ast.CallExpr); isCall {
						// a helper of the package that maps the production index to the constant: evaluate it for this production
						if name, ok := evalIndexHelper(ev, call, i); ok {
							got = append(got, name)
						} else {
							got = append(got, "<"+types.ExprString(kv.Value)+">")
							undecided = true
						}
					} else if o := objOf(info, kv.Value); o != nil {
						got = append(got, o.Name())
					}
				}
				return true
			})
		}
		if len(got) == 0 {
			// the level may be built by a helper of the package: is an Associativity field set anywhere below this case?
			deep := false
			for _, st := range cs.clause.Body {
				deepInspectNode(ev.pkg, st, 3, func(nd ast.Node) bool {
					if kv, ok := nd.(*ast.KeyValueExpr); ok {
						if id, ok := kv.Key.(*ast.Ident); ok && id.Name == "Associativity" {
							deep = true
						}
					}
					return true
				})
			}
			if deep {
				undecided = true
				got = append(got, "<set in a helper>")
			}
		}
		if undecided {
			c.Undecided(rule, fmt.Sprintf("%s: production %d (%s) records associativity %s", trimMod(ev.pkg.PkgPath), i, cs.prod, w), cs.clause.Pos(), fmt.Sprintf("the associativity is computed by %v, which was not understood", got))
			continue
		}
		c.Check(rule, fmt.Sprintf("%s: production %d (%s) records associativity %s", trimMod(ev.pkg.PkgPath), i, cs.prod, w), cs.clause.Pos(),
			len(got) == 1 && got[0] == w, fmt.Sprintf("the action records %v for a %s directive", got, cs.prod.body[0].name), cs.prod.body[0].name+" \"+\"")
	}
	if n != 3 {
		c.Lost(rule, fmt.Sprintf("three directive productions (found %d)", n))
	}
}

// ---------- R11.4 the generic tree builder ----------

func checkTreeBuilder(c *Ctx, g *ebnfGrammar) {
	p := g.pkg
	info := p.TypesInfo
	// the method that calls the driver with two closures and builds InternalNode values
	var fd *ast.FuncDecl
	AllFuncDecls(p, func(f *ast.FuncDecl) {
		if f.Body == nil {
			return
		}
		ast.Inspect(f.Body, func(n ast.Node) bool {
			if cl, ok := n.(*ast.CompositeLit); ok {
				if _, name := namedTypeName(info.TypeOf(cl)); name == "InternalNode" {
					fd = f
				}
			}
			return true
		})
	})
	if fd == nil {
		c.Lost("R11.4", "the function building parser.InternalNode values")
		return
	}
	c.Analysed(funcKey(p, fd))
	var lits []*ast.FuncLit
	ast.Inspect(fd.Body, func(n ast.Node) bool {
		if fl, ok := n.(*ast.FuncLit); ok {
			lits = append(lits, fl)
			return false
		}
		return true
	})
	if len(lits) != 2 {
		c.Undecided("R11.4", "tree builder closures", fd.Pos(), fmt.Sprintf("%d closures", len(lits)))
		return
	}
	tokLit, prodLit := lits[0], lits[1]
	// the rule reads the two callbacks handed to Parse: func(*Token) error and func(int) error, each working on a stack of
	// nodes; closures of another type (builders that return the node and leave the stack to a shared helper) are another shape
	isCallback := func(fl *ast.FuncLit, nParams int) bool {
		sig, _ := info.TypeOf(fl).(*types.Signature)
		return sig != nil && sig.Params().Len() == nParams && sig.Results().Len() == 1 && isErrorType(sig.Results().At(0).Type())
	}
	if !isCallback(tokLit, 1) || !isCallback(prodLit, 1) {
		c.Undecided("R11.4", "tree builder closures", fd.Pos(), "the closures that build the tree are not the token and production callbacks themselves (func(*Token) error, func(int) error): how leaves and interior nodes reach the stack is not read off this shape")
		return
	}
	// leaf: one push of a LeafNode whose fields are the token's
	pushes := 0
	ast.Inspect(tokLit.Body, func(n ast.Node) bool {
		call, ok := n.(*ast.CallExpr)
		if !ok {
			return true
		}
		if sel, ok := call.Fun.(*ast.SelectorExpr); !ok || sel.Sel.Name != "Push" || len(call.Args) != 1 {
			return true
		}
		pushes++
		arg := ast.Unparen(call.Args[0])
		if u, ok := arg.(*ast.UnaryExpr); ok {
			arg = u.X
		}
		cl, ok := arg.(*ast.CompositeLit)
		if !ok {
			c.Fail("R11.4", "leaf node literal", call.Pos(), "the token closure does not push a leaf literal")
			return true
		}
		fs, _ := compositeFields(cl)
		want := map[string]string{"Terminal": "Terminal", "Lexeme": "Lexeme", "Position": "Pos"}
		var fields []string
		for k := range want {
			fields = append(fields, k)
		}
		sort.Strings(fields)
		for _, f := range fields {
			got := ""
			if sel, ok := ast.Unparen(fs[f]).(*ast.SelectorExpr); ok {
				if id, ok := sel.X.(*ast.Ident); ok && info.Uses[id] == info.Defs[tokLit.Type.Params.List[0].Names[0]] {
					got = sel.Sel.Name
				}
			}
			c.Check("R11.4", "leaf."+f+" is the token's "+want[f], call.Pos(), got == want[f], fmt.Sprintf("leaf field %s is taken from %q", f, got))
		}
		return true
	})
	c.Check("R11.4", "one leaf pushed per token", tokLit.Pos(), pushes == 1, fmt.Sprintf("%d pushes in the token closure", pushes))

	// interior: NonTerminal: prod.Head, Production: prod, prod == productions[i]; pops len(prod.Body); prepend
	idx := info.Defs[prodLit.Type.Params.List[0].Names[0]]
	var prodVar types.Object
	ast.Inspect(prodLit.Body, func(n ast.Node) bool {
		as, ok := n.(*ast.AssignStmt)
		if !ok || len(as.Lhs) != 1 || len(as.Rhs) != 1 {
			return true
		}
		if ix, ok := ast.Unparen(as.Rhs[0]).(*ast.IndexExpr); ok {
			if id, ok := ast.Unparen(ix.X).(*ast.Ident); ok && info.Uses[id] == types.Object(g.prodsVar) {
				if ii, ok := ast.Unparen(ix.Index).(*ast.Ident); ok && info.Uses[ii] == idx {
					if l, ok := as.Lhs[0].(*ast.Ident); ok {
						prodVar = info.Defs[l]
					}
				}
			}
		}
		return true
	})
	c.Check("R11.4", "the reduced production is productions[i]", prodLit.Pos(), prodVar != nil, "the production closure does not look up productions[i]")
	isProdField := func(e ast.Expr, f string) bool {
		sel, ok := ast.Unparen(e).(*ast.SelectorExpr)
		if !ok || sel.Sel.Name != f {
			return false
		}
		id, ok := sel.X.(*ast.Ident)
		return ok && prodVar != nil && info.Uses[id] == prodVar
	}
	ast.Inspect(prodLit.Body, func(n ast.Node) bool {
		cl, ok := n.(*ast.CompositeLit)
		if !ok {
			return true
		}
		if _, name := namedTypeName(info.TypeOf(cl)); name != "InternalNode" {
			return true
		}
		fs, _ := compositeFields(cl)
		c.Check("R11.4", "interior node records the production's head", cl.Pos(), fs["NonTerminal"] != nil && isProdField(fs["NonTerminal"], "Head"), "InternalNode.NonTerminal is not prod.Head")
		pid, _ := ast.Unparen(fs["Production"]).(*ast.Ident)
		c.Check("R11.4", "interior node records the production", cl.Pos(), pid != nil && info.Uses[pid] == prodVar, "InternalNode.Production is not the reduced production")
		return true
	})
	// the pop loop
	var loop ast.Stmt
	ast.Inspect(prodLit.Body, func(n ast.Node) bool {
		switch s := n.(type) {
		case *ast.RangeStmt:
			loop = s
		case *ast.ForStmt:
			loop = s
		}
		return true
	})
	if loop == nil {
		// the popping may have been moved into a helper of the package (a generic pop-the-body function): then how many
		// children are popped and in which order they are attached is not followed by this rule
		helper := false
		ast.Inspect(prodLit.Body, func(n ast.Node) bool {
			if call, ok := n.(*ast.CallExpr); ok {
				if fo, ok := objOf(info, call.Fun).(*types.Func); ok && fo.Pkg() != nil && fo.Pkg() == p.Types {
					helper = true
				}
				if ix, ok := call.Fun.(*ast.IndexExpr); ok {
					if fo, ok := objOf(info, ix.X).(*types.Func); ok && fo.Pkg() != nil && fo.Pkg() == p.Types {
						helper = true
					}
				}
			}
			return true
		})
		if helper {
			c.Undecided("R11.4", "children are popped in a loop", prodLit.Pos(), "no loop in the production closure; it calls a helper of the package, which this rule does not look into")
		} else {
			c.Fail("R11.4", "children are popped in a loop", prodLit.Pos(), "no loop in the production closure")
		}
		return
	}
	boundOK := false
	switch s := loop.(type) {
	case *ast.RangeStmt:
		if call, ok := ast.Unparen(s.X).(*ast.CallExpr); ok && len(call.Args) == 1 {
			if id, ok := call.Fun.(*ast.Ident); ok && id.Name == "len" && isProdField(call.Args[0], "Body") {
				boundOK = true
			}
		}
	case *ast.ForStmt:
		ast.Inspect(s, func(n ast.Node) bool {
			if call, ok := n.(*ast.CallExpr); ok && len(call.Args) == 1 {
				if id, ok := call.Fun.(*ast.Ident); ok && id.Name == "len" && isProdField(call.Args[0], "Body") {
					boundOK = true
				}
			}
			return true
		})
	}
	c.Check("R11.4", "exactly len(prod.Body) children are popped", loop.Pos(), boundOK, "the loop bound is not len(prod.Body)")
	pops, prepend := 0, false
	var popVar types.Object
	ast.Inspect(loop, func(n ast.Node) bool {
		switch s := n.(type) {
		case *ast.AssignStmt:
			if len(s.Rhs) == 1 {
				if call, ok := ast.Unparen(s.Rhs[0]).(*ast.CallExpr); ok {
					if sel, ok := call.Fun.(*ast.SelectorExpr); ok && sel.Sel.Name == "Pop" {
						pops++
						if id, ok := s.Lhs[0].(*ast.Ident); ok {
							popVar = info.Defs[id]
						}
					}
					// in.Children = append([]Node{child}, in.Children...)
					if id, ok := call.Fun.(*ast.Ident); ok && id.Name == "append" && len(call.Args) == 2 && call.Ellipsis.IsValid() {
						if cl, ok := ast.Unparen(call.Args[0]).(*ast.CompositeLit); ok && len(cl.Elts) == 1 {
							if e, ok := cl.Elts[0].(*ast.Ident); ok && popVar != nil && info.Uses[e] == popVar {
								if types.ExprString(call.Args[1]) == types.ExprString(s.Lhs[0]) {
									prepend = true
								}
							}
						}
					}
				}
			}
		}
		return true
	})
	c.Check("R11.4", "one pop per iteration", loop.Pos(), pops == 1, fmt.Sprintf("%d pops in the loop", pops))
	c.Check("R11.4", "the first popped child becomes the last child (prepend)", loop.Pos(), prepend,
		"popped children are not prepended: the children of interior nodes are in reverse body order", "any rule with two body symbols")
}

var _ = strings.TrimSpace
var _ *packages.Package

// evalIndexHelper: call is f(i) with i the evaluator's production-index parameter and f a function of the package whose body
// selects a constant by comparing its parameter with integer constants (switch or if chain). Returns the name of the constant
// it yields for production index idx.
func evalIndexHelper(ev *evaluator, call *ast.CallExpr, idx int) (string, bool) {
	info := ev.pkg.TypesInfo
	fo, ok := objOf(info, call.Fun).(*types.Func)
	if !ok || fo.Pkg() != ev.pkg.Types || len(call.Args) != 1 {
		return "", false
	}
	if id, ok := ast.Unparen(call.Args[0]).(*ast.Ident); !ok || info.Uses[id] != types.Object(ev.idxParam) {
		return "", false
	}
	hd := declOfFunc(ev.pkg, fo)
	if hd == nil || hd.Body == nil || hd.Type.Params == nil || len(hd.Type.Params.List) != 1 || len(hd.Type.Params.List[0].Names) != 1 {
		return "", false
	}
	par := info.Defs[hd.Type.Params.List[0].Names[0]]
	isPar := func(e ast.Expr) bool {
		id, ok := ast.Unparen(e).(*ast.Ident)
		return ok && info.Uses[id] == par
	}
	nameOf := func(e ast.Expr) (string, bool) {
		if o := objOf(info, e); o != nil {
			if _, isConst := o.(*types.Const); isConst {
				return o.Name(), true
			}
		}
		return "", false
	}
	var exec func(list []ast.Stmt) (string, bool, bool) // name, returned, understood
	exec = func(list []ast.Stmt) (string, bool, bool) {
		for _, st := range list {
			switch x := st.(type) {
			case *ast.ReturnStmt:
				if len(x.Results) != 1 {
					return "", true, false
				}
				n, ok := nameOf(x.Results[0])
				return n, true, ok
			case *ast.SwitchStmt:
				if x.Tag == nil || !isPar(x.Tag) {
					return "", false, false
				}
				var chosen, def *ast.CaseClause
				for _, cc := range x.Body.List {
					cl := cc.(*ast.CaseClause)
					if cl.List == nil {
						def = cl
					}
					for _, e := range cl.List {
						if v, ok := constInt(info, e); ok && int(v) == idx {
							chosen = cl
						}
					}
				}
				if chosen == nil {
					chosen = def
				}
				if chosen != nil {
					if n, ret, ok := exec(chosen.Body); ret || !ok {
						return n, ret, ok
					}
				}
			case *ast.IfStmt:
				b, ok := ast.Unparen(x.Cond).(*ast.BinaryExpr)
				if !ok || b.Op != token.EQL || !isPar(b.X) {
					return "", false, false
				}
				v, ok := constInt(info, b.Y)
				if !ok {
					return "", false, false
				}
				if int(v) == idx {
					if n, ret, ok := exec(x.Body.List); ret || !ok {
						return n, ret, ok
					}
				} else if blk, ok := x.Else.(*ast.BlockStmt); ok {
					if n, ret, ok := exec(blk.List); ret || !ok {
						return n, ret, ok
					}
				}
			default:
				return "", false, false
			}
		}
		return "", false, true
	}
	n, ret, ok := exec(hd.Body.List)
	return n, ret && ok
}
