package main

import (
	goscanner "go/scanner"
	"go/token"
	"strings"
)

type goScanner struct {
	s goscanner.Scanner
}

func (g *goScanner) init(f *token.File, src []byte) { g.s.Init(f, src, nil, 0) }

// all returns the token stream (comments dropped, automatic semicolons dropped) as one string.
func (g *goScanner) all() string {
	var sb strings.Builder
	for {
		_, tok, lit := g.s.Scan()
		if tok == token.EOF {
			break
		}
		if tok == token.SEMICOLON && lit == "\n" {
			continue
		}
		sb.WriteString(tok.String())
		sb.WriteByte(' ')
		sb.WriteString(lit)
		sb.WriteByte('\n')
	}
	return sb.String()
}
