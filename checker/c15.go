package main

import (
	"fmt"
	"go/ast"
	"go/token"
	"go/types"
	"strings"

	"golang.org/x/tools/go/packages"
	"golang.org/x/tools/go/ssa"
	"golang.org/x/tools/go/ssa/ssautil"
)

func init() {
	register(&property{id: "C15", run: runC15, meta: propMeta{
		level: "other",
		explanation: "Sources of run-to-run variation are enumerated in the functions reachable from main.main (RTA): every range over a Go map or over a hash-based dependency collection (whose iteration the dependency shuffles) is classified by the effects of its body; an order-sensitive effect (append to a slice or map entry that outlives the loop, diagnostic accumulation, output, element-carrying exit) must be discharged by a later sort of that slice or by a reviewed order-insensitive sink; " +
			"randomness/time/pid are confined to the decorative emoji helpers whose results only reach the progress messages; no goroutines, channels or WaitGroups. Shows the absence of the known structural sources of variation, not byte identity as such.",
		trusted: []string{"red-black/AVL/BST tables of the dependency iterate in key order; its hash tables and plain sets do not", "the dependency's own diagnostics and state numbering are deterministic (out of reach)", "RTA reachability"},
		assumptions: []string{"same input file, flags, working directory and toolchain"},
	}})
}

var orderedCtors = map[string]bool{"NewRedBlack": true, "NewAVL": true, "NewBST": true, "NewLLRB": true, "NewSorted": true, "NewSortedSet": true, "NewTreap": true}
var unorderedCtors = map[string]bool{"NewQuadraticHashTable": true, "NewLinearHashTable": true, "NewDoubleHashTable": true, "NewChainHashTable": true, "New": true, "NewWithFormat": true, "NewStates": true, "NewSymbols": true}

var sortFuncs = map[string]bool{
	depPath + "/sort.Quick": true, depPath + "/sort.Quick3Way": true, depPath + "/sort.Merge": true, depPath + "/sort.Heap": true, depPath + "/sort.Insertion": true, depPath + "/sort.Shell": true,
	"sort.Slice": true, "sort.SliceStable": true, "sort.Strings": true, "sort.Ints": true, "sort.Sort": true, "sort.Stable": true,
	"slices.Sort": true, "slices.SortFunc": true, "slices.SortStableFunc": true,
}

type orderCtx struct {
	c     *Ctx
	depth int
	busy  map[string]bool
}

// orderedExpr: is iteration over the collection denoted by e ordered? (true, "") or (false, reason)
func (o *orderCtx) orderedColl(p *packages.Package, fd *ast.FuncDecl, e ast.Expr, depth int) (bool, string) {
	if depth > 12 {
		return false, "resolution too deep"
	}
	info := p.TypesInfo
	e = ast.Unparen(e)
	switch v := e.(type) {
	case *ast.CallExpr:
		fo := objOf(info, v.Fun)
		// generic instantiation: symboltable.NewRedBlack[K,V](...)
		if fo == nil {
			switch ix := v.Fun.(type) {
			case *ast.IndexExpr:
				fo = objOf(info, ix.X)
			case *ast.IndexListExpr:
				fo = objOf(info, ix.X)
			}
		}
		if fn, ok := fo.(*types.Func); ok {
			if fn.Pkg() != nil && strings.HasPrefix(fn.Pkg().Path(), depPath) && fn.Type().(*types.Signature).Recv() == nil {
				if orderedCtors[fn.Name()] {
					return true, ""
				}
				if unorderedCtors[fn.Name()] {
					return false, "built by " + fn.Pkg().Name() + "." + fn.Name() + " (hash-based / unordered; the dependency shuffles its iteration)"
				}
			}
			// a module function returning a collection: look at its returns
			if dp, dfd := o.declOf(fn); dfd != nil {
				res, why := true, ""
				n := 0
				ast.Inspect(dfd.Body, func(nd ast.Node) bool {
					if _, ok := nd.(*ast.FuncLit); ok {
						return false
					}
					if r, ok := nd.(*ast.ReturnStmt); ok && len(r.Results) >= 1 {
						n++
						if ok2, w := o.orderedColl(dp, dfd, r.Results[0], depth+1); !ok2 {
							res, why = false, w
						}
					}
					return true
				})
				if n > 0 {
					return res, why
				}
			}
			// Get(k) on a collection of collections: element orderedness
			if sel, ok := v.Fun.(*ast.SelectorExpr); ok && (fn.Name() == "Get") {
				return o.orderedElems(p, fd, sel.X, depth+1)
			}
		}
		return false, "collection built by an unrecognised call " + types.ExprString(v.Fun)
	case *ast.Ident:
		obj := info.Uses[v]
		if obj == nil {
			obj = info.Defs[v]
		}
		// find definitions in the function
		res, why, n := true, "", 0
		consider := func(rhs ast.Expr) {
			n++
			if ok, w := o.orderedColl(p, fd, rhs, depth+1); !ok {
				res, why = false, w
			}
		}
		ast.Inspect(fd.Body, func(nd ast.Node) bool {
			switch s := nd.(type) {
			case *ast.AssignStmt:
				for i, l := range s.Lhs {
					if id, ok := l.(*ast.Ident); ok && (info.Defs[id] == obj || info.Uses[id] == obj) {
						if len(s.Rhs) == len(s.Lhs) {
							consider(s.Rhs[i])
						} else if len(s.Rhs) == 1 && i == 0 {
							consider(s.Rhs[0])
						}
					}
				}
			case *ast.RangeStmt:
				if id, ok := s.Value.(*ast.Ident); ok && info.Defs[id] == obj {
					// the range value of X.All(): an element of X
					if call, ok := ast.Unparen(s.X).(*ast.CallExpr); ok {
						if sel, ok := call.Fun.(*ast.SelectorExpr); ok {
							n++
							if ok2, w := o.orderedElems(p, fd, sel.X, depth+1); !ok2 {
								res, why = false, w
							}
						}
					}
				}
			case *ast.ValueSpec:
				for i, id := range s.Names {
					if info.Defs[id] == obj && i < len(s.Values) {
						consider(s.Values[i])
					}
				}
			}
			return true
		})
		if n == 0 {
			// parameter or package-level: look at the parameter's call sites? keep conservative
			return false, "origin of " + v.Name + " not found in the function"
		}
		return res, why
	case *ast.SelectorExpr:
		// a struct field: every assignment / composite-literal initialisation of that field in its package
		fobj, _ := info.Uses[v.Sel].(*types.Var)
		if fobj == nil || !fobj.IsField() {
			return false, "unresolved selector " + types.ExprString(v)
		}
		return o.orderedField(fobj, depth+1)
	}
	return false, "unrecognised collection expression " + types.ExprString(e)
}

// orderedElems: are the collections stored as values in the collection-of-collections x ordered?
func (o *orderCtx) orderedElems(p *packages.Package, fd *ast.FuncDecl, x ast.Expr, depth int) (bool, string) {
	info := p.TypesInfo
	if o.busy == nil {
		o.busy = map[string]bool{}
	}
	bk := p.PkgPath + "." + fd.Name.Name + ":" + types.ExprString(x)
	if o.busy[bk] {
		return true, "" // a cycle (x.Get feeding x.Put) adds no new origin
	}
	o.busy[bk] = true
	defer delete(o.busy, bk)
	if depth > 12 {
		return false, "resolution too deep"
	}
	res, why, n := true, "", 0
	// Put(k, v) calls on the same receiver expression, anywhere in the package of the value's definition
	match := func(recv ast.Expr) bool { return types.ExprString(ast.Unparen(recv)) == types.ExprString(ast.Unparen(x)) }
	scan := func(sp *packages.Package, sfd *ast.FuncDecl) {
		ast.Inspect(sfd.Body, func(nd ast.Node) bool {
			call, ok := nd.(*ast.CallExpr)
			if !ok || len(call.Args) != 2 {
				return true
			}
			sel, ok := call.Fun.(*ast.SelectorExpr)
			if !ok || sel.Sel.Name != "Put" || !match(sel.X) {
				return true
			}
			n++
			if ok2, w := o.orderedColl(sp, sfd, call.Args[1], depth+1); !ok2 {
				res, why = false, w
			}
			return true
		})
	}
	scan(p, fd)
	if n == 0 {
		// x may come from a function that built it: x := f(...); look for Put calls on the returned variable inside f
		if id, ok := ast.Unparen(x).(*ast.Ident); ok {
			obj := info.Uses[id]
			ast.Inspect(fd.Body, func(nd ast.Node) bool {
				as, ok := nd.(*ast.AssignStmt)
				if !ok || len(as.Lhs) != 1 || len(as.Rhs) != 1 {
					return true
				}
				lid, ok := as.Lhs[0].(*ast.Ident)
				if !ok || (info.Defs[lid] != obj && info.Uses[lid] != obj) {
					return true
				}
				if call, ok := ast.Unparen(as.Rhs[0]).(*ast.CallExpr); ok {
					if fn, ok := objOf(info, call.Fun).(*types.Func); ok {
						if dp, dfd := o.declOf(fn); dfd != nil {
							// the returned identifier inside f
							ast.Inspect(dfd.Body, func(n2 ast.Node) bool {
								if r, ok := n2.(*ast.ReturnStmt); ok && len(r.Results) >= 1 {
									if ok2, w := o.orderedElems(dp, dfd, r.Results[0], depth+1); !ok2 {
										res, why = false, w
									}
									n++
								}
								return true
							})
						}
					}
				}
				return true
			})
		}
	}
	if n == 0 {
		// x is a field of a struct (d.trans): the elements are put into it by other functions of the package, through any
		// receiver variable: match Put calls on the same field
		if xs, ok := ast.Unparen(x).(*ast.SelectorExpr); ok {
			if fld, ok := info.Uses[xs.Sel].(*types.Var); ok && fld.IsField() {
				AllFuncDecls(p, func(sfd *ast.FuncDecl) {
					if sfd.Body == nil {
						return
					}
					ast.Inspect(sfd.Body, func(nd ast.Node) bool {
						call, ok := nd.(*ast.CallExpr)
						if !ok || len(call.Args) != 2 {
							return true
						}
						sel, ok := call.Fun.(*ast.SelectorExpr)
						if !ok || sel.Sel.Name != "Put" {
							return true
						}
						rs, ok := ast.Unparen(sel.X).(*ast.SelectorExpr)
						if !ok || info.Uses[rs.Sel] != types.Object(fld) {
							return true
						}
						n++
						if ok2, w := o.orderedColl(p, sfd, call.Args[1], depth+1); !ok2 {
							res, why = false, w
						}
						return true
					})
				})
			}
		}
	}
	if n == 0 {
		return false, "no Put into " + types.ExprString(x) + " found to determine the order of its elements"
	}
	return res, why
}

func (o *orderCtx) orderedField(f *types.Var, depth int) (bool, string) {
	if f.Pkg() == nil {
		return false, "field without package"
	}
	p := o.c.All[f.Pkg().Path()]
	if p == nil {
		return false, "package of field not loaded"
	}
	res, why, n := true, "", 0
	AllFuncDecls(p, func(fd *ast.FuncDecl) {
		if fd.Body == nil {
			return
		}
		ast.Inspect(fd.Body, func(nd ast.Node) bool {
			switch s := nd.(type) {
			case *ast.AssignStmt:
				for i, l := range s.Lhs {
					if sel, ok := l.(*ast.SelectorExpr); ok && p.TypesInfo.Uses[sel.Sel] == types.Object(f) && len(s.Rhs) == len(s.Lhs) {
						n++
						if ok2, w := o.orderedColl(p, fd, s.Rhs[i], depth+1); !ok2 {
							res, why = false, w
						}
					}
				}
			case *ast.KeyValueExpr:
				if id, ok := s.Key.(*ast.Ident); ok && p.TypesInfo.Uses[id] == types.Object(f) {
					n++
					if ok2, w := o.orderedColl(p, fd, s.Value, depth+1); !ok2 {
						res, why = false, w
					}
				}
			}
			return true
		})
	})
	if n == 0 {
		return false, "no initialisation of field " + f.Name() + " found"
	}
	return res, why
}

func (o *orderCtx) declOf(fn *types.Func) (*packages.Package, *ast.FuncDecl) {
	if fn.Pkg() == nil {
		return nil, nil
	}
	p := o.c.All[fn.Pkg().Path()]
	if p == nil || isStdlib(p.PkgPath) {
		return nil, nil
	}
	var out *ast.FuncDecl
	AllFuncDecls(p, func(fd *ast.FuncDecl) {
		if p.TypesInfo.Defs[fd.Name] == types.Object(fn) || (fn.Origin() != nil && p.TypesInfo.Defs[fd.Name] == types.Object(fn.Origin())) {
			out = fd
		}
	})
	if out == nil || out.Body == nil {
		return nil, nil
	}
	return p, out
}

// rangeOrdered decides whether a range statement iterates in a deterministic order.
func (o *orderCtx) rangeOrdered(p *packages.Package, fd *ast.FuncDecl, rs *ast.RangeStmt, depth int) (bool, string) {
	info := p.TypesInfo
	t := info.TypeOf(rs.X)
	if t == nil {
		return false, "untyped range expression"
	}
	switch t.Underlying().(type) {
	case *types.Map:
		return false, "range over a Go map"
	case *types.Signature:
		call, ok := ast.Unparen(rs.X).(*ast.CallExpr)
		if !ok {
			return false, "range over a function value of unknown origin"
		}
		sel, ok := call.Fun.(*ast.SelectorExpr)
		if !ok {
			return false, "range over an iterator of unknown origin"
		}
		fn, _ := info.Uses[sel.Sel].(*types.Func)
		if fn == nil {
			return false, "unresolved iterator method"
		}
		recv := fn.Type().(*types.Signature).Recv()
		if recv != nil {
			if _, isIface := recv.Type().Underlying().(*types.Interface); isIface {
				// interface method of a dependency collection: resolve the constructor of the receiver
				return o.orderedColl(p, fd, sel.X, depth+1)
			}
		}
		// a concrete iterator-returning method/function: ordered iff every range inside it is
		if dp, dfd := o.declOf(fn); dfd != nil && depth < 8 {
			res, why := true, ""
			ast.Inspect(dfd.Body, func(nd ast.Node) bool {
				if r2, ok := nd.(*ast.RangeStmt); ok {
					if ok2, w := o.rangeOrdered(dp, dfd, r2, depth+1); !ok2 {
						res, why = false, "inside "+fn.Name()+": "+w
					}
				}
				return true
			})
			return res, why
		}
		return false, "iterator " + fn.Name() + " has no analysable body"
	}
	return true, "" // slices, arrays, strings, integers, channels (channels are excluded by R15.3)
}

type leak struct {
	pos  token.Pos
	what string
	sink ast.Expr // the appended-to expression, nil for other leaks
}

// loopLeaks classifies the effects of an unordered loop's body.
func loopLeaks(p *packages.Package, rs *ast.RangeStmt) []leak {
	info := p.TypesInfo
	var out []leak
	declaredInLoop := func(e ast.Expr) bool {
		id, ok := ast.Unparen(e).(*ast.Ident)
		if !ok {
			return false
		}
		o := info.Uses[id]
		if o == nil {
			o = info.Defs[id]
		}
		return o != nil && o.Pos() >= rs.Body.Pos() && o.Pos() <= rs.Body.End()
	}
	isAppendLike := func(e ast.Expr) bool {
		call, ok := ast.Unparen(e).(*ast.CallExpr)
		if !ok {
			return false
		}
		if id, ok := call.Fun.(*ast.Ident); ok && id.Name == "append" && info.Uses[id] == types.Universe.Lookup("append") {
			return true
		}
		if fn, ok := objOf(info, call.Fun).(*types.Func); ok {
			switch fn.Name() {
			case "Append", "Join":
				return fn.Pkg() != nil && strings.HasSuffix(fn.Pkg().Path(), "errors")
			}
		}
		return false
	}
	ast.Inspect(rs.Body, func(n ast.Node) bool {
		switch s := n.(type) {
		case *ast.FuncLit:
			return false // closures passed to helpers run synchronously on the element; their returns do not leave the loop
		case *ast.AssignStmt:
			for i, l := range s.Lhs {
				if declaredInLoop(l) {
					continue
				}
				if id, ok := l.(*ast.Ident); ok && id.Name == "_" {
					continue
				}
				var rhs ast.Expr
				if len(s.Rhs) == len(s.Lhs) {
					rhs = s.Rhs[i]
				} else if len(s.Rhs) == 1 {
					rhs = s.Rhs[0]
				}
				if rhs != nil && isAppendLike(rhs) {
					// local entry variables (x := m[k]; x = append(x, ..)) are handled through the sink expression
					out = append(out, leak{pos: s.Pos(), what: "appends to " + types.ExprString(l) + ", which outlives the loop", sink: l})
					continue
				}
				if s.Tok == token.ADD_ASSIGN || s.Tok == token.SUB_ASSIGN || s.Tok == token.OR_ASSIGN || s.Tok == token.AND_ASSIGN {
					if b, ok := info.TypeOf(l).Underlying().(*types.Basic); ok && b.Info()&types.IsString != 0 && s.Tok == token.ADD_ASSIGN {
						out = append(out, leak{pos: s.Pos(), what: "concatenates onto string " + types.ExprString(l)})
					}
					continue // commutative accumulation
				}
				if _, isIdx := ast.Unparen(l).(*ast.IndexExpr); isIdx {
					continue // m[k] = v: insertion keyed by the element
				}
				if rhs != nil {
					if _, isConst := info.Types[rhs]; isConst && info.Types[rhs].Value != nil {
						continue // flag = true
					}
				}
				out = append(out, leak{pos: s.Pos(), what: "assigns " + types.ExprString(l) + " (declared outside the loop) from an element: the last iteration wins"})
			}
		case *ast.ReturnStmt:
			for _, r := range s.Results {
				if tv, ok := info.Types[r]; ok && (tv.Value != nil || tv.IsNil()) {
					continue
				}
				out = append(out, leak{pos: s.Pos(), what: "returns from inside the loop with an element-dependent value"})
				break
			}
		case *ast.ExprStmt:
			call, ok := s.X.(*ast.CallExpr)
			if !ok {
				return true
			}
			name := ""
			if fn, ok := objOf(info, call.Fun).(*types.Func); ok {
				name = fn.Name()
				if fn.Pkg() != nil {
					name = fn.Pkg().Path() + "." + name
				}
			}
			switch {
			case strings.HasPrefix(name, "fmt.Fp") || strings.HasPrefix(name, "fmt.Print") || strings.Contains(name, ".Write") || strings.HasSuffix(name, ".Infof") || strings.HasSuffix(name, ".Errorf") || strings.HasSuffix(name, ".Debugf") || strings.HasSuffix(name, ".Warnf"):
				out = append(out, leak{pos: s.Pos(), what: "writes output (" + name + ") per element"})
			}
		case *ast.SendStmt:
			out = append(out, leak{pos: s.Pos(), what: "sends on a channel per element"})
		}
		return true
	})
	return out
}

// discharged: the appended-to slice is sorted after the loop, or is the result of a reviewed order-insensitive producer.
func discharged(c *Ctx, p *packages.Package, fd *ast.FuncDecl, rs *ast.RangeStmt, lk leak) (bool, string) {
	if lk.sink == nil {
		return false, ""
	}
	info := p.TypesInfo
	id, ok := ast.Unparen(lk.sink).(*ast.Ident)
	if !ok {
		return false, ""
	}
	obj := info.Uses[id]
	if obj == nil {
		obj = info.Defs[id]
	}
	sorted, lossy := false, ""
	ast.Inspect(fd.Body, func(n ast.Node) bool {
		call, ok := n.(*ast.CallExpr)
		if !ok || call.Pos() < rs.End() || len(call.Args) == 0 {
			return true
		}
		fn, _ := objOf(info, call.Fun).(*types.Func)
		if fn == nil || fn.Pkg() == nil || !sortFuncs[fn.Pkg().Path()+"."+fn.Name()] {
			return true
		}
		if aid, ok := ast.Unparen(call.Args[0]).(*ast.Ident); ok && info.Uses[aid] == obj {
			sorted = true
			if len(call.Args) == 2 {
				if why := lossyComparator(c, p, call.Args[1]); why != "" {
					lossy = why
				}
			}
		}
		return true
	})
	if sorted && lossy != "" {
		return false, "it is sorted afterwards, but " + lossy
	}
	if sorted {
		return true, "sorted after the loop"
	}
	// reviewed sink: the function only returns the slice and every caller passes it straight to grammar.NewCFG (set semantics)
	if isOnlyReturned(info, fd, obj) {
		fobj, _ := info.Defs[fd.Name].(*types.Func)
		if fobj != nil && allCallsFeed(c, fobj, depPath+"/grammar", "NewCFG") {
			return true, "returned to callers that pass it directly to grammar.NewCFG (builds sets)"
		}
	}
	return false, ""
}

func isOnlyReturned(info *types.Info, fd *ast.FuncDecl, obj types.Object) bool {
	ok := true
	ast.Inspect(fd.Body, func(n ast.Node) bool {
		id, isId := n.(*ast.Ident)
		if !isId || info.Uses[id] != obj {
			return true
		}
		return true
	})
	// uses: only in `x = append(x, ..)` and `return x`
	var parents []ast.Node
	ast.Inspect(fd.Body, func(n ast.Node) bool {
		if n == nil {
			parents = parents[:len(parents)-1]
			return true
		}
		if id, isId := n.(*ast.Ident); isId && info.Uses[id] == obj {
			par := parents[len(parents)-1]
			switch pp := par.(type) {
			case *ast.ReturnStmt:
			case *ast.AssignStmt:
				_ = pp
			case *ast.CallExpr:
				if fid, isF := pp.Fun.(*ast.Ident); !isF || fid.Name != "append" {
					ok = false
				}
			default:
				ok = false
			}
		}
		parents = append(parents, n)
		return true
	})
	return ok
}

// allCallsFeed: every call of fn in the module appears directly as an argument of pkg.name(...)
func allCallsFeed(c *Ctx, fn *types.Func, pkg, name string) bool {
	n, good := 0, 0
	for _, p := range c.Pkgs {
		for _, file := range p.Syntax {
			var stack []ast.Node
			ast.Inspect(file, func(nd ast.Node) bool {
				if nd == nil {
					stack = stack[:len(stack)-1]
					return true
				}
				if call, ok := nd.(*ast.CallExpr); ok && objOf(p.TypesInfo, call.Fun) == types.Object(fn) {
					n++
					if len(stack) > 0 {
						if outer, ok := stack[len(stack)-1].(*ast.CallExpr); ok {
							if of, ok := objOf(p.TypesInfo, outer.Fun).(*types.Func); ok && of.Pkg() != nil && of.Pkg().Path() == pkg && of.Name() == name {
								good++
							}
						}
					}
				}
				stack = append(stack, nd)
				return true
			})
		}
	}
	return n > 0 && n == good
}

func runC15(c *Ctx) {
	c.Rule("R15.1", 6, "unordered iteration (Go maps, hash-based dependency collections) must not leak into output or diagnostics")
	c.Rule("R15.2", 3, "randomness/time/pid are confined to the decorative emoji helpers")
	c.Rule("R15.3", 1, "no goroutines, channels or WaitGroups in reachable module code")
	c.Rule("R15.4", 1, "a recovered dependency panic does not depend on the iteration order of an unordered collection")
	c.Rule("R15.5", 1, "diagnostics the dependency accumulates while walking one of its unordered collections are put into an order by the module before they are reported")

	main := c.mainFunc()
	if main == nil {
		c.Lost("R15.1", "cmd/emerge main.main")
		return
	}
	ri := c.reachableFrom(main)
	reachDecl := map[*ast.FuncDecl]*packages.Package{}
	for _, f := range ri.module() {
		root := f
		for root.Parent() != nil {
			root = root.Parent()
		}
		if fd, ok := root.Syntax().(*ast.FuncDecl); ok {
			if p := c.All[fnPkgPath(root)]; p != nil {
				reachDecl[fd] = p
			}
		}
	}
	o := &orderCtx{c: c}
	nRanges, nUnordered := 0, 0
	for _, p := range c.Pkgs {
		AllFuncDecls(p, func(fd *ast.FuncDecl) {
			if reachDecl[fd] == nil || fd.Body == nil {
				return
			}
			c.Analysed(funcKey(p, fd))
			idx := 0
			ast.Inspect(fd.Body, func(n ast.Node) bool {
				rs, ok := n.(*ast.RangeStmt)
				if !ok {
					return true
				}
				nRanges++
				ordered, why := o.rangeOrdered(p, fd, rs, 0)
				if ordered {
					return true
				}
				nUnordered++
				idx++
				key := fmt.Sprintf("%s: range over %s", funcKey(p, fd), types.ExprString(rs.X))
				leaks := loopLeaks(p, rs)
				if len(leaks) == 0 {
					c.Pass("R15.1", key+" has only order-insensitive effects", rs.Pos(), why)
					return true
				}
				for _, lk := range leaks {
					ok, how := discharged(c, p, fd, rs, lk)
					if ok {
						c.Pass("R15.1", key+": "+lk.what, lk.pos, "discharged: "+how)
						continue
					}
					if how == "" {
						how = "there is no later sort"
					}
					c.Fail("R15.1", key+": "+lk.what, lk.pos,
						"iteration order is unspecified ("+why+") and the loop body "+lk.what+"; "+how+": two runs on the same specification can produce different bytes or diagnostics",
						"any specification exercising this loop with two or more elements (that the comparator calls equal, if there is one), run twice")
				}
				return true
			})
		})
	}
	// iterator sinks: x := generic.Collect1/2(<iterator>) materialises the iteration order into a slice
	for _, p := range c.Pkgs {
		AllFuncDecls(p, func(fd *ast.FuncDecl) {
			if reachDecl[fd] == nil || fd.Body == nil {
				return
			}
			ast.Inspect(fd.Body, func(n ast.Node) bool {
				as, ok := n.(*ast.AssignStmt)
				if !ok || len(as.Rhs) != 1 || len(as.Lhs) < 1 {
					return true
				}
				call, ok := ast.Unparen(as.Rhs[0]).(*ast.CallExpr)
				if !ok || len(call.Args) != 1 {
					return true
				}
				fn, _ := objOf(p.TypesInfo, call.Fun).(*types.Func)
				if fn == nil || fn.Pkg() == nil || !strings.HasPrefix(fn.Pkg().Path(), depPath) || !strings.HasPrefix(fn.Name(), "Collect") {
					return true
				}
				fake := &ast.RangeStmt{X: call.Args[0], Body: &ast.BlockStmt{Lbrace: as.Pos(), Rbrace: as.End()}, For: as.Pos()}
				nRanges++
				ordered, why := o.rangeOrdered(p, fd, fake, 0)
				if ordered {
					return true
				}
				nUnordered++
				key := fmt.Sprintf("%s: %s over %s", funcKey(p, fd), fn.Name(), types.ExprString(call.Args[0]))
				lk := leak{pos: as.Pos(), what: "collects the elements into " + types.ExprString(as.Lhs[0]), sink: as.Lhs[0]}
				fake.Body.Rbrace = as.End()
				if ok, how := discharged(c, p, fd, &ast.RangeStmt{For: as.Pos(), X: call.Args[0], Body: &ast.BlockStmt{Lbrace: as.Pos(), Rbrace: as.Pos()}}, lk); ok {
					c.Pass("R15.1", key+": "+lk.what, lk.pos, "discharged: "+how)
				} else {
					c.Fail("R15.1", key+": "+lk.what, lk.pos, "iteration order is unspecified ("+why+") and the collected slice is not sorted afterwards", "run twice")
				}
				return true
			})
		})
	}
	// stdlib map iterators (maps.Keys / maps.Values / maps.All) outside a range statement: the sequence must go straight
	// into slices.Sorted*, or be collected into a variable that is sorted afterwards
	for _, p := range c.Pkgs {
		AllFuncDecls(p, func(fd *ast.FuncDecl) {
			if reachDecl[fd] == nil || fd.Body == nil {
				return
			}
			scanMapIterators(c, p, fd, func(call *ast.CallExpr, name string, okSite bool) {
				nRanges++
				nUnordered++
				key := fmt.Sprintf("%s: %s", funcKey(p, fd), types.ExprString(call))
				c.Check("R15.1", key+": the key/value sequence of a Go map is sorted before it is used", call.Pos(), okSite,
					"maps."+name+" yields the entries in Go's randomised map order and the sequence is neither ranged over under the loop rule, nor passed to slices.Sorted*, nor sorted after being collected: what is built from it differs from run to run", "run twice")
			})
		})
	}
	c.Extra("range_statements_examined", nRanges)
	c.Extra("unordered_ranges", nUnordered)
	if nRanges >= 30 {
		c.Pass("R15.1", "range statements were examined", token.NoPos, fmt.Sprint(nRanges))
	} else {
		c.Undecided("R15.1", "range statements were examined", token.NoPos, fmt.Sprintf("only %d range statements in reachable module code (30 and more on the pinned tree): loops may be written in a form this rule does not enumerate", nRanges))
	}

	// positive control
	if fx, err := loadFixture(c, "order"); err != nil {
		c.Fail("R15.1", "positive control: fixture loads", token.NoPos, err.Error())
	} else {
		p := fx.pkgs[0]
		fired, silent := false, true
		AllFuncDecls(p, func(fd *ast.FuncDecl) {
			ast.Inspect(fd.Body, func(n ast.Node) bool {
				rs, ok := n.(*ast.RangeStmt)
				if !ok {
					return true
				}
				ordered, _ := o.rangeOrdered(p, fd, rs, 0)
				if ordered {
					return true
				}
				for _, lk := range loopLeaks(p, rs) {
					ok, _ := discharged(c, p, fd, rs, lk)
					if !ok && fd.Name.Name == "Leaky" {
						fired = true
					}
					if !ok && fd.Name.Name == "Sorted" {
						silent = false
					}
				}
				return true
			})
		})
		firedIt, silentIt := false, true
		AllFuncDecls(p, func(fd *ast.FuncDecl) {
			scanMapIterators(c, p, fd, func(call *ast.CallExpr, name string, ok bool) {
				if !ok && fd.Name.Name == "LeakyKeys" {
					firedIt = true
				}
				if !ok && fd.Name.Name == "SortedKeys" {
					silentIt = false
				}
			})
		})
		c.Check("R15.1", "positive control: fires on slices.Collect(maps.Keys(m)) and is silent on slices.Sorted(maps.Keys(m))", token.NoPos, firedIt && silentIt, fmt.Sprintf("fired=%v silent=%v", firedIt, silentIt))
		c.Check("R15.1", "positive control: fires on a map loop that appends without sorting", token.NoPos, fired, "the rule did not fire on the fixture")
		c.Check("R15.1", "positive control: silent on a map loop whose result is sorted", token.NoPos, silent, "the rule fired on the sorted fixture")
	}

	// R15.2 randomness / time confined
	nondet := map[string]bool{}
	for _, f := range ri.module() {
		allCalls(f, func(call ssa.CallInstruction) {
			n := staticCalleeName(call)
			if strings.HasSuffix(n, ".init") {
				return
			}
			if strings.HasPrefix(n, "math/rand.") || strings.HasPrefix(n, "math/rand/v2.") || strings.HasPrefix(n, "crypto/rand.") || n == "time.Now" || n == "time.Since" || n == "os.Getpid" || strings.HasPrefix(n, "hash/maphash.") || n == "os.Hostname" || n == "os.Getenv" || n == "os.Environ" {
				nondet[shortFn(f)] = true
				// the enclosing function must return a rune and be used only as an argument of the progress messages
				okShape := f.Signature.Results().Len() == 1 && isRune(f.Signature.Results().At(0).Type()) && f.Signature.Params().Len() == 0
				c.Check("R15.2", "source of variation "+n+" is inside a decorative helper: "+shortFn(f), call.Pos(), okShape,
					n+" is called from "+shortFn(f)+", which is not a parameterless rune-returning decoration helper")
			}
		})
	}
	// every use of such a helper's result flows only into the variadic arguments of an Infof-style call
	for _, f := range ri.module() {
		allCalls(f, func(call ssa.CallInstruction) {
			callee := call.Common().StaticCallee()
			if callee == nil || !nondet[shortFn(callee)] {
				return
			}
			v, ok := call.(ssa.Value)
			if !ok {
				return
			}
			okUse := true
			for _, r := range *v.Referrers() {
				mi, isMI := r.(*ssa.MakeInterface)
				if !isMI {
					okUse = false
					continue
				}
				for _, rr := range *mi.Referrers() {
					st, isStore := rr.(*ssa.Store)
					if !isStore {
						okUse = false
						continue
					}
					// stored into a varargs array that is passed to an invoke named Infof/Debugf
					if ia, ok := st.Addr.(*ssa.IndexAddr); ok {
						feeds := false
						for _, r3 := range *ia.X.Referrers() {
							if sl, ok := r3.(*ssa.Slice); ok {
								for _, r4 := range *sl.Referrers() {
									if ci, ok := r4.(ssa.CallInstruction); ok && (methodNameOf(ci) == "Infof" || methodNameOf(ci) == "Debugf") {
										feeds = true
									}
								}
							}
						}
						if !feeds {
							okUse = false
						}
					} else {
						okUse = false
					}
				}
			}
			c.Check("R15.2", "result of "+shortFn(callee)+" only decorates a progress message in "+shortFn(f), call.Pos(), okUse, "the random value flows somewhere other than the arguments of a progress message")
		})
	}
	if len(nondet) == 0 {
		c.Pass("R15.2", "no randomness, clock or pid source is reachable", token.NoPos, "")
	}

	checkRecoveredPanicOrder(c, "R15.4", ri)
	checkDepDiagnosticOrder(c, o, ri)
	// R15.3 no scheduling
	sched := 0
	for _, f := range ri.module() {
		for _, b := range f.Blocks {
			for _, in := range b.Instrs {
				switch x := in.(type) {
				case *ssa.Go:
					sched++
					c.Fail("R15.3", "go statement in "+shortFn(f), in.Pos(), "a goroutine is started: output may depend on scheduling")
				case *ssa.Send, *ssa.Select, *ssa.MakeChan:
					sched++
					c.Fail("R15.3", "channel operation in "+shortFn(f), in.Pos(), "channel operations in reachable module code")
				case ssa.CallInstruction:
					if n := staticCalleeName(x); strings.HasPrefix(n, "sync.(WaitGroup)") || strings.HasPrefix(n, "golang.org/x/sync/errgroup") {
						sched++
						c.Fail("R15.3", "WaitGroup in "+shortFn(f), in.Pos(), "concurrency primitives in reachable module code")
					}
				}
			}
		}
	}
	// goroutines started on the module's behalf inside the dependency (errors.Group.Go, a worker pool): functions outside the
	// standard library that contain a go statement, and their static callers
	spawns := map[*ssa.Function]bool{}
	var nonStd []*ssa.Function
	for f := range ssautil.AllFunctions(c.Prog) {
		if len(f.Blocks) == 0 || isStdlib(fnPkgPath(f)) {
			continue
		}
		nonStd = append(nonStd, f)
		for _, b := range f.Blocks {
			for _, in := range b.Instrs {
				if _, ok := in.(*ssa.Go); ok {
					spawns[f] = true
				}
			}
		}
	}
	for changed := true; changed; {
		changed = false
		for _, f := range nonStd {
			if spawns[f] {
				continue
			}
			allCalls(f, func(call ssa.CallInstruction) {
				if callee := call.Common().StaticCallee(); callee != nil && spawns[callee] && !spawns[f] {
					spawns[f] = true
					changed = true
				}
			})
		}
	}
	for _, f := range ri.module() {
		allCalls(f, func(call ssa.CallInstruction) {
			callee := call.Common().StaticCallee()
			if callee == nil || !spawns[callee] || strings.HasPrefix(fnPkgPath(callee), modPath) {
				return
			}
			sched++
			c.Fail("R15.3", "goroutines started through "+qualifiedFuncName(callee)+" in "+shortFn(f), call.Pos(),
				"the callee starts goroutines: what they append, report or write is ordered by the scheduler, not by the specification",
				"a specification with two or more invalid patterns: the diagnostics come out in completion order")
		})
	}
	c.Extra("dependency_functions_that_start_goroutines", len(spawns))
	if sched == 0 {
		c.Pass("R15.3", "no go statement, channel operation or WaitGroup in reachable module code, and no call of a dependency function that starts goroutines", token.NoPos, fmt.Sprintf("%d module functions", len(ri.module())))
	}
}

// scanMapIterators reports every call of maps.Keys / maps.Values / maps.All in fd together with whether its consumer fixes the order.
func scanMapIterators(c *Ctx, p *packages.Package, fd *ast.FuncDecl, report func(call *ast.CallExpr, name string, ok bool)) {
	info := p.TypesInfo
	var stack []ast.Node
	ast.Inspect(fd.Body, func(n ast.Node) bool {
		if n == nil {
			stack = stack[:len(stack)-1]
			return true
		}
		stack = append(stack, n)
		call, ok := n.(*ast.CallExpr)
		if !ok {
			return true
		}
		fn, _ := objOf(info, call.Fun).(*types.Func)
		if fn == nil || fn.Pkg() == nil || fn.Pkg().Path() != "maps" || !(fn.Name() == "Keys" || fn.Name() == "Values" || fn.Name() == "All") {
			return true
		}
		okSite := false
	up:
		for i := len(stack) - 2; i >= 0; i-- {
			switch par := stack[i].(type) {
			case *ast.ParenExpr:
				continue
			case *ast.RangeStmt:
				okSite = true // decided by the loop rule
			case *ast.CallExpr:
				pf, _ := objOf(info, par.Fun).(*types.Func)
				if pf != nil && pf.Pkg() != nil && pf.Pkg().Path() == "slices" {
					if strings.HasPrefix(pf.Name(), "Sorted") {
						okSite = true
					} else if pf.Name() == "Collect" || pf.Name() == "AppendSeq" {
						continue
					}
				}
			case *ast.AssignStmt:
				if len(par.Lhs) == 1 {
					lk := leak{pos: par.Pos(), what: "collects the elements into " + types.ExprString(par.Lhs[0]), sink: par.Lhs[0]}
					if ok2, _ := discharged(c, p, fd, &ast.RangeStmt{For: par.Pos(), X: call, Body: &ast.BlockStmt{Lbrace: par.Pos(), Rbrace: par.Pos()}}, lk); ok2 {
						okSite = true
					}
				}
			}
			break up
		}
		report(call, fn.Name(), okSite)
		return true
	})
}

// checkDepDiagnosticOrder (R15.5): the dependency shuffles the iteration of its sets and hash tables on purpose. A function of the
// dependency that is reachable from main and accumulates errors (errors.Append / errors.Join / append to a slice of errors) inside
// a loop over such a collection hands back a diagnostic whose parts come in a different order on every run. Every module call of
// such a function must put the parts into an order (sort them) before the error travels on.
func checkDepDiagnosticOrder(c *Ctx, o *orderCtx, ri *reachInfo) {
	type site struct {
		fn   *ssa.Function
		key  string
		pos  token.Pos
		what string
	}
	var sites []site
	seenDecl := map[*ast.FuncDecl]bool{}
	nDep := 0
	for _, f := range ri.nonStd() {
		if !strings.HasPrefix(fnPkgPath(f), depPath) {
			continue
		}
		root := f
		for root.Parent() != nil {
			root = root.Parent()
		}
		fd, ok := root.Syntax().(*ast.FuncDecl)
		if !ok || fd.Body == nil || seenDecl[fd] {
			continue
		}
		seenDecl[fd] = true
		p := c.All[fnPkgPath(root)]
		if p == nil {
			continue
		}
		nDep++
		ast.Inspect(fd.Body, func(n ast.Node) bool {
			rs, ok := n.(*ast.RangeStmt)
			if !ok {
				return true
			}
			if ordered, _ := o.rangeOrdered(p, fd, rs, 0); ordered {
				return true
			}
			for _, lk := range loopLeaks(p, rs) {
				if lk.sink == nil {
					continue
				}
				t := p.TypesInfo.TypeOf(lk.sink)
				if t == nil || !isErrorish(t) {
					continue
				}
				if ok, _ := discharged(c, p, fd, rs, lk); ok {
					continue
				}
				sites = append(sites, site{fn: root, key: funcKey(p, fd) + ": range over " + types.ExprString(rs.X), pos: lk.pos, what: lk.what})
			}
			return true
		})
	}
	c.Extra("dependency_functions_examined_for_diagnostic_order", nDep)
	// group by dependency function
	byFn := map[*ssa.Function][]site{}
	var order []*ssa.Function
	for _, s := range sites {
		if byFn[s.fn] == nil {
			order = append(order, s.fn)
		}
		byFn[s.fn] = append(byFn[s.fn], s)
	}
	for _, dep := range order {
		depObj, _ := dep.Object().(*types.Func)
		first := byFn[dep][0]
		if depObj == nil {
			c.Undecided("R15.5", "the dependency function "+shortFn(dep)+" accumulates diagnostics in a shuffled order", first.pos, "it could not be resolved to a declaration")
			continue
		}
		calls := 0
		for _, p := range c.Pkgs {
			AllFuncDecls(p, func(fd *ast.FuncDecl) {
				if fd.Body == nil {
					return
				}
				info := p.TypesInfo
				var stack []ast.Node
				ast.Inspect(fd.Body, func(n ast.Node) bool {
					if n == nil {
						stack = stack[:len(stack)-1]
						return true
					}
					defer func() { stack = append(stack, n) }()
					call, ok := n.(*ast.CallExpr)
					if !ok || objOf(info, call.Fun) != types.Object(depObj) {
						return true
					}
					calls++
					key := fmt.Sprintf("%s: the problems reported by %s are put into an order before they travel on", funcKey(p, fd), shortFn(dep))
					detail := fmt.Sprintf("%s %s (%s): the dependency shuffles that iteration, so the parts of the error it returns come in a different order on every run", first.key, first.what, c.Fset.Position(first.pos))
					witness := "a specification in which two or more non-terminals have no rule (`grammar x; start = a b c;`), run twice: the diagnostics change places"
					// the call must be the right-hand side of `err := f()` / `err = f()`
					var errObj types.Object
					if len(stack) > 0 {
						if as, ok := stack[len(stack)-1].(*ast.AssignStmt); ok && len(as.Lhs) == 1 && len(as.Rhs) == 1 {
							if id, ok := as.Lhs[0].(*ast.Ident); ok {
								errObj = info.Defs[id]
								if errObj == nil {
									errObj = info.Uses[id]
								}
							}
						}
						// f() handed directly to an ordering helper
						if outer, ok := stack[len(stack)-1].(*ast.CallExpr); ok && orderingHelper(c, info, outer) {
							c.Pass("R15.5", key, call.Pos(), "the result goes straight into a helper that sorts the parts")
							return true
						}
					}
					if errObj == nil {
						c.Fail("R15.5", key, call.Pos(), detail+"; here the result is used as it comes", witness)
						return true
					}
					bad, seenOrder := "", false
					var st2 []ast.Node
					ast.Inspect(fd.Body, func(m ast.Node) bool {
						if m == nil {
							st2 = st2[:len(st2)-1]
							return true
						}
						defer func() { st2 = append(st2, m) }()
						id, ok := m.(*ast.Ident)
						if !ok || info.Uses[id] != errObj || len(st2) == 0 {
							return true
						}
						switch par := st2[len(st2)-1].(type) {
						case *ast.BinaryExpr:
							if (par.Op == token.EQL || par.Op == token.NEQ) && (isNilIdent(par.X) || isNilIdent(par.Y)) {
								return true
							}
						case *ast.CallExpr:
							if orderingHelper(c, info, par) {
								seenOrder = true
								return true
							}
							bad = "is passed to " + types.ExprString(par.Fun) + " as it comes"
							return true
						case *ast.ReturnStmt:
							bad = "is returned as it comes"
							return true
						}
						bad = "is used as it comes (" + fmt.Sprintf("%T", st2[len(st2)-1]) + ")"
						return true
					})
					switch {
					case bad != "":
						c.Fail("R15.5", key, call.Pos(), detail+"; here the error "+bad, witness)
					case seenOrder:
						c.Pass("R15.5", key, call.Pos(), "every use of the error is a nil test or goes through a helper that sorts its parts")
					default:
						c.Pass("R15.5", key, call.Pos(), "the error is only tested for nil")
					}
					return true
				})
			})
		}
		if calls == 0 {
			c.Pass("R15.5", shortFn(dep)+" accumulates diagnostics in a shuffled order but no module function calls it directly", first.pos, "")
		}
	}
	if len(order) == 0 {
		c.Pass("R15.5", "no reachable function of the dependency accumulates diagnostics inside a loop over a shuffled collection", token.NoPos, "")
	}
}

func isNilIdent(e ast.Expr) bool {
	id, ok := ast.Unparen(e).(*ast.Ident)
	return ok && id.Name == "nil"
}

// orderingHelper: call is a call of a module function that sorts a slice (a call of a sort function on a local) and returns it.
func orderingHelper(c *Ctx, info *types.Info, call *ast.CallExpr) bool {
	fn, _ := objOf(info, call.Fun).(*types.Func)
	if fn == nil || fn.Pkg() == nil || !strings.HasPrefix(fn.Pkg().Path(), modPath) {
		return false
	}
	p := c.All[fn.Pkg().Path()]
	if p == nil {
		return false
	}
	found := false
	AllFuncDecls(p, func(fd *ast.FuncDecl) {
		if p.TypesInfo.Defs[fd.Name] != types.Object(fn) || fd.Body == nil {
			return
		}
		sorted := map[types.Object]bool{}
		ast.Inspect(fd.Body, func(n ast.Node) bool {
			cl, ok := n.(*ast.CallExpr)
			if !ok || len(cl.Args) == 0 {
				return true
			}
			sf, _ := objOf(p.TypesInfo, cl.Fun).(*types.Func)
			if sf == nil || sf.Pkg() == nil || !sortFuncs[sf.Pkg().Path()+"."+sf.Name()] {
				return true
			}
			if id, ok := ast.Unparen(cl.Args[0]).(*ast.Ident); ok {
				sorted[p.TypesInfo.Uses[id]] = true
			}
			return true
		})
		ast.Inspect(fd.Body, func(n ast.Node) bool {
			rs, ok := n.(*ast.ReturnStmt)
			if !ok {
				return true
			}
			for _, r := range rs.Results {
				if id, ok := ast.Unparen(r).(*ast.Ident); ok && sorted[p.TypesInfo.Uses[id]] {
					found = true
				}
			}
			return true
		})
	})
	return found
}

func isErrorish(t types.Type) bool {
	if types.Identical(t, types.Universe.Lookup("error").Type()) {
		return true
	}
	if sl, ok := t.Underlying().(*types.Slice); ok {
		return isErrorish(sl.Elem())
	}
	if n, ok := t.(*types.Named); ok && strings.Contains(n.Obj().Name(), "Error") {
		return true
	}
	if pt, ok := t.(*types.Pointer); ok {
		return isErrorish(pt.Elem())
	}
	return false
}


// lossyComparator: the comparator's last word on two elements (its final return) compares values obtained from them through a
// function call that is not a conversion (strings.ToLower, len, a hash): two different elements can then compare equal, and the
// order of equal elements after the sort is that of the unordered collection they came from. Returns the reason, or "".
func lossyComparator(c *Ctx, p *packages.Package, cmpExpr ast.Expr) string {
	info := p.TypesInfo
	var body *ast.BlockStmt
	switch v := ast.Unparen(cmpExpr).(type) {
	case *ast.FuncLit:
		body = v.Body
	case *ast.Ident:
		if cf, ok := info.Uses[v].(*types.Func); ok && cf.Pkg() != nil && strings.HasPrefix(cf.Pkg().Path(), modPath) {
			if cd := declOfFunc(p, cf); cd != nil {
				body = cd.Body
			}
		}
	}
	if body == nil || len(body.List) == 0 {
		return ""
	}
	ret, ok := body.List[len(body.List)-1].(*ast.ReturnStmt)
	if !ok || len(ret.Results) != 1 {
		return ""
	}
	call, ok := ast.Unparen(ret.Results[0]).(*ast.CallExpr)
	if !ok || len(call.Args) != 2 {
		return ""
	}
	for _, a := range call.Args {
		lossy := ""
		ast.Inspect(a, func(n ast.Node) bool {
			inner, ok := n.(*ast.CallExpr)
			if !ok {
				return true
			}
			if tv, ok := info.Types[inner.Fun]; ok && tv.IsType() {
				return true // a conversion keeps distinct values distinct (string(x), []rune(x))
			}
			lossy = types.ExprString(inner.Fun)
			return false
		})
		if lossy != "" {
			return "the comparator's last comparison is between " + types.ExprString(call.Args[0]) + " and " + types.ExprString(call.Args[1]) + ": " + lossy + " can make two different elements equal, and the sort then leaves them in the order of the unordered collection"
		}
	}
	return ""
}
