package main

// E8: the six code templates are programs. They are instantiated on witness data with the standard library's
// text/template and checker-side stand-ins for the two FuncMap functions (built from the format strings extracted
// from emerge's formatInts / formatRunes), written to a scratch module without any requirement, and loaded as
// ordinary Go packages. The decision rules then run on those skeleton packages.

import (
	"bytes"
	"fmt"
	"go/ast"
	"go/token"
	"go/types"
	"os"
	"path/filepath"
	"sort"
	"strings"
	"go/constant"
	"regexp"
	"text/template"
	"text/template/parse"

	"golang.org/x/tools/go/packages"
	"golang.org/x/tools/go/ssa"
	"golang.org/x/tools/go/ssa/ssautil"
)

type fmtLeaf struct {
	cons    dset     // values of the element this branch applies to
	formats []string // the Fprintf formats applied to the element on this branch, in order
}

// listFormatter is the abstract form of formatInts / formatRunes: per element, a decision over the element's value selecting
// the format(s) written for it; a separator ends every element and the last one is truncated away.
type listFormatter struct {
	name      string
	leaves    []fmtLeaf
	sep       string
	truncates bool
	pos       token.Pos
	elemFmt   string // format of the first branch, for reporting
}

type tmplSet struct {
	dir    string
	files  map[string]string // name (without .tmpl) -> text
	funcs  map[string]*listFormatter
	gp     *packages.Package
	rendFn *ast.FuncDecl
}

// loadTemplates finds the embedded template set and the FuncMap of the rendering function.
func loadTemplates(c *Ctx, rule string) *tmplSet {
	gp := c.Pkg("internal/generate/golang")
	if gp == nil {
		c.Lost(rule, "package internal/generate/golang")
		return nil
	}
	ts := &tmplSet{files: map[string]string{}, funcs: map[string]*listFormatter{}, gp: gp}
	// //go:embed pattern
	pattern := ""
	var embedPos token.Pos
	for _, f := range gp.Syntax {
		for _, d := range f.Decls {
			gd, ok := d.(*ast.GenDecl)
			if !ok || gd.Doc == nil {
				continue
			}
			for _, cm := range gd.Doc.List {
				if strings.HasPrefix(cm.Text, "//go:embed ") {
					pattern = strings.TrimSpace(strings.TrimPrefix(cm.Text, "//go:embed "))
					embedPos = gd.Pos()
				}
			}
		}
	}
	if pattern == "" {
		c.Lost(rule, "//go:embed pattern of the template set")
		return nil
	}
	pkgDir := filepath.Dir(c.Fset.Position(embedPos).Filename)
	matches, _ := filepath.Glob(filepath.Join(pkgDir, pattern))
	if len(matches) < 6 {
		c.Lost(rule, fmt.Sprintf("embedded templates (found %d, expected >= 6)", len(matches)))
		return nil
	}
	ts.dir = filepath.Dir(matches[0])
	for _, m := range matches {
		b, err := os.ReadFile(m)
		if err != nil {
			c.Lost(rule, "template "+m)
			return nil
		}
		ts.files[strings.TrimSuffix(filepath.Base(m), ".tmpl")] = string(b)
	}
	// the FuncMap literal
	info := gp.TypesInfo
	AllFuncDecls(gp, func(fd *ast.FuncDecl) {
		if fd.Body == nil {
			return
		}
		ast.Inspect(fd.Body, func(n ast.Node) bool {
			cl, ok := n.(*ast.CompositeLit)
			if !ok {
				return true
			}
			if _, tn := namedTypeName(info.TypeOf(cl)); tn != "FuncMap" {
				return true
			}
			ts.rendFn = fd
			for _, el := range cl.Elts {
				kv, ok := el.(*ast.KeyValueExpr)
				if !ok {
					continue
				}
				name, ok := constStr(info, kv.Key)
				if !ok {
					continue
				}
				fo, ok := objOf(info, kv.Value).(*types.Func)
				if !ok {
					continue
				}
				if lf := extractListFormatter(gp, fo); lf != nil {
					lf.name = name
					ts.funcs[name] = lf
				} else if why, at := formatterTailMismatch(gp, fo); why != "" {
					// not of the simple shape, but decidable as far as the trailing separator goes
					c.Fail(rule, "list formatter "+name+" removes exactly its trailing separator", at, why)
				}
			}
			return true
		})
	})
	if len(ts.funcs) < 2 {
		c.Lost(rule, fmt.Sprintf("list formatters in the template FuncMap (found %d)", len(ts.funcs)))
		return nil
	}
	return ts
}

// extractListFormatter reads `for _, v := range xs { <decision on v> fmt.Fprintf(&b, F, v) }; if len(xs) > 0 { b.Truncate(b.Len() - K) }`.
func extractListFormatter(p *packages.Package, fo *types.Func) *listFormatter {
	var fd *ast.FuncDecl
	AllFuncDecls(p, func(f *ast.FuncDecl) {
		if p.TypesInfo.Defs[f.Name] == types.Object(fo) {
			fd = f
		}
	})
	if fd == nil || fd.Body == nil || fd.Type.Params == nil || len(fd.Type.Params.List) != 1 {
		return nil
	}
	info := p.TypesInfo
	param := info.Defs[fd.Type.Params.List[0].Names[0]]
	lf := &listFormatter{pos: fd.Pos()}
	var loop *ast.RangeStmt
	trunc := int64(-1)
	ast.Inspect(fd.Body, func(n ast.Node) bool {
		switch x := n.(type) {
		case *ast.RangeStmt:
			if id, ok := ast.Unparen(x.X).(*ast.Ident); ok && info.Uses[id] == param && loop == nil {
				loop = x
			}
		case *ast.CallExpr:
			if sel, ok := x.Fun.(*ast.SelectorExpr); ok && sel.Sel.Name == "Truncate" && len(x.Args) == 1 {
				if b, ok := ast.Unparen(x.Args[0]).(*ast.BinaryExpr); ok && b.Op == token.SUB {
					if v, ok := constInt(info, b.Y); ok {
						trunc = v
					}
				}
			}
		}
		return true
	})
	if loop == nil || loop.Value == nil {
		return nil
	}
	ev, _ := info.Defs[loop.Value.(*ast.Ident)].(*types.Var)
	if ev == nil {
		return nil
	}
	leaves, _, err := flattenBlock(info, loop.Body.List, []*types.Var{ev})
	if err != nil || len(leaves) == 0 {
		return nil
	}
	sep := ""
	for i, l := range leaves {
		fl := fmtLeaf{cons: l.cons[ev]}
		for _, st := range l.stmts {
			es, ok := st.(*ast.ExprStmt)
			if !ok {
				return nil
			}
			call, ok := es.X.(*ast.CallExpr)
			if !ok {
				return nil
			}
			f2, ok := objOf(info, call.Fun).(*types.Func)
			if !ok || f2.Pkg() == nil || f2.Pkg().Path() != "fmt" || f2.Name() != "Fprintf" || len(call.Args) != 3 {
				return nil
			}
			format, ok := constStr(info, call.Args[1])
			if !ok {
				return nil
			}
			// the argument must be the element itself (possibly converted)
			arg := ast.Unparen(call.Args[2])
			if conv, ok := arg.(*ast.CallExpr); ok && len(conv.Args) == 1 {
				arg = ast.Unparen(conv.Args[0])
			}
			if id, ok := arg.(*ast.Ident); !ok || info.Uses[id] != types.Object(ev) {
				return nil
			}
			fl.formats = append(fl.formats, format)
		}
		if len(fl.formats) == 0 {
			return nil
		}
		// every branch must end with the same separator
		last := fl.formats[len(fl.formats)-1]
		k := len(last)
		for k > 0 && (last[k-1] == ' ' || last[k-1] == ',') {
			k--
		}
		if i == 0 {
			sep = last[k:]
			lf.elemFmt = strings.Join(fl.formats, "")
		} else if last[k:] != sep {
			return nil
		}
		fl.formats[len(fl.formats)-1] = last[:k]
		lf.leaves = append(lf.leaves, fl)
	}
	lf.sep = sep
	lf.truncates = trunc == int64(len(sep))
	return lf
}

func (lf *listFormatter) elem(v int64, asRune bool) string {
	for _, l := range lf.leaves {
		if l.cons.hasInt(v) {
			var sb strings.Builder
			for _, f := range l.formats {
				if asRune {
					sb.WriteString(fmt.Sprintf(f, rune(v)))
				} else {
					sb.WriteString(fmt.Sprintf(f, int(v)))
				}
			}
			return sb.String()
		}
	}
	return "<no branch>"
}

func (lf *listFormatter) standIn() func(any) string {
	return func(list any) string {
		var parts []string
		switch v := list.(type) {
		case []int:
			for _, x := range v {
				parts = append(parts, lf.elem(int64(x), false))
			}
		case []rune:
			for _, x := range v {
				parts = append(parts, lf.elem(int64(x), true))
			}
		}
		s := strings.Join(parts, lf.sep)
		if !lf.truncates && len(parts) > 0 {
			s += lf.sep
		}
		return s
	}
}

// witness automaton
type wTrans struct {
	From  int
	Trans []wEdge
}
type wEdge struct {
	Symbols []rune
	Next    int
}
type wFinal struct {
	Terminal string
	States   []int
}
type witness struct {
	name   string
	why    string
	trans  []wTrans
	finals []wFinal
	// extra: a field of the template data that the witness does not model, set to true at one level of the data
	// ("edge-first", "edge-last", "trans", "final", "dfa", "top"); see unmodelledFields
	extraField string
	extraLevel string
}

func (w *witness) data(pkg string) map[string]any {
	var tr []map[string]any
	for _, t := range w.trans {
		var es []map[string]any
		for i, e := range t.Trans {
			m := map[string]any{"Symbols": e.Symbols, "Next": e.Next}
			if (w.extraLevel == "edge-first" && i == 0) || (w.extraLevel == "edge-last" && i == len(t.Trans)-1) {
				m[w.extraField] = true
			}
			es = append(es, m)
		}
		m := map[string]any{"From": t.From, "Trans": es}
		if w.extraLevel == "trans" {
			m[w.extraField] = true
		}
		tr = append(tr, m)
	}
	var fs []map[string]any
	for _, f := range w.finals {
		st := f.States
		if st == nil {
			st = []int{}
		}
		m := map[string]any{"Terminal": f.Terminal, "States": st}
		if w.extraLevel == "final" {
			m[w.extraField] = true
		}
		fs = append(fs, m)
	}
	dfa := map[string]any{"Transitions": tr, "FinalStates": fs}
	if w.extraLevel == "dfa" {
		dfa[w.extraField] = true
	}
	top := map[string]any{"Package": pkg, "Debug": false, "DFA": dfa}
	if w.extraLevel == "top" {
		top[w.extraField] = true
	}
	return top
}

// modelledKeys are the fields of the template data that the witnesses provide.
var modelledKeys = map[string]bool{"Package": true, "Debug": true, "DFA": true, "Transitions": true, "FinalStates": true, "From": true, "Trans": true,
	"Symbols": true, "Next": true, "Terminal": true, "States": true}

// extraWitnesses are added by unmodelledFields: variants of the plain witnesses in which a boolean field that the templates read,
// that the generator can set, and that the witnesses do not model is true.
var extraWitnesses []*witness

// unmodelledFields (R8.7): every field a template reads must be one the witnesses model, or the analysis must cover it another way.
// A boolean field of the generator's data structs that some generator code can set to something else than false is covered by
// variants of the witnesses with the field set (per state: on the first edge only, on the last edge only; per list: on every element):
// the emitted functions must equal the automaton whatever the field is, because nothing here models the code that sets it. A field
// that is never set stays false, which is what the witnesses give it. Any other unmodelled field is undecided.
func unmodelledFields(c *Ctx, rule string, ts *tmplSet) {
	extraWitnesses = nil
	used := map[string]string{}
	var names []string
	for n := range ts.files {
		names = append(names, n)
	}
	sort.Strings(names)
	fnames := map[string]any{"formatInts": 0, "formatRunes": 0}
	for name := range ts.funcs {
		fnames[name] = 0
	}
	for _, n := range names {
		trees, err := parse.Parse(n, ts.files[n], "", "", fnames, builtinFuncs())
		if err != nil {
			// unknown function names: fall back to a scan of the field tokens
			for _, m := range fieldTokenRe.FindAllStringSubmatch(ts.files[n], -1) {
				if _, ok := used[m[1]]; !ok {
					used[m[1]] = n
				}
			}
			continue
		}
		for _, t := range trees {
			walkTmpl(t.Root, func(f string) {
				if _, ok := used[f]; !ok {
					used[f] = n
				}
			})
		}
	}
	var unknown []string
	for f := range used {
		if !modelledKeys[f] {
			unknown = append(unknown, f)
		}
	}
	sort.Strings(unknown)
	c.Extra("template_fields_read", len(used))
	if len(unknown) == 0 {
		c.Pass(rule, "every field the templates read is modelled by the witnesses", token.NoPos, fmt.Sprintf("%d fields", len(used)))
		return
	}
	info := ts.gp.TypesInfo
	for _, f := range unknown {
		key := "template field ." + f + " (read by " + used[f] + ") is covered by the witnesses"
		// the struct(s) of the generator package with that field
		level, isBool, found := "", false, false
		for _, name := range ts.gp.Types.Scope().Names() {
			tn, ok := ts.gp.Types.Scope().Lookup(name).(*types.TypeName)
			if !ok {
				continue
			}
			st, ok := tn.Type().Underlying().(*types.Struct)
			if !ok {
				continue
			}
			has := map[string]bool{}
			var ft types.Type
			for i := 0; i < st.NumFields(); i++ {
				has[st.Field(i).Name()] = true
				if st.Field(i).Name() == f {
					ft = st.Field(i).Type()
				}
			}
			if ft == nil {
				continue
			}
			lv := ""
			switch {
			case has["Symbols"] && has["Next"]:
				lv = "edge"
			case has["From"] && has["Trans"]:
				lv = "trans"
			case has["Terminal"] && has["States"]:
				lv = "final"
			case has["Transitions"] && has["FinalStates"]:
				lv = "dfa"
			case has["Package"]:
				lv = "top"
			}
			if lv == "" {
				continue
			}
			found = true
			level = lv
			if b, ok := ft.Underlying().(*types.Basic); ok && b.Kind() == types.Bool {
				isBool = true
			}
		}
		if !found || !isBool {
			c.Undecided(rule, key, token.NoPos, "the witnesses do not provide this field and it is not a boolean field of one of the generator's data structs: what the templates emit for it is not decided")
			continue
		}
		// can the generator set it?
		var setAt token.Pos
		AllFuncDecls(ts.gp, func(fd *ast.FuncDecl) {
			if fd.Body == nil {
				return
			}
			ast.Inspect(fd.Body, func(n ast.Node) bool {
				switch x := n.(type) {
				case *ast.AssignStmt:
					for i, l := range x.Lhs {
						if sel, ok := ast.Unparen(l).(*ast.SelectorExpr); ok && sel.Sel.Name == f && i < len(x.Rhs) {
							if tv, ok := info.Types[x.Rhs[i]]; ok && tv.Value != nil && tv.Value.Kind() == constant.Bool && !constant.BoolVal(tv.Value) {
								continue
							}
							setAt = x.Pos()
						}
					}
				case *ast.KeyValueExpr:
					if id, ok := x.Key.(*ast.Ident); ok && id.Name == f {
						if tv, ok := info.Types[x.Value]; ok && tv.Value != nil && tv.Value.Kind() == constant.Bool && !constant.BoolVal(tv.Value) {
							return true
						}
						setAt = x.Pos()
					}
				}
				return true
			})
		})
		if setAt == token.NoPos {
			c.Pass(rule, key, token.NoPos, "no generator code sets the field: it is false, as in the witnesses")
			continue
		}
		levels := []string{level}
		if level == "edge" {
			levels = []string{"edge-first", "edge-last"}
		}
		for _, base := range witnesses0() {
			if base.name != "simple" && base.name != "runes" {
				continue
			}
			for _, lv := range levels {
				w := *base
				w.name = base.name + "_" + strings.ToLower(f) + "_" + strings.ReplaceAll(lv, "-", "")
				w.why = base.why + "; with the unmodelled field ." + f + " set (" + lv + "), as the generator can set it at " + c.rel(setAt)
				w.extraField, w.extraLevel = f, lv
				extraWitnesses = append(extraWitnesses, &w)
			}
		}
		c.Pass(rule, key, setAt, fmt.Sprintf("covered by %d additional witnesses in which the field is set", 2*len(levels)))
	}
}

var fieldTokenRe = regexp.MustCompile(`\.([A-Z][A-Za-z0-9_]*)`)

func builtinFuncs() map[string]any {
	m := map[string]any{}
	for _, n := range []string{"and", "call", "html", "index", "slice", "js", "len", "not", "or", "print", "printf", "println", "urlquery", "eq", "ge", "gt", "le", "lt", "ne"} {
		m[n] = 0
	}
	return m
}

func walkTmpl(n parse.Node, f func(string)) {
	if n == nil {
		return
	}
	switch x := n.(type) {
	case *parse.ListNode:
		if x == nil {
			return
		}
		for _, c := range x.Nodes {
			walkTmpl(c, f)
		}
	case *parse.ActionNode:
		walkTmpl(x.Pipe, f)
	case *parse.PipeNode:
		if x == nil {
			return
		}
		for _, c := range x.Cmds {
			walkTmpl(c, f)
		}
	case *parse.CommandNode:
		for _, a := range x.Args {
			walkTmpl(a, f)
		}
	case *parse.FieldNode:
		for _, id := range x.Ident {
			f(id)
		}
	case *parse.ChainNode:
		walkTmpl(x.Node, f)
		for _, id := range x.Field {
			f(id)
		}
	case *parse.VariableNode:
		for _, id := range x.Ident[1:] {
			f(id)
		}
	case *parse.IfNode:
		walkTmpl(x.Pipe, f)
		walkTmpl(x.List, f)
		walkTmpl(x.ElseList, f)
	case *parse.RangeNode:
		walkTmpl(x.Pipe, f)
		walkTmpl(x.List, f)
		walkTmpl(x.ElseList, f)
	case *parse.WithNode:
		walkTmpl(x.Pipe, f)
		walkTmpl(x.List, f)
		walkTmpl(x.ElseList, f)
	case *parse.TemplateNode:
		walkTmpl(x.Pipe, f)
	}
}

func witnesses() []*witness {
	return append(witnesses0(), extraWitnesses...)
}

func witnesses0() []*witness {
	simple := &witness{name: "simple", why: "plain letters, identifier-like terminal names",
		trans: []wTrans{{0, []wEdge{{[]rune{'a', 'b'}, 1}, {[]rune{'0'}, 2}}}, {1, []wEdge{{[]rune{'a'}, 1}}}},
		finals: []wFinal{{"ID", []int{1}}, {"NUM", []int{2, 3}}}}
	runes := &witness{name: "runes", why: "characters that need escaping in a Go rune literal: quote, backslash, newline, tab, NUL, DEL, Latin-1, BMP and supplementary-plane characters, and symbols that are not code points (surrogate halves, which a pattern can write as \\xD800)",
		trans: []wTrans{{0, []wEdge{{[]rune{'\'', '\\'}, 1}, {[]rune{'\n', '\t', 0, 'é', '"', 0x2192, 0x1F600, 0x10FFFF, 0x7F, 0x80}, 2}, {[]rune{0xD800, 0xDFFF}, 3}}}},
		finals: []wFinal{{"ID", []int{1}}, {"NUM", []int{2}}}}
	names := &witness{name: "names", why: "terminal names that are not Go identifiers: operators, quotes, backslashes, keywords",
		trans: []wTrans{{0, []wEdge{{[]rune{'a'}, 1}, {[]rune{'b'}, 2}, {[]rune{'c'}, 3}, {[]rune{'d'}, 4}}}},
		finals: []wFinal{{"+", []int{1}}, {"a\"b\\c", []int{2}}, {"func", []int{3}}, {"{{", []int{4}}}}
	emptyStates := &witness{name: "emptystates", why: "definitions that own no accepting state, before, between and after definitions that do",
		trans:  []wTrans{{0, []wEdge{{[]rune{'a'}, 1}, {[]rune{'0'}, 2}}}},
		finals: []wFinal{{"FIRSTSHADOWED", nil}, {"ID", []int{1}}, {"SHADOWED", nil}, {"NUM", []int{2}}, {"LASTSHADOWED", nil}}}
	empty := &witness{name: "empty", why: "no transitions and no definitions"}
	return []*witness{simple, runes, names, emptyStates, empty}
}

type skeleton struct {
	w      *witness
	dir    string
	pkg    *packages.Package
	parseErr map[string]string // file -> syntax error
}

type skeletonSet struct {
	root  string
	sk    []*skeleton
	prog  *ssa.Program
	spkgs map[string]*ssa.Package
}

func (s *skeletonSet) cleanup() {
	if s != nil && s.root != "" {
		os.RemoveAll(s.root)
	}
}

// buildSkeletons renders every template for every witness into a scratch module and loads it.
func buildSkeletons(c *Ctx, rule string, ts *tmplSet, withSSA bool) *skeletonSet {
	root, err := os.MkdirTemp("", "emcheck-skel-")
	if err != nil {
		c.Undecided(rule, "scratch directory", token.NoPos, err.Error())
		return nil
	}
	set := &skeletonSet{root: root, spkgs: map[string]*ssa.Package{}}
	os.WriteFile(filepath.Join(root, "go.mod"), []byte("module skeleton\n\ngo 1.24.0\n"), 0o644)
	fm := template.FuncMap{}
	for name, lf := range ts.funcs {
		fm[name] = lf.standIn()
	}
	var names []string
	for n := range ts.files {
		names = append(names, n)
	}
	sort.Strings(names)
	for _, w := range witnesses() {
		sk := &skeleton{w: w, dir: filepath.Join(root, w.name), parseErr: map[string]string{}}
		os.MkdirAll(sk.dir, 0o755)
		for _, n := range names {
			t, err := template.New(n).Funcs(fm).Parse(ts.files[n])
			if err != nil {
				c.Fail(rule, "template "+n+" parses", token.NoPos, "text/template cannot parse the template: "+err.Error())
				continue
			}
			var b bytes.Buffer
			if err := t.Execute(&b, w.data("skel"+w.name)); err != nil {
				c.Fail(rule, "template "+n+" instantiates on witness "+w.name, token.NoPos, "template execution fails: "+err.Error())
				continue
			}
			os.WriteFile(filepath.Join(sk.dir, n), b.Bytes(), 0o644)
		}
		set.sk = append(set.sk, sk)
	}
	cfg := &packages.Config{Mode: packages.LoadAllSyntax, Dir: root, Env: append(os.Environ(), "GOFLAGS=-mod=mod", "GOPROXY=off", "GOWORK=off")}
	pkgs, err := packages.Load(cfg, "./...")
	if err != nil {
		c.Undecided(rule, "loading the skeleton module", token.NoPos, err.Error())
		return set
	}
	for _, p := range pkgs {
		if os.Getenv("EMCHECK_NO_NORMALIZE") == "" && len(p.Errors) == 0 && !p.IllTyped {
			normalizePackage(p)
		}
		for _, sk := range set.sk {
			if strings.HasSuffix(p.PkgPath, "/"+sk.w.name) {
				sk.pkg = p
			}
		}
	}
	if withSSA {
		var good []*packages.Package
		for _, p := range pkgs {
			if len(p.Errors) == 0 && !p.IllTyped {
				good = append(good, p)
			}
		}
		if len(good) > 0 {
			prog, sp := ssautil.AllPackages(good, ssa.InstantiateGenerics)
			prog.Build()
			set.prog = prog
			for i, x := range sp {
				if x != nil {
					set.spkgs[good[i].PkgPath] = x
				}
			}
		}
	}
	return set
}


// formatterTailMismatch decides one thing about a list formatter that extractListFormatter does not recognise: whether the
// bytes it removes at the end (b.Truncate(b.Len() - K)) are the bytes every iteration appends after the element. Each path
// through the loop body (conditions are not interpreted: they may depend on the index only, which takes every value) is
// reduced to the constant text it writes after the element's verb. A path whose tail is not K bytes long leaves part of a
// separator in the emitted list, or eats into the last element.
func formatterTailMismatch(p *packages.Package, fo *types.Func) (string, token.Pos) {
	fd := declOfFunc(p, fo)
	if fd == nil || fd.Body == nil || fd.Type.Params == nil || len(fd.Type.Params.List) != 1 || len(fd.Type.Params.List[0].Names) != 1 {
		return "", token.NoPos
	}
	info := p.TypesInfo
	param := info.Defs[fd.Type.Params.List[0].Names[0]]
	var loop *ast.RangeStmt
	trunc := int64(-1)
	var truncPos token.Pos
	ast.Inspect(fd.Body, func(n ast.Node) bool {
		switch x := n.(type) {
		case *ast.RangeStmt:
			if id, ok := ast.Unparen(x.X).(*ast.Ident); ok && info.Uses[id] == param && loop == nil {
				loop = x
			}
		case *ast.CallExpr:
			if sel, ok := x.Fun.(*ast.SelectorExpr); ok && sel.Sel.Name == "Truncate" && len(x.Args) == 1 {
				if b, ok := ast.Unparen(x.Args[0]).(*ast.BinaryExpr); ok && b.Op == token.SUB {
					if v, ok := constInt(info, b.Y); ok {
						trunc = v
						truncPos = x.Pos()
					}
				}
			}
		}
		return true
	})
	if loop == nil || trunc < 0 {
		return "", token.NoPos
	}
	var ev types.Object
	if id, ok := loop.Value.(*ast.Ident); ok {
		ev = info.Defs[id]
	}
	if ev == nil {
		return "", token.NoPos
	}
	// conditions must not mention the element: then every path is taken for some index
	usesElem := func(e ast.Expr) bool {
		u := false
		ast.Inspect(e, func(n ast.Node) bool {
			if id, ok := n.(*ast.Ident); ok && info.Uses[id] == ev {
				u = true
			}
			return true
		})
		return u
	}
	type path struct {
		tail    string // constant text written after the last element verb
		hasElem bool
		ok      bool
	}
	var walk func(stmts []ast.Stmt, in []path) []path
	emit := func(ps []path, text string, elem bool) []path {
		var out []path
		for _, q := range ps {
			if elem {
				q.hasElem = true
				q.tail = text
			} else {
				q.tail += text
			}
			out = append(out, q)
		}
		return out
	}
	bad := false
	walk = func(stmts []ast.Stmt, in []path) []path {
		cur := in
		for _, st := range stmts {
			switch x := st.(type) {
			case *ast.ExprStmt:
				call, ok := x.X.(*ast.CallExpr)
				if !ok {
					bad = true
					return cur
				}
				if f2, ok := objOf(info, call.Fun).(*types.Func); ok && f2.Pkg() != nil && f2.Pkg().Path() == "fmt" && f2.Name() == "Fprintf" && len(call.Args) == 3 {
					format, ok := constStr(info, call.Args[1])
					k := strings.LastIndex(format, "%")
					if !ok || k < 0 || k+1 >= len(format) {
						bad = true
						return cur
					}
					// the verb: flags (#+- 0), width digits, then one letter
					j := k + 1
					for j < len(format) && strings.ContainsRune("#+- 0123456789.", rune(format[j])) {
						j++
					}
					if j >= len(format) {
						bad = true
						return cur
					}
					cur = emit(cur, format[j+1:], true)
					continue
				}
				if sel, ok := call.Fun.(*ast.SelectorExpr); ok && len(call.Args) == 1 {
					switch sel.Sel.Name {
					case "WriteString":
						if v, ok := constStr(info, call.Args[0]); ok {
							cur = emit(cur, v, false)
							continue
						}
					case "WriteByte", "WriteRune":
						if v, ok := constInt(info, call.Args[0]); ok {
							cur = emit(cur, string(rune(v)), false)
							continue
						}
					}
				}
				bad = true
				return cur
			case *ast.IfStmt:
				// a condition on the element (utf8.ValidRune(r), r < 0x80) has elements on both sides: both branches are paths
				_ = usesElem
				if x.Init != nil {
					bad = true
					return cur
				}
				a := walk(x.Body.List, cur)
				var b []path
				switch e := x.Else.(type) {
				case nil:
					b = cur
				case *ast.BlockStmt:
					b = walk(e.List, cur)
				default:
					bad = true
					return cur
				}
				cur = append(append([]path{}, a...), b...)
			default:
				bad = true
				return cur
			}
		}
		return cur
	}
	paths := walk(loop.Body.List, []path{{ok: true}})
	if bad || len(paths) == 0 {
		return "", token.NoPos
	}
	for _, q := range paths {
		if !q.hasElem {
			return "", token.NoPos
		}
	}
	for _, q := range paths {
		if int64(len(q.tail)) != trunc {
			return fmt.Sprintf("the formatter cuts %d bytes off the end of the list, but one path through its loop ends an element with %q (%d bytes): when the last element takes that path, the emitted list ends in a stray separator or loses part of its last element, and the emitted Go does not parse", trunc, q.tail, len(q.tail)), truncPos
		}
	}
	return "", token.NoPos
}
