package main

// R9.5 (= R2.5): the pattern grammar built with parser combinators in internal/regex/parser agrees, rule by rule, with the
// pattern grammar documented in docs/5-definitions.md. Both sides are turned into regular expressions over grammar symbols
// (terminal strings and documented rule names; code-only helper combinators are inlined) and compared as languages of rule
// bodies, so [x] against x.OPT(), {{x}} against x.REP1() or a grouping written differently do not matter; an alternative
// added to or dropped from a rule does.
//
// What it does not decide: the order of alternatives (a combinator's choice is ordered), the lexical rules the documentation
// describes by a comment only (char, unescaped_char), and escaped_char, whose character list is R9.3.

import (
	"fmt"
	"go/ast"
	"go/constant"
	"go/token"
	"go/types"
	"regexp"
	"sort"
	"strings"
	"unicode"
)

func snakeCase(s string) string {
	s = strings.TrimRight(s, "_")
	var b strings.Builder
	rs := []rune(s)
	for i, r := range rs {
		if unicode.IsUpper(r) {
			// ASCII in asciiChar -> ascii_char: an upper-case run is one word
			if i > 0 && (!unicode.IsUpper(rs[i-1]) || (i+1 < len(rs) && unicode.IsLower(rs[i+1]))) {
				b.WriteByte('_')
			}
			b.WriteRune(unicode.ToLower(r))
		} else {
			b.WriteRune(r)
		}
	}
	return b.String()
}

var countedRe = regexp.MustCompile(`([a-z_]+)\{(\d+)(?:,(\d+))?\}`)

func checkRegexGrammarDocs(c *Ctx, rule string) {
	pp := c.Pkg("internal/regex/parser")
	if pp == nil {
		c.Lost(rule, "package internal/regex/parser")
		return
	}
	info := pp.TypesInfo
	doc := readDoc(c, "5-definitions.md")
	i := strings.Index(doc, "## Regular Expression")
	j := strings.Index(doc, "## Extended Backus-Naur Form")
	if i < 0 || j < i {
		c.Lost(rule, "regular expression section of docs/5-definitions.md")
		return
	}
	block, ok := fencedAfter(doc[i:j], "### Grammar")
	if !ok {
		c.Lost(rule, "fenced pattern grammar in docs/5-definitions.md")
		return
	}
	type drule struct{ name, rhs string }
	var rules []drule
	for _, line := range strings.Split(block, "\n") {
		t := strings.TrimSpace(line)
		if t == "" {
			continue
		}
		f := strings.Fields(t)
		if len(f) >= 2 && f[1] == "=" && isLowerIdent(f[0]) {
			rules = append(rules, drule{f[0], strings.TrimSpace(t[strings.Index(t, "=")+1:])})
		} else if len(rules) > 0 {
			rules[len(rules)-1].rhs += " " + t
		}
	}
	if len(rules) < 20 {
		c.Lost(rule, fmt.Sprintf("documented pattern grammar rules (found %d)", len(rules)))
		return
	}
	documented := map[string]bool{}
	for _, r := range rules {
		documented[r.name] = true
	}
	a := &symAlphabet{m: map[gsym]rune{}, back: map[rune]gsym{}}

	// ---- code side: field / method name -> defining combinator expression
	defs := map[string]ast.Expr{} // snake-case name -> expression
	defPos := map[string]token.Pos{}
	AllFuncDecls(pp, func(fd *ast.FuncDecl) {
		if fd.Body == nil {
			return
		}
		{
			// New (or a method it calls to define a group of combinators): p.field = expr
			ast.Inspect(fd.Body, func(n ast.Node) bool {
				as, ok := n.(*ast.AssignStmt)
				if !ok || len(as.Lhs) != 1 || len(as.Rhs) != 1 {
					return true
				}
				sel, ok := as.Lhs[0].(*ast.SelectorExpr)
				if !ok {
					return true
				}
				if v, ok := info.Uses[sel.Sel].(*types.Var); ok && v.IsField() && isCombParser(v.Type()) {
					defs[snakeCase(sel.Sel.Name)] = as.Rhs[0]
					defPos[snakeCase(sel.Sel.Name)] = as.Pos()
				}
				return true
			})
			if fd.Recv == nil {
				return
			}
		}
		// recursive rules: methods with the parser signature whose result is <expr>(in)
		fn, _ := info.Defs[fd.Name].(*types.Func)
		if fn == nil {
			return
		}
		sig := fn.Type().(*types.Signature)
		if sig.Params().Len() != 1 || sig.Results().Len() != 2 {
			return
		}
		if _, n := namedTypeName(sig.Params().At(0).Type()); n != "Input" {
			return
		}
		for _, st := range fd.Body.List {
			if r, ok := st.(*ast.ReturnStmt); ok && len(r.Results) == 1 {
				if call, ok := ast.Unparen(r.Results[0]).(*ast.CallExpr); ok && len(call.Args) == 1 {
					if t := info.TypeOf(call.Fun); t != nil && isCombParser(t) {
						defs[snakeCase(fd.Name.Name)] = call.Fun
						defPos[snakeCase(fd.Name.Name)] = fd.Pos()
					}
				}
			}
		}
	})
	if len(defs) < 20 {
		c.Lost(rule, fmt.Sprintf("combinator definitions in internal/regex/parser (found %d)", len(defs)))
		return
	}
	lit := func(s string) *rnode { return symNode(a, gsym{s, true}) }
	constArg := func(e ast.Expr) (constant.Value, bool) {
		tv, ok := info.Types[e]
		if !ok || tv.Value == nil {
			return nil, false
		}
		return tv.Value, true
	}
	runeArg := func(e ast.Expr) (rune, bool) {
		v, ok := constArg(e)
		if !ok {
			return 0, false
		}
		n, ok := constant.Int64Val(constant.ToInt(v))
		return rune(n), ok
	}
	var conv func(e ast.Expr, depth int) (*rnode, error)
	conv = func(e ast.Expr, depth int) (*rnode, error) {
		if depth > 12 {
			return nil, fmt.Errorf("helper combinators nested too deeply")
		}
		e = ast.Unparen(e)
		switch v := e.(type) {
		case *ast.SelectorExpr:
			if _, isRecv := ast.Unparen(v.X).(*ast.Ident); isRecv {
				name := snakeCase(v.Sel.Name)
				if documented[name] {
					return symNode(a, gsym{name, false}), nil
				}
				if d, ok := defs[name]; ok {
					return conv(d, depth+1) // a helper the documentation does not name
				}
			}
		case *ast.CallExpr:
			if tv, ok := info.Types[v.Fun]; ok && tv.IsType() && len(v.Args) == 1 {
				return conv(v.Args[0], depth)
			}
			sel, ok := v.Fun.(*ast.SelectorExpr)
			if !ok {
				break
			}
			fn, _ := info.Uses[sel.Sel].(*types.Func)
			if fn == nil || fn.Pkg() == nil || fn.Pkg().Path() != depPath+"/parser/combinator" {
				break
			}
			if fn.Type().(*types.Signature).Recv() == nil {
				switch fn.Name() {
				case "ExpectRune":
					if r, ok := runeArg(v.Args[0]); ok {
						return lit(string(r)), nil
					}
				case "ExpectString":
					if cv, ok := constArg(v.Args[0]); ok && cv.Kind() == constant.String {
						return lit(constant.StringVal(cv)), nil
					}
				case "ExpectRuneInRange":
					lo, ok1 := runeArg(v.Args[0])
					hi, ok2 := runeArg(v.Args[1])
					if ok1 && ok2 && hi >= lo && hi-lo < 128 {
						var ns []*rnode
						for r := lo; r <= hi; r++ {
							ns = append(ns, lit(string(r)))
						}
						return altNodes(ns...), nil
					}
				case "ExpectRuneIn":
					if v.Ellipsis == token.NoPos {
						var ns []*rnode
						for _, arg := range v.Args {
							r, ok := runeArg(arg)
							if !ok {
								return nil, fmt.Errorf("ExpectRuneIn with a non-constant argument")
							}
							ns = append(ns, lit(string(r)))
						}
						return altNodes(ns...), nil
					}
				}
				return nil, fmt.Errorf("primitive %s not turned into grammar symbols", types.ExprString(e))
			}
			base, err := conv(sel.X, depth)
			if err != nil {
				return nil, err
			}
			switch fn.Name() {
			case "Map":
				return base, nil
			case "Bind":
				// a restriction of the operand (ExcludeRunes): a smaller language than the operand's, so not the documented
				// non-terminal any more; it stands as a symbol of its own
				return symNode(a, gsym{"restricted(" + types.ExprString(e) + ")", false}), nil
			case "CONCAT":
				ns := []*rnode{base}
				for _, arg := range v.Args {
					n, err := conv(arg, depth)
					if err != nil {
						return nil, err
					}
					ns = append(ns, n)
				}
				return catNodes(ns...), nil
			case "ALT":
				ns := []*rnode{base}
				for _, arg := range v.Args {
					n, err := conv(arg, depth)
					if err != nil {
						return nil, err
					}
					ns = append(ns, n)
				}
				return altNodes(ns...), nil
			case "OPT":
				return &rnode{kind: "opt", kids: []*rnode{base}}, nil
			case "REP1":
				return &rnode{kind: "plus", kids: []*rnode{base}}, nil
			case "REP":
				return &rnode{kind: "star", kids: []*rnode{base}}, nil
			}
			return nil, fmt.Errorf("combinator %s not understood", fn.Name())
		}
		return nil, fmt.Errorf("expression %s not understood", types.ExprString(e))
	}

	// ---- compare
	skip := map[string]string{
		"escaped_char": "its character list is decided by R9.3",
	}
	compared := 0
	var names []string
	for _, r := range rules {
		names = append(names, r.name)
	}
	sort.Strings(names)
	rhsOf := map[string]string{}
	for _, r := range rules {
		rhsOf[r.name] = r.rhs
	}
	for _, name := range names {
		rhs := rhsOf[name]
		key := "documented pattern rule " + name + " = the combinator of that name (as regular languages of bodies)"
		if strings.Contains(rhs, "#") {
			continue // described by a comment
		}
		if _, sk := skip[name]; sk {
			continue
		}
		d, ok := defs[name]
		if !ok {
			// a documented rule without a combinator of its name: it may be written inline in the code (helpers on the
			// documentation's side are not inlined): nothing to compare
			c.Undecided(rule, key, token.NoPos, "no combinator field or method is named after the documented rule")
			continue
		}
		// x{2}, x{4,8}
		rhs = countedRe.ReplaceAllStringFunc(rhs, func(m string) string {
			sm := countedRe.FindStringSubmatch(m)
			lo, hi := 0, 0
			fmt.Sscan(sm[2], &lo)
			hi = lo
			if sm[3] != "" {
				fmt.Sscan(sm[3], &hi)
			}
			var parts []string
			for k := 0; k < lo; k++ {
				parts = append(parts, sm[1])
			}
			for k := lo; k < hi; k++ {
				parts = append(parts, "[ "+sm[1]+" ]")
			}
			return strings.Join(parts, " ")
		})
		toks, err := lexDocEBNF(rhs)
		if err != nil {
			c.Undecided(rule, key, token.NoPos, "documented rule not read: "+err.Error())
			continue
		}
		p := &docParser{toks: toks, a: a}
		dn := p.alt()
		if p.err == nil && p.i != len(toks) {
			p.err = fmt.Errorf("trailing tokens")
		}
		if p.err != nil {
			c.Undecided(rule, key, token.NoPos, "documented rule not read: "+p.err.Error())
			continue
		}
		cn, err := conv(d, 0)
		if err != nil {
			c.Undecided(rule, key, defPos[name], err.Error())
			continue
		}
		compared++
		ref := buildMooreNodes([]nodeDef{{"body", dn}})
		code := buildMooreNodes([]nodeDef{{"body", cn}})
		mism, _, _, _ := compareMoore(ref, code)
		if len(mism) == 0 {
			c.Pass(rule, key, defPos[name], "")
			continue
		}
		m := mism[0]
		w := m.word
		if m.kind == "liveness" {
			w += string(m.on)
		}
		c.Fail(rule, key, defPos[name],
			fmt.Sprintf("body [%s]: documented grammar %s, combinator %s (%s): the parser accepts another pattern language than the documented one", a.word(w), m.ref, m.code, m.kind),
			"a pattern that uses the rule "+name+" with the body "+a.word(w))
	}
	c.Extra("pattern_grammar_rules_compared", compared)
	if compared < 20 {
		c.Undecided(rule, "documented pattern grammar compared rule by rule", token.NoPos, fmt.Sprintf("only %d rules could be compared", compared))
	}
}
