package main

// E1: evaluate package-level composite literals and constants from AST + types.Info without running code.

import (
	"fmt"
	"go/ast"
	"go/constant"
	"go/token"
	"go/types"
	"strings"
)

type gsym struct {
	name string
	term bool
}

func (s gsym) String() string {
	if s.term {
		return fmt.Sprintf("%q", s.name)
	}
	return s.name
}

type gprod struct {
	head string
	body []gsym
	pos  token.Pos
}

func (p gprod) String() string {
	if len(p.body) == 0 {
		return p.head + " → ε"
	}
	var b []string
	for _, s := range p.body {
		b = append(b, s.String())
	}
	return p.head + " → " + strings.Join(b, " ")
}

func (p gprod) equal(q gprod) bool {
	if p.head != q.head || len(p.body) != len(q.body) {
		return false
	}
	for i := range p.body {
		if p.body[i] != q.body[i] {
			return false
		}
	}
	return true
}

type glevel struct {
	assoc string // LEFT RIGHT NONE
	terms []string
	prods []gprod
}

func constStr(info *types.Info, e ast.Expr) (string, bool) {
	if tv, ok := info.Types[e]; ok && tv.Value != nil && tv.Value.Kind() == constant.String {
		return constant.StringVal(tv.Value), true
	}
	return "", false
}

func constInt(info *types.Info, e ast.Expr) (int64, bool) {
	if tv, ok := info.Types[e]; ok && tv.Value != nil {
		if v, ok := constant.Int64Val(constant.ToInt(tv.Value)); ok {
			return v, true
		}
	}
	return 0, false
}

func namedTypeName(t types.Type) (pkg, name string) {
	if t == nil {
		return "", ""
	}
	if p, ok := t.(*types.Pointer); ok {
		t = p.Elem()
	}
	if a, ok := t.(*types.Alias); ok {
		t = types.Unalias(a)
	}
	if n, ok := t.(*types.Named); ok {
		if n.Obj().Pkg() != nil {
			return n.Obj().Pkg().Path(), n.Obj().Name()
		}
		return "", n.Obj().Name()
	}
	return "", ""
}

// objOf resolves an identifier or selector to its object.
func objOf(info *types.Info, e ast.Expr) types.Object {
	switch v := ast.Unparen(e).(type) {
	case *ast.Ident:
		return info.Uses[v]
	case *ast.SelectorExpr:
		return info.Uses[v.Sel]
	}
	return nil
}

func isDepObj(o types.Object, pkgSuffix, name string) bool {
	return o != nil && o.Pkg() != nil && o.Pkg().Path() == depPath+"/"+pkgSuffix && o.Name() == name
}

// evalSymbol evaluates an expression of type grammar.Terminal / grammar.NonTerminal with a constant value.
func evalSymbol(info *types.Info, e ast.Expr) (gsym, error) {
	s, ok := constStr(info, e)
	if !ok {
		return gsym{}, fmt.Errorf("symbol is not a constant: %s", types.ExprString(e))
	}
	pkg, name := namedTypeName(info.TypeOf(e))
	if pkg != depPath+"/grammar" {
		return gsym{}, fmt.Errorf("symbol has type %s.%s", pkg, name)
	}
	switch name {
	case "Terminal":
		return gsym{s, true}, nil
	case "NonTerminal":
		return gsym{s, false}, nil
	}
	return gsym{}, fmt.Errorf("symbol has type %s", name)
}

func compositeFields(cl *ast.CompositeLit) (map[string]ast.Expr, error) {
	m := map[string]ast.Expr{}
	for _, el := range cl.Elts {
		kv, ok := el.(*ast.KeyValueExpr)
		if !ok {
			return nil, fmt.Errorf("positional composite literal")
		}
		id, ok := kv.Key.(*ast.Ident)
		if !ok {
			return nil, fmt.Errorf("non-identifier key")
		}
		m[id.Name] = kv.Value
	}
	return m, nil
}

func evalProduction(info *types.Info, e ast.Expr) (gprod, error) {
	e = ast.Unparen(e)
	if u, ok := e.(*ast.UnaryExpr); ok && u.Op == token.AND {
		e = u.X
	}
	cl, ok := e.(*ast.CompositeLit)
	if !ok {
		return gprod{}, fmt.Errorf("production is not a composite literal: %s", types.ExprString(e))
	}
	fs, err := compositeFields(cl)
	if err != nil {
		return gprod{}, err
	}
	p := gprod{pos: cl.Pos()}
	h, ok := constStr(info, fs["Head"])
	if fs["Head"] == nil || !ok {
		return gprod{}, fmt.Errorf("production head is not a constant")
	}
	p.head = h
	b := fs["Body"]
	if b == nil {
		return p, nil
	}
	if o := objOf(info, b); o != nil {
		if isDepObj(o, "grammar", "E") {
			return p, nil
		}
		return gprod{}, fmt.Errorf("production body refers to %s", o.Name())
	}
	bl, ok := ast.Unparen(b).(*ast.CompositeLit)
	if !ok {
		return gprod{}, fmt.Errorf("production body is not a literal")
	}
	for _, el := range bl.Elts {
		s, err := evalSymbol(info, el)
		if err != nil {
			return gprod{}, err
		}
		p.body = append(p.body, s)
	}
	return p, nil
}

func evalProductions(info *types.Info, e ast.Expr) ([]gprod, error) {
	cl, ok := e.(*ast.CompositeLit)
	if !ok {
		return nil, fmt.Errorf("not a composite literal")
	}
	var out []gprod
	for _, el := range cl.Elts {
		if _, ok := el.(*ast.KeyValueExpr); ok {
			return nil, fmt.Errorf("keyed production list")
		}
		p, err := evalProduction(info, el)
		if err != nil {
			return nil, err
		}
		out = append(out, p)
	}
	return out, nil
}

func evalStringList(info *types.Info, e ast.Expr) ([]string, error) {
	cl, ok := e.(*ast.CompositeLit)
	if !ok {
		return nil, fmt.Errorf("not a composite literal")
	}
	var out []string
	for _, el := range cl.Elts {
		s, ok := constStr(info, el)
		if !ok {
			return nil, fmt.Errorf("element is not a constant string: %s", types.ExprString(el))
		}
		out = append(out, s)
	}
	return out, nil
}

// evalPrecedences evaluates an lr.PrecedenceLevels composite literal.
func evalPrecedences(info *types.Info, e ast.Expr) ([]glevel, error) {
	cl, ok := e.(*ast.CompositeLit)
	if !ok {
		return nil, fmt.Errorf("precedences: not a composite literal")
	}
	var out []glevel
	for _, el := range cl.Elts {
		if u, ok := el.(*ast.UnaryExpr); ok && u.Op == token.AND {
			el = u.X
		}
		lcl, ok := el.(*ast.CompositeLit)
		if !ok {
			return nil, fmt.Errorf("precedence level is not a literal")
		}
		fs, err := compositeFields(lcl)
		if err != nil {
			return nil, err
		}
		var l glevel
		ao := objOf(info, fs["Associativity"])
		if ao == nil || ao.Pkg() == nil || ao.Pkg().Path() != depPath+"/parser/lr" {
			return nil, fmt.Errorf("associativity is not an lr constant")
		}
		l.assoc = ao.Name()
		call, ok := ast.Unparen(fs["Handles"]).(*ast.CallExpr)
		if !ok || !isDepObj(objOf(info, call.Fun), "parser/lr", "NewPrecedenceHandles") {
			return nil, fmt.Errorf("handles are not built by lr.NewPrecedenceHandles")
		}
		for _, h := range call.Args {
			hc, ok := ast.Unparen(h).(*ast.CallExpr)
			if !ok || len(hc.Args) != 1 {
				return nil, fmt.Errorf("handle is not a constructor call")
			}
			o := objOf(info, hc.Fun)
			switch {
			case isDepObj(o, "parser/lr", "PrecedenceHandleForTerminal"):
				s, ok := constStr(info, hc.Args[0])
				if !ok {
					return nil, fmt.Errorf("terminal handle is not constant")
				}
				l.terms = append(l.terms, s)
			case isDepObj(o, "parser/lr", "PrecedenceHandleForProduction"):
				p, err := evalProduction(info, hc.Args[0])
				if err != nil {
					return nil, err
				}
				l.prods = append(l.prods, p)
			default:
				return nil, fmt.Errorf("unknown handle constructor")
			}
		}
		out = append(out, l)
	}
	return out, nil
}
